(* Proofs/EndToEndConc.v — property C05, from the TEXT.

   Two layers, as in Props/C05.v and Props/C04.v.

   A. API-call granularity (Purity.v's state machine, made concurrent): k
      threads share ONE compiled expression; a schedule is any global order
      of their API calls (Select / Evaluate with their OWN document, navigator
      variant, start node and number of results consumed), interleaved with
      arbitrary dirtying of the shared tree.  Every call observes exactly
      what it observes on a freshly compiled expression, so each thread sees,
      under EVERY schedule, the observations of its solo run
      ([C05_text_threads_observe_solo]).  For a predicate-free path text the
      observation is the XPath denotation ([C05_text_path_threads]).

   B. Memory-access granularity (Conc.v): threads are programs over Shared /
      Owned / Locked locations.  [C05_text_memory_model] packages
      ConcProofs' theorems for any modelling of the evaluation threads that
      respects the ownership discipline: no data race, and every thread
      observes under every schedule what it observes alone.  That Go's
      evaluation threads respect the discipline, with the compiled tree of the
      text as Shared memory, is the MODELLING ASSUMPTION spelled out in
      Props/C05.v (checked on the code by the regenerated effects table,
      C05_effects_table_ok); it is a hypothesis here, not a theorem. *)
From XP Require Import Base F64 Doc Ast Scan Parse Build Hash Eval Api Conc.
From XP.Spec Require Import Axes Paths.
From XP.Proofs Require Import Purity ConcProofs HashInj PathSem BuildPath RoundTripPaths EndToEndPaths.
Require Import Lia.
Open Scope string_scope.
Open Scope nat_scope.
Open Scope list_scope.

(* ------------------------------------------------------------------ *)
(** * A. API-call granularity                                           *)
(* ------------------------------------------------------------------ *)

Section Api.
Variable rm : string -> string -> option bool.
Variable rn : string -> nat.
Variable rr : string -> string -> string -> string.
Variable hcode : tree -> node -> N.

Notation STEP := (Purity.step rm rn rr hcode).

(* a schedule: the global order of the API calls, each tagged with its thread *)
Definition schedule := list (nat * op).

(* the observations, in schedule order, starting from the shared state e *)
Fixpoint run_obs (e : expr_state) (h : schedule) : list (nat * observation) :=
  match h with
  | [] => []
  | (t, o) :: r => (t, snd (STEP e o)) :: run_obs (fst (STEP e o)) r
  end.

(* what thread t sees / does *)
Definition thread_view {A} (t : nat) (l : list (nat * A)) : list A :=
  map snd (filter (fun x => Nat.eqb (fst x) t) l).

(* the same call on a freshly compiled expression *)
Definition fresh_obs (q : query) (o : op) : observation := snd (STEP (mkExpr q []) o).

Lemma run_obs_fresh : forall q h e, cfg e = q ->
  run_obs e h = map (fun x => (fst x, fresh_obs q (snd x))) h.
Proof.
  intros q h. induction h as [|[t o] r IH]; intros e He; [reflexivity|].
  cbn [run_obs map fst snd]. f_equal.
  - f_equal. unfold fresh_obs. apply step_obs_cfg. exact He.
  - apply IH. rewrite step_cfg. exact He.
Qed.

(** every call, under every schedule, observes what it observes on a fresh expression *)
Theorem api_schedule_independent : forall q (h : schedule),
  run_obs (mkExpr q []) h = map (fun x => (fst x, fresh_obs q (snd x))) h.
Proof. intros q h. apply run_obs_fresh. reflexivity. Qed.

Lemma thread_view_map : forall A B (f : A -> B) t (h : list (nat * A)),
  thread_view t (map (fun x => (fst x, f (snd x))) h) = map f (thread_view t h).
Proof.
  intros A B f t h. unfold thread_view. induction h as [|[t' a] r IH]; [reflexivity|].
  cbn [map filter fst snd]. destruct (Nat.eqb t' t); cbn [map snd]; rewrite IH; reflexivity.
Qed.

(** a thread's observations under any schedule = those of its solo run *)
Theorem threads_observe_solo : forall q (h : schedule) t,
  thread_view t (run_obs (mkExpr q []) h) =
  map snd (run_obs (mkExpr q []) (map (fun o => (t, o)) (thread_view t h))).
Proof.
  intros q h t. rewrite !api_schedule_independent.
  rewrite (thread_view_map op observation (fresh_obs q) t h).
  rewrite map_map. cbn [snd fst]. rewrite map_map. cbn [snd]. reflexivity.
Qed.

End Api.

Section Text.
Variable re_ok : string -> bool.
Variable rm : string -> string -> option bool.
Variable rn : string -> nat.
Variable rr : string -> string -> string -> string.
Variable hcode : tree -> node -> N.

Notation RUN_OBS := (run_obs rm rn rr hcode).
Notation FRESH := (fresh_obs rm rn rr hcode).

(** from the text: one Compile, any number of threads, any schedule *)
Theorem C05_text_threads_observe_solo : forall text ns q,
  compile re_ok text ns = Ok q ->
  forall (h : schedule) t,
    (* call by call *)
    RUN_OBS (mkExpr q []) h = map (fun x => (fst x, FRESH q (snd x))) h /\
    (* thread by thread: the interleaved view is the solo view *)
    thread_view t (RUN_OBS (mkExpr q []) h) =
    map snd (RUN_OBS (mkExpr q []) (map (fun o => (t, o)) (thread_view t h))).
Proof.
  intros text ns q _ h t. split; [apply api_schedule_independent|apply threads_observe_solo].
Qed.

(* a second compilation of the same text is not needed, and would change nothing *)
Corollary C05_text_shared_or_private : forall text ns q q',
  compile re_ok text ns = Ok q -> compile re_ok text ns = Ok q' ->
  forall (h : schedule) t,
    thread_view t (RUN_OBS (mkExpr q []) h) =
    map snd (RUN_OBS (mkExpr q' []) (map (fun o => (t, o)) (thread_view t h))).
Proof.
  intros text ns q q' H H' h t. rewrite H in H'. inversion H'; subst q'. apply threads_observe_solo.
Qed.

(** a predicate-free path text: whatever the other threads do, a Select call
    on the shared expression yields the XPath denotation of the path in the
    caller's own document, from the caller's own start node *)
Theorem C05_text_path_threads : forall ns p abs steps,
  path_syntax p -> steps_of p = (abs, steps) -> xok p -> List.length steps < max_build_depth ->
  exists q, compile re_ok (print_min p) ns = Ok q /\
    forall (h1 h2 : schedule) t D has_ns c n,
      hash_ok (hcode D) (all_nodes D) -> valid D c = true ->
      exists l,
        (* the call, after the history h1 of all threads, before h2 *)
        nth_error (RUN_OBS (mkExpr q []) (h1 ++ (t, OpSelect D has_ns c n) :: h2)) (List.length h1)
          = Some (t, ObsNodes (Val (firstn n l))) /\
        forall x, In x l <-> path_den D has_ns steps (if abs then root_node else c) x.
Proof.
  intros ns p abs steps Hp Hs Hok Hl.
  (* Compile does not depend on the document: obtain q once *)
  destruct (EndToEndPaths.C01_select (T KRoot "" "" "" "" [] []) false (fun _ _ => 0%N) rm rn rr re_ok ns p abs steps
              Hp Hs Hok Hl) as (q & Ec & _).
  { intros a b Ha Hb _. change (all_nodes (T KRoot "" "" "" "" [] [])) with [root_node] in Ha, Hb.
    destruct Ha as [<-|[]]. destruct Hb as [<-|[]]. reflexivity. }
  exists q. split; [exact Ec|].
  intros h1 h2 t D has_ns c n Hh Hc.
  destruct (EndToEndPaths.C01_select D has_ns hcode rm rn rr re_ok ns p abs steps Hp Hs Hok Hl Hh)
    as (q' & Ec' & Hsel).
  rewrite Ec in Ec'. inversion Ec'; subst q'.
  destruct (Hsel c Hc) as (l & El & Hin). exists l. split; [|exact Hin].
  rewrite api_schedule_independent. rewrite map_app. cbn [map fst snd].
  rewrite nth_error_app2 by (rewrite map_length; lia). rewrite map_length, Nat.sub_diag. cbn [nth_error].
  unfold fresh_obs. cbn [Purity.step snd clone cfg]. rewrite El. reflexivity.
Qed.

End Text.

Print Assumptions C05_text_threads_observe_solo.
Print Assumptions C05_text_path_threads.

(* ------------------------------------------------------------------ *)
(** * B. Memory-access granularity                                      *)
(* ------------------------------------------------------------------ *)

(* a modelling of k evaluation threads of the compiled expression q in the
   memory model of Conc.v; [em_shared] names the locations that hold the
   compiled tree (and the other build-time data): they must be Shared *)
Record eval_model (q : query) := mkEvalModel {
  em_own : loc -> owner;
  em_lockres : loc -> value;
  em_progs : tid -> prog;
  em_st0 : loc -> value;
  em_shared : loc -> Prop;
  em_shared_ok : forall l, em_shared l -> em_own l = Shared;
  em_respects : forall t, respects em_own t (em_progs t) }.

(** from the text: for ANY discipline-respecting modelling of the evaluation
    threads of the compiled expression -- no data race under any schedule, every
    thread observes what it observes alone, a finished call returned what its
    solo run returns, and the compiled tree is never written *)
Theorem C05_text_memory_model : forall re_ok text ns q (M : eval_model q),
  compile re_ok text ns = Ok q ->
  forall sched : list tid,
    ~ race (trace (Conc.run (em_lockres q M) (em_progs q M) (em_st0 q M) sched)) /\
    (forall t,
       observed (Conc.run (em_lockres q M) (em_progs q M) (em_st0 q M) sched) t =
       observed (Conc.run (em_lockres q M) (em_progs q M) (em_st0 q M) (alone t sched)) t) /\
    (forall t,
       finished (Conc.run (em_lockres q M) (em_progs q M) (em_st0 q M) sched) t ->
       observed (Conc.run (em_lockres q M) (em_progs q M) (em_st0 q M) sched) t =
       observed (Conc.run (em_lockres q M) (em_progs q M) (em_st0 q M) (solo (em_progs q M) t)) t) /\
    (forall t l, em_shared q M l ->
       store (Conc.run (em_lockres q M) (em_progs q M) (em_st0 q M) sched) l =
       store (Conc.run (em_lockres q M) (em_progs q M) (em_st0 q M) (alone t sched)) l).
Proof.
  intros re_ok text ns q M _ sched.
  pose proof (em_respects q M) as HR.
  split; [apply (race_free (em_own q M)); exact HR|]. split; [|split].
  - intros t. apply (sequential_results (em_own q M)). exact HR.
  - intros t Hf. apply (finished_results (em_own q M) (em_lockres q M) (em_progs q M) (em_st0 q M) HR sched t Hf).
  - intros t l Hl.
    destruct (noninterference (em_own q M) (em_lockres q M) (em_progs q M) (em_st0 q M) HR sched t) as [_ H].
    apply H. left. apply (em_shared_ok q M l Hl).
Qed.
Print Assumptions C05_text_memory_model.

(* ------------------------------------------------------------------ *)
(** * Examples                                                          *)
(* ------------------------------------------------------------------ *)
Module Examples.

(* three threads share  //a[@x > 1] : thread 0 selects twice (consuming 1 result, then all),
   thread 1 evaluates from another node, thread 2 dirties the shared tree in between *)
Definition h : schedule :=
  [(0, OpSelect pdoc false root_node 1); (2, OpDirty [3; 1; 4]);
   (1, OpEvaluate pdoc false (mkNode [0] None) 0); (2, OpDirty [1; 5; 9]);
   (0, OpSelect pdoc false root_node 5)].

Example three_threads :
  exists q, compile lit_ok "//a[@x > 1]" None = Ok q /\
    thread_view 0 (run_obs lit_match lit_numsubexp lit_replace_all hash_code (mkExpr q []) h)
      = [ObsNodes (Val [mkNode [0; 1] None]); ObsNodes (Val [mkNode [0; 1] None])] /\
    (* = thread 0 alone *)
    thread_view 0 (run_obs lit_match lit_numsubexp lit_replace_all hash_code (mkExpr q []) h)
      = map snd (run_obs lit_match lit_numsubexp lit_replace_all hash_code (mkExpr q [])
                   [(0, OpSelect pdoc false root_node 1); (0, OpSelect pdoc false root_node 5)]).
Proof.
  assert (C : exists q, compile lit_ok "//a[@x > 1]" None = Ok q) by (eexists; vm_compute; reflexivity).
  destruct C as [q C]. exists q. split; [exact C|].
  destruct (C05_text_threads_observe_solo lit_ok lit_match lit_numsubexp lit_replace_all hash_code _ _ q C h 0)
    as [_ Hsolo].
  split; [|exact Hsolo].
  vm_compute in C. inversion C; subst q. vm_compute. reflexivity.
Qed.

(* the memory model is not empty: ConcProofs' two threads, as an eval_model of any query *)
Definition ex_model (q : query) : eval_model q :=
  mkEvalModel q ex_own ex_lockres ex_progs ex_st0 (fun l => ex_own l = Shared) (fun l H => H) ex_respects.

End Examples.
