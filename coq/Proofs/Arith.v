(* Arith.v — properties of the number model (F64.v) and of the arithmetic part
   of the evaluator (Eval.v): NaN propagation, IEEE 754 infinity rules, unary
   minus, string <-> number conversions, the arithmetic wrappers of [eval]
   and [mod]. *)
From Coq Require Import ZArith NArith Bool List String Ascii Lia.
From XP Require Import Base F64 Doc Ast Hash Eval.
Import ListNotations.
Open Scope Z_scope.

(* ================================================================== *)
(** * 1. NaN propagation *)

Lemma fadd_nan_l x : fadd fnan x = fnan.
Proof. reflexivity. Qed.
Lemma fadd_nan_r x : fadd x fnan = fnan.
Proof. destruct x; reflexivity. Qed.
Lemma fsub_nan_l x : fsub fnan x = fnan.
Proof. reflexivity. Qed.
Lemma fsub_nan_r x : fsub x fnan = fnan.
Proof. destruct x; reflexivity. Qed.
Lemma fmul_nan_l x : fmul fnan x = fnan.
Proof. reflexivity. Qed.
Lemma fmul_nan_r x : fmul x fnan = fnan.
Proof. destruct x; reflexivity. Qed.
Lemma fdiv_nan_l x : fdiv fnan x = fnan.
Proof. reflexivity. Qed.
Lemma fdiv_nan_r x : fdiv x fnan = fnan.
Proof. destruct x; reflexivity. Qed.
Lemma fmod_nan_l y : fmod fnan y = fnan.
Proof. reflexivity. Qed.
Lemma fmod_nan_r x : fmod x fnan = fnan.
Proof. destruct x; reflexivity. Qed.
Lemma ffloor_nan : ffloor fnan = fnan.
Proof. reflexivity. Qed.
Lemma fceil_nan : fceil fnan = fnan.
Proof. reflexivity. Qed.
Lemma fneg_nan : fneg fnan = fnan.
Proof. reflexivity. Qed.
Lemma fround_away_nan : fround_away fnan = fnan.
Proof. reflexivity. Qed.

Theorem arith_op_nan_l op x : arith_op op fnan x = fnan.
Proof. destruct op; reflexivity. Qed.

Theorem arith_op_nan_r op x : arith_op op x fnan = fnan.
Proof.
  destruct op; cbn [arith_op].
  - apply fadd_nan_r.
  - apply fsub_nan_r.
  - apply fmul_nan_r.
  - apply fdiv_nan_r.
  - apply fmod_nan_r.
Qed.

Print Assumptions arith_op_nan_l.
Print Assumptions arith_op_nan_r.

(* a NaN operand is the only way an operand decides the result by itself:
   the theorem is not vacuous on any constructor *)
Example arith_op_nan_ex :
  arith_op OMod (of_Z 7) fnan = fnan /\ arith_op ODiv fnan (S754_infinity true) = fnan.
Proof. split; reflexivity. Qed.

(* ================================================================== *)
(** * 2. IEEE 754 rules for infinities and zeros *)

Notation finf s := (S754_infinity s).
Notation fzer s := (S754_zero s).

Lemma fadd_inf_inf_same s : fadd (finf s) (finf s) = finf s.
Proof. destruct s; reflexivity. Qed.

Lemma fadd_inf_inf_opp s : fadd (finf s) (finf (negb s)) = fnan.
Proof. destruct s; reflexivity. Qed.

Lemma fadd_pinf_ninf : fadd (finf false) (finf true) = fnan /\ fadd (finf true) (finf false) = fnan.
Proof. split; reflexivity. Qed.

(* infinity absorbs every finite addend *)
Lemma fadd_inf_finite_l s y : is_finite y = true -> fadd (finf s) y = finf s.
Proof. destruct y; cbn; intros H; try discriminate; reflexivity. Qed.
Lemma fadd_inf_finite_r s x : is_finite x = true -> fadd x (finf s) = finf s.
Proof. destruct x; cbn; intros H; try discriminate; reflexivity. Qed.

Lemma fsub_inf_inf_same s : fsub (finf s) (finf s) = fnan.
Proof. destruct s; reflexivity. Qed.
Lemma fsub_inf_inf_opp s : fsub (finf s) (finf (negb s)) = finf s.
Proof. destruct s; reflexivity. Qed.

Lemma fmul_inf_zero s t : fmul (finf s) (fzer t) = fnan.
Proof. reflexivity. Qed.
Lemma fmul_zero_inf s t : fmul (fzer s) (finf t) = fnan.
Proof. reflexivity. Qed.
Lemma fmul_inf_inf s t : fmul (finf s) (finf t) = finf (xorb s t).
Proof. reflexivity. Qed.
Lemma fmul_inf_finite s t m e : fmul (finf s) (S754_finite t m e) = finf (xorb s t).
Proof. reflexivity. Qed.
Lemma fmul_finite_inf s t m e : fmul (S754_finite s m e) (finf t) = finf (xorb s t).
Proof. reflexivity. Qed.
Lemma fmul_zero_finite s t m e : fmul (fzer s) (S754_finite t m e) = fzer (xorb s t).
Proof. reflexivity. Qed.
Lemma fmul_finite_zero s t m e : fmul (S754_finite s m e) (fzer t) = fzer (xorb s t).
Proof. reflexivity. Qed.
Lemma fmul_zero_zero s t : fmul (fzer s) (fzer t) = fzer (xorb s t).
Proof. reflexivity. Qed.

(* finite non-zero / zero = infinity with the xor of the signs *)
Lemma fdiv_finite_zero s m e t : fdiv (S754_finite s m e) (fzer t) = finf (xorb s t).
Proof. reflexivity. Qed.
Lemma fdiv_inf_zero s t : fdiv (finf s) (fzer t) = finf (xorb s t).
Proof. reflexivity. Qed.
Lemma fdiv_zero_zero s t : fdiv (fzer s) (fzer t) = fnan.
Proof. reflexivity. Qed.
Lemma fdiv_inf_inf s t : fdiv (finf s) (finf t) = fnan.
Proof. reflexivity. Qed.
(* finite / infinity = signed zero *)
Lemma fdiv_finite_inf s m e t : fdiv (S754_finite s m e) (finf t) = fzer (xorb s t).
Proof. reflexivity. Qed.
Lemma fdiv_zero_inf s t : fdiv (fzer s) (finf t) = fzer (xorb s t).
Proof. reflexivity. Qed.
Lemma fdiv_zero_finite s t m e : fdiv (fzer s) (S754_finite t m e) = fzer (xorb s t).
Proof. reflexivity. Qed.
Lemma fdiv_inf_finite s t m e : fdiv (finf s) (S754_finite t m e) = finf (xorb s t).
Proof. reflexivity. Qed.

Definition fsign (x : f64) : bool :=
  match x with
  | S754_zero s | S754_infinity s | S754_finite s _ _ => s
  | S754_nan => false
  end.

(* the statement "x div 0" of the property list, for all finite x *)
Theorem fdiv_by_zero x t :
  is_finite x = true ->
  fdiv x (fzer t) = if is_zero x then fnan else finf (xorb (fsign x) t).
Proof. destruct x; cbn; intros H; try discriminate; reflexivity. Qed.

Theorem fdiv_by_inf x t :
  is_finite x = true -> fdiv x (finf t) = fzer (xorb (fsign x) t).
Proof. destruct x; cbn; intros H; try discriminate; reflexivity. Qed.

Print Assumptions fdiv_by_zero.
Print Assumptions fdiv_by_inf.

Example fdiv_by_zero_ex :
  fdiv (of_Z 1) (fzer false) = finf false /\ fdiv (of_Z (-1)) (fzer false) = finf true /\
  fdiv (of_Z 1) (fzer true) = finf true /\ fdiv (fzer false) (fzer true) = fnan.
Proof. repeat split; reflexivity. Qed.

(* ================================================================== *)
(** * 7a. mod: special values (all by computation) *)

Lemma fmod_by_zero x s : fmod x (fzer s) = fnan.
Proof. destruct x; reflexivity. Qed.
Lemma fmod_inf_l s y : fmod (finf s) y = fnan.
Proof. destruct y; reflexivity. Qed.
Lemma fmod_zero_l s t m e : fmod (fzer s) (S754_finite t m e) = fzer s.
Proof. reflexivity. Qed.
Lemma fmod_zero_l_inf s t : fmod (fzer s) (finf t) = fzer s.
Proof. reflexivity. Qed.
Lemma fmod_by_inf x s : is_finite x = true -> fmod x (finf s) = x.
Proof. destruct x; cbn; intros H; try discriminate; reflexivity. Qed.

(* the result of mod never is an infinity or NaN for finite x and finite non-zero y
   in the zero case, and the sign of a zero dividend is kept *)
Theorem fmod_zero_dividend s y :
  is_nan y = false -> is_zero y = false -> fmod (fzer s) y = fzer s.
Proof. destruct y; cbn; intros H1 H2; try discriminate; reflexivity. Qed.
Print Assumptions fmod_zero_dividend.

(* ================================================================== *)
(** * 5. number -> string is plain decimal notation *)

Definition is_dot (c : ascii) : bool := Ascii.eqb c "."%char.
Definition is_minus (c : ascii) : bool := Ascii.eqb c "-"%char.
Definition plain_char (c : ascii) : bool := is_digit_ascii c || is_dot c || is_minus c.
Definition body_char (c : ascii) : bool := is_digit_ascii c || is_dot c.

Fixpoint str_all (p : ascii -> bool) (s : string) : bool :=
  match s with
  | EmptyString => true
  | String c r => p c && str_all p r
  end.

Lemma str_all_spec p s :
  str_all p s = true <-> (forall c, In c (list_of_string s) -> p c = true).
Proof.
  induction s as [|a r IH]; cbn.
  - split; [intros _ c []|reflexivity].
  - rewrite andb_true_iff, IH. split.
    + intros [Ha Hr] c [<-|Hc]; [exact Ha|apply Hr, Hc].
    + intros H. split; [apply H; left; reflexivity|intros c Hc; apply H; right; exact Hc].
Qed.

Lemma str_all_app p a b : str_all p (a ++ b)%string = str_all p a && str_all p b.
Proof.
  induction a as [|c r IH]; cbn; [reflexivity|]. rewrite IH, andb_assoc. reflexivity.
Qed.

Lemma str_all_firstn p n s : str_all p s = true -> str_all p (firstn_s n s) = true.
Proof.
  revert s. induction n as [|n IH]; intros [|c r]; cbn; try reflexivity.
  rewrite !andb_true_iff. intros [Hc Hr]. split; [exact Hc|apply IH, Hr].
Qed.

Lemma str_all_skipn p n s : str_all p s = true -> str_all p (skipn_s n s) = true.
Proof.
  revert s. induction n as [|n IH]; intros [|c r]; cbn; try (intros H; exact H).
  rewrite andb_true_iff. intros [_ Hr]. apply IH, Hr.
Qed.

Lemma str_all_impl (p q : ascii -> bool) s :
  (forall c, p c = true -> q c = true) -> str_all p s = true -> str_all q s = true.
Proof.
  intros Hpq. induction s as [|c r IH]; cbn; [reflexivity|].
  rewrite !andb_true_iff. intros [Hc Hr]. split; [apply Hpq, Hc|apply IH, Hr].
Qed.

Lemma digit_char_is_digit k : (k < 10)%nat -> is_digit_ascii (ascii_of_nat (48 + k)) = true.
Proof.
  intros Hk.
  do 10 (destruct k as [|k]; [reflexivity|]). lia.
Qed.

Lemma str_all_zeros n : str_all is_digit_ascii (zeros n) = true.
Proof. induction n as [|n IH]; cbn [zeros str_all]; [reflexivity|rewrite IH; reflexivity]. Qed.

Lemma pos_digits_fuel_digits fuel : forall n acc,
  str_all is_digit_ascii acc = true ->
  str_all is_digit_ascii (pos_digits_fuel fuel n acc) = true.
Proof.
  induction fuel as [|f IH]; intros n acc Hacc; cbn [pos_digits_fuel]; [exact Hacc|].
  assert (Hd : str_all is_digit_ascii
                 (String (ascii_of_nat (48 + Z.to_nat (n mod 10))) acc) = true).
  { cbn [str_all]. rewrite Hacc, andb_true_r. apply digit_char_is_digit.
    pose proof (Z.mod_pos_bound n 10 ltac:(lia)) as Hb. lia. }
  destruct (n <? 10); [exact Hd|apply IH, Hd].
Qed.

(* for every integer, also 0 and negative ones *)
Lemma Z_digits_digits n : str_all is_digit_ascii (Z_digits n) = true.
Proof. unfold Z_digits. apply pos_digits_fuel_digits. reflexivity. Qed.

Lemma digit_body c : is_digit_ascii c = true -> body_char c = true.
Proof. unfold body_char. intros ->. reflexivity. Qed.
Lemma body_plain c : body_char c = true -> plain_char c = true.
Proof. unfold body_char, plain_char. intros ->. reflexivity. Qed.

(* the digits-and-one-dot part: for ALL F and p *)
Lemma plain_body F p : str_all body_char (plain F p) = true.
Proof.
  pose proof (str_all_impl _ _ _ digit_body (Z_digits_digits F)) as HF.
  unfold plain.
  destruct (0 <=? p).
  - rewrite str_all_app, HF. cbn [andb].
    apply (str_all_impl _ _ _ digit_body), str_all_zeros.
  - cbv zeta. destruct (- p <? Z.of_nat (String.length (Z_digits F))).
    + rewrite !str_all_app. rewrite str_all_firstn, str_all_skipn by exact HF. reflexivity.
    + rewrite !str_all_app. rewrite HF.
      rewrite (str_all_impl _ _ _ digit_body (str_all_zeros _)). reflexivity.
Qed.

(* shape of the rendering of a finite non-zero double: optional '-', then
   digits with at most the one '.' that [plain] inserts *)
Theorem format_f_finite_shape s m e :
  exists body, format_f (S754_finite s m e) = ((if s then "-" else "") ++ body)%string
               /\ str_all body_char body = true.
Proof.
  unfold format_f.
  destruct (shortest m e) as [F0 p0]. destruct (strip_zeros 25 F0 p0) as [F p].
  exists (plain F p). split; [reflexivity|apply plain_body].
Qed.

Theorem xpath_number_string_plain x :
  is_finite x = true -> str_all plain_char (xpath_number_string x) = true.
Proof.
  destruct x as [s|s| |s m e]; cbn [is_finite]; intros H; try discriminate.
  - reflexivity.
  - unfold xpath_number_string.
    destruct (format_f_finite_shape s m e) as (body & -> & Hb).
    rewrite str_all_app, (str_all_impl _ _ _ body_plain Hb), andb_true_r.
    destruct s; reflexivity.
Qed.

(* the same, character by character: no 'e', 'E', '+', 'I', 'N' ... *)
Corollary xpath_number_string_no_exponent x c :
  is_finite x = true -> In c (list_of_string (xpath_number_string x)) ->
  is_digit_ascii c = true \/ c = "."%char \/ c = "-"%char.
Proof.
  intros Hx Hc.
  pose proof (proj1 (str_all_spec _ _) (xpath_number_string_plain x Hx) c Hc) as H.
  unfold plain_char, is_dot, is_minus in H.
  apply orb_true_iff in H. destruct H as [H|H].
  - apply orb_true_iff in H. destruct H as [H|H]; [left; exact H|].
    right; left. apply Ascii.eqb_eq, H.
  - right; right. apply Ascii.eqb_eq, H.
Qed.

(* a '-' can only be the first character *)
Theorem xpath_number_string_minus_first x :
  is_finite x = true ->
  exists body, str_all body_char body = true /\
    (xpath_number_string x = body \/ xpath_number_string x = String "-"%char body).
Proof.
  destruct x as [s|s| |s m e]; cbn [is_finite]; intros H; try discriminate.
  - exists "0"%string. split; [reflexivity|left; reflexivity].
  - unfold xpath_number_string.
    destruct (format_f_finite_shape s m e) as (body & -> & Hb).
    exists body. split; [exact Hb|]. destruct s; [right|left]; reflexivity.
Qed.

Lemma xpath_number_string_zero s : xpath_number_string (S754_zero s) = "0"%string.
Proof. reflexivity. Qed.
Lemma xpath_number_string_nan : xpath_number_string fnan = "NaN"%string.
Proof. reflexivity. Qed.
Lemma xpath_number_string_pinf : xpath_number_string (S754_infinity false) = "Infinity"%string.
Proof. reflexivity. Qed.
Lemma xpath_number_string_ninf : xpath_number_string (S754_infinity true) = "-Infinity"%string.
Proof. reflexivity. Qed.

Print Assumptions xpath_number_string_plain.
Print Assumptions xpath_number_string_no_exponent.
Print Assumptions xpath_number_string_minus_first.

(* tests: large and small magnitudes are written out in full *)
Example xpath_number_string_ex1 :
  xpath_number_string (fmul (of_Z (10 ^ 21)) (of_Z 10)) = "10000000000000000000000"%string.
Proof. vm_compute. reflexivity. Qed.
Example xpath_number_string_ex2 :
  xpath_number_string (fdiv (of_Z (-1)) (of_Z (10 ^ 9))) = "-0.000000001"%string.
Proof. vm_compute. reflexivity. Qed.
Example xpath_number_string_ex3 :
  xpath_number_string (fdiv (of_Z 1) (of_Z 3)) = "0.3333333333333333"%string.
Proof. vm_compute. reflexivity. Qed.

(* ================================================================== *)
(** * 4. conversions to number *)

Section AsNumber.
Variable D : tree.

Lemma as_number_empty : as_number D (VNodes []) = fnan.
Proof. reflexivity. Qed.
Lemma as_number_bool b : as_number D (VBool b) = fnan.
Proof. reflexivity. Qed.
Lemma as_number_nil : as_number D VNil = fnan.
Proof. reflexivity. Qed.
Lemma as_number_int z : as_number D (VInt z) = fnan.
Proof. reflexivity. Qed.
Lemma as_number_num f : as_number D (VNum f) = f.
Proof. reflexivity. Qed.
Lemma as_number_str s : as_number D (VStr s) = string_to_number s.
Proof. reflexivity. Qed.
(* a node-set converts through the string value of its FIRST node *)
Lemma as_number_nodes i r :
  as_number D (VNodes (i :: r)) = string_to_number (node_value D (it_node i)).
Proof. reflexivity. Qed.

(* the values whose conversion can be something else than NaN *)
Theorem as_number_not_nan v :
  as_number D v <> fnan ->
  (exists f, v = VNum f) \/ (exists s, v = VStr s) \/ (exists i r, v = VNodes (i :: r)).
Proof.
  destruct v as [b|f|s|[|i r]|z|]; cbn; intros H; try (exfalso; apply H; reflexivity).
  - left. exists f. reflexivity.
  - right; left. exists s. reflexivity.
  - right; right. exists i, r. reflexivity.
Qed.
End AsNumber.
Print Assumptions as_number_not_nan.

Lemma string_to_number_empty : string_to_number "" = fnan.
Proof. reflexivity. Qed.

(* --- split_number --- *)
Definition is_dot_byte (c : ascii) : bool := Nat.eqb (byte_of c) 46.
Definition count_dots (l : list ascii) : nat := List.length (filter is_dot_byte l).
(* a character that can not occur in a number at all *)
Definition bad_char (c : ascii) : bool := negb (is_digit_ascii c) && negb (is_dot_byte c).

Lemma is_dot_byte_eq c : is_dot_byte c = true <-> c = "."%char.
Proof.
  unfold is_dot_byte, byte_of. rewrite Nat.eqb_eq. split.
  - intros H. rewrite <- (ascii_nat_embedding c), H. reflexivity.
  - intros ->. reflexivity.
Qed.

Lemma dot_not_digit c : is_dot_byte c = true -> is_digit_ascii c = false.
Proof. rewrite is_dot_byte_eq. intros ->. reflexivity. Qed.

(* exact characterisation of failure, for any state of the scan *)
Lemma split_number_none_iff l : forall sd ip fp,
  split_number l sd ip fp = None <->
  (existsb bad_char l = true \/ (count_dots l + (if sd then 1 else 0) >= 2)%nat).
Proof.
  unfold count_dots.
  induction l as [|c r IH]; intros sd ip fp; cbn [split_number existsb filter].
  - split; [discriminate|]. intros [H|H]; [discriminate|]. destruct sd; cbn in H; lia.
  - unfold bad_char at 1.
    destruct (is_digit_ascii c) eqn:Hd.
    + assert (Hnd : is_dot_byte c = false).
      { destruct (is_dot_byte c) eqn:E; [|reflexivity].
        apply dot_not_digit in E. congruence. }
      rewrite Hnd. cbn [negb andb orb].
      destruct sd; apply IH.
    + fold (is_dot_byte c). destruct (is_dot_byte c) eqn:Hdot; cbn [negb andb orb length].
      * destruct sd; cbn [negb].
        -- split; [intros _; right; cbn [List.length]; lia|reflexivity].
        -- rewrite IH. cbn [List.length]. split; (intros [H|H]; [left; exact H|right; lia]).
      * split; [intros _; left; reflexivity|reflexivity].
Qed.

Theorem split_number_none l :
  split_number l false [] [] = None <->
  ((exists c, In c l /\ is_digit_ascii c = false /\ c <> "."%char) \/ (count_dots l >= 2)%nat).
Proof.
  rewrite split_number_none_iff. rewrite Nat.add_0_r, existsb_exists.
  split; (intros [H|H]; [left|right; exact H]).
  - destruct H as (c & Hin & Hb). exists c. unfold bad_char in Hb.
    apply andb_true_iff in Hb. destruct Hb as [H1 H2].
    apply negb_true_iff in H1. apply negb_true_iff in H2.
    repeat split; try assumption.
    intros E. apply is_dot_byte_eq in E. congruence.
  - destruct H as (c & Hin & H1 & H2). exists c. split; [exact Hin|].
    unfold bad_char. rewrite H1. cbn [negb andb].
    destruct (is_dot_byte c) eqn:E; [|reflexivity].
    apply is_dot_byte_eq in E. contradiction.
Qed.
Print Assumptions split_number_none.

(* what a successful split returns: the digits before and after the dot *)
Lemma split_number_some l : forall sd ip fp ip' fp',
  split_number l sd ip fp = Some (ip', fp') ->
  exists a b, ip' = ip ++ a /\ fp' = fp ++ b /\
              forallb is_digit_ascii a = true /\ forallb is_digit_ascii b = true /\
              (if sd then a = [] /\ l = b
               else (l = a /\ b = []) \/ l = a ++ "."%char :: b).
Proof.
  induction l as [|c r IH]; intros sd ip fp ip' fp'; cbn [split_number].
  - intros [= <- <-]. exists [], []. rewrite !app_nil_r.
    repeat split; try reflexivity. destruct sd; [split; reflexivity|left; split; reflexivity].
  - destruct (is_digit_ascii c) eqn:Hd.
    + destruct sd; intros H; apply IH in H; destruct H as (a & b & -> & -> & Ha & Hb & Hs).
      * destruct Hs as [-> ->]. exists [], (c :: b). rewrite <- !app_assoc. cbn [app forallb].
        rewrite Hd, Hb. repeat split; reflexivity.
      * exists (c :: a), b. rewrite <- !app_assoc. cbn [app forallb]. rewrite Hd, Ha.
        repeat split; try reflexivity; try assumption.
        destruct Hs as [[-> ->]| ->]; [left; split; reflexivity|right; reflexivity].
    + fold (is_dot_byte c). destruct (is_dot_byte c) eqn:Hdot; cbn [andb]; [|discriminate].
      destruct sd; cbn [negb]; [discriminate|].
      intros H; apply IH in H; destruct H as (a & b & -> & -> & Ha & Hb & -> & ->).
      apply is_dot_byte_eq in Hdot. subst c.
      exists [], b. rewrite !app_nil_r. repeat split; try reflexivity; try assumption.
      right. reflexivity.
Qed.

Theorem split_number_some_top l ip fp :
  split_number l false [] [] = Some (ip, fp) ->
  forallb is_digit_ascii ip = true /\ forallb is_digit_ascii fp = true /\
  ((l = ip /\ fp = []) \/ l = ip ++ "."%char :: fp).
Proof.
  intros H. apply split_number_some in H. destruct H as (a & b & -> & -> & Ha & Hb & Hs).
  cbn [app]. auto.
Qed.
Print Assumptions split_number_some_top.

(* --- string_to_number --- *)
(* the text that remains after trimming XML white space and one leading '-' *)
Definition number_body (s : string) : list ascii :=
  match trim_xml (list_of_string s) with
  | c :: r => if Nat.eqb (byte_of c) 45 then r else c :: r
  | [] => []
  end.
Definition number_neg (s : string) : bool :=
  match trim_xml (list_of_string s) with
  | c :: r => Nat.eqb (byte_of c) 45
  | [] => false
  end.

Lemma string_to_number_unfold s :
  string_to_number s =
  match split_number (number_body s) false [] [] with
  | Some ([], []) => fnan
  | Some (ip, fp) => of_decimal (number_neg s) ip fp
  | None => fnan
  end.
Proof.
  unfold string_to_number, number_body, number_neg.
  destruct (trim_xml (list_of_string s)) as [|c r]; [reflexivity|].
  destruct (Nat.eqb (byte_of c) 45); reflexivity.
Qed.

(* any character other than digits and '.', after the optional sign: NaN.
   This covers exponents ("1e3"), a '+' sign, a second '-', inner spaces,
   hexadecimal, "Infinity", "NaN" ... *)
Theorem string_to_number_bad_char s c :
  In c (number_body s) -> is_digit_ascii c = false -> c <> "."%char ->
  string_to_number s = fnan.
Proof.
  intros Hin Hd Hdot. rewrite string_to_number_unfold.
  assert (H : split_number (number_body s) false [] [] = None).
  { apply split_number_none. left. exists c. auto. }
  rewrite H. reflexivity.
Qed.

Theorem string_to_number_two_dots s :
  (count_dots (number_body s) >= 2)%nat -> string_to_number s = fnan.
Proof.
  intros Hc. rewrite string_to_number_unfold.
  assert (H : split_number (number_body s) false [] [] = None).
  { apply split_number_none. right. exact Hc. }
  rewrite H. reflexivity.
Qed.

(* nothing, "-" alone, "." alone, "-." : no digit at all *)
Theorem string_to_number_no_digit s :
  existsb is_digit_ascii (number_body s) = false -> string_to_number s = fnan.
Proof.
  intros Hnd. rewrite string_to_number_unfold.
  destruct (split_number (number_body s) false [] []) as [[ip fp]|] eqn:E; [|reflexivity].
  apply split_number_some_top in E. destruct E as (Hip & Hfp & Hs).
  assert (Hip' : ip = []).
  { destruct ip as [|a ip]; [reflexivity|]. exfalso.
    cbn [forallb] in Hip. apply andb_true_iff in Hip. destruct Hip as [Ha _].
    assert (Hin : In a (number_body s)).
    { destruct Hs as [[-> _]| ->]; [left; reflexivity|apply in_or_app; left; left; reflexivity]. }
    assert (Hex : existsb is_digit_ascii (number_body s) = true).
    { apply existsb_exists. exists a. split; assumption. }
    congruence. }
  assert (Hfp' : fp = []).
  { destruct fp as [|a fp]; [reflexivity|]. exfalso.
    cbn [forallb] in Hfp. apply andb_true_iff in Hfp. destruct Hfp as [Ha _].
    assert (Hin : In a (number_body s)).
    { destruct Hs as [[_ E]| ->]; [discriminate|].
      apply in_or_app; right; right; left; reflexivity. }
    assert (Hex : existsb is_digit_ascii (number_body s) = true).
    { apply existsb_exists. exists a. split; assumption. }
    congruence. }
  subst. reflexivity.
Qed.

Print Assumptions string_to_number_bad_char.
Print Assumptions string_to_number_two_dots.
Print Assumptions string_to_number_no_digit.

(* the complete list of reasons for the syntactic NaN: in every other case
   the result is [of_decimal] of the digit lists *)
Theorem string_to_number_cases s :
  (string_to_number s = fnan /\
     (existsb bad_char (number_body s) = true \/ (count_dots (number_body s) >= 2)%nat
      \/ existsb is_digit_ascii (number_body s) = false))
  \/ (exists ip fp, string_to_number s = of_decimal (number_neg s) ip fp /\
        forallb is_digit_ascii ip = true /\ forallb is_digit_ascii fp = true /\
        (ip <> [] \/ fp <> []) /\
        ((number_body s = ip /\ fp = []) \/ number_body s = ip ++ "."%char :: fp)).
Proof.
  rewrite string_to_number_unfold.
  destruct (split_number (number_body s) false [] []) as [[ip fp]|] eqn:E.
  - destruct (existsb is_digit_ascii (number_body s)) eqn:Hex.
    + right. pose proof (split_number_some_top _ _ _ E) as (Hip & Hfp & Hs).
      assert (Hne : ip <> [] \/ fp <> []).
      { destruct ip as [|a ip]; [|left; discriminate].
        destruct fp as [|b fp]; [|right; discriminate]. exfalso.
        destruct Hs as [[H _]|H]; rewrite H in Hex; cbn in Hex; discriminate. }
      exists ip, fp. split.
      * destruct ip as [|a ip]; [destruct fp as [|b fp]|]; try reflexivity.
        destruct Hne as [H|H]; contradiction.
      * auto.
    + left. split; [|right; right; reflexivity].
      pose proof (string_to_number_no_digit s Hex) as H.
      rewrite string_to_number_unfold, E in H. exact H.
  - left. split; [reflexivity|].
    apply split_number_none_iff in E. rewrite Nat.add_0_r in E.
    destruct E as [E|E]; [left|right; left]; exact E.
Qed.
Print Assumptions string_to_number_cases.

(* tests of the hypotheses on concrete strings *)
Example string_to_number_ex_exp : string_to_number "1e3" = fnan.
Proof. apply (string_to_number_bad_char _ "e"%char); [vm_compute; auto|reflexivity|discriminate]. Qed.
Example string_to_number_ex_plus : string_to_number " +1 " = fnan.
Proof. apply (string_to_number_bad_char _ "+"%char); [vm_compute; auto|reflexivity|discriminate]. Qed.
Example string_to_number_ex_dots : string_to_number "1.2.3" = fnan.
Proof. apply string_to_number_two_dots. vm_compute. lia. Qed.
Example string_to_number_ex_minus : string_to_number " - " = fnan /\ string_to_number "." = fnan
                                    /\ string_to_number "-." = fnan /\ string_to_number "   " = fnan.
Proof. repeat split; apply string_to_number_no_digit; reflexivity. Qed.
Example string_to_number_ex_ok :
  string_to_number "  -12.50 " = fdiv (of_Z (-25)) (of_Z 2) /\ string_to_number ".5" = fhalf
  /\ string_to_number "5." = of_Z 5.
Proof. vm_compute. repeat split; reflexivity. Qed.

(* ================================================================== *)
(** * 6. the arithmetic wrappers of [eval] *)

Section EvalArith.
Variable D : tree.
Variable has_ns : bool.
Variable hcode : node -> N.
Variable re_match : string -> string -> option bool.
Variable re_numsubexp : string -> nat.
Variable re_replace_all : string -> string -> string -> string.

Notation eval := (eval D has_ns hcode re_match re_numsubexp re_replace_all).
Notation sel := (sel D has_ns hcode re_match re_numsubexp re_replace_all).
Notation as_number := (as_number D).

(* unfolding equations *)
Lemma eval_numeric_eq op l r c :
  eval (QNumeric op l r) c =
  (do m <- eval l c; do n <- eval r c; Val (VNum (arith_op op (as_number m) (as_number n)))).
Proof. reflexivity. Qed.

Lemma eval_num_eq v c : eval (QNum v) c = Val (VNum v).
Proof. reflexivity. Qed.

Lemma eval_fn1_arith_eq f a c :
  match f with FCount | FSum | FFloor | FCeiling | FNumber | FString | FRound => True | _ => False end ->
  eval (QFn1 f a) c =
  (do v <- eval a c;
   match f with
   | FCount => Val (VNum (match v with
                          | VNodes l => of_Z (Z.of_nat (List.length (filter (query_test D has_ns a) (nodes_of l))))
                          | _ => fzero end))
   | FSum =>
     match v with
     | VNodes l =>
       Val (VNum (fold_left (fun acc s => let x := string_to_number s in if is_nan x then acc else fadd acc x)
                            (values_of D l) fzero))
     | VNum f => Val (VNum f)
     | VStr s => let x := string_to_number s in
                 if is_nan x then Complaint "sum() function argument type must be a node-set or number"
                 else Val (VNum x)
     | _ => Val (VNum fzero)
     end
   | FCeiling => Val (VNum (fceil (as_number v)))
   | FFloor => Val (VNum (ffloor (as_number v)))
   | FRound => Val (VInt (go_int (fround_away (as_number v))))
   | FNumber => Val (VNum (as_number v))
   | FString => do s <- as_string D v; Val (VStr s)
   | _ => Val VNil
   end).
Proof. destruct f; intros []; reflexivity. Qed.

(* arithmetic never fails, whatever the dynamic types of the operands *)
Theorem eval_numeric op l r c m n :
  eval l c = Val m -> eval r c = Val n ->
  eval (QNumeric op l r) c = Val (VNum (arith_op op (as_number m) (as_number n))).
Proof. intros Hl Hr. rewrite eval_numeric_eq, Hl, Hr. reflexivity. Qed.

(* the only failures of an arithmetic node are those of its operands, left first *)
Theorem eval_numeric_outcome op l r c :
  eval (QNumeric op l r) c =
  match eval l c with
  | Val m => match eval r c with
             | Val n => Val (VNum (arith_op op (as_number m) (as_number n)))
             | Complaint e => Complaint e
             | Crash k => Crash k
             end
  | Complaint e => Complaint e
  | Crash k => Crash k
  end.
Proof. rewrite eval_numeric_eq. destruct (eval l c); [|reflexivity..]. destruct (eval r c); reflexivity. Qed.

(* a NaN operand (non-numeric string, boolean, empty node-set ...) gives NaN *)
Corollary eval_numeric_nan_l op l r c m n :
  eval l c = Val m -> eval r c = Val n -> as_number m = fnan ->
  eval (QNumeric op l r) c = Val (VNum fnan).
Proof.
  intros Hl Hr Hm. rewrite (eval_numeric op l r c m n Hl Hr), Hm, arith_op_nan_l. reflexivity.
Qed.
Corollary eval_numeric_nan_r op l r c m n :
  eval l c = Val m -> eval r c = Val n -> as_number n = fnan ->
  eval (QNumeric op l r) c = Val (VNum fnan).
Proof.
  intros Hl Hr Hn. rewrite (eval_numeric op l r c m n Hl Hr), Hn, arith_op_nan_r. reflexivity.
Qed.

Theorem eval_floor a c v :
  eval a c = Val v -> eval (QFn1 FFloor a) c = Val (VNum (ffloor (as_number v))).
Proof. intros H. rewrite eval_fn1_arith_eq by exact I. rewrite H. reflexivity. Qed.
Theorem eval_ceiling a c v :
  eval a c = Val v -> eval (QFn1 FCeiling a) c = Val (VNum (fceil (as_number v))).
Proof. intros H. rewrite eval_fn1_arith_eq by exact I. rewrite H. reflexivity. Qed.
Theorem eval_number a c v :
  eval a c = Val v -> eval (QFn1 FNumber a) c = Val (VNum (as_number v)).
Proof. intros H. rewrite eval_fn1_arith_eq by exact I. rewrite H. reflexivity. Qed.
Theorem eval_string_num a c f :
  eval a c = Val (VNum f) -> eval (QFn1 FString a) c = Val (VStr (xpath_number_string f)).
Proof. intros H. rewrite eval_fn1_arith_eq by exact I. rewrite H. reflexivity. Qed.
Theorem eval_count_nodes a c l :
  eval a c = Val (VNodes l) ->
  eval (QFn1 FCount a) c =
  Val (VNum (of_Z (Z.of_nat (List.length (filter (query_test D has_ns a) (nodes_of l)))))).
Proof. intros H. rewrite eval_fn1_arith_eq by exact I. rewrite H. reflexivity. Qed.
(* count of something that is not a node-set is 0, not an error *)
Theorem eval_count_other a c v :
  eval a c = Val v -> (forall l, v <> VNodes l) -> eval (QFn1 FCount a) c = Val (VNum fzero).
Proof.
  intros H Hv. rewrite eval_fn1_arith_eq by exact I. rewrite H. cbn [obind].
  destruct v; try reflexivity. exfalso. eapply Hv. reflexivity.
Qed.
(* sum skips the nodes whose string value is not a number *)
Theorem eval_sum_nodes a c l :
  eval a c = Val (VNodes l) ->
  eval (QFn1 FSum a) c =
  Val (VNum (fold_left (fun acc s => let x := string_to_number s in if is_nan x then acc else fadd acc x)
                       (values_of D l) fzero)).
Proof. intros H. rewrite eval_fn1_arith_eq by exact I. rewrite H. reflexivity. Qed.

(* floor / ceiling / number of NaN-valued arguments *)
Corollary eval_floor_nan a c v :
  eval a c = Val v -> as_number v = fnan -> eval (QFn1 FFloor a) c = Val (VNum fnan).
Proof. intros H Hv. rewrite (eval_floor a c v H), Hv. reflexivity. Qed.
Corollary eval_ceiling_nan a c v :
  eval a c = Val v -> as_number v = fnan -> eval (QFn1 FCeiling a) c = Val (VNum fnan).
Proof. intros H Hv. rewrite (eval_ceiling a c v H), Hv. reflexivity. Qed.

(* unary minus as the parser builds it: x * -1 *)
Theorem eval_unary_minus x c m :
  eval x c = Val m ->
  eval (QNumeric OMul x (QNum fminus_one)) c = Val (VNum (fmul (as_number m) fminus_one)).
Proof. intros H. rewrite (eval_numeric OMul x (QNum fminus_one) c m (VNum fminus_one) H); reflexivity. Qed.

End EvalArith.

Print Assumptions eval_numeric.
Print Assumptions eval_numeric_outcome.
Print Assumptions eval_floor.
Print Assumptions eval_count_other.

(* test: "abc" + true() is NaN, not an error; 7 mod 0 is NaN; 1 div 0 is Infinity *)
Example eval_numeric_ex D c :
  let ev := Eval.eval D false (fun _ => 0%N) (fun _ _ => None) (fun _ => 0%nat) (fun _ s _ => s) in
  ev (QNumeric OAdd (QStr "abc") (QFn0 FTrue)) c = Val (VNum fnan) /\
  ev (QNumeric OMod (QNum (of_Z 7)) (QNum fzero)) c = Val (VNum fnan) /\
  ev (QFn1 FString (QNumeric ODiv (QNum (of_Z 1)) (QNum fzero))) c = Val (VStr "Infinity").
Proof. repeat split; reflexivity. Qed.

(* ================================================================== *)
(** * 3. unary minus:  -x  is computed as  x * -1 *)

Lemma fminus_one_eq : fminus_one = S754_finite true 4503599627370496 (-52).
Proof. reflexivity. Qed.

Lemma fmul_minus_one_nan : fmul fnan fminus_one = fneg fnan.
Proof. reflexivity. Qed.
Lemma fmul_minus_one_inf s : fmul (finf s) fminus_one = fneg (finf s).
Proof. destruct s; reflexivity. Qed.
Lemma fmul_minus_one_zero s : fmul (fzer s) fminus_one = fneg (fzer s).
Proof. destruct s; reflexivity. Qed.

Lemma digits_shift52 m :
  Zpos (digits2_pos (4503599627370496 * m)) = Zpos (digits2_pos m) + 52.
Proof. cbn [Pos.mul digits2_pos]. rewrite !Pos2Z.inj_succ. lia. Qed.

(* 52 right shifts of m * 2^52 give back m, with no bit lost *)
Lemma shr52 m :
  iter_pos shr_1 52 (Build_shr_record (Zpos (4503599627370496 * m)) false false)
  = Build_shr_record (Zpos m) false false.
Proof. vm_compute. reflexivity. Qed.

Lemma fmul_minus_one_finite s m e :
  valid_binary prec emax (S754_finite s m e) = true ->
  fmul (S754_finite s m e) fminus_one = fneg (S754_finite s m e).
Proof.
  cbn [valid_binary]. unfold bounded, canonical_mantissa.
  intros H. apply andb_true_iff in H. destruct H as [Hc He].
  apply Zeq_bool_eq in Hc.
  rewrite fminus_one_eq.
  unfold fmul, SFmul, fneg, SFopp.
  rewrite (Pos.mul_comm m).
  unfold binary_round_aux.
  unfold shr_fexp at 1. unfold Zdigits2 at 1.
  rewrite digits_shift52.
  replace (Z.pos (digits2_pos m) + 52 + (e + -52)) with (Z.pos (digits2_pos m) + e) by lia.
  rewrite Hc.
  replace (e - (e + -52)) with 52 by lia.
  unfold shr_record_of_loc, shr. rewrite shr52.
  cbn [shr_m loc_of_shr_record round_nearest_even].
  replace (e + -52 + 52) with e by lia.
  unfold shr_fexp, Zdigits2. rewrite Hc, Z.sub_diag.
  cbn [shr shr_record_of_loc shr_m].
  rewrite He. rewrite xorb_true_r. reflexivity.
Qed.

(* for every binary64 value (the canonical representations, [valid_binary]) *)
Theorem unary_minus x :
  valid_binary prec emax x = true -> fmul x fminus_one = fneg x.
Proof.
  destruct x as [s|s| |s m e]; intros Hv.
  - apply fmul_minus_one_zero.
  - apply fmul_minus_one_inf.
  - reflexivity.
  - apply fmul_minus_one_finite, Hv.
Qed.
Print Assumptions unary_minus.

(* in particular -0 for 0, and the sign of a zero result is kept apart *)
Example unary_minus_zero : fmul fzero fminus_one = S754_zero true.
Proof. reflexivity. Qed.

(* the hypothesis is needed only because [spec_float] has non-canonical
   representations: 1 = 1 * 2^0 is not the binary64 representation of 1 *)
Example unary_minus_noncanonical :
  valid_binary prec emax (S754_finite false 1 0) = false /\
  fmul (S754_finite false 1 0) fminus_one <> fneg (S754_finite false 1 0) /\
  fmul (S754_finite false 1 0) fminus_one = fminus_one.
Proof. repeat split; try reflexivity. vm_compute. discriminate. Qed.

(* test: concrete doubles (normal, subnormal, powers of two, extremes) are valid
   and satisfy the equation by computation *)
Definition unary_minus_samples : list f64 :=
  [ of_Z 1; of_Z (-1); of_Z 2; of_Z 3; of_Z 10; of_Z (-255); of_Z (2 ^ 52); of_Z (2 ^ 53 - 1);
    of_Z (2 ^ 53); of_Z (2 ^ 62 + 2 ^ 10); of_Z (- 10 ^ 22); fhalf; fdiv (of_Z 1) (of_Z 3);
    fdiv (of_Z (-1)) (of_Z 10);
    S754_finite false 1 (-1074);                         (* smallest subnormal *)
    S754_finite true 4503599627370495 (-1074);           (* largest subnormal *)
    S754_finite false 4503599627370496 (-1074);          (* smallest normal *)
    S754_finite false 9007199254740991 971;              (* max double *)
    S754_finite true 9007199254740991 971;
    S754_finite false 4503599627370496 971;              (* 2^1023 *)
    S754_finite false 6121026514868073 (-51) ].
Example unary_minus_test :
  forallb (fun x => valid_binary prec emax x && SFeqb (fmul x fminus_one) (fneg x)
                    && Z.eqb (bits_of (fmul x fminus_one)) (bits_of (fneg x)))
          unary_minus_samples = true.
Proof. vm_compute. reflexivity. Qed.

(* ================================================================== *)
(** * 7b. mod on integers (exactly representable ones, |a|, |b| < 2^53) *)

Lemma digits2_pos_size m : digits2_pos m = Pos.size m.
Proof. induction m as [p IH|p IH|]; cbn; [rewrite IH..|]; reflexivity. Qed.

Lemma digits2_log2 m : Zpos (digits2_pos m) = Z.log2 (Zpos m) + 1.
Proof.
  rewrite digits2_pos_size. destruct m as [p|p|]; cbn [Pos.size Z.log2];
    [rewrite Pos2Z.inj_succ; lia..|reflexivity].
Qed.

Lemma shift_pos_pow d m : Zpos (shift_pos d m) = Zpos m * 2 ^ Zpos d.
Proof. rewrite shift_pos_correct, Z.pow_pos_fold. lia. Qed.

(* a mantissa that already sits at its canonical exponent is returned unchanged *)
Lemma binary_round_aux_canonical s mz ez :
  fexp prec emax (Zpos (digits2_pos mz) + ez) = ez -> ez <= emax - prec ->
  binary_round_aux prec emax s (Zpos mz) ez loc_Exact = S754_finite s mz ez.
Proof.
  intros Hc He. unfold binary_round_aux.
  unfold shr_fexp at 1. unfold Zdigits2. rewrite Hc, Z.sub_diag.
  cbn [shr shr_record_of_loc shr_m loc_of_shr_record round_nearest_even].
  unfold shr_fexp, Zdigits2. rewrite Hc, Z.sub_diag.
  cbn [shr shr_record_of_loc shr_m].
  apply Z.leb_le in He. rewrite He. reflexivity.
Qed.

(* rounding is exact when the canonical exponent is not above the given one *)
Lemma binary_round_exact s m e e' mz :
  e' = fexp prec emax (Zpos (digits2_pos m) + e) ->
  e' <= e -> e' <= emax - prec ->
  Zpos mz = Zpos m * 2 ^ (e - e') ->
  binary_round prec emax s m e = S754_finite s mz e'.
Proof.
  intros He' Hle Hmax Hmz. unfold binary_round, shl_align. rewrite <- He'.
  destruct (e' - e) as [|d|d] eqn:Hd; [| lia |].
  - assert (e = e') by lia. subst e. rewrite Z.sub_diag, Z.mul_1_r in Hmz.
    injection Hmz as ->. apply binary_round_aux_canonical; [lia|exact Hmax].
  - assert (Hmz' : mz = shift_pos d m).
    { apply Pos2Z.inj. rewrite Hmz, shift_pos_pow. f_equal. f_equal. lia. }
    subst mz. apply binary_round_aux_canonical; [|exact Hmax].
    rewrite digits2_log2, shift_pos_pow, Z.log2_mul_pow2 by lia.
    replace (Z.pos d + Z.log2 (Z.pos m) + 1 + e') with (Z.pos (digits2_pos m) + e)
      by (rewrite digits2_log2; lia).
    symmetry. exact He'.
Qed.

Lemma fexp_small l : 0 <= l -> fexp prec emax (l + 1) = l - 52.
Proof. intros H. unfold fexp, emin, prec, emax. lia. Qed.

(* integers below 2^53 in magnitude are represented exactly *)
Lemma binary_round_small_int s p :
  Zpos p < 2 ^ 53 ->
  exists mz, binary_round prec emax s p 0 = S754_finite s mz (Z.log2 (Zpos p) - 52)
             /\ Zpos mz = Zpos p * 2 ^ (52 - Z.log2 (Zpos p)).
Proof.
  intros Hp.
  pose proof (Z.log2_nonneg (Zpos p)) as Hl0.
  assert (Hl : Z.log2 (Zpos p) < 53) by (apply Z.log2_lt_pow2; lia).
  assert (Hpos : 0 < Zpos p * 2 ^ (52 - Z.log2 (Zpos p))).
  { apply Z.mul_pos_pos; [lia|apply Z.pow_pos_nonneg; lia]. }
  exists (Z.to_pos (Zpos p * 2 ^ (52 - Z.log2 (Zpos p)))).
  rewrite Z2Pos.id by exact Hpos. split; [|reflexivity].
  apply binary_round_exact.
  - rewrite digits2_log2, Z.add_0_r, fexp_small by lia. reflexivity.
  - lia.
  - unfold emax, prec. lia.
  - rewrite Z2Pos.id by exact Hpos. f_equal. f_equal. lia.
Qed.

Lemma fmod_small_int sx sy pa pb :
  Zpos pa < 2 ^ 53 -> Zpos pb < 2 ^ 53 ->
  fmod (binary_round prec emax sx pa 0) (binary_round prec emax sy pb 0)
  = binary_normalize prec emax (cond_Zopp sx (Zpos pa mod Zpos pb)) 0 sx.
Proof.
  intros Ha Hb.
  destruct (binary_round_small_int sx pa Ha) as (ma & -> & Hma).
  destruct (binary_round_small_int sy pb Hb) as (mb & -> & Hmb).
  pose proof (Z.log2_nonneg (Zpos pa)) as Hla0.
  pose proof (Z.log2_nonneg (Zpos pb)) as Hlb0.
  assert (Hla : Z.log2 (Zpos pa) < 53) by (apply Z.log2_lt_pow2; lia).
  assert (Hlb : Z.log2 (Zpos pb) < 53) by (apply Z.log2_lt_pow2; lia).
  set (la := Z.log2 (Zpos pa)) in *. set (lb := Z.log2 (Zpos pb)) in *.
  unfold fmod. cbv zeta.
  set (e := Z.min (la - 52) (lb - 52)).
  assert (He : e <= 0) by (unfold e; lia).
  rewrite !Z.shiftl_mul_pow2 by (unfold e; lia).
  rewrite Hma, Hmb.
  rewrite <- !Z.mul_assoc, <- !Z.pow_add_r by (unfold e; lia).
  replace (52 - la + (la - 52 - e)) with (- e) by lia.
  replace (52 - lb + (lb - 52 - e)) with (- e) by lia.
  assert (H2 : 0 < 2 ^ (- e)) by (apply Z.pow_pos_nonneg; lia).
  rewrite Z.mul_mod_distr_r by lia.
  pose proof (Z.mod_pos_bound (Zpos pa) (Zpos pb) ltac:(lia)) as Hr.
  pose proof (Z.mod_le (Zpos pa) (Zpos pb) ltac:(lia) ltac:(lia)) as Hra.
  destruct (Zpos pa mod Zpos pb) as [|pr|pr] eqn:Er; [| |lia].
  - destruct sx; reflexivity.
  - assert (Hlr0 := Z.log2_nonneg (Zpos pr)).
    assert (Hlra : Z.log2 (Zpos pr) <= la) by (apply Z.log2_le_mono; lia).
    assert (Hlrb : Z.log2 (Zpos pr) <= lb) by (apply Z.log2_le_mono; lia).
    assert (Hrr : Zpos pr < 2 ^ 53) by lia.
    destruct (binary_round_small_int sx pr Hrr) as (mz & Hz & Hmz).
    set (lr := Z.log2 (Zpos pr)) in *.
    assert (Hpos : 0 < Zpos pr * 2 ^ (- e)) by (apply Z.mul_pos_pos; lia).
    destruct (Zpos pr * 2 ^ (- e)) as [|mr|mr] eqn:Emr; [lia| |lia].
    transitivity (binary_round prec emax sx mr e).
    { destruct sx; reflexivity. }
    transitivity (binary_round prec emax sx pr 0).
    2:{ destruct sx; reflexivity. }
    rewrite Hz.
    apply binary_round_exact.
    + rewrite digits2_log2, <- Emr, Z.log2_mul_pow2 by lia.
      replace (- e + Z.log2 (Zpos pr) + 1 + e) with (lr + 1) by (unfold lr; lia).
      rewrite fexp_small by lia. reflexivity.
    + unfold e. lia.
    + unfold emax, prec. lia.
    + rewrite Hmz, <- Emr, <- Z.mul_assoc, <- Z.pow_add_r by lia.
      f_equal. f_equal. lia.
Qed.

Lemma rem_pos_pos pa pb : Z.rem (Zpos pa) (Zpos pb) = Zpos pa mod Zpos pb.
Proof. apply Z.rem_mod_nonneg; lia. Qed.

(* math.Mod on integers: truncated remainder, sign of the dividend (also for
   a zero result: -4 mod 2 = -0) *)
Theorem fmod_of_Z a b :
  Z.abs a < 2 ^ 53 -> Z.abs b < 2 ^ 53 -> b <> 0 ->
  fmod (of_Z a) (of_Z b) = of_Z_signed (Z.rem a b) (a <? 0).
Proof.
  intros Ha Hb Hb0. unfold of_Z, of_Z_signed.
  destruct a as [|pa|pa].
  - rewrite Z.rem_0_l by exact Hb0. cbn [binary_normalize Z.ltb Z.compare].
    destruct b as [|pb|pb]; [contradiction| |]; cbn [binary_normalize].
    + destruct (binary_round_small_int false pb ltac:(lia)) as (mb & -> & _). reflexivity.
    + destruct (binary_round_small_int true pb ltac:(lia)) as (mb & -> & _). reflexivity.
  - change (Zpos pa <? 0) with false.
    destruct b as [|pb|pb]; [contradiction| |]; cbn [binary_normalize].
    + rewrite fmod_small_int by lia. rewrite rem_pos_pos. reflexivity.
    + rewrite fmod_small_int by lia.
      change (Zneg pb) with (- Zpos pb). rewrite Z.rem_opp_r by lia.
      rewrite rem_pos_pos. reflexivity.
  - change (Zneg pa <? 0) with true.
    change (Zneg pa) with (- Zpos pa) at 2.
    rewrite Z.rem_opp_l by exact Hb0.
    destruct b as [|pb|pb]; [contradiction| |]; cbn [binary_normalize].
    + rewrite fmod_small_int by lia. rewrite rem_pos_pos. reflexivity.
    + rewrite fmod_small_int by lia.
      change (Zneg pb) with (- Zpos pb). rewrite Z.rem_opp_r by lia.
      rewrite rem_pos_pos. reflexivity.
Qed.

Corollary fmod_of_Z_nonneg a b :
  0 <= a < 2 ^ 53 -> 0 < b < 2 ^ 53 -> fmod (of_Z a) (of_Z b) = of_Z (a mod b).
Proof.
  intros Ha Hb. rewrite fmod_of_Z by lia.
  rewrite Z.rem_mod_nonneg by lia.
  replace (a <? 0) with false by (symmetry; apply Z.ltb_ge; lia). reflexivity.
Qed.
Print Assumptions fmod_of_Z.
Print Assumptions fmod_of_Z_nonneg.

Example fmod_of_Z_ex :
  fmod (of_Z 7) (of_Z 3) = of_Z 1 /\ fmod (of_Z (-7)) (of_Z 3) = of_Z (-1) /\
  fmod (of_Z 7) (of_Z (-3)) = of_Z 1 /\ fmod (of_Z (-4)) (of_Z 2) = S754_zero true /\
  fmod (of_Z (2 ^ 53 - 1)) (of_Z 10) = of_Z 1.
Proof. vm_compute. repeat split; reflexivity. Qed.

(* test (independent of the theorem): a grid 0..40 x 1..12, by computation *)
Example fmod_grid_test :
  forallb (fun a => forallb (fun b =>
     let x := fmod (of_Z (Z.of_nat a)) (of_Z (Z.of_nat b)) in
     let y := of_Z (Z.of_nat a mod Z.of_nat b) in
     SFeqb x y && Z.eqb (bits_of x) (bits_of y)) (seq 1 12)) (seq 0 41) = true.
Proof. vm_compute. reflexivity. Qed.

(* integers of magnitude below 2^53 are canonical binary64 values, so
   [unary_minus] applies to them (count(), position(), string-length() ...) *)
Lemma of_Z_valid a : Z.abs a < 2 ^ 53 -> valid_binary prec emax (of_Z a) = true.
Proof.
  intros Ha. unfold of_Z.
  assert (H : forall s p, Zpos p < 2 ^ 53 ->
              valid_binary prec emax (binary_round prec emax s p 0) = true).
  { intros s p Hp. destruct (binary_round_small_int s p Hp) as (mz & -> & Hmz).
    pose proof (Z.log2_nonneg (Zpos p)) as Hl0.
    assert (Hl : Z.log2 (Zpos p) < 53) by (apply Z.log2_lt_pow2; lia).
    cbn [valid_binary]. unfold bounded, canonical_mantissa.
    rewrite digits2_log2, Hmz, Z.log2_mul_pow2 by lia.
    replace (52 - Z.log2 (Zpos p) + Z.log2 (Zpos p) + 1 + (Z.log2 (Zpos p) - 52))
      with (Z.log2 (Zpos p) + 1) by lia.
    rewrite fexp_small by lia.
    apply andb_true_iff. split.
    - apply Zeq_is_eq_bool. reflexivity.
    - apply Z.leb_le. unfold emax, prec. lia. }
  destruct a as [|p|p]; cbn [binary_normalize]; [reflexivity|apply H; lia|apply H; lia].
Qed.

Corollary unary_minus_of_Z a : Z.abs a < 2 ^ 53 -> fmul (of_Z a) fminus_one = fneg (of_Z a).
Proof. intros Ha. apply unary_minus, of_Z_valid, Ha. Qed.
Print Assumptions unary_minus_of_Z.

(* ================================================================== *)
(** * floor / ceiling on the special values; unary minus at [eval] level *)

Lemma ffloor_special x : is_finite x = false \/ is_zero x = true -> ffloor x = x.
Proof. destruct x; cbn; intros [H|H]; try discriminate; reflexivity. Qed.
Lemma fceil_special x : is_finite x = false \/ is_zero x = true -> fceil x = x.
Proof. destruct x; cbn; intros [H|H]; try discriminate; reflexivity. Qed.
Example ffloor_fceil_ex :
  ffloor (S754_infinity true) = S754_infinity true /\ fceil (S754_zero true) = S754_zero true /\
  ffloor (fdiv (of_Z (-1)) (of_Z 2)) = of_Z (-1) /\ fceil (fdiv (of_Z (-1)) (of_Z 2)) = S754_zero true.
Proof. vm_compute. repeat split; reflexivity. Qed.

Theorem eval_unary_minus_neg D has_ns hcode re_match re_numsubexp re_replace_all x c m :
  Eval.eval D has_ns hcode re_match re_numsubexp re_replace_all x c = Val m ->
  valid_binary prec emax (as_number D m) = true ->
  Eval.eval D has_ns hcode re_match re_numsubexp re_replace_all (QNumeric OMul x (QNum fminus_one)) c
  = Val (VNum (fneg (as_number D m))).
Proof.
  intros H Hv. rewrite (eval_unary_minus _ _ _ _ _ _ x c m H), (unary_minus _ Hv). reflexivity.
Qed.
Print Assumptions eval_unary_minus_neg.
