
(** val xorb : bool -> bool -> bool **)

let xorb b1 b2 =
  if b1 then if b2 then false else true else b2

(** val negb : bool -> bool **)

let negb = function
| true -> false
| false -> true

type nat =
| O
| S of nat

(** val option_map : ('a1 -> 'a2) -> 'a1 option -> 'a2 option **)

let option_map f = function
| Some a -> Some (f a)
| None -> None

(** val fst : ('a1 * 'a2) -> 'a1 **)

let fst = function
| (x, _) -> x

(** val snd : ('a1 * 'a2) -> 'a2 **)

let snd = function
| (_, y) -> y

(** val length : 'a1 list -> nat **)

let rec length = function
| [] -> O
| _ :: l' -> S (length l')

(** val app : 'a1 list -> 'a1 list -> 'a1 list **)

let rec app l m =
  match l with
  | [] -> m
  | a :: l1 -> a :: (app l1 m)

type comparison =
| Eq
| Lt
| Gt

(** val compOpp : comparison -> comparison **)

let compOpp = function
| Eq -> Eq
| Lt -> Gt
| Gt -> Lt

module Coq__1 = struct
 (** val add : nat -> nat -> nat **)
 let rec add n0 m =
   match n0 with
   | O -> m
   | S p -> S (add p m)
end
include Coq__1

(** val mul : nat -> nat -> nat **)

let rec mul n0 m =
  match n0 with
  | O -> O
  | S p -> add m (mul p m)

(** val sub : nat -> nat -> nat **)

let rec sub n0 m =
  match n0 with
  | O -> n0
  | S k -> (match m with
            | O -> n0
            | S l -> sub k l)

(** val eqb : bool -> bool -> bool **)

let eqb b1 b2 =
  if b1 then b2 else if b2 then false else true

type positive =
| XI of positive
| XO of positive
| XH

type n =
| N0
| Npos of positive

type z =
| Z0
| Zpos of positive
| Zneg of positive

module Nat =
 struct
  (** val sub : nat -> nat -> nat **)

  let rec sub n0 m =
    match n0 with
    | O -> n0
    | S k -> (match m with
              | O -> n0
              | S l -> sub k l)

  (** val eqb : nat -> nat -> bool **)

  let rec eqb n0 m =
    match n0 with
    | O -> (match m with
            | O -> true
            | S _ -> false)
    | S n' -> (match m with
               | O -> false
               | S m' -> eqb n' m')

  (** val leb : nat -> nat -> bool **)

  let rec leb n0 m =
    match n0 with
    | O -> true
    | S n' -> (match m with
               | O -> false
               | S m' -> leb n' m')

  (** val ltb : nat -> nat -> bool **)

  let ltb n0 m =
    leb (S n0) m

  (** val compare : nat -> nat -> comparison **)

  let rec compare n0 m =
    match n0 with
    | O -> (match m with
            | O -> Eq
            | S _ -> Lt)
    | S n' -> (match m with
               | O -> Gt
               | S m' -> compare n' m')

  (** val divmod : nat -> nat -> nat -> nat -> nat * nat **)

  let rec divmod x y q u =
    match x with
    | O -> (q, u)
    | S x' ->
      (match u with
       | O -> divmod x' y (S q) y
       | S u' -> divmod x' y q u')

  (** val div : nat -> nat -> nat **)

  let div x y = match y with
  | O -> y
  | S y' -> fst (divmod x y' O y')

  (** val modulo : nat -> nat -> nat **)

  let modulo x = function
  | O -> x
  | S y' -> sub y' (snd (divmod x y' O y'))
 end

module Pos =
 struct
  type mask =
  | IsNul
  | IsPos of positive
  | IsNeg
 end

module Coq_Pos =
 struct
  (** val succ : positive -> positive **)

  let rec succ = function
  | XI p -> XO (succ p)
  | XO p -> XI p
  | XH -> XO XH

  (** val add : positive -> positive -> positive **)

  let rec add x y =
    match x with
    | XI p ->
      (match y with
       | XI q -> XO (add_carry p q)
       | XO q -> XI (add p q)
       | XH -> XO (succ p))
    | XO p ->
      (match y with
       | XI q -> XI (add p q)
       | XO q -> XO (add p q)
       | XH -> XI p)
    | XH -> (match y with
             | XI q -> XO (succ q)
             | XO q -> XI q
             | XH -> XO XH)

  (** val add_carry : positive -> positive -> positive **)

  and add_carry x y =
    match x with
    | XI p ->
      (match y with
       | XI q -> XI (add_carry p q)
       | XO q -> XO (add_carry p q)
       | XH -> XI (succ p))
    | XO p ->
      (match y with
       | XI q -> XO (add_carry p q)
       | XO q -> XI (add p q)
       | XH -> XO (succ p))
    | XH ->
      (match y with
       | XI q -> XI (succ q)
       | XO q -> XO (succ q)
       | XH -> XI XH)

  (** val pred_double : positive -> positive **)

  let rec pred_double = function
  | XI p -> XI (XO p)
  | XO p -> XI (pred_double p)
  | XH -> XH

  type mask = Pos.mask =
  | IsNul
  | IsPos of positive
  | IsNeg

  (** val succ_double_mask : mask -> mask **)

  let succ_double_mask = function
  | IsNul -> IsPos XH
  | IsPos p -> IsPos (XI p)
  | IsNeg -> IsNeg

  (** val double_mask : mask -> mask **)

  let double_mask = function
  | IsPos p -> IsPos (XO p)
  | x0 -> x0

  (** val double_pred_mask : positive -> mask **)

  let double_pred_mask = function
  | XI p -> IsPos (XO (XO p))
  | XO p -> IsPos (XO (pred_double p))
  | XH -> IsNul

  (** val sub_mask : positive -> positive -> mask **)

  let rec sub_mask x y =
    match x with
    | XI p ->
      (match y with
       | XI q -> double_mask (sub_mask p q)
       | XO q -> succ_double_mask (sub_mask p q)
       | XH -> IsPos (XO p))
    | XO p ->
      (match y with
       | XI q -> succ_double_mask (sub_mask_carry p q)
       | XO q -> double_mask (sub_mask p q)
       | XH -> IsPos (pred_double p))
    | XH -> (match y with
             | XH -> IsNul
             | _ -> IsNeg)

  (** val sub_mask_carry : positive -> positive -> mask **)

  and sub_mask_carry x y =
    match x with
    | XI p ->
      (match y with
       | XI q -> succ_double_mask (sub_mask_carry p q)
       | XO q -> double_mask (sub_mask p q)
       | XH -> IsPos (pred_double p))
    | XO p ->
      (match y with
       | XI q -> double_mask (sub_mask_carry p q)
       | XO q -> succ_double_mask (sub_mask_carry p q)
       | XH -> double_pred_mask p)
    | XH -> IsNeg

  (** val mul : positive -> positive -> positive **)

  let rec mul x y =
    match x with
    | XI p -> add y (XO (mul p y))
    | XO p -> XO (mul p y)
    | XH -> y

  (** val iter : ('a1 -> 'a1) -> 'a1 -> positive -> 'a1 **)

  let rec iter f x = function
  | XI n' -> f (iter f (iter f x n') n')
  | XO n' -> iter f (iter f x n') n'
  | XH -> f x

  (** val div2 : positive -> positive **)

  let div2 = function
  | XI p0 -> p0
  | XO p0 -> p0
  | XH -> XH

  (** val div2_up : positive -> positive **)

  let div2_up = function
  | XI p0 -> succ p0
  | XO p0 -> p0
  | XH -> XH

  (** val size : positive -> positive **)

  let rec size = function
  | XI p0 -> succ (size p0)
  | XO p0 -> succ (size p0)
  | XH -> XH

  (** val compare_cont : comparison -> positive -> positive -> comparison **)

  let rec compare_cont r x y =
    match x with
    | XI p ->
      (match y with
       | XI q -> compare_cont r p q
       | XO q -> compare_cont Gt p q
       | XH -> Gt)
    | XO p ->
      (match y with
       | XI q -> compare_cont Lt p q
       | XO q -> compare_cont r p q
       | XH -> Gt)
    | XH -> (match y with
             | XH -> r
             | _ -> Lt)

  (** val compare : positive -> positive -> comparison **)

  let compare =
    compare_cont Eq

  (** val eqb : positive -> positive -> bool **)

  let rec eqb p q =
    match p with
    | XI p0 -> (match q with
                | XI q0 -> eqb p0 q0
                | _ -> false)
    | XO p0 -> (match q with
                | XO q0 -> eqb p0 q0
                | _ -> false)
    | XH -> (match q with
             | XH -> true
             | _ -> false)

  (** val coq_Nsucc_double : n -> n **)

  let coq_Nsucc_double = function
  | N0 -> Npos XH
  | Npos p -> Npos (XI p)

  (** val coq_Ndouble : n -> n **)

  let coq_Ndouble = function
  | N0 -> N0
  | Npos p -> Npos (XO p)

  (** val coq_lxor : positive -> positive -> n **)

  let rec coq_lxor p q =
    match p with
    | XI p0 ->
      (match q with
       | XI q0 -> coq_Ndouble (coq_lxor p0 q0)
       | XO q0 -> coq_Nsucc_double (coq_lxor p0 q0)
       | XH -> Npos (XO p0))
    | XO p0 ->
      (match q with
       | XI q0 -> coq_Nsucc_double (coq_lxor p0 q0)
       | XO q0 -> coq_Ndouble (coq_lxor p0 q0)
       | XH -> Npos (XI p0))
    | XH ->
      (match q with
       | XI q0 -> Npos (XO q0)
       | XO q0 -> Npos (XI q0)
       | XH -> N0)

  (** val shiftl_nat : positive -> nat -> positive **)

  let rec shiftl_nat p = function
  | O -> p
  | S n1 -> XO (shiftl_nat p n1)

  (** val iter_op : ('a1 -> 'a1 -> 'a1) -> positive -> 'a1 -> 'a1 **)

  let rec iter_op op p a =
    match p with
    | XI p0 -> op a (iter_op op p0 (op a a))
    | XO p0 -> iter_op op p0 (op a a)
    | XH -> a

  (** val to_nat : positive -> nat **)

  let to_nat x =
    iter_op Coq__1.add x (S O)

  (** val of_succ_nat : nat -> positive **)

  let rec of_succ_nat = function
  | O -> XH
  | S x -> succ (of_succ_nat x)
 end

module N =
 struct
  (** val succ_double : n -> n **)

  let succ_double = function
  | N0 -> Npos XH
  | Npos p -> Npos (XI p)

  (** val double : n -> n **)

  let double = function
  | N0 -> N0
  | Npos p -> Npos (XO p)

  (** val add : n -> n -> n **)

  let add n0 m =
    match n0 with
    | N0 -> m
    | Npos p -> (match m with
                 | N0 -> n0
                 | Npos q -> Npos (Coq_Pos.add p q))

  (** val sub : n -> n -> n **)

  let sub n0 m =
    match n0 with
    | N0 -> N0
    | Npos n' ->
      (match m with
       | N0 -> n0
       | Npos m' ->
         (match Coq_Pos.sub_mask n' m' with
          | Coq_Pos.IsPos p -> Npos p
          | _ -> N0))

  (** val mul : n -> n -> n **)

  let mul n0 m =
    match n0 with
    | N0 -> N0
    | Npos p -> (match m with
                 | N0 -> N0
                 | Npos q -> Npos (Coq_Pos.mul p q))

  (** val compare : n -> n -> comparison **)

  let compare n0 m =
    match n0 with
    | N0 -> (match m with
             | N0 -> Eq
             | Npos _ -> Lt)
    | Npos n' -> (match m with
                  | N0 -> Gt
                  | Npos m' -> Coq_Pos.compare n' m')

  (** val eqb : n -> n -> bool **)

  let eqb n0 m =
    match n0 with
    | N0 -> (match m with
             | N0 -> true
             | Npos _ -> false)
    | Npos p -> (match m with
                 | N0 -> false
                 | Npos q -> Coq_Pos.eqb p q)

  (** val leb : n -> n -> bool **)

  let leb x y =
    match compare x y with
    | Gt -> false
    | _ -> true

  (** val ltb : n -> n -> bool **)

  let ltb x y =
    match compare x y with
    | Lt -> true
    | _ -> false

  (** val pos_div_eucl : positive -> n -> n * n **)

  let rec pos_div_eucl a b =
    match a with
    | XI a' ->
      let (q, r) = pos_div_eucl a' b in
      let r' = succ_double r in
      if leb b r' then ((succ_double q), (sub r' b)) else ((double q), r')
    | XO a' ->
      let (q, r) = pos_div_eucl a' b in
      let r' = double r in
      if leb b r' then ((succ_double q), (sub r' b)) else ((double q), r')
    | XH ->
      (match b with
       | N0 -> (N0, (Npos XH))
       | Npos p -> (match p with
                    | XH -> ((Npos XH), N0)
                    | _ -> (N0, (Npos XH))))

  (** val div_eucl : n -> n -> n * n **)

  let div_eucl a b =
    match a with
    | N0 -> (N0, N0)
    | Npos na -> (match b with
                  | N0 -> (N0, a)
                  | Npos _ -> pos_div_eucl na b)

  (** val div : n -> n -> n **)

  let div a b =
    fst (div_eucl a b)

  (** val modulo : n -> n -> n **)

  let modulo a b =
    snd (div_eucl a b)

  (** val coq_lxor : n -> n -> n **)

  let coq_lxor n0 m =
    match n0 with
    | N0 -> m
    | Npos p -> (match m with
                 | N0 -> n0
                 | Npos q -> Coq_Pos.coq_lxor p q)

  (** val to_nat : n -> nat **)

  let to_nat = function
  | N0 -> O
  | Npos p -> Coq_Pos.to_nat p

  (** val of_nat : nat -> n **)

  let of_nat = function
  | O -> N0
  | S n' -> Npos (Coq_Pos.of_succ_nat n')
 end

(** val zero : char **)

let zero = '\000'

(** val one : char **)

let one = '\001'

(** val shift : bool -> char -> char **)

let shift = fun b c -> Char.chr (((Char.code c) lsl 1) land 255 + if b then 1 else 0)

(** val ascii_of_pos : positive -> char **)

let ascii_of_pos =
  let rec loop n0 p =
    match n0 with
    | O -> zero
    | S n' ->
      (match p with
       | XI p' -> shift true (loop n' p')
       | XO p' -> shift false (loop n' p')
       | XH -> one)
  in loop (S (S (S (S (S (S (S (S O))))))))

(** val ascii_of_N : n -> char **)

let ascii_of_N = function
| N0 -> zero
| Npos p -> ascii_of_pos p

(** val ascii_of_nat : nat -> char **)

let ascii_of_nat a =
  ascii_of_N (N.of_nat a)

(** val n_of_digits : bool list -> n **)

let rec n_of_digits = function
| [] -> N0
| b :: l' ->
  N.add (if b then Npos XH else N0) (N.mul (Npos (XO XH)) (n_of_digits l'))

(** val n_of_ascii : char -> n **)

let n_of_ascii a =
  (* If this appears, you're using Ascii internals. Please don't *)
 (fun f c ->
  let n = Char.code c in
  let h i = (n land (1 lsl i)) <> 0 in
  f (h 0) (h 1) (h 2) (h 3) (h 4) (h 5) (h 6) (h 7))
    (fun a0 a1 a2 a3 a4 a5 a6 a7 ->
    n_of_digits
      (a0 :: (a1 :: (a2 :: (a3 :: (a4 :: (a5 :: (a6 :: (a7 :: [])))))))))
    a

(** val nat_of_ascii : char -> nat **)

let nat_of_ascii a =
  N.to_nat (n_of_ascii a)

(** val nth_error : 'a1 list -> nat -> 'a1 option **)

let rec nth_error l = function
| O -> (match l with
        | [] -> None
        | x :: _ -> Some x)
| S n1 -> (match l with
           | [] -> None
           | _ :: l0 -> nth_error l0 n1)

(** val removelast : 'a1 list -> 'a1 list **)

let rec removelast = function
| [] -> []
| a :: l0 -> (match l0 with
              | [] -> []
              | _ :: _ -> a :: (removelast l0))

(** val rev : 'a1 list -> 'a1 list **)

let rec rev = function
| [] -> []
| x :: l' -> app (rev l') (x :: [])

(** val map : ('a1 -> 'a2) -> 'a1 list -> 'a2 list **)

let rec map f = function
| [] -> []
| a :: t -> (f a) :: (map f t)

(** val flat_map : ('a1 -> 'a2 list) -> 'a1 list -> 'a2 list **)

let rec flat_map f = function
| [] -> []
| x :: t -> app (f x) (flat_map f t)

(** val fold_left : ('a1 -> 'a2 -> 'a1) -> 'a2 list -> 'a1 -> 'a1 **)

let rec fold_left f l a0 =
  match l with
  | [] -> a0
  | b :: t -> fold_left f t (f a0 b)

(** val existsb : ('a1 -> bool) -> 'a1 list -> bool **)

let rec existsb f = function
| [] -> false
| a :: l0 -> (||) (f a) (existsb f l0)

(** val filter : ('a1 -> bool) -> 'a1 list -> 'a1 list **)

let rec filter f = function
| [] -> []
| x :: l0 -> if f x then x :: (filter f l0) else filter f l0

(** val firstn : nat -> 'a1 list -> 'a1 list **)

let rec firstn n0 l =
  match n0 with
  | O -> []
  | S n1 -> (match l with
             | [] -> []
             | a :: l0 -> a :: (firstn n1 l0))

(** val skipn : nat -> 'a1 list -> 'a1 list **)

let rec skipn n0 l =
  match n0 with
  | O -> l
  | S n1 -> (match l with
             | [] -> []
             | _ :: l0 -> skipn n1 l0)

(** val seq : nat -> nat -> nat list **)

let rec seq start = function
| O -> []
| S len0 -> start :: (seq (S start) len0)

module Z =
 struct
  (** val double : z -> z **)

  let double = function
  | Z0 -> Z0
  | Zpos p -> Zpos (XO p)
  | Zneg p -> Zneg (XO p)

  (** val succ_double : z -> z **)

  let succ_double = function
  | Z0 -> Zpos XH
  | Zpos p -> Zpos (XI p)
  | Zneg p -> Zneg (Coq_Pos.pred_double p)

  (** val pred_double : z -> z **)

  let pred_double = function
  | Z0 -> Zneg XH
  | Zpos p -> Zpos (Coq_Pos.pred_double p)
  | Zneg p -> Zneg (XI p)

  (** val pos_sub : positive -> positive -> z **)

  let rec pos_sub x y =
    match x with
    | XI p ->
      (match y with
       | XI q -> double (pos_sub p q)
       | XO q -> succ_double (pos_sub p q)
       | XH -> Zpos (XO p))
    | XO p ->
      (match y with
       | XI q -> pred_double (pos_sub p q)
       | XO q -> double (pos_sub p q)
       | XH -> Zpos (Coq_Pos.pred_double p))
    | XH ->
      (match y with
       | XI q -> Zneg (XO q)
       | XO q -> Zneg (Coq_Pos.pred_double q)
       | XH -> Z0)

  (** val add : z -> z -> z **)

  let add x y =
    match x with
    | Z0 -> y
    | Zpos x' ->
      (match y with
       | Z0 -> x
       | Zpos y' -> Zpos (Coq_Pos.add x' y')
       | Zneg y' -> pos_sub x' y')
    | Zneg x' ->
      (match y with
       | Z0 -> x
       | Zpos y' -> pos_sub y' x'
       | Zneg y' -> Zneg (Coq_Pos.add x' y'))

  (** val opp : z -> z **)

  let opp = function
  | Z0 -> Z0
  | Zpos x0 -> Zneg x0
  | Zneg x0 -> Zpos x0

  (** val sub : z -> z -> z **)

  let sub m n0 =
    add m (opp n0)

  (** val mul : z -> z -> z **)

  let mul x y =
    match x with
    | Z0 -> Z0
    | Zpos x' ->
      (match y with
       | Z0 -> Z0
       | Zpos y' -> Zpos (Coq_Pos.mul x' y')
       | Zneg y' -> Zneg (Coq_Pos.mul x' y'))
    | Zneg x' ->
      (match y with
       | Z0 -> Z0
       | Zpos y' -> Zneg (Coq_Pos.mul x' y')
       | Zneg y' -> Zpos (Coq_Pos.mul x' y'))

  (** val pow_pos : z -> positive -> z **)

  let pow_pos z0 =
    Coq_Pos.iter (mul z0) (Zpos XH)

  (** val pow : z -> z -> z **)

  let pow x = function
  | Z0 -> Zpos XH
  | Zpos p -> pow_pos x p
  | Zneg _ -> Z0

  (** val compare : z -> z -> comparison **)

  let compare x y =
    match x with
    | Z0 -> (match y with
             | Z0 -> Eq
             | Zpos _ -> Lt
             | Zneg _ -> Gt)
    | Zpos x' -> (match y with
                  | Zpos y' -> Coq_Pos.compare x' y'
                  | _ -> Gt)
    | Zneg x' ->
      (match y with
       | Zneg y' -> compOpp (Coq_Pos.compare x' y')
       | _ -> Lt)

  (** val leb : z -> z -> bool **)

  let leb x y =
    match compare x y with
    | Gt -> false
    | _ -> true

  (** val ltb : z -> z -> bool **)

  let ltb x y =
    match compare x y with
    | Lt -> true
    | _ -> false

  (** val eqb : z -> z -> bool **)

  let eqb x y =
    match x with
    | Z0 -> (match y with
             | Z0 -> true
             | _ -> false)
    | Zpos p -> (match y with
                 | Zpos q -> Coq_Pos.eqb p q
                 | _ -> false)
    | Zneg p -> (match y with
                 | Zneg q -> Coq_Pos.eqb p q
                 | _ -> false)

  (** val max : z -> z -> z **)

  let max n0 m =
    match compare n0 m with
    | Lt -> m
    | _ -> n0

  (** val min : z -> z -> z **)

  let min n0 m =
    match compare n0 m with
    | Gt -> m
    | _ -> n0

  (** val to_nat : z -> nat **)

  let to_nat = function
  | Zpos p -> Coq_Pos.to_nat p
  | _ -> O

  (** val to_N : z -> n **)

  let to_N = function
  | Zpos p -> Npos p
  | _ -> N0

  (** val of_nat : nat -> z **)

  let of_nat = function
  | O -> Z0
  | S n1 -> Zpos (Coq_Pos.of_succ_nat n1)

  (** val of_N : n -> z **)

  let of_N = function
  | N0 -> Z0
  | Npos p -> Zpos p

  (** val pos_div_eucl : positive -> z -> z * z **)

  let rec pos_div_eucl a b =
    match a with
    | XI a' ->
      let (q, r) = pos_div_eucl a' b in
      let r' = add (mul (Zpos (XO XH)) r) (Zpos XH) in
      if ltb r' b
      then ((mul (Zpos (XO XH)) q), r')
      else ((add (mul (Zpos (XO XH)) q) (Zpos XH)), (sub r' b))
    | XO a' ->
      let (q, r) = pos_div_eucl a' b in
      let r' = mul (Zpos (XO XH)) r in
      if ltb r' b
      then ((mul (Zpos (XO XH)) q), r')
      else ((add (mul (Zpos (XO XH)) q) (Zpos XH)), (sub r' b))
    | XH -> if leb (Zpos (XO XH)) b then (Z0, (Zpos XH)) else ((Zpos XH), Z0)

  (** val div_eucl : z -> z -> z * z **)

  let div_eucl a b =
    match a with
    | Z0 -> (Z0, Z0)
    | Zpos a' ->
      (match b with
       | Z0 -> (Z0, a)
       | Zpos _ -> pos_div_eucl a' b
       | Zneg b' ->
         let (q, r) = pos_div_eucl a' (Zpos b') in
         (match r with
          | Z0 -> ((opp q), Z0)
          | _ -> ((opp (add q (Zpos XH))), (add b r))))
    | Zneg a' ->
      (match b with
       | Z0 -> (Z0, a)
       | Zpos _ ->
         let (q, r) = pos_div_eucl a' b in
         (match r with
          | Z0 -> ((opp q), Z0)
          | _ -> ((opp (add q (Zpos XH))), (sub b r)))
       | Zneg b' -> let (q, r) = pos_div_eucl a' (Zpos b') in (q, (opp r)))

  (** val div : z -> z -> z **)

  let div a b =
    let (q, _) = div_eucl a b in q

  (** val modulo : z -> z -> z **)

  let modulo a b =
    let (_, r) = div_eucl a b in r

  (** val even : z -> bool **)

  let even = function
  | Z0 -> true
  | Zpos p -> (match p with
               | XO _ -> true
               | _ -> false)
  | Zneg p -> (match p with
               | XO _ -> true
               | _ -> false)

  (** val odd : z -> bool **)

  let odd = function
  | Z0 -> false
  | Zpos p -> (match p with
               | XO _ -> false
               | _ -> true)
  | Zneg p -> (match p with
               | XO _ -> false
               | _ -> true)

  (** val div2 : z -> z **)

  let div2 = function
  | Z0 -> Z0
  | Zpos p -> (match p with
               | XH -> Z0
               | _ -> Zpos (Coq_Pos.div2 p))
  | Zneg p -> Zneg (Coq_Pos.div2_up p)

  (** val log2 : z -> z **)

  let log2 = function
  | Zpos p0 ->
    (match p0 with
     | XI p -> Zpos (Coq_Pos.size p)
     | XO p -> Zpos (Coq_Pos.size p)
     | XH -> Z0)
  | _ -> Z0

  (** val shiftl : z -> z -> z **)

  let shiftl a = function
  | Z0 -> a
  | Zpos p -> Coq_Pos.iter (mul (Zpos (XO XH))) a p
  | Zneg p -> Coq_Pos.iter div2 a p

  (** val shiftr : z -> z -> z **)

  let shiftr a n0 =
    shiftl a (opp n0)
 end

(** val zeq_bool : z -> z -> bool **)

let zeq_bool x y =
  match Z.compare x y with
  | Eq -> true
  | _ -> false

(** val eqb0 : char list -> char list -> bool **)

let rec eqb0 s1 s2 =
  match s1 with
  | [] -> (match s2 with
           | [] -> true
           | _::_ -> false)
  | c1::s1' ->
    (match s2 with
     | [] -> false
     | c2::s2' -> if (=) c1 c2 then eqb0 s1' s2' else false)

(** val append : char list -> char list -> char list **)

let rec append s1 s2 =
  match s1 with
  | [] -> s2
  | c::s1' -> c::(append s1' s2)

(** val length0 : char list -> nat **)

let rec length0 = function
| [] -> O
| _::s' -> S (length0 s')

(** val get : nat -> char list -> char option **)

let rec get n0 = function
| [] -> None
| c::s' -> (match n0 with
            | O -> Some c
            | S n' -> get n' s')

(** val prefix : char list -> char list -> bool **)

let rec prefix s1 s2 =
  match s1 with
  | [] -> true
  | a::s1' ->
    (match s2 with
     | [] -> false
     | b::s2' -> if (=) a b then prefix s1' s2' else false)

(** val string_of_list_ascii : char list -> char list **)

let rec string_of_list_ascii = function
| [] -> []
| ch :: s0 -> ch::(string_of_list_ascii s0)

(** val list_ascii_of_string : char list -> char list **)

let rec list_ascii_of_string = function
| [] -> []
| ch::s0 -> ch :: (list_ascii_of_string s0)

(** val shift_pos : positive -> positive -> positive **)

let shift_pos n0 z0 =
  Coq_Pos.iter (fun x -> XO x) z0 n0

type 'a outcome =
| Val of 'a
| Complaint of char list
| Crash of char list

(** val obind : 'a1 outcome -> ('a1 -> 'a2 outcome) -> 'a2 outcome **)

let obind x f =
  match x with
  | Val a -> f a
  | Complaint m -> Complaint m
  | Crash k -> Crash k

(** val index_of : char list -> char list -> nat option **)

let rec index_of w s =
  if prefix w s
  then Some O
  else (match s with
        | [] -> None
        | _::s' -> option_map (fun x -> S x) (index_of w s'))

(** val contains : char list -> char list -> bool **)

let contains s w =
  match index_of w s with
  | Some _ -> true
  | None -> false

(** val skipn_s : nat -> char list -> char list **)

let rec skipn_s n0 s =
  match n0 with
  | O -> s
  | S n' -> (match s with
             | [] -> []
             | _::s' -> skipn_s n' s')

(** val firstn_s : nat -> char list -> char list **)

let rec firstn_s n0 s =
  match n0 with
  | O -> []
  | S n' -> (match s with
             | [] -> []
             | c::s' -> c::(firstn_s n' s'))

(** val has_suffix : char list -> char list -> bool **)

let has_suffix s w =
  let ls = length0 s in
  let lw = length0 w in
  if Nat.leb lw ls then eqb0 (skipn_s (sub ls lw) s) w else false

(** val string_rev_acc : char list -> char list -> char list **)

let rec string_rev_acc s acc =
  match s with
  | [] -> acc
  | c::s' -> string_rev_acc s' (c::acc)

(** val string_rev : char list -> char list **)

let string_rev s =
  string_rev_acc s []

(** val byte_of : char -> nat **)

let byte_of =
  nat_of_ascii

(** val is_upper : char -> bool **)

let is_upper c =
  let n0 = byte_of c in
  (&&)
    (Nat.leb (S (S (S (S (S (S (S (S (S (S (S (S (S (S (S (S (S (S (S (S (S
      (S (S (S (S (S (S (S (S (S (S (S (S (S (S (S (S (S (S (S (S (S (S (S (S
      (S (S (S (S (S (S (S (S (S (S (S (S (S (S (S (S (S (S (S (S
      O))))))))))))))))))))))))))))))))))))))))))))))))))))))))))))))))) n0)
    (Nat.leb n0 (S (S (S (S (S (S (S (S (S (S (S (S (S (S (S (S (S (S (S (S
      (S (S (S (S (S (S (S (S (S (S (S (S (S (S (S (S (S (S (S (S (S (S (S (S
      (S (S (S (S (S (S (S (S (S (S (S (S (S (S (S (S (S (S (S (S (S (S (S (S
      (S (S (S (S (S (S (S (S (S (S (S (S (S (S (S (S (S (S (S (S (S (S
      O)))))))))))))))))))))))))))))))))))))))))))))))))))))))))))))))))))))))))))))))))))))))))))

(** val lower_ascii : char -> char **)

let lower_ascii c =
  if is_upper c
  then ascii_of_nat
         (add (byte_of c) (S (S (S (S (S (S (S (S (S (S (S (S (S (S (S (S (S
           (S (S (S (S (S (S (S (S (S (S (S (S (S (S (S
           O)))))))))))))))))))))))))))))))))
  else c

(** val to_lower : char list -> char list **)

let rec to_lower = function
| [] -> []
| c::s' -> (lower_ascii c)::(to_lower s')

(** val is_space_ascii : char -> bool **)

let is_space_ascii c =
  let n0 = byte_of c in
  (||)
    ((&&) (Nat.leb (S (S (S (S (S (S (S (S (S O))))))))) n0)
      (Nat.leb n0 (S (S (S (S (S (S (S (S (S (S (S (S (S O)))))))))))))))
    (Nat.eqb n0 (S (S (S (S (S (S (S (S (S (S (S (S (S (S (S (S (S (S (S (S
      (S (S (S (S (S (S (S (S (S (S (S (S O)))))))))))))))))))))))))))))))))

(** val trim_left : char list -> char list **)

let rec trim_left s = match s with
| [] -> []
| c::s' -> if is_space_ascii c then trim_left s' else s

(** val trim_space : char list -> char list **)

let trim_space s =
  string_rev (trim_left (string_rev (trim_left s)))

(** val collapse_spaces : char list -> char list **)

let rec collapse_spaces = function
| [] -> []
| c::s' ->
  if is_space_ascii c
  then (match s' with
        | [] -> ' '::[]
        | c'::_ ->
          if is_space_ascii c'
          then collapse_spaces s'
          else ' '::(collapse_spaces s'))
  else c::(collapse_spaces s')

(** val normalize_space : char list -> char list **)

let normalize_space s =
  collapse_spaces (trim_space s)

(** val translate_lookup :
    char -> char list -> nat -> char list -> char option option **)

let rec translate_lookup c src i dst =
  match src with
  | [] -> None
  | a::src' ->
    if (=) a c then Some (get i dst) else translate_lookup c src' (S i) dst

(** val translate : char list -> char list -> char list -> char list **)

let rec translate s src dst =
  match s with
  | [] -> []
  | c::s' ->
    (match translate_lookup c src O dst with
     | Some o ->
       (match o with
        | Some d -> d::(translate s' src dst)
        | None -> translate s' src dst)
     | None -> c::(translate s' src dst))

(** val join : char list -> char list list -> char list **)

let rec join sep = function
| [] -> []
| x :: r ->
  (match r with
   | [] -> x
   | _ :: _ -> append x (append sep (join sep r)))

(** val str_compare : char list -> char list -> comparison **)

let rec str_compare a b =
  match a with
  | [] -> (match b with
           | [] -> Eq
           | _::_ -> Lt)
  | x::a' ->
    (match b with
     | [] -> Gt
     | y::b' ->
       (match Nat.compare (byte_of x) (byte_of y) with
        | Eq -> str_compare a' b'
        | x0 -> x0))

(** val digit_char : nat -> char **)

let digit_char d =
  ascii_of_nat
    (add (S (S (S (S (S (S (S (S (S (S (S (S (S (S (S (S (S (S (S (S (S (S (S
      (S (S (S (S (S (S (S (S (S (S (S (S (S (S (S (S (S (S (S (S (S (S (S (S
      (S O)))))))))))))))))))))))))))))))))))))))))))))))) d)

(** val itoa_fuel : nat -> nat -> char list -> char list **)

let rec itoa_fuel fuel n0 acc =
  match fuel with
  | O -> acc
  | S f ->
    let acc' =
      (digit_char (Nat.modulo n0 (S (S (S (S (S (S (S (S (S (S O))))))))))))::acc
    in
    if Nat.ltb n0 (S (S (S (S (S (S (S (S (S (S O))))))))))
    then acc'
    else itoa_fuel f (Nat.div n0 (S (S (S (S (S (S (S (S (S (S O)))))))))))
           acc'

(** val itoa : nat -> char list **)

let itoa n0 =
  itoa_fuel (S n0) n0 []

(** val is_digit_ascii : char -> bool **)

let is_digit_ascii c =
  let n0 = byte_of c in
  (&&)
    (Nat.leb (S (S (S (S (S (S (S (S (S (S (S (S (S (S (S (S (S (S (S (S (S
      (S (S (S (S (S (S (S (S (S (S (S (S (S (S (S (S (S (S (S (S (S (S (S (S
      (S (S (S O)))))))))))))))))))))))))))))))))))))))))))))))) n0)
    (Nat.leb n0 (S (S (S (S (S (S (S (S (S (S (S (S (S (S (S (S (S (S (S (S
      (S (S (S (S (S (S (S (S (S (S (S (S (S (S (S (S (S (S (S (S (S (S (S (S
      (S (S (S (S (S (S (S (S (S (S (S (S (S
      O))))))))))))))))))))))))))))))))))))))))))))))))))))))))))

(** val string_of_list : char list -> char list **)

let string_of_list =
  string_of_list_ascii

(** val list_of_string : char list -> char list **)

let list_of_string =
  list_ascii_of_string

(** val opt_default : 'a1 -> 'a1 option -> 'a1 **)

let opt_default d = function
| Some a -> a
| None -> d

type spec_float =
| S754_zero of bool
| S754_infinity of bool
| S754_nan
| S754_finite of bool * positive * z

(** val emin : z -> z -> z **)

let emin prec0 emax0 =
  Z.sub (Z.sub (Zpos (XI XH)) emax0) prec0

(** val fexp : z -> z -> z -> z **)

let fexp prec0 emax0 e =
  Z.max (Z.sub e prec0) (emin prec0 emax0)

(** val digits2_pos : positive -> positive **)

let rec digits2_pos = function
| XI p -> Coq_Pos.succ (digits2_pos p)
| XO p -> Coq_Pos.succ (digits2_pos p)
| XH -> XH

(** val zdigits2 : z -> z **)

let zdigits2 n0 = match n0 with
| Z0 -> n0
| Zpos p -> Zpos (digits2_pos p)
| Zneg p -> Zpos (digits2_pos p)

(** val iter_pos : ('a1 -> 'a1) -> positive -> 'a1 -> 'a1 **)

let rec iter_pos f n0 x =
  match n0 with
  | XI n' -> iter_pos f n' (iter_pos f n' (f x))
  | XO n' -> iter_pos f n' (iter_pos f n' x)
  | XH -> f x

type location =
| Loc_Exact
| Loc_Inexact of comparison

type shr_record = { shr_m : z; shr_r : bool; shr_s : bool }

(** val shr_1 : shr_record -> shr_record **)

let shr_1 mrs =
  let { shr_m = m; shr_r = r; shr_s = s } = mrs in
  let s0 = (||) r s in
  (match m with
   | Z0 -> { shr_m = Z0; shr_r = false; shr_s = s0 }
   | Zpos p0 ->
     (match p0 with
      | XI p -> { shr_m = (Zpos p); shr_r = true; shr_s = s0 }
      | XO p -> { shr_m = (Zpos p); shr_r = false; shr_s = s0 }
      | XH -> { shr_m = Z0; shr_r = true; shr_s = s0 })
   | Zneg p0 ->
     (match p0 with
      | XI p -> { shr_m = (Zneg p); shr_r = true; shr_s = s0 }
      | XO p -> { shr_m = (Zneg p); shr_r = false; shr_s = s0 }
      | XH -> { shr_m = Z0; shr_r = true; shr_s = s0 }))

(** val loc_of_shr_record : shr_record -> location **)

let loc_of_shr_record mrs =
  let { shr_m = _; shr_r = shr_r0; shr_s = shr_s0 } = mrs in
  if shr_r0
  then if shr_s0 then Loc_Inexact Gt else Loc_Inexact Eq
  else if shr_s0 then Loc_Inexact Lt else Loc_Exact

(** val shr_record_of_loc : z -> location -> shr_record **)

let shr_record_of_loc m = function
| Loc_Exact -> { shr_m = m; shr_r = false; shr_s = false }
| Loc_Inexact c ->
  (match c with
   | Eq -> { shr_m = m; shr_r = true; shr_s = false }
   | Lt -> { shr_m = m; shr_r = false; shr_s = true }
   | Gt -> { shr_m = m; shr_r = true; shr_s = true })

(** val shr : shr_record -> z -> z -> shr_record * z **)

let shr mrs e n0 = match n0 with
| Zpos p -> ((iter_pos shr_1 p mrs), (Z.add e n0))
| _ -> (mrs, e)

(** val shr_fexp : z -> z -> z -> z -> location -> shr_record * z **)

let shr_fexp prec0 emax0 m e l =
  shr (shr_record_of_loc m l) e
    (Z.sub (fexp prec0 emax0 (Z.add (zdigits2 m) e)) e)

(** val round_nearest_even : z -> location -> z **)

let round_nearest_even mx = function
| Loc_Exact -> mx
| Loc_Inexact c ->
  (match c with
   | Eq -> if Z.even mx then mx else Z.add mx (Zpos XH)
   | Lt -> mx
   | Gt -> Z.add mx (Zpos XH))

(** val binary_round_aux :
    z -> z -> bool -> z -> z -> location -> spec_float **)

let binary_round_aux prec0 emax0 sx mx ex lx =
  let (mrs', e') = shr_fexp prec0 emax0 mx ex lx in
  let (mrs'', e'') =
    shr_fexp prec0 emax0
      (round_nearest_even mrs'.shr_m (loc_of_shr_record mrs')) e' Loc_Exact
  in
  (match mrs''.shr_m with
   | Z0 -> S754_zero sx
   | Zpos m ->
     if Z.leb e'' (Z.sub emax0 prec0)
     then S754_finite (sx, m, e'')
     else S754_infinity sx
   | Zneg _ -> S754_nan)

(** val shl_align : positive -> z -> z -> positive * z **)

let shl_align mx ex ex' =
  match Z.sub ex' ex with
  | Zneg d -> ((shift_pos d mx), ex')
  | _ -> (mx, ex)

(** val binary_round : z -> z -> bool -> positive -> z -> spec_float **)

let binary_round prec0 emax0 sx mx ex =
  let (mz, ez) =
    shl_align mx ex (fexp prec0 emax0 (Z.add (Zpos (digits2_pos mx)) ex))
  in
  binary_round_aux prec0 emax0 sx (Zpos mz) ez Loc_Exact

(** val binary_normalize : z -> z -> z -> z -> bool -> spec_float **)

let binary_normalize prec0 emax0 m e szero =
  match m with
  | Z0 -> S754_zero szero
  | Zpos m0 -> binary_round prec0 emax0 false m0 e
  | Zneg m0 -> binary_round prec0 emax0 true m0 e

(** val sFcompare : spec_float -> spec_float -> comparison option **)

let sFcompare f1 f2 =
  match f1 with
  | S754_zero _ ->
    (match f2 with
     | S754_zero _ -> Some Eq
     | S754_infinity s -> Some (if s then Gt else Lt)
     | S754_nan -> None
     | S754_finite (s, _, _) -> Some (if s then Gt else Lt))
  | S754_infinity s ->
    (match f2 with
     | S754_infinity s0 ->
       Some (if s then if s0 then Eq else Lt else if s0 then Gt else Eq)
     | S754_nan -> None
     | _ -> Some (if s then Lt else Gt))
  | S754_nan -> None
  | S754_finite (s1, m1, e1) ->
    (match f2 with
     | S754_zero _ -> Some (if s1 then Lt else Gt)
     | S754_infinity s -> Some (if s then Gt else Lt)
     | S754_nan -> None
     | S754_finite (s2, m2, e2) ->
       Some
         (if s1
          then if s2
               then (match Z.compare e1 e2 with
                     | Eq -> compOpp (Coq_Pos.compare_cont Eq m1 m2)
                     | Lt -> Gt
                     | Gt -> Lt)
               else Lt
          else if s2
               then Gt
               else (match Z.compare e1 e2 with
                     | Eq -> Coq_Pos.compare_cont Eq m1 m2
                     | x -> x)))

(** val sFeqb : spec_float -> spec_float -> bool **)

let sFeqb f1 f2 =
  match sFcompare f1 f2 with
  | Some c -> (match c with
               | Eq -> true
               | _ -> false)
  | None -> false

(** val sFltb : spec_float -> spec_float -> bool **)

let sFltb f1 f2 =
  match sFcompare f1 f2 with
  | Some c -> (match c with
               | Lt -> true
               | _ -> false)
  | None -> false

(** val sFleb : spec_float -> spec_float -> bool **)

let sFleb f1 f2 =
  match sFcompare f1 f2 with
  | Some c -> (match c with
               | Gt -> false
               | _ -> true)
  | None -> false

(** val sFmul : z -> z -> spec_float -> spec_float -> spec_float **)

let sFmul prec0 emax0 x y =
  match x with
  | S754_zero sx ->
    (match y with
     | S754_zero sy -> S754_zero (xorb sx sy)
     | S754_finite (sy, _, _) -> S754_zero (xorb sx sy)
     | _ -> S754_nan)
  | S754_infinity sx ->
    (match y with
     | S754_infinity sy -> S754_infinity (xorb sx sy)
     | S754_finite (sy, _, _) -> S754_infinity (xorb sx sy)
     | _ -> S754_nan)
  | S754_nan -> S754_nan
  | S754_finite (sx, mx, ex) ->
    (match y with
     | S754_zero sy -> S754_zero (xorb sx sy)
     | S754_infinity sy -> S754_infinity (xorb sx sy)
     | S754_nan -> S754_nan
     | S754_finite (sy, my, ey) ->
       binary_round_aux prec0 emax0 (xorb sx sy) (Zpos (Coq_Pos.mul mx my))
         (Z.add ex ey) Loc_Exact)

(** val cond_Zopp : bool -> z -> z **)

let cond_Zopp b m =
  if b then Z.opp m else m

(** val sFadd : z -> z -> spec_float -> spec_float -> spec_float **)

let sFadd prec0 emax0 x y =
  match x with
  | S754_zero sx ->
    (match y with
     | S754_zero sy -> if eqb sx sy then x else S754_zero false
     | S754_nan -> S754_nan
     | _ -> y)
  | S754_infinity sx ->
    (match y with
     | S754_infinity sy -> if eqb sx sy then x else S754_nan
     | S754_nan -> S754_nan
     | _ -> x)
  | S754_nan -> S754_nan
  | S754_finite (sx, mx, ex) ->
    (match y with
     | S754_zero _ -> x
     | S754_infinity _ -> y
     | S754_nan -> S754_nan
     | S754_finite (sy, my, ey) ->
       let ez = Z.min ex ey in
       binary_normalize prec0 emax0
         (Z.add (cond_Zopp sx (Zpos (fst (shl_align mx ex ez))))
           (cond_Zopp sy (Zpos (fst (shl_align my ey ez))))) ez false)

(** val sFsub : z -> z -> spec_float -> spec_float -> spec_float **)

let sFsub prec0 emax0 x y =
  match x with
  | S754_zero sx ->
    (match y with
     | S754_zero sy -> if eqb sx (negb sy) then x else S754_zero false
     | S754_infinity sy -> S754_infinity (negb sy)
     | S754_nan -> S754_nan
     | S754_finite (sy, my, ey) -> S754_finite ((negb sy), my, ey))
  | S754_infinity sx ->
    (match y with
     | S754_infinity sy -> if eqb sx (negb sy) then x else S754_nan
     | S754_nan -> S754_nan
     | _ -> x)
  | S754_nan -> S754_nan
  | S754_finite (sx, mx, ex) ->
    (match y with
     | S754_zero _ -> x
     | S754_infinity sy -> S754_infinity (negb sy)
     | S754_nan -> S754_nan
     | S754_finite (sy, my, ey) ->
       let ez = Z.min ex ey in
       binary_normalize prec0 emax0
         (Z.sub (cond_Zopp sx (Zpos (fst (shl_align mx ex ez))))
           (cond_Zopp sy (Zpos (fst (shl_align my ey ez))))) ez false)

(** val new_location_even : z -> z -> location **)

let new_location_even nb_steps k =
  if zeq_bool k Z0
  then Loc_Exact
  else Loc_Inexact (Z.compare (Z.mul (Zpos (XO XH)) k) nb_steps)

(** val new_location_odd : z -> z -> location **)

let new_location_odd nb_steps k =
  if zeq_bool k Z0
  then Loc_Exact
  else Loc_Inexact
         (match Z.compare (Z.add (Z.mul (Zpos (XO XH)) k) (Zpos XH)) nb_steps with
          | Eq -> Lt
          | x -> x)

(** val new_location : z -> z -> location **)

let new_location nb_steps =
  if Z.even nb_steps
  then new_location_even nb_steps
  else new_location_odd nb_steps

(** val sFdiv_core_binary :
    z -> z -> z -> z -> z -> z -> (z * z) * location **)

let sFdiv_core_binary prec0 emax0 m1 e1 m2 e2 =
  let d1 = zdigits2 m1 in
  let d2 = zdigits2 m2 in
  let e' =
    Z.min (fexp prec0 emax0 (Z.sub (Z.add d1 e1) (Z.add d2 e2))) (Z.sub e1 e2)
  in
  let s = Z.sub (Z.sub e1 e2) e' in
  let m' = match s with
           | Z0 -> m1
           | Zpos _ -> Z.shiftl m1 s
           | Zneg _ -> Z0 in
  let (q, r) = Z.div_eucl m' m2 in ((q, e'), (new_location m2 r))

(** val sFdiv : z -> z -> spec_float -> spec_float -> spec_float **)

let sFdiv prec0 emax0 x y =
  match x with
  | S754_zero sx ->
    (match y with
     | S754_infinity sy -> S754_zero (xorb sx sy)
     | S754_finite (sy, _, _) -> S754_zero (xorb sx sy)
     | _ -> S754_nan)
  | S754_infinity sx ->
    (match y with
     | S754_zero sy -> S754_infinity (xorb sx sy)
     | S754_finite (sy, _, _) -> S754_infinity (xorb sx sy)
     | _ -> S754_nan)
  | S754_nan -> S754_nan
  | S754_finite (sx, mx, ex) ->
    (match y with
     | S754_zero sy -> S754_infinity (xorb sx sy)
     | S754_infinity sy -> S754_zero (xorb sx sy)
     | S754_nan -> S754_nan
     | S754_finite (sy, my, ey) ->
       let (p, lz) = sFdiv_core_binary prec0 emax0 (Zpos mx) ex (Zpos my) ey
       in
       let (mz, ez) = p in binary_round_aux prec0 emax0 (xorb sx sy) mz ez lz)

(** val prec : z **)

let prec =
  Zpos (XI (XO (XI (XO (XI XH)))))

(** val emax : z **)

let emax =
  Zpos (XO (XO (XO (XO (XO (XO (XO (XO (XO (XO XH))))))))))

type f64 = spec_float

(** val fadd : f64 -> f64 -> f64 **)

let fadd =
  sFadd prec emax

(** val fsub : f64 -> f64 -> f64 **)

let fsub =
  sFsub prec emax

(** val fmul : f64 -> f64 -> f64 **)

let fmul =
  sFmul prec emax

(** val fdiv : f64 -> f64 -> f64 **)

let fdiv =
  sFdiv prec emax

(** val fnan : f64 **)

let fnan =
  S754_nan

(** val fzero : f64 **)

let fzero =
  S754_zero false

(** val of_Z : z -> f64 **)

let of_Z z0 =
  binary_normalize prec emax z0 Z0 false

(** val fone : f64 **)

let fone =
  of_Z (Zpos XH)

(** val fminus_one : f64 **)

let fminus_one =
  of_Z (Zneg XH)

(** val fhalf : f64 **)

let fhalf =
  binary_normalize prec emax (Zpos XH) (Zneg XH) false

(** val is_nan : f64 -> bool **)

let is_nan = function
| S754_nan -> true
| _ -> false

(** val is_zero : f64 -> bool **)

let is_zero = function
| S754_zero _ -> true
| _ -> false

(** val feq : f64 -> f64 -> bool **)

let feq =
  sFeqb

(** val flt : f64 -> f64 -> bool **)

let flt =
  sFltb

(** val fle : f64 -> f64 -> bool **)

let fle =
  sFleb

(** val fgt : f64 -> f64 -> bool **)

let fgt a b =
  sFltb b a

(** val fge : f64 -> f64 -> bool **)

let fge a b =
  sFleb b a

(** val fne : f64 -> f64 -> bool **)

let fne a b =
  negb (sFeqb a b)

(** val floor_pos : z -> z -> z **)

let floor_pos m e =
  if Z.leb Z0 e then Z.shiftl m e else Z.shiftr m (Z.opp e)

(** val is_integral : positive -> z -> bool **)

let is_integral m e =
  if Z.leb Z0 e
  then true
  else Z.eqb (Z.shiftl (Z.shiftr (Zpos m) (Z.opp e)) (Z.opp e)) (Zpos m)

(** val trunc_Z : f64 -> z **)

let trunc_Z = function
| S754_finite (s, m, e) ->
  let t = floor_pos (Zpos m) e in if s then Z.opp t else t
| _ -> Z0

(** val floor_Z : f64 -> z **)

let floor_Z = function
| S754_finite (s, m, e) ->
  let t = floor_pos (Zpos m) e in
  if s
  then if is_integral m e then Z.opp t else Z.sub (Z.opp t) (Zpos XH)
  else t
| _ -> Z0

(** val ceil_Z : f64 -> z **)

let ceil_Z = function
| S754_finite (s, m, e) ->
  let t = floor_pos (Zpos m) e in
  if s then Z.opp t else if is_integral m e then t else Z.add t (Zpos XH)
| _ -> Z0

(** val of_Z_signed : z -> bool -> f64 **)

let of_Z_signed z0 neg =
  binary_normalize prec emax z0 Z0 neg

(** val ffloor : f64 -> f64 **)

let ffloor x = match x with
| S754_finite (s, _, _) -> of_Z_signed (floor_Z x) s
| _ -> x

(** val fceil : f64 -> f64 **)

let fceil x = match x with
| S754_finite (s, _, _) -> of_Z_signed (ceil_Z x) s
| _ -> x

(** val fround_away : f64 -> f64 **)

let fround_away x = match x with
| S754_finite (s, m, e) ->
  let t = floor_pos (Zpos m) e in
  let twice = floor_pos (Zpos m) (Z.add e (Zpos XH)) in
  let r = if Z.odd twice then Z.add t (Zpos XH) else t in
  of_Z_signed (if s then Z.opp r else r) s
| _ -> x

(** val min_int64 : z **)

let min_int64 =
  Z.opp (Z.pow (Zpos (XO XH)) (Zpos (XI (XI (XI (XI (XI XH)))))))

(** val go_int : f64 -> z **)

let go_int x = match x with
| S754_zero _ -> Z0
| S754_finite (_, _, _) ->
  let t = trunc_Z x in
  if (&&) (Z.leb min_int64 t)
       (Z.ltb t (Z.pow (Zpos (XO XH)) (Zpos (XI (XI (XI (XI (XI XH))))))))
  then t
  else min_int64
| _ -> min_int64

(** val fmod : f64 -> f64 -> f64 **)

let fmod x y =
  match x with
  | S754_zero _ ->
    (match y with
     | S754_zero _ -> S754_nan
     | S754_nan -> S754_nan
     | _ -> x)
  | S754_finite (sx, mx, ex) ->
    (match y with
     | S754_infinity _ -> x
     | S754_finite (_, my, ey) ->
       let e = Z.min ex ey in
       let x0 = Z.shiftl (Zpos mx) (Z.sub ex e) in
       let y0 = Z.shiftl (Zpos my) (Z.sub ey e) in
       let r = Z.modulo x0 y0 in
       binary_normalize prec emax (if sx then Z.opp r else r) e sx
     | _ -> S754_nan)
  | _ -> S754_nan

(** val of_ratio : bool -> z -> z -> f64 **)

let of_ratio neg n0 d =
  match n0 with
  | Z0 -> S754_zero neg
  | Zpos _ ->
    let (p, l) = sFdiv_core_binary prec emax n0 Z0 d Z0 in
    let (q, e) = p in binary_round_aux prec emax neg q e l
  | Zneg _ -> S754_nan

(** val digits_val : char list -> z -> z **)

let rec digits_val l acc =
  match l with
  | [] -> acc
  | c :: r ->
    digits_val r
      (Z.add (Z.mul acc (Zpos (XO (XI (XO XH)))))
        (Z.sub (Z.of_nat (byte_of c)) (Zpos (XO (XO (XO (XO (XI XH))))))))

(** val of_decimal : bool -> char list -> char list -> f64 **)

let of_decimal neg ip fp =
  let n0 = digits_val fp (digits_val ip Z0) in
  let k = Z.of_nat (length fp) in
  if Z.eqb k Z0
  then (match n0 with
        | Z0 -> S754_zero neg
        | _ ->
          binary_normalize prec emax (if neg then Z.opp n0 else n0) Z0 neg)
  else of_ratio neg n0 (Z.pow (Zpos (XO (XI (XO XH)))) k)

(** val pos_digits_fuel : nat -> z -> char list -> char list **)

let rec pos_digits_fuel fuel n0 acc =
  match fuel with
  | O -> acc
  | S f ->
    let acc' =
      (ascii_of_nat
        (add (S (S (S (S (S (S (S (S (S (S (S (S (S (S (S (S (S (S (S (S (S
          (S (S (S (S (S (S (S (S (S (S (S (S (S (S (S (S (S (S (S (S (S (S
          (S (S (S (S (S O))))))))))))))))))))))))))))))))))))))))))))))))
          (Z.to_nat (Z.modulo n0 (Zpos (XO (XI (XO XH))))))))::acc
    in
    if Z.ltb n0 (Zpos (XO (XI (XO XH))))
    then acc'
    else pos_digits_fuel f (Z.div n0 (Zpos (XO (XI (XO XH))))) acc'

(** val z_digits : z -> char list **)

let z_digits n0 =
  pos_digits_fuel (S (Z.to_nat (Z.log2 n0))) n0 []

(** val zeros : nat -> char list **)

let rec zeros = function
| O -> []
| S k -> '0'::(zeros k)

(** val plain : z -> z -> char list **)

let plain f p =
  let ds = z_digits f in
  if Z.leb Z0 p
  then append ds (zeros (Z.to_nat p))
  else let nd = Z.of_nat (length0 ds) in
       let fr = Z.opp p in
       if Z.ltb fr nd
       then append (firstn_s (Z.to_nat (Z.sub nd fr)) ds)
              (append ('.'::[]) (skipn_s (Z.to_nat (Z.sub nd fr)) ds))
       else append ('0'::('.'::[]))
              (append (zeros (Z.to_nat (Z.sub fr nd))) ds)

(** val adjust_up : nat -> z -> z -> z -> z **)

let rec adjust_up fuel xn dn k =
  match fuel with
  | O -> k
  | S f ->
    let ge =
      if Z.leb Z0 k
      then Z.leb (Z.mul dn (Z.pow (Zpos (XO (XI (XO XH)))) k)) xn
      else Z.leb dn (Z.mul xn (Z.pow (Zpos (XO (XI (XO XH)))) (Z.opp k)))
    in
    if ge then adjust_up f xn dn (Z.add k (Zpos XH)) else k

(** val adjust_down : nat -> z -> z -> z -> z **)

let rec adjust_down fuel xn dn k =
  match fuel with
  | O -> k
  | S f ->
    let k1 = Z.sub k (Zpos XH) in
    let lt =
      if Z.leb Z0 k1
      then Z.ltb xn (Z.mul dn (Z.pow (Zpos (XO (XI (XO XH)))) k1))
      else Z.ltb (Z.mul xn (Z.pow (Zpos (XO (XI (XO XH)))) (Z.opp k1))) dn
    in
    if lt then adjust_down f xn dn k1 else k

(** val cmp_dec : z -> z -> z -> z -> comparison **)

let cmp_dec f p bn dn =
  if Z.leb Z0 p
  then Z.compare (Z.mul (Z.mul f (Z.pow (Zpos (XO (XI (XO XH)))) p)) dn) bn
  else Z.compare (Z.mul f dn)
         (Z.mul bn (Z.pow (Zpos (XO (XI (XO XH)))) (Z.opp p)))

(** val in_interval : bool -> z -> z -> z -> z -> z -> bool **)

let in_interval incl f p lo hi dn =
  let cl = cmp_dec f p lo dn in
  let ch = cmp_dec f p hi dn in
  (&&) (match cl with
        | Eq -> incl
        | Lt -> false
        | Gt -> true) (match ch with
                       | Eq -> incl
                       | Lt -> true
                       | Gt -> false)

(** val try_digits : bool -> z -> z -> z -> z -> z -> z -> (z * z) option **)

let try_digits incl xn lo hi dn k n0 =
  let p = Z.sub k n0 in
  let f =
    if Z.leb Z0 p
    then Z.div xn (Z.mul dn (Z.pow (Zpos (XO (XI (XO XH)))) p))
    else Z.div (Z.mul xn (Z.pow (Zpos (XO (XI (XO XH)))) (Z.opp p))) dn
  in
  let c = Z.add f (Zpos XH) in
  let exact = match cmp_dec f p xn dn with
              | Eq -> true
              | _ -> false in
  let okf = in_interval incl f p lo hi dn in
  let okc = in_interval incl c p lo hi dn in
  if exact
  then Some (f, p)
  else if (&&) okf okc
       then let s = Z.add f c in
            (match cmp_dec s p (Z.mul (Zpos (XO XH)) xn) dn with
             | Eq -> Some ((if Z.even f then f else c), p)
             | Lt -> Some (c, p)
             | Gt -> Some (f, p))
       else if okf
            then if Z.eqb f Z0 then None else Some (f, p)
            else if okc then Some (c, p) else None

(** val shortest_search :
    nat -> bool -> z -> z -> z -> z -> z -> z -> z * z **)

let rec shortest_search fuel incl xn lo hi dn k n0 =
  match fuel with
  | O -> (Z0, Z0)
  | S fu ->
    (match try_digits incl xn lo hi dn k n0 with
     | Some r -> r
     | None -> shortest_search fu incl xn lo hi dn k (Z.add n0 (Zpos XH)))

(** val shortest : positive -> z -> z * z **)

let shortest m e =
  let boundary =
    (&&)
      (Coq_Pos.eqb m
        (Coq_Pos.shiftl_nat XH (S (S (S (S (S (S (S (S (S (S (S (S (S (S (S
          (S (S (S (S (S (S (S (S (S (S (S (S (S (S (S (S (S (S (S (S (S (S
          (S (S (S (S (S (S (S (S (S (S (S (S (S (S (S
          O))))))))))))))))))))))))))))))))))))))))))))))))))))))
      (Z.ltb (Z.sub (Z.sub (Zpos (XI XH)) emax) prec) e)
  in
  let x4 = Z.mul (Zpos (XO (XO XH))) (Zpos m) in
  let lo4 = if boundary then Z.sub x4 (Zpos XH) else Z.sub x4 (Zpos (XO XH))
  in
  let hi4 = Z.add x4 (Zpos (XO XH)) in
  let e2 = Z.sub e (Zpos (XO XH)) in
  let sc = if Z.leb Z0 e2 then Z.pow (Zpos (XO XH)) e2 else Zpos XH in
  let dn = if Z.leb Z0 e2 then Zpos XH else Z.pow (Zpos (XO XH)) (Z.opp e2) in
  let xn = Z.mul x4 sc in
  let lo = Z.mul lo4 sc in
  let hi = Z.mul hi4 sc in
  let est =
    Z.div
      (Z.mul (Z.add (Z.add (Z.log2 (Zpos m)) (Zpos XH)) e) (Zpos (XI (XO (XO
        (XO (XO (XO (XI (XO (XO (XO (XI (XO (XI (XI (XO (XO
        XH)))))))))))))))))) (Zpos (XO (XO (XO (XO (XO (XO (XO (XO (XO (XO
      (XO (XO (XO (XO (XO (XO (XO (XO XH)))))))))))))))))))
  in
  let k =
    adjust_down (S (S (S (S O)))) xn dn
      (adjust_up (S (S (S (S O)))) xn dn est)
  in
  shortest_search (S (S (S (S (S (S (S (S (S (S (S (S (S (S (S (S (S (S (S (S
    O)))))))))))))))))))) (Z.even (Zpos m)) xn lo hi dn k (Zpos XH)

(** val strip_zeros : nat -> z -> z -> z * z **)

let rec strip_zeros fuel f p =
  match fuel with
  | O -> (f, p)
  | S fu ->
    if (&&) (Z.ltb p Z0) (Z.eqb (Z.modulo f (Zpos (XO (XI (XO XH))))) Z0)
    then strip_zeros fu (Z.div f (Zpos (XO (XI (XO XH))))) (Z.add p (Zpos XH))
    else (f, p)

(** val format_f : f64 -> char list **)

let format_f = function
| S754_zero s -> if s then '-'::('0'::[]) else '0'::[]
| S754_infinity s ->
  if s then '-'::('I'::('n'::('f'::[]))) else '+'::('I'::('n'::('f'::[])))
| S754_nan -> 'N'::('a'::('N'::[]))
| S754_finite (s, m, e) ->
  let (f0, p0) = shortest m e in
  let (f, p) =
    strip_zeros (S (S (S (S (S (S (S (S (S (S (S (S (S (S (S (S (S (S (S (S
      (S (S (S (S (S O))))))))))))))))))))))))) f0 p0
  in
  append (if s then '-'::[] else []) (plain f p)

(** val bits_of : f64 -> z **)

let bits_of = function
| S754_zero s ->
  if s then Z.pow (Zpos (XO XH)) (Zpos (XI (XI (XI (XI (XI XH)))))) else Z0
| S754_infinity s ->
  Z.add
    (if s then Z.pow (Zpos (XO XH)) (Zpos (XI (XI (XI (XI (XI XH)))))) else Z0)
    (Z.mul (Zpos (XI (XI (XI (XI (XI (XI (XI (XI (XI (XI XH)))))))))))
      (Z.pow (Zpos (XO XH)) (Zpos (XO (XO (XI (XO (XI XH))))))))
| S754_nan ->
  Z.add
    (Z.mul (Zpos (XI (XI (XI (XI (XI (XI (XI (XI (XI (XI XH)))))))))))
      (Z.pow (Zpos (XO XH)) (Zpos (XO (XO (XI (XO (XI XH))))))))
    (Z.pow (Zpos (XO XH)) (Zpos (XI (XI (XO (XO (XI XH)))))))
| S754_finite (s, m, e) ->
  let sg =
    if s then Z.pow (Zpos (XO XH)) (Zpos (XI (XI (XI (XI (XI XH)))))) else Z0
  in
  if Z.ltb (Zpos m) (Z.pow (Zpos (XO XH)) (Zpos (XO (XO (XI (XO (XI XH)))))))
  then Z.add sg (Zpos m)
  else Z.add
         (Z.add sg
           (Z.mul
             (Z.add e (Zpos (XI (XI (XO (XO (XI (XI (XO (XO (XO (XO
               XH))))))))))))
             (Z.pow (Zpos (XO XH)) (Zpos (XO (XO (XI (XO (XI XH)))))))))
         (Z.sub (Zpos m)
           (Z.pow (Zpos (XO XH)) (Zpos (XO (XO (XI (XO (XI XH))))))))

(** val of_bits : z -> f64 **)

let of_bits b =
  let s = Z.leb (Z.pow (Zpos (XO XH)) (Zpos (XI (XI (XI (XI (XI XH))))))) b in
  let r = Z.modulo b (Z.pow (Zpos (XO XH)) (Zpos (XI (XI (XI (XI (XI XH)))))))
  in
  let ex = Z.div r (Z.pow (Zpos (XO XH)) (Zpos (XO (XO (XI (XO (XI XH)))))))
  in
  let mt =
    Z.modulo r (Z.pow (Zpos (XO XH)) (Zpos (XO (XO (XI (XO (XI XH)))))))
  in
  if Z.eqb ex (Zpos (XI (XI (XI (XI (XI (XI (XI (XI (XI (XI XH)))))))))))
  then if Z.eqb mt Z0 then S754_infinity s else S754_nan
  else if Z.eqb ex Z0
       then (match mt with
             | Zpos p ->
               S754_finite (s, p, (Zneg (XO (XI (XO (XO (XI (XI (XO (XO (XO
                 (XO XH))))))))))))
             | _ -> S754_zero s)
       else (match Z.add mt
                     (Z.pow (Zpos (XO XH)) (Zpos (XO (XO (XI (XO (XI XH))))))) with
             | Zpos p ->
               S754_finite (s, p,
                 (Z.sub ex (Zpos (XI (XI (XO (XO (XI (XI (XO (XO (XO (XO
                   XH)))))))))))))
             | _ -> S754_nan)

type kind =
| KRoot
| KElem
| KText
| KComment

type attr = { a_prefix : char list; a_local : char list; a_ns : char list;
              a_value : char list }

type tree =
| T of kind * char list * char list * char list * char list * attr list
   * tree list

(** val t_kind : tree -> kind **)

let t_kind = function
| T (k, _, _, _, _, _, _) -> k

(** val t_prefix : tree -> char list **)

let t_prefix = function
| T (_, p, _, _, _, _, _) -> p

(** val t_local : tree -> char list **)

let t_local = function
| T (_, _, l, _, _, _, _) -> l

(** val t_ns : tree -> char list **)

let t_ns = function
| T (_, _, _, n0, _, _, _) -> n0

(** val t_data : tree -> char list **)

let t_data = function
| T (_, _, _, _, d, _, _) -> d

(** val t_attrs : tree -> attr list **)

let t_attrs = function
| T (_, _, _, _, _, a, _) -> a

(** val t_kids : tree -> tree list **)

let t_kids = function
| T (_, _, _, _, _, _, k) -> k

type node = { npath : nat list; nattr : nat option }

(** val root_node : node **)

let root_node =
  { npath = []; nattr = None }

(** val elem_at : nat list -> node **)

let elem_at p =
  { npath = p; nattr = None }

(** val subtree : tree -> nat list -> tree option **)

let rec subtree t = function
| [] -> Some t
| i :: q ->
  (match nth_error (t_kids t) i with
   | Some c -> subtree c q
   | None -> None)

type ntype =
| NTRoot
| NTElem
| NTAttr
| NTText
| NTComment
| NTAll

(** val ntype_eqb : ntype -> ntype -> bool **)

let ntype_eqb a b =
  match a with
  | NTRoot -> (match b with
               | NTRoot -> true
               | _ -> false)
  | NTElem -> (match b with
               | NTElem -> true
               | _ -> false)
  | NTAttr -> (match b with
               | NTAttr -> true
               | _ -> false)
  | NTText -> (match b with
               | NTText -> true
               | _ -> false)
  | NTComment -> (match b with
                  | NTComment -> true
                  | _ -> false)
  | NTAll -> (match b with
              | NTAll -> true
              | _ -> false)

(** val kind_ntype : kind -> ntype **)

let kind_ntype = function
| KRoot -> NTRoot
| KElem -> NTElem
| KText -> NTText
| KComment -> NTComment

(** val node_tree : tree -> node -> tree option **)

let node_tree d n0 =
  subtree d n0.npath

(** val node_attr : tree -> node -> attr option **)

let node_attr d n0 =
  match node_tree d n0 with
  | Some s ->
    (match n0.nattr with
     | Some i -> nth_error (t_attrs s) i
     | None -> None)
  | None -> None

(** val node_type : tree -> node -> ntype **)

let node_type d n0 =
  match n0.nattr with
  | Some _ -> NTAttr
  | None ->
    (match node_tree d n0 with
     | Some s -> kind_ntype (t_kind s)
     | None -> NTRoot)

(** val local_name : tree -> node -> char list **)

let local_name d n0 =
  match n0.nattr with
  | Some _ -> (match node_attr d n0 with
               | Some a -> a.a_local
               | None -> [])
  | None ->
    (match node_tree d n0 with
     | Some s -> (match t_kind s with
                  | KElem -> t_local s
                  | _ -> [])
     | None -> [])

(** val node_prefix : tree -> node -> char list **)

let node_prefix d n0 =
  match n0.nattr with
  | Some _ -> (match node_attr d n0 with
               | Some a -> a.a_prefix
               | None -> [])
  | None -> (match node_tree d n0 with
             | Some s -> t_prefix s
             | None -> [])

(** val node_ns : tree -> node -> char list **)

let node_ns d n0 =
  match n0.nattr with
  | Some _ -> (match node_attr d n0 with
               | Some a -> a.a_ns
               | None -> [])
  | None -> (match node_tree d n0 with
             | Some s -> t_ns s
             | None -> [])

(** val text_of : tree -> char list **)

let rec text_of = function
| T (k, _, _, _, d, _, ks) ->
  (match k with
   | KText -> d
   | KComment -> []
   | _ ->
     let rec go = function
     | [] -> []
     | c :: r -> append (text_of c) (go r)
     in go ks)

(** val tree_value : tree -> char list **)

let tree_value t =
  match t_kind t with
  | KRoot -> text_of t
  | KElem -> text_of t
  | _ -> t_data t

(** val node_value : tree -> node -> char list **)

let node_value d n0 =
  match n0.nattr with
  | Some _ -> (match node_attr d n0 with
               | Some a -> a.a_value
               | None -> [])
  | None -> (match node_tree d n0 with
             | Some s -> tree_value s
             | None -> [])

(** val last_index : nat list -> nat option **)

let last_index p =
  match rev p with
  | [] -> None
  | i :: _ -> Some i

(** val parent_path : nat list -> nat list **)

let parent_path =
  removelast

(** val move_parent : node -> node option **)

let move_parent n0 =
  match n0.nattr with
  | Some _ -> Some { npath = n0.npath; nattr = None }
  | None ->
    (match n0.npath with
     | [] -> None
     | _ :: _ -> Some { npath = (parent_path n0.npath); nattr = None })

(** val n_attrs : tree -> node -> nat **)

let n_attrs d n0 =
  match node_tree d n0 with
  | Some s -> length (t_attrs s)
  | None -> O

(** val n_kids : tree -> node -> nat **)

let n_kids d n0 =
  match node_tree d n0 with
  | Some s -> length (t_kids s)
  | None -> O

(** val move_next_attr : tree -> node -> node option **)

let move_next_attr d n0 =
  let i = match n0.nattr with
          | Some i -> S i
          | None -> O in
  if Nat.ltb i (n_attrs d n0)
  then Some { npath = n0.npath; nattr = (Some i) }
  else None

(** val move_child : tree -> node -> node option **)

let move_child d n0 =
  match n0.nattr with
  | Some _ -> None
  | None ->
    if Nat.ltb O (n_kids d n0)
    then Some { npath = (app n0.npath (O :: [])); nattr = None }
    else None

(** val move_next : tree -> node -> node option **)

let move_next d n0 =
  match n0.nattr with
  | Some _ -> None
  | None ->
    (match last_index n0.npath with
     | Some i ->
       let pp = parent_path n0.npath in
       if Nat.ltb (S i) (n_kids d { npath = pp; nattr = None })
       then Some { npath = (app pp ((S i) :: [])); nattr = None }
       else None
     | None -> None)

(** val move_prev : node -> node option **)

let move_prev n0 =
  match n0.nattr with
  | Some _ -> None
  | None ->
    (match last_index n0.npath with
     | Some n1 ->
       (match n1 with
        | O -> None
        | S i ->
          Some { npath = (app (parent_path n0.npath) (i :: [])); nattr =
            None })
     | None -> None)

(** val move_first : node -> node option **)

let move_first n0 =
  match n0.nattr with
  | Some _ -> None
  | None ->
    (match last_index n0.npath with
     | Some n1 ->
       (match n1 with
        | O -> None
        | S _ ->
          Some { npath = (app (parent_path n0.npath) (O :: [])); nattr =
            None })
     | None -> None)

(** val children : tree -> node -> node list **)

let children d n0 =
  match n0.nattr with
  | Some _ -> []
  | None ->
    map (fun i -> { npath = (app n0.npath (i :: [])); nattr = None })
      (seq O (n_kids d n0))

(** val attributes_after : tree -> node -> node list **)

let attributes_after d n0 =
  let i = match n0.nattr with
          | Some i -> S i
          | None -> O in
  map (fun j -> { npath = n0.npath; nattr = (Some j) })
    (seq i (sub (n_attrs d n0) i))

(** val below : tree -> nat list list **)

let rec below = function
| T (_, _, _, _, _, _, ks) ->
  let rec go l i =
    match l with
    | [] -> []
    | c :: r ->
      app ((i :: []) :: (map (fun x -> i :: x) (below c))) (go r (S i))
  in go ks O

(** val descendants : tree -> node -> node list **)

let descendants d n0 =
  match n0.nattr with
  | Some _ -> []
  | None ->
    (match node_tree d n0 with
     | Some s ->
       map (fun r -> { npath = (app n0.npath r); nattr = None }) (below s)
     | None -> [])

(** val desc_or_self : tree -> node -> node list **)

let desc_or_self d n0 =
  n0 :: (descendants d n0)

(** val prefixes_desc : nat list -> nat -> nat list list **)

let rec prefixes_desc p = function
| O -> []
| S f ->
  (match p with
   | [] -> []
   | _ :: _ -> let q = parent_path p in q :: (prefixes_desc q f))

(** val ancestors : node -> node list **)

let ancestors n0 =
  match n0.nattr with
  | Some _ ->
    map elem_at (n0.npath :: (prefixes_desc n0.npath (length n0.npath)))
  | None -> map elem_at (prefixes_desc n0.npath (length n0.npath))

(** val following_siblings : tree -> node -> node list **)

let following_siblings d n0 =
  match n0.nattr with
  | Some _ -> []
  | None ->
    (match last_index n0.npath with
     | Some i ->
       let pp = parent_path n0.npath in
       map (fun j -> { npath = (app pp (j :: [])); nattr = None })
         (seq (S i) (sub (n_kids d { npath = pp; nattr = None }) (S i)))
     | None -> [])

(** val preceding_siblings : node -> node list **)

let preceding_siblings n0 =
  match n0.nattr with
  | Some _ -> []
  | None ->
    (match last_index n0.npath with
     | Some i ->
       let pp = parent_path n0.npath in
       map (fun j -> { npath = (app pp (j :: [])); nattr = None })
         (rev (seq O i))
     | None -> [])

(** val all_nodes : tree -> node list **)

let all_nodes d =
  flat_map (fun n0 -> n0 :: (attributes_after d n0))
    (desc_or_self d root_node)

type itype =
| IComma
| ISlash
| IAt
| IDot
| ILParens
| IRParens
| ILBracket
| IRBracket
| IStar
| IPlus
| IMinus
| IEq
| ILt
| IGt
| IBang
| IDollar
| IApos
| IQuote
| IUnion
| INe
| ILe
| IGe
| IAnd
| IOr
| IDotDot
| ISlashSlash
| IName
| IString
| INumber
| IAxe
| IEOF

(** val itype_eqb : itype -> itype -> bool **)

let itype_eqb a b =
  match a with
  | IComma -> (match b with
               | IComma -> true
               | _ -> false)
  | ISlash -> (match b with
               | ISlash -> true
               | _ -> false)
  | IAt -> (match b with
            | IAt -> true
            | _ -> false)
  | IDot -> (match b with
             | IDot -> true
             | _ -> false)
  | ILParens -> (match b with
                 | ILParens -> true
                 | _ -> false)
  | IRParens -> (match b with
                 | IRParens -> true
                 | _ -> false)
  | ILBracket -> (match b with
                  | ILBracket -> true
                  | _ -> false)
  | IRBracket -> (match b with
                  | IRBracket -> true
                  | _ -> false)
  | IStar -> (match b with
              | IStar -> true
              | _ -> false)
  | IPlus -> (match b with
              | IPlus -> true
              | _ -> false)
  | IMinus -> (match b with
               | IMinus -> true
               | _ -> false)
  | IEq -> (match b with
            | IEq -> true
            | _ -> false)
  | ILt -> (match b with
            | ILt -> true
            | _ -> false)
  | IGt -> (match b with
            | IGt -> true
            | _ -> false)
  | IBang -> (match b with
              | IBang -> true
              | _ -> false)
  | IDollar -> (match b with
                | IDollar -> true
                | _ -> false)
  | IApos -> (match b with
              | IApos -> true
              | _ -> false)
  | IQuote -> (match b with
               | IQuote -> true
               | _ -> false)
  | IUnion -> (match b with
               | IUnion -> true
               | _ -> false)
  | INe -> (match b with
            | INe -> true
            | _ -> false)
  | ILe -> (match b with
            | ILe -> true
            | _ -> false)
  | IGe -> (match b with
            | IGe -> true
            | _ -> false)
  | IAnd -> (match b with
             | IAnd -> true
             | _ -> false)
  | IOr -> (match b with
            | IOr -> true
            | _ -> false)
  | IDotDot -> (match b with
                | IDotDot -> true
                | _ -> false)
  | ISlashSlash -> (match b with
                    | ISlashSlash -> true
                    | _ -> false)
  | IName -> (match b with
              | IName -> true
              | _ -> false)
  | IString -> (match b with
                | IString -> true
                | _ -> false)
  | INumber -> (match b with
                | INumber -> true
                | _ -> false)
  | IAxe -> (match b with
             | IAxe -> true
             | _ -> false)
  | IEOF -> (match b with
             | IEOF -> true
             | _ -> false)

type anode =
| ARoot of char list
| AAxis of char list * ntype * char list * char list * char list * bool
   * char list * anode option
| AFilter of anode * anode
| AFunc of char list * char list * anode list
| AOp of char list * anode * anode
| ANum of f64
| AStr of char list
| AVar of char list * char list
| AGroup of anode

type ntest = { nt_type : ntype; nt_pre : char list; nt_loc : char list;
               nt_hasns : bool; nt_ns : char list }

type cmpop =
| CEq
| CNe
| CLt
| CLe
| CGt
| CGe

type arith =
| OAdd
| OSub
| OMul
| ODiv
| OMod

type fn0 =
| FTrue
| FFalse

type fn1 =
| FCount
| FSum
| FCeiling
| FFloor
| FRound
| FBoolean
| FNumber
| FString
| FNot
| FNormalizeSpace
| FStringLength
| FLowerCase
| FName
| FLocalName
| FNamespaceURI

type fn2 =
| FStartsWith
| FEndsWith
| FContains
| FMatches
| FSubstringBefore
| FSubstringAfter
| FStringJoin

type fn3 =
| FSubstring
| FTranslate
| FReplace

type query =
| QNil
| QNop
| QContext
| QAbsolute
| QAncestor of bool * ntest * query
| QAttribute of ntest * query
| QChild of ntest * query
| QCachedChild of ntest * query
| QDescendant of bool * ntest * query
| QFollowing of bool * ntest * query
| QPreceding of bool * ntest * query
| QParent of ntest * query
| QSelf of ntest * query
| QFilter of bool * query * query
| QFn0 of fn0
| QFn1 of fn1 * query
| QFn2 of fn2 * query * query
| QFn3 of fn3 * query * query * query
| QConcat of query
| QArg of query * query
| QPosition of query
| QLast of query
| QReverse of query
| QNum of f64
| QStr of char list
| QGroup of query
| QLogical of cmpop * query * query
| QNumeric of arith * query * query
| QBoolean of bool * query * query
| QUnion of query * query
| QLastFunc of query
| QDoD of bool * ntest * query
| QMerge of query * query

type item = { it_node : node; it_pos : nat; it_lvl : nat }

type value =
| VBool of bool
| VNum of f64
| VStr of char list
| VNodes of item list
| VInt of z
| VNil

type 'a cres =
| Ok of 'a
| Err of char list
| OutOfFuel

(** val cbind : 'a1 cres -> ('a1 -> 'a2 cres) -> 'a2 cres **)

let cbind x f =
  match x with
  | Ok a -> f a
  | Err m -> Err m
  | OutOfFuel -> OutOfFuel

(** val tbl_first : ((n * n) * n) list **)

let tbl_first =
  (((Npos (XO (XI (XO (XI (XI XH)))))), (Npos (XO (XI (XO (XI (XI XH))))))),
    (Npos XH)) :: ((((Npos (XI (XO (XO (XO (XO (XO XH))))))), (Npos (XO (XI
    (XO (XI (XI (XO XH)))))))), (Npos XH)) :: ((((Npos (XI (XI (XI (XI (XI
    (XO XH))))))), (Npos (XI (XI (XI (XI (XI (XO XH)))))))), (Npos
    XH)) :: ((((Npos (XI (XO (XO (XO (XO (XI XH))))))), (Npos (XO (XI (XO (XI
    (XI (XI XH)))))))), (Npos XH)) :: ((((Npos (XO (XO (XO (XO (XO (XO (XI
    XH)))))))), (Npos (XO (XI (XI (XO (XI (XO (XI XH))))))))), (Npos
    XH)) :: ((((Npos (XO (XO (XO (XI (XI (XO (XI XH)))))))), (Npos (XO (XI
    (XI (XO (XI (XI (XI XH))))))))), (Npos XH)) :: ((((Npos (XO (XO (XO (XI
    (XI (XI (XI XH)))))))), (Npos (XI (XI (XI (XI (XI (XI (XI XH))))))))),
    (Npos XH)) :: ((((Npos (XO (XO (XO (XO (XO (XO (XO (XO XH))))))))), (Npos
    (XI (XO (XO (XO (XI (XI (XO (XO XH)))))))))), (Npos XH)) :: ((((Npos (XO
    (XO (XI (XO (XI (XI (XO (XO XH))))))))), (Npos (XO (XI (XI (XI (XI (XI
    (XO (XO XH)))))))))), (Npos XH)) :: ((((Npos (XI (XO (XO (XO (XO (XO (XI
    (XO XH))))))))), (Npos (XO (XO (XO (XI (XO (XO (XI (XO XH)))))))))),
    (Npos XH)) :: ((((Npos (XO (XI (XO (XI (XO (XO (XI (XO XH))))))))), (Npos
    (XO (XI (XI (XI (XI (XI (XI (XO XH)))))))))), (Npos XH)) :: ((((Npos (XO
    (XO (XO (XO (XO (XO (XO (XI XH))))))))), (Npos (XI (XI (XO (XO (XO (XO
    (XI (XI XH)))))))))), (Npos XH)) :: ((((Npos (XI (XO (XI (XI (XO (XO (XI
    (XI XH))))))))), (Npos (XO (XO (XO (XO (XI (XI (XI (XI XH)))))))))),
    (Npos XH)) :: ((((Npos (XO (XO (XI (XO (XI (XI (XI (XI XH))))))))), (Npos
    (XI (XO (XI (XO (XI (XI (XI (XI XH)))))))))), (Npos XH)) :: ((((Npos (XO
    (XI (XO (XI (XI (XI (XI (XI XH))))))))), (Npos (XI (XI (XI (XO (XI (XO
    (XO (XO (XO XH))))))))))), (Npos XH)) :: ((((Npos (XO (XO (XO (XO (XI (XO
    (XI (XO (XO XH)))))))))), (Npos (XO (XO (XO (XI (XO (XI (XO (XI (XO
    XH))))))))))), (Npos XH)) :: ((((Npos (XI (XI (XO (XI (XI (XI (XO (XI (XO
    XH)))))))))), (Npos (XI (XO (XO (XO (XO (XO (XI (XI (XO XH))))))))))),
    (Npos XH)) :: ((((Npos (XO (XI (XI (XO (XO (XO (XO (XI (XI XH)))))))))),
    (Npos (XO (XI (XI (XO (XO (XO (XO (XI (XI XH))))))))))), (Npos
    XH)) :: ((((Npos (XO (XO (XO (XI (XO (XO (XO (XI (XI XH)))))))))), (Npos
    (XO (XI (XO (XI (XO (XO (XO (XI (XI XH))))))))))), (Npos XH)) :: ((((Npos
    (XO (XO (XI (XI (XO (XO (XO (XI (XI XH)))))))))), (Npos (XO (XO (XI (XI
    (XO (XO (XO (XI (XI XH))))))))))), (Npos XH)) :: ((((Npos (XO (XI (XI (XI
    (XO (XO (XO (XI (XI XH)))))))))), (Npos (XI (XO (XO (XO (XO (XI (XO (XI
    (XI XH))))))))))), (Npos XH)) :: ((((Npos (XI (XI (XO (XO (XO (XI (XO (XI
    (XI XH)))))))))), (Npos (XO (XI (XI (XI (XO (XO (XI (XI (XI
    XH))))))))))), (Npos XH)) :: ((((Npos (XO (XO (XO (XO (XI (XO (XI (XI (XI
    XH)))))))))), (Npos (XO (XI (XI (XO (XI (XO (XI (XI (XI XH))))))))))),
    (Npos XH)) :: ((((Npos (XO (XI (XO (XI (XI (XO (XI (XI (XI XH)))))))))),
    (Npos (XO (XO (XO (XO (XO (XI (XI (XI (XI XH))))))))))), (Npos (XO
    XH))) :: ((((Npos (XO (XI (XO (XO (XO (XI (XI (XI (XI XH)))))))))), (Npos
    (XI (XI (XO (XO (XI (XI (XI (XI (XI XH))))))))))), (Npos XH)) :: ((((Npos
    (XI (XO (XO (XO (XO (XO (XO (XO (XO (XO XH))))))))))), (Npos (XO (XO (XI
    (XI (XO (XO (XO (XO (XO (XO XH)))))))))))), (Npos XH)) :: ((((Npos (XO
    (XI (XI (XI (XO (XO (XO (XO (XO (XO XH))))))))))), (Npos (XI (XI (XI (XI
    (XO (XO (XI (XO (XO (XO XH)))))))))))), (Npos XH)) :: ((((Npos (XI (XO
    (XO (XO (XI (XO (XI (XO (XO (XO XH))))))))))), (Npos (XO (XO (XI (XI (XI
    (XO (XI (XO (XO (XO XH)))))))))))), (Npos XH)) :: ((((Npos (XO (XI (XI
    (XI (XI (XO (XI (XO (XO (XO XH))))))))))), (Npos (XI (XO (XO (XO (XO (XO
    (XO (XI (XO (XO XH)))))))))))), (Npos XH)) :: ((((Npos (XO (XO (XO (XO
    (XI (XO (XO (XI (XO (XO XH))))))))))), (Npos (XO (XO (XI (XO (XO (XO (XI
    (XI (XO (XO XH)))))))))))), (Npos XH)) :: ((((Npos (XI (XI (XI (XO (XO
    (XO (XI (XI (XO (XO XH))))))))))), (Npos (XO (XO (XO (XI (XO (XO (XI (XI
    (XO (XO XH)))))))))))), (Npos XH)) :: ((((Npos (XI (XI (XO (XI (XO (XO
    (XI (XI (XO (XO XH))))))))))), (Npos (XO (XO (XI (XI (XO (XO (XI (XI (XO
    (XO XH)))))))))))), (Npos XH)) :: ((((Npos (XO (XO (XO (XO (XI (XO (XI
    (XI (XO (XO XH))))))))))), (Npos (XI (XI (XO (XI (XO (XI (XI (XI (XO (XO
    XH)))))))))))), (Npos XH)) :: ((((Npos (XO (XI (XI (XI (XO (XI (XI (XI
    (XO (XO XH))))))))))), (Npos (XI (XO (XI (XO (XI (XI (XI (XI (XO (XO
    XH)))))))))))), (Npos XH)) :: ((((Npos (XO (XO (XO (XI (XI (XI (XI (XI
    (XO (XO XH))))))))))), (Npos (XI (XO (XO (XI (XI (XI (XI (XI (XO (XO
    XH)))))))))))), (Npos XH)) :: ((((Npos (XI (XO (XO (XO (XI (XI (XO (XO
    (XI (XO XH))))))))))), (Npos (XO (XI (XI (XO (XI (XO (XI (XO (XI (XO
    XH)))))))))))), (Npos XH)) :: ((((Npos (XI (XO (XO (XI (XI (XO (XI (XO
    (XI (XO XH))))))))))), (Npos (XI (XO (XO (XI (XI (XO (XI (XO (XI (XO
    XH)))))))))))), (Npos XH)) :: ((((Npos (XI (XO (XO (XO (XO (XI (XI (XO
    (XI (XO XH))))))))))), (Npos (XO (XI (XI (XO (XO (XO (XO (XI (XI (XO
    XH)))))))))))), (Npos XH)) :: ((((Npos (XO (XO (XO (XO (XI (XO (XI (XI
    (XI (XO XH))))))))))), (Npos (XO (XI (XO (XI (XO (XI (XI (XI (XI (XO
    XH)))))))))))), (Npos XH)) :: ((((Npos (XO (XO (XO (XO (XI (XI (XI (XI
    (XI (XO XH))))))))))), (Npos (XO (XI (XO (XO (XI (XI (XI (XI (XI (XO
    XH)))))))))))), (Npos XH)) :: ((((Npos (XI (XO (XO (XO (XO (XI (XO (XO
    (XO (XI XH))))))))))), (Npos (XO (XI (XO (XI (XI (XI (XO (XO (XO (XI
    XH)))))))))))), (Npos XH)) :: ((((Npos (XI (XO (XO (XO (XO (XO (XI (XO
    (XO (XI XH))))))))))), (Npos (XO (XI (XO (XI (XO (XO (XI (XO (XO (XI
    XH)))))))))))), (Npos XH)) :: ((((Npos (XI (XO (XO (XO (XI (XI (XI (XO
    (XO (XI XH))))))))))), (Npos (XI (XI (XI (XO (XI (XI (XO (XI (XO (XI
    XH)))))))))))), (Npos XH)) :: ((((Npos (XO (XI (XO (XI (XI (XI (XO (XI
    (XO (XI XH))))))))))), (Npos (XO (XI (XI (XI (XI (XI (XO (XI (XO (XI
    XH)))))))))))), (Npos XH)) :: ((((Npos (XO (XO (XO (XO (XO (XO (XI (XI
    (XO (XI XH))))))))))), (Npos (XO (XI (XI (XI (XO (XO (XI (XI (XO (XI
    XH)))))))))))), (Npos XH)) :: ((((Npos (XO (XO (XO (XO (XI (XO (XI (XI
    (XO (XI XH))))))))))), (Npos (XI (XI (XO (XO (XI (XO (XI (XI (XO (XI
    XH)))))))))))), (Npos XH)) :: ((((Npos (XI (XO (XI (XO (XI (XO (XI (XI
    (XO (XI XH))))))))))), (Npos (XI (XO (XI (XO (XI (XO (XI (XI (XO (XI
    XH)))))))))))), (Npos XH)) :: ((((Npos (XI (XO (XI (XO (XO (XI (XI (XI
    (XO (XI XH))))))))))), (Npos (XO (XI (XI (XO (XO (XI (XI (XI (XO (XI
    XH)))))))))))), (Npos XH)) :: ((((Npos (XI (XO (XI (XO (XO (XO (XO (XO
    (XI (XO (XO XH)))))))))))), (Npos (XI (XO (XO (XI (XI (XI (XO (XO (XI (XO
    (XO XH))))))))))))), (Npos XH)) :: ((((Npos (XI (XO (XI (XI (XI (XI (XO
    (XO (XI (XO (XO XH)))))))))))), (Npos (XI (XO (XI (XI (XI (XI (XO (XO (XI
    (XO (XO XH))))))))))))), (Npos XH)) :: ((((Npos (XO (XO (XO (XI (XI (XO
    (XI (XO (XI (XO (XO XH)))))))))))), (Npos (XI (XO (XO (XO (XO (XI (XI (XO
    (XI (XO (XO XH))))))))))))), (Npos XH)) :: ((((Npos (XI (XO (XI (XO (XO
    (XO (XO (XI (XI (XO (XO XH)))))))))))), (Npos (XO (XO (XI (XI (XO (XO (XO
    (XI (XI (XO (XO XH))))))))))))), (Npos XH)) :: ((((Npos (XI (XI (XI (XI
    (XO (XO (XO (XI (XI (XO (XO XH)))))))))))), (Npos (XO (XO (XO (XO (XI (XO
    (XO (XI (XI (XO (XO XH))))))))))))), (Npos XH)) :: ((((Npos (XI (XI (XO
    (XO (XI (XO (XO (XI (XI (XO (XO XH)))))))))))), (Npos (XO (XO (XO (XI (XO
    (XI (XO (XI (XI (XO (XO XH))))))))))))), (Npos XH)) :: ((((Npos (XO (XI
    (XO (XI (XO (XI (XO (XI (XI (XO (XO XH)))))))))))), (Npos (XO (XO (XO (XO
    (XI (XI (XO (XI (XI (XO (XO XH))))))))))))), (Npos XH)) :: ((((Npos (XO
    (XI (XO (XO (XI (XI (XO (XI (XI (XO (XO XH)))))))))))), (Npos (XO (XI (XO
    (XO (XI (XI (XO (XI (XI (XO (XO XH))))))))))))), (Npos XH)) :: ((((Npos
    (XO (XI (XI (XO (XI (XI (XO (XI (XI (XO (XO XH)))))))))))), (Npos (XI (XO
    (XO (XI (XI (XI (XO (XI (XI (XO (XO XH))))))))))))), (Npos
    XH)) :: ((((Npos (XO (XO (XI (XI (XI (XO (XI (XI (XI (XO (XO
    XH)))))))))))), (Npos (XI (XO (XI (XI (XI (XO (XI (XI (XI (XO (XO
    XH))))))))))))), (Npos XH)) :: ((((Npos (XI (XI (XI (XI (XI (XO (XI (XI
    (XI (XO (XO XH)))))))))))), (Npos (XI (XO (XO (XO (XO (XI (XI (XI (XI (XO
    (XO XH))))))))))))), (Npos XH)) :: ((((Npos (XO (XO (XO (XO (XI (XI (XI
    (XI (XI (XO (XO XH)))))))))))), (Npos (XI (XO (XO (XO (XI (XI (XI (XI (XI
    (XO (XO XH))))))))))))), (Npos XH)) :: ((((Npos (XI (XO (XI (XO (XO (XO
    (XO (XO (XO (XI (XO XH)))))))))))), (Npos (XO (XI (XO (XI (XO (XO (XO (XO
    (XO (XI (XO XH))))))))))))), (Npos XH)) :: ((((Npos (XI (XI (XI (XI (XO
    (XO (XO (XO (XO (XI (XO XH)))))))))))), (Npos (XO (XO (XO (XO (XI (XO (XO
    (XO (XO (XI (XO XH))))))))))))), (Npos XH)) :: ((((Npos (XI (XI (XO (XO
    (XI (XO (XO (XO (XO (XI (XO XH)))))))))))), (Npos (XO (XO (XO (XI (XO (XI
    (XO (XO (XO (XI (XO XH))))))))))))), (Npos XH)) :: ((((Npos (XO (XI (XO
    (XI (XO (XI (XO (XO (XO (XI (XO XH)))))))))))), (Npos (XO (XO (XO (XO (XI
    (XI (XO (XO (XO (XI (XO XH))))))))))))), (Npos XH)) :: ((((Npos (XO (XI
    (XO (XO (XI (XI (XO (XO (XO (XI (XO XH)))))))))))), (Npos (XI (XI (XO (XO
    (XI (XI (XO (XO (XO (XI (XO XH))))))))))))), (Npos XH)) :: ((((Npos (XI
    (XO (XI (XO (XI (XI (XO (XO (XO (XI (XO XH)))))))))))), (Npos (XO (XI (XI
    (XO (XI (XI (XO (XO (XO (XI (XO XH))))))))))))), (Npos XH)) :: ((((Npos
    (XO (XO (XO (XI (XI (XI (XO (XO (XO (XI (XO XH)))))))))))), (Npos (XI (XO
    (XO (XI (XI (XI (XO (XO (XO (XI (XO XH))))))))))))), (Npos
    XH)) :: ((((Npos (XI (XO (XO (XI (XI (XO (XI (XO (XO (XI (XO
    XH)))))))))))), (Npos (XO (XO (XI (XI (XI (XO (XI (XO (XO (XI (XO
    XH))))))))))))), (Npos XH)) :: ((((Npos (XO (XI (XI (XI (XI (XO (XI (XO
    (XO (XI (XO XH)))))))))))), (Npos (XO (XI (XI (XI (XI (XO (XI (XO (XO (XI
    (XO XH))))))))))))), (Npos XH)) :: ((((Npos (XO (XI (XO (XO (XI (XI (XI
    (XO (XO (XI (XO XH)))))))))))), (Npos (XO (XO (XI (XO (XI (XI (XI (XO (XO
    (XI (XO XH))))))))))))), (Npos XH)) :: ((((Npos (XI (XO (XI (XO (XO (XO
    (XO (XI (XO (XI (XO XH)))))))))))), (Npos (XI (XI (XO (XI (XO (XO (XO (XI
    (XO (XI (XO XH))))))))))))), (Npos XH)) :: ((((Npos (XI (XO (XI (XI (XO
    (XO (XO (XI (XO (XI (XO XH)))))))))))), (Npos (XI (XO (XI (XI (XO (XO (XO
    (XI (XO (XI (XO XH))))))))))))), (Npos XH)) :: ((((Npos (XI (XI (XI (XI
    (XO (XO (XO (XI (XO (XI (XO XH)))))))))))), (Npos (XI (XO (XO (XO (XI (XO
    (XO (XI (XO (XI (XO XH))))))))))))), (Npos XH)) :: ((((Npos (XI (XI (XO
    (XO (XI (XO (XO (XI (XO (XI (XO XH)))))))))))), (Npos (XO (XO (XO (XI (XO
    (XI (XO (XI (XO (XI (XO XH))))))))))))), (Npos XH)) :: ((((Npos (XO (XI
    (XO (XI (XO (XI (XO (XI (XO (XI (XO XH)))))))))))), (Npos (XO (XO (XO (XO
    (XI (XI (XO (XI (XO (XI (XO XH))))))))))))), (Npos XH)) :: ((((Npos (XO
    (XI (XO (XO (XI (XI (XO (XI (XO (XI (XO XH)))))))))))), (Npos (XI (XI (XO
    (XO (XI (XI (XO (XI (XO (XI (XO XH))))))))))))), (Npos XH)) :: ((((Npos
    (XI (XO (XI (XO (XI (XI (XO (XI (XO (XI (XO XH)))))))))))), (Npos (XI (XO
    (XO (XI (XI (XI (XO (XI (XO (XI (XO XH))))))))))))), (Npos
    XH)) :: ((((Npos (XI (XO (XI (XI (XI (XI (XO (XI (XO (XI (XO
    XH)))))))))))), (Npos (XO (XO (XO (XO (XO (XI (XI (XI (XO (XI (XO
    XH))))))))))))), (Npos (XI (XI (XO (XO (XO XH))))))) :: ((((Npos (XI (XO
    (XI (XO (XO (XO (XO (XO (XI (XI (XO XH)))))))))))), (Npos (XO (XO (XI (XI
    (XO (XO (XO (XO (XI (XI (XO XH))))))))))))), (Npos XH)) :: ((((Npos (XI
    (XI (XI (XI (XO (XO (XO (XO (XI (XI (XO XH)))))))))))), (Npos (XO (XO (XO
    (XO (XI (XO (XO (XO (XI (XI (XO XH))))))))))))), (Npos XH)) :: ((((Npos
    (XI (XI (XO (XO (XI (XO (XO (XO (XI (XI (XO XH)))))))))))), (Npos (XO (XO
    (XO (XI (XO (XI (XO (XO (XI (XI (XO XH))))))))))))), (Npos
    XH)) :: ((((Npos (XO (XI (XO (XI (XO (XI (XO (XO (XI (XI (XO
    XH)))))))))))), (Npos (XO (XO (XO (XO (XI (XI (XO (XO (XI (XI (XO
    XH))))))))))))), (Npos XH)) :: ((((Npos (XO (XI (XO (XO (XI (XI (XO (XO
    (XI (XI (XO XH)))))))))))), (Npos (XI (XI (XO (XO (XI (XI (XO (XO (XI (XI
    (XO XH))))))))))))), (Npos XH)) :: ((((Npos (XO (XI (XI (XO (XI (XI (XO
    (XO (XI (XI (XO XH)))))))))))), (Npos (XI (XO (XO (XI (XI (XI (XO (XO (XI
    (XI (XO XH))))))))))))), (Npos XH)) :: ((((Npos (XI (XO (XI (XI (XI (XI
    (XO (XO (XI (XI (XO XH)))))))))))), (Npos (XI (XO (XI (XI (XI (XI (XO (XO
    (XI (XI (XO XH))))))))))))), (Npos XH)) :: ((((Npos (XO (XO (XI (XI (XI
    (XO (XI (XO (XI (XI (XO XH)))))))))))), (Npos (XI (XO (XI (XI (XI (XO (XI
    (XO (XI (XI (XO XH))))))))))))), (Npos XH)) :: ((((Npos (XI (XI (XI (XI
    (XI (XO (XI (XO (XI (XI (XO XH)))))))))))), (Npos (XI (XO (XO (XO (XO (XI
    (XI (XO (XI (XI (XO XH))))))))))))), (Npos XH)) :: ((((Npos (XI (XO (XI
    (XO (XO (XO (XO (XI (XI (XI (XO XH)))))))))))), (Npos (XO (XI (XO (XI (XO
    (XO (XO (XI (XI (XI (XO XH))))))))))))), (Npos XH)) :: ((((Npos (XO (XI
    (XI (XI (XO (XO (XO (XI (XI (XI (XO XH)))))))))))), (Npos (XO (XO (XO (XO
    (XI (XO (XO (XI (XI (XI (XO XH))))))))))))), (Npos XH)) :: ((((Npos (XO
    (XI (XO (XO (XI (XO (XO (XI (XI (XI (XO XH)))))))))))), (Npos (XI (XO (XI
    (XO (XI (XO (XO (XI (XI (XI (XO XH))))))))))))), (Npos XH)) :: ((((Npos
    (XI (XO (XO (XI (XI (XO (XO (XI (XI (XI (XO XH)))))))))))), (Npos (XO (XI
    (XO (XI (XI (XO (XO (XI (XI (XI (XO XH))))))))))))), (Npos
    XH)) :: ((((Npos (XO (XO (XI (XI (XI (XO (XO (XI (XI (XI (XO
    XH)))))))))))), (Npos (XO (XO (XI (XI (XI (XO (XO (XI (XI (XI (XO
    XH))))))))))))), (Npos XH)) :: ((((Npos (XO (XI (XI (XI (XI (XO (XO (XI
    (XI (XI (XO XH)))))))))))), (Npos (XI (XI (XI (XI (XI (XO (XO (XI (XI (XI
    (XO XH))))))))))))), (Npos XH)) :: ((((Npos (XI (XI (XO (XO (XO (XI (XO
    (XI (XI (XI (XO XH)))))))))))), (Npos (XO (XO (XI (XO (XO (XI (XO (XI (XI
    (XI (XO XH))))))))))))), (Npos XH)) :: ((((Npos (XO (XO (XO (XI (XO (XI
    (XO (XI (XI (XI (XO XH)))))))))))), (Npos (XO (XI (XO (XI (XO (XI (XO (XI
    (XI (XI (XO XH))))))))))))), (Npos XH)) :: ((((Npos (XO (XI (XI (XI (XO
    (XI (XO (XI (XI (XI (XO XH)))))))))))), (Npos (XI (XO (XI (XO (XI (XI (XO
    (XI (XI (XI (XO XH))))))))))))), (Npos XH)) :: ((((Npos (XI (XI (XI (XO
    (XI (XI (XO (XI (XI (XI (XO XH)))))))))))), (Npos (XI (XO (XO (XI (XI (XI
    (XO (XI (XI (XI (XO XH))))))))))))), (Npos XH)) :: ((((Npos (XI (XO (XI
    (XO (XO (XO (XO (XO (XO (XO (XI XH)))))))))))), (Npos (XO (XO (XI (XI (XO
    (XO (XO (XO (XO (XO (XI XH))))))))))))), (Npos XH)) :: ((((Npos (XO (XI
    (XI (XI (XO (XO (XO (XO (XO (XO (XI XH)))))))))))), (Npos (XO (XO (XO (XO
    (XI (XO (XO (XO (XO (XO (XI XH))))))))))))), (Npos XH)) :: ((((Npos (XO
    (XI (XO (XO (XI (XO (XO (XO (XO (XO (XI XH)))))))))))), (Npos (XO (XO (XO
    (XI (XO (XI (XO (XO (XO (XO (XI XH))))))))))))), (Npos XH)) :: ((((Npos
    (XO (XI (XO (XI (XO (XI (XO (XO (XO (XO (XI XH)))))))))))), (Npos (XI (XI
    (XO (XO (XI (XI (XO (XO (XO (XO (XI XH))))))))))))), (Npos
    XH)) :: ((((Npos (XI (XO (XI (XO (XI (XI (XO (XO (XO (XO (XI
    XH)))))))))))), (Npos (XI (XO (XO (XI (XI (XI (XO (XO (XO (XO (XI
    XH))))))))))))), (Npos XH)) :: ((((Npos (XO (XO (XO (XO (XO (XI (XI (XO
    (XO (XO (XI XH)))))))))))), (Npos (XI (XO (XO (XO (XO (XI (XI (XO (XO (XO
    (XI XH))))))))))))), (Npos XH)) :: ((((Npos (XI (XO (XI (XO (XO (XO (XO
    (XI (XO (XO (XI XH)))))))))))), (Npos (XO (XO (XI (XI (XO (XO (XO (XI (XO
    (XO (XI XH))))))))))))), (Npos XH)) :: ((((Npos (XO (XI (XI (XI (XO (XO
    (XO (XI (XO (XO (XI XH)))))))))))), (Npos (XO (XO (XO (XO (XI (XO (XO (XI
    (XO (XO (XI XH))))))))))))), (Npos XH)) :: ((((Npos (XO (XI (XO (XO (XI
    (XO (XO (XI (XO (XO (XI XH)))))))))))), (Npos (XO (XO (XO (XI (XO (XI (XO
    (XI (XO (XO (XI XH))))))))))))), (Npos XH)) :: ((((Npos (XO (XI (XO (XI
    (XO (XI (XO (XI (XO (XO (XI XH)))))))))))), (Npos (XI (XI (XO (XO (XI (XI
    (XO (XI (XO (XO (XI XH))))))))))))), (Npos XH)) :: ((((Npos (XI (XO (XI
    (XO (XI (XI (XO (XI (XO (XO (XI XH)))))))))))), (Npos (XI (XO (XO (XI (XI
    (XI (XO (XI (XO (XO (XI XH))))))))))))), (Npos XH)) :: ((((Npos (XO (XI
    (XI (XI (XI (XO (XI (XI (XO (XO (XI XH)))))))))))), (Npos (XO (XI (XI (XI
    (XI (XO (XI (XI (XO (XO (XI XH))))))))))))), (Npos XH)) :: ((((Npos (XO
    (XO (XO (XO (XO (XI (XI (XI (XO (XO (XI XH)))))))))))), (Npos (XI (XO (XO
    (XO (XO (XI (XI (XI (XO (XO (XI XH))))))))))))), (Npos XH)) :: ((((Npos
    (XI (XO (XI (XO (XO (XO (XO (XO (XI (XO (XI XH)))))))))))), (Npos (XO (XO
    (XI (XI (XO (XO (XO (XO (XI (XO (XI XH))))))))))))), (Npos
    XH)) :: ((((Npos (XO (XI (XI (XI (XO (XO (XO (XO (XI (XO (XI
    XH)))))))))))), (Npos (XO (XO (XO (XO (XI (XO (XO (XO (XI (XO (XI
    XH))))))))))))), (Npos XH)) :: ((((Npos (XO (XI (XO (XO (XI (XO (XO (XO
    (XI (XO (XI XH)))))))))))), (Npos (XO (XO (XO (XI (XO (XI (XO (XO (XI (XO
    (XI XH))))))))))))), (Npos XH)) :: ((((Npos (XO (XI (XO (XI (XO (XI (XO
    (XO (XI (XO (XI XH)))))))))))), (Npos (XI (XO (XO (XI (XI (XI (XO (XO (XI
    (XO (XI XH))))))))))))), (Npos XH)) :: ((((Npos (XO (XO (XO (XO (XO (XI
    (XI (XO (XI (XO (XI XH)))))))))))), (Npos (XI (XO (XO (XO (XO (XI (XI (XO
    (XI (XO (XI XH))))))))))))), (Npos XH)) :: ((((Npos (XI (XO (XO (XO (XO
    (XO (XO (XO (XO (XI (XI XH)))))))))))), (Npos (XO (XI (XI (XI (XO (XI (XO
    (XO (XO (XI (XI XH))))))))))))), (Npos XH)) :: ((((Npos (XO (XO (XO (XO
    (XI (XI (XO (XO (XO (XI (XI XH)))))))))))), (Npos (XO (XO (XO (XO (XI (XI
    (XO (XO (XO (XI (XI XH))))))))))))), (Npos XH)) :: ((((Npos (XO (XI (XO
    (XO (XI (XI (XO (XO (XO (XI (XI XH)))))))))))), (Npos (XI (XI (XO (XO (XI
    (XI (XO (XO (XO (XI (XI XH))))))))))))), (Npos XH)) :: ((((Npos (XO (XO
    (XO (XO (XO (XO (XI (XO (XO (XI (XI XH)))))))))))), (Npos (XI (XO (XI (XO
    (XO (XO (XI (XO (XO (XI (XI XH))))))))))))), (Npos XH)) :: ((((Npos (XI
    (XO (XO (XO (XO (XO (XO (XI (XO (XI (XI XH)))))))))))), (Npos (XO (XI (XO
    (XO (XO (XO (XO (XI (XO (XI (XI XH))))))))))))), (Npos XH)) :: ((((Npos
    (XO (XO (XI (XO (XO (XO (XO (XI (XO (XI (XI XH)))))))))))), (Npos (XO (XO
    (XI (XO (XO (XO (XO (XI (XO (XI (XI XH))))))))))))), (Npos
    XH)) :: ((((Npos (XI (XI (XI (XO (XO (XO (XO (XI (XO (XI (XI
    XH)))))))))))), (Npos (XO (XO (XO (XI (XO (XO (XO (XI (XO (XI (XI
    XH))))))))))))), (Npos XH)) :: ((((Npos (XO (XI (XO (XI (XO (XO (XO (XI
    (XO (XI (XI XH)))))))))))), (Npos (XI (XO (XI (XI (XO (XO (XO (XI (XO (XI
    (XI XH))))))))))))), (Npos (XI XH))) :: ((((Npos (XO (XO (XI (XO (XI (XO
    (XO (XI (XO (XI (XI XH)))))))))))), (Npos (XI (XI (XI (XO (XI (XO (XO (XI
    (XO (XI (XI XH))))))))))))), (Npos XH)) :: ((((Npos (XI (XO (XO (XI (XI
    (XO (XO (XI (XO (XI (XI XH)))))))))))), (Npos (XI (XI (XI (XI (XI (XO (XO
    (XI (XO (XI (XI XH))))))))))))), (Npos XH)) :: ((((Npos (XI (XO (XO (XO
    (XO (XI (XO (XI (XO (XI (XI XH)))))))))))), (Npos (XI (XI (XO (XO (XO (XI
    (XO (XI (XO (XI (XI XH))))))))))))), (Npos XH)) :: ((((Npos (XI (XO (XI
    (XO (XO (XI (XO (XI (XO (XI (XI XH)))))))))))), (Npos (XI (XI (XI (XO (XO
    (XI (XO (XI (XO (XI (XI XH))))))))))))), (Npos (XO XH))) :: ((((Npos (XO
    (XI (XO (XI (XO (XI (XO (XI (XO (XI (XI XH)))))))))))), (Npos (XI (XI (XO
    (XI (XO (XI (XO (XI (XO (XI (XI XH))))))))))))), (Npos XH)) :: ((((Npos
    (XI (XO (XI (XI (XO (XI (XO (XI (XO (XI (XI XH)))))))))))), (Npos (XO (XI
    (XI (XI (XO (XI (XO (XI (XO (XI (XI XH))))))))))))), (Npos
    XH)) :: ((((Npos (XO (XO (XO (XO (XI (XI (XO (XI (XO (XI (XI
    XH)))))))))))), (Npos (XO (XO (XO (XO (XI (XI (XO (XI (XO (XI (XI
    XH))))))))))))), (Npos XH)) :: ((((Npos (XO (XI (XO (XO (XI (XI (XO (XI
    (XO (XI (XI XH)))))))))))), (Npos (XI (XI (XO (XO (XI (XI (XO (XI (XO (XI
    (XI XH))))))))))))), (Npos XH)) :: ((((Npos (XI (XO (XI (XI (XI (XI (XO
    (XI (XO (XI (XI XH)))))))))))), (Npos (XI (XO (XI (XI (XI (XI (XO (XI (XO
    (XI (XI XH))))))))))))), (Npos XH)) :: ((((Npos (XO (XO (XO (XO (XO (XO
    (XI (XI (XO (XI (XI XH)))))))))))), (Npos (XO (XO (XI (XO (XO (XO (XI (XI
    (XO (XI (XI XH))))))))))))), (Npos XH)) :: ((((Npos (XO (XO (XO (XO (XO
    (XO (XI (XO (XI (XI (XI XH)))))))))))), (Npos (XI (XI (XI (XO (XO (XO (XI
    (XO (XI (XI (XI XH))))))))))))), (Npos XH)) :: ((((Npos (XI (XO (XO (XI
    (XO (XO (XI (XO (XI (XI (XI XH)))))))))))), (Npos (XI (XO (XO (XI (XO (XI
    (XI (XO (XI (XI (XI XH))))))))))))), (Npos XH)) :: ((((Npos (XO (XO (XO
    (XO (XO (XI (XO (XI (XO (XO (XO (XO XH))))))))))))), (Npos (XI (XO (XI
    (XO (XO (XO (XI (XI (XO (XO (XO (XO XH)))))))))))))), (Npos
    XH)) :: ((((Npos (XO (XO (XO (XO (XI (XO (XI (XI (XO (XO (XO (XO
    XH))))))))))))), (Npos (XO (XI (XI (XO (XI (XI (XI (XI (XO (XO (XO (XO
    XH)))))))))))))), (Npos XH)) :: ((((Npos (XO (XO (XO (XO (XO (XO (XO (XO
    (XI (XO (XO (XO XH))))))))))))), (Npos (XO (XO (XO (XO (XO (XO (XO (XO
    (XI (XO (XO (XO XH)))))))))))))), (Npos XH)) :: ((((Npos (XO (XI (XO (XO
    (XO (XO (XO (XO (XI (XO (XO (XO XH))))))))))))), (Npos (XI (XI (XO (XO
    (XO (XO (XO (XO (XI (XO (XO (XO XH)))))))))))))), (Npos XH)) :: ((((Npos
    (XI (XO (XI (XO (XO (XO (XO (XO (XI (XO (XO (XO XH))))))))))))), (Npos
    (XI (XI (XI (XO (XO (XO (XO (XO (XI (XO (XO (XO XH)))))))))))))), (Npos
    XH)) :: ((((Npos (XI (XO (XO (XI (XO (XO (XO (XO (XI (XO (XO (XO
    XH))))))))))))), (Npos (XI (XO (XO (XI (XO (XO (XO (XO (XI (XO (XO (XO
    XH)))))))))))))), (Npos XH)) :: ((((Npos (XI (XI (XO (XI (XO (XO (XO (XO
    (XI (XO (XO (XO XH))))))))))))), (Npos (XO (XO (XI (XI (XO (XO (XO (XO
    (XI (XO (XO (XO XH)))))))))))))), (Npos XH)) :: ((((Npos (XO (XI (XI (XI
    (XO (XO (XO (XO (XI (XO (XO (XO XH))))))))))))), (Npos (XO (XI (XO (XO
    (XI (XO (XO (XO (XI (XO (XO (XO XH)))))))))))))), (Npos XH)) :: ((((Npos
    (XO (XO (XI (XI (XI (XI (XO (XO (XI (XO (XO (XO XH))))))))))))), (Npos
    (XO (XO (XO (XO (XO (XO (XI (XO (XI (XO (XO (XO XH)))))))))))))), (Npos
    (XO XH))) :: ((((Npos (XO (XO (XI (XI (XO (XO (XI (XO (XI (XO (XO (XO
    XH))))))))))))), (Npos (XO (XO (XO (XO (XI (XO (XI (XO (XI (XO (XO (XO
    XH)))))))))))))), (Npos (XO XH))) :: ((((Npos (XO (XO (XI (XO (XI (XO (XI
    (XO (XI (XO (XO (XO XH))))))))))))), (Npos (XI (XO (XI (XO (XI (XO (XI
    (XO (XI (XO (XO (XO XH)))))))))))))), (Npos XH)) :: ((((Npos (XI (XO (XO
    (XI (XI (XO (XI (XO (XI (XO (XO (XO XH))))))))))))), (Npos (XI (XO (XO
    (XI (XI (XO (XI (XO (XI (XO (XO (XO XH)))))))))))))), (Npos
    XH)) :: ((((Npos (XI (XI (XI (XI (XI (XO (XI (XO (XI (XO (XO (XO
    XH))))))))))))), (Npos (XI (XO (XO (XO (XO (XI (XI (XO (XI (XO (XO (XO
    XH)))))))))))))), (Npos XH)) :: ((((Npos (XI (XI (XO (XO (XO (XI (XI (XO
    (XI (XO (XO (XO XH))))))))))))), (Npos (XI (XO (XO (XI (XO (XI (XI (XO
    (XI (XO (XO (XO XH)))))))))))))), (Npos (XO XH))) :: ((((Npos (XI (XO (XI
    (XI (XO (XI (XI (XO (XI (XO (XO (XO XH))))))))))))), (Npos (XO (XI (XI
    (XI (XO (XI (XI (XO (XI (XO (XO (XO XH)))))))))))))), (Npos
    XH)) :: ((((Npos (XO (XI (XO (XO (XI (XI (XI (XO (XI (XO (XO (XO
    XH))))))))))))), (Npos (XI (XI (XO (XO (XI (XI (XI (XO (XI (XO (XO (XO
    XH)))))))))))))), (Npos XH)) :: ((((Npos (XI (XO (XI (XO (XI (XI (XI (XO
    (XI (XO (XO (XO XH))))))))))))), (Npos (XO (XI (XI (XI (XI (XO (XO (XI
    (XI (XO (XO (XO XH)))))))))))))), (Npos (XI (XO (XO (XI (XO
    XH))))))) :: ((((Npos (XO (XO (XO (XI (XO (XI (XO (XI (XI (XO (XO (XO
    XH))))))))))))), (Npos (XI (XI (XO (XI (XO (XI (XO (XI (XI (XO (XO (XO
    XH)))))))))))))), (Npos (XI XH))) :: ((((Npos (XO (XI (XI (XI (XO (XI (XO
    (XI (XI (XO (XO (XO XH))))))))))))), (Npos (XI (XI (XI (XI (XO (XI (XO
    (XI (XI (XO (XO (XO XH)))))))))))))), (Npos XH)) :: ((((Npos (XI (XI (XI
    (XO (XI (XI (XO (XI (XI (XO (XO (XO XH))))))))))))), (Npos (XO (XO (XO
    (XI (XI (XI (XO (XI (XI (XO (XO (XO XH)))))))))))))), (Npos
    XH)) :: ((((Npos (XO (XI (XO (XI (XI (XI (XO (XI (XI (XO (XO (XO
    XH))))))))))))), (Npos (XO (XI (XO (XI (XI (XI (XO (XI (XI (XO (XO (XO
    XH)))))))))))))), (Npos XH)) :: ((((Npos (XO (XO (XI (XI (XI (XI (XO (XI
    (XI (XO (XO (XO XH))))))))))))), (Npos (XO (XI (XO (XO (XO (XO (XI (XI
    (XI (XO (XO (XO XH)))))))))))))), (Npos XH)) :: ((((Npos (XI (XI (XO (XI
    (XO (XI (XI (XI (XI (XO (XO (XO XH))))))))))))), (Npos (XO (XO (XO (XO
    (XI (XI (XI (XI (XI (XO (XO (XO XH)))))))))))))), (Npos (XI (XO
    XH)))) :: ((((Npos (XI (XO (XO (XI (XI (XI (XI (XI (XI (XO (XO (XO
    XH))))))))))))), (Npos (XI (XO (XO (XI (XI (XI (XI (XI (XI (XO (XO (XO
    XH)))))))))))))), (Npos XH)) :: ((((Npos (XO (XO (XO (XO (XO (XO (XO (XO
    (XO (XI (XI (XI XH))))))))))))), (Npos (XI (XI (XO (XI (XI (XO (XO (XI
    (XO (XI (XI (XI XH)))))))))))))), (Npos XH)) :: ((((Npos (XO (XO (XO (XO
    (XO (XI (XO (XI (XO (XI (XI (XI XH))))))))))))), (Npos (XI (XO (XO (XI
    (XI (XI (XI (XI (XO (XI (XI (XI XH)))))))))))))), (Npos XH)) :: ((((Npos
    (XO (XO (XO (XO (XO (XO (XO (XO (XI (XI (XI (XI XH))))))))))))), (Npos
    (XI (XO (XI (XO (XI (XO (XO (XO (XI (XI (XI (XI XH)))))))))))))), (Npos
    XH)) :: ((((Npos (XO (XO (XO (XI (XI (XO (XO (XO (XI (XI (XI (XI
    XH))))))))))))), (Npos (XI (XO (XI (XI (XI (XO (XO (XO (XI (XI (XI (XI
    XH)))))))))))))), (Npos XH)) :: ((((Npos (XO (XO (XO (XO (XO (XI (XO (XO
    (XI (XI (XI (XI XH))))))))))))), (Npos (XI (XO (XI (XO (XO (XO (XI (XO
    (XI (XI (XI (XI XH)))))))))))))), (Npos XH)) :: ((((Npos (XO (XO (XO (XI
    (XO (XO (XI (XO (XI (XI (XI (XI XH))))))))))))), (Npos (XI (XO (XI (XI
    (XO (XO (XI (XO (XI (XI (XI (XI XH)))))))))))))), (Npos XH)) :: ((((Npos
    (XO (XO (XO (XO (XI (XO (XI (XO (XI (XI (XI (XI XH))))))))))))), (Npos
    (XI (XI (XI (XO (XI (XO (XI (XO (XI (XI (XI (XI XH)))))))))))))), (Npos
    XH)) :: ((((Npos (XI (XO (XO (XI (XI (XO (XI (XO (XI (XI (XI (XI
    XH))))))))))))), (Npos (XI (XI (XO (XI (XI (XO (XI (XO (XI (XI (XI (XI
    XH)))))))))))))), (Npos (XO XH))) :: ((((Npos (XI (XO (XI (XI (XI (XO (XI
    (XO (XI (XI (XI (XI XH))))))))))))), (Npos (XI (XO (XI (XI (XI (XO (XI
    (XO (XI (XI (XI (XI XH)))))))))))))), (Npos XH)) :: ((((Npos (XI (XI (XI
    (XI (XI (XO (XI (XO (XI (XI (XI (XI XH))))))))))))), (Npos (XI (XO (XI
    (XI (XI (XI (XI (XO (XI (XI (XI (XI XH)))))))))))))), (Npos
    XH)) :: ((((Npos (XO (XO (XO (XO (XO (XO (XO (XI (XI (XI (XI (XI
    XH))))))))))))), (Npos (XO (XO (XI (XO (XI (XI (XO (XI (XI (XI (XI (XI
    XH)))))))))))))), (Npos XH)) :: ((((Npos (XO (XI (XI (XO (XI (XI (XO (XI
    (XI (XI (XI (XI XH))))))))))))), (Npos (XO (XO (XI (XI (XI (XI (XO (XI
    (XI (XI (XI (XI XH)))))))))))))), (Npos XH)) :: ((((Npos (XO (XI (XI (XI
    (XI (XI (XO (XI (XI (XI (XI (XI XH))))))))))))), (Npos (XO (XI (XI (XI
    (XI (XI (XO (XI (XI (XI (XI (XI XH)))))))))))))), (Npos XH)) :: ((((Npos
    (XO (XI (XO (XO (XO (XO (XI (XI (XI (XI (XI (XI XH))))))))))))), (Npos
    (XO (XO (XI (XO (XO (XO (XI (XI (XI (XI (XI (XI XH)))))))))))))), (Npos
    XH)) :: ((((Npos (XO (XI (XI (XO (XO (XO (XI (XI (XI (XI (XI (XI
    XH))))))))))))), (Npos (XO (XO (XI (XI (XO (XO (XI (XI (XI (XI (XI (XI
    XH)))))))))))))), (Npos XH)) :: ((((Npos (XO (XO (XO (XO (XI (XO (XI (XI
    (XI (XI (XI (XI XH))))))))))))), (Npos (XI (XI (XO (XO (XI (XO (XI (XI
    (XI (XI (XI (XI XH)))))))))))))), (Npos XH)) :: ((((Npos (XO (XI (XI (XO
    (XI (XO (XI (XI (XI (XI (XI (XI XH))))))))))))), (Npos (XI (XI (XO (XI
    (XI (XO (XI (XI (XI (XI (XI (XI XH)))))))))))))), (Npos XH)) :: ((((Npos
    (XO (XO (XO (XO (XO (XI (XI (XI (XI (XI (XI (XI XH))))))))))))), (Npos
    (XO (XO (XI (XI (XO (XI (XI (XI (XI (XI (XI (XI XH)))))))))))))), (Npos
    XH)) :: ((((Npos (XO (XI (XO (XO (XI (XI (XI (XI (XI (XI (XI (XI
    XH))))))))))))), (Npos (XO (XO (XI (XO (XI (XI (XI (XI (XI (XI (XI (XI
    XH)))))))))))))), (Npos XH)) :: ((((Npos (XO (XI (XI (XO (XI (XI (XI (XI
    (XI (XI (XI (XI XH))))))))))))), (Npos (XO (XO (XI (XI (XI (XI (XI (XI
    (XI (XI (XI (XI XH)))))))))))))), (Npos XH)) :: ((((Npos (XO (XI (XI (XO
    (XO (XI (XO (XO (XI (XO (XO (XO (XO XH)))))))))))))), (Npos (XO (XI (XI
    (XO (XO (XI (XO (XO (XI (XO (XO (XO (XO XH))))))))))))))), (Npos
    XH)) :: ((((Npos (XO (XI (XO (XI (XO (XI (XO (XO (XI (XO (XO (XO (XO
    XH)))))))))))))), (Npos (XI (XI (XO (XI (XO (XI (XO (XO (XI (XO (XO (XO
    (XO XH))))))))))))))), (Npos XH)) :: ((((Npos (XO (XI (XI (XI (XO (XI (XO
    (XO (XI (XO (XO (XO (XO XH)))))))))))))), (Npos (XO (XI (XI (XI (XO (XI
    (XO (XO (XI (XO (XO (XO (XO XH))))))))))))))), (Npos XH)) :: ((((Npos (XO
    (XO (XO (XO (XO (XO (XO (XI (XI (XO (XO (XO (XO XH)))))))))))))), (Npos
    (XO (XI (XO (XO (XO (XO (XO (XI (XI (XO (XO (XO (XO XH))))))))))))))),
    (Npos XH)) :: ((((Npos (XI (XI (XI (XO (XO (XO (XO (XO (XO (XO (XO (XO
    (XI XH)))))))))))))), (Npos (XI (XI (XI (XO (XO (XO (XO (XO (XO (XO (XO
    (XO (XI XH))))))))))))))), (Npos XH)) :: ((((Npos (XI (XO (XO (XO (XO (XI
    (XO (XO (XO (XO (XO (XO (XI XH)))))))))))))), (Npos (XI (XO (XO (XI (XO
    (XI (XO (XO (XO (XO (XO (XO (XI XH))))))))))))))), (Npos XH)) :: ((((Npos
    (XI (XO (XO (XO (XO (XO (XI (XO (XO (XO (XO (XO (XI XH)))))))))))))),
    (Npos (XO (XO (XI (XO (XI (XO (XO (XI (XO (XO (XO (XO (XI
    XH))))))))))))))), (Npos XH)) :: ((((Npos (XI (XO (XO (XO (XO (XI (XO (XI
    (XO (XO (XO (XO (XI XH)))))))))))))), (Npos (XO (XI (XO (XI (XI (XI (XI
    (XI (XO (XO (XO (XO (XI XH))))))))))))))), (Npos XH)) :: ((((Npos (XI (XO
    (XI (XO (XO (XO (XO (XO (XI (XO (XO (XO (XI XH)))))))))))))), (Npos (XO
    (XO (XI (XI (XO (XI (XO (XO (XI (XO (XO (XO (XI XH))))))))))))))), (Npos
    XH)) :: ((((Npos (XO (XO (XO (XO (XO (XO (XO (XO (XO (XI (XI (XI (XO (XO
    XH))))))))))))))), (Npos (XI (XO (XI (XO (XO (XI (XO (XI (XI (XI (XI (XI
    (XI (XO (XO XH))))))))))))))))), (Npos XH)) :: ((((Npos (XO (XO (XO (XO
    (XO (XO (XO (XO (XO (XO (XI (XI (XO (XI (XO XH)))))))))))))))), (Npos (XI
    (XI (XO (XO (XO (XI (XO (XI (XI (XI (XI (XO (XI (XO (XI
    XH))))))))))))))))), (Npos
    XH)) :: [])))))))))))))))))))))))))))))))))))))))))))))))))))))))))))))))))))))))))))))))))))))))))))))))))))))))))))))))))))))))))))))))))))))))))))))))))))))))))))))))))))))))))))))))))))))))))))))

(** val tbl_second : ((n * n) * n) list **)

let tbl_second =
  (((Npos (XI (XO (XI (XI (XO XH)))))), (Npos (XO (XI (XI (XI (XO XH))))))),
    (Npos XH)) :: ((((Npos (XO (XO (XO (XO (XI XH)))))), (Npos (XI (XO (XO
    (XI (XI XH))))))), (Npos XH)) :: ((((Npos (XI (XI (XI (XO (XI (XI (XO
    XH)))))))), (Npos (XI (XI (XI (XO (XI (XI (XO XH))))))))), (Npos
    XH)) :: ((((Npos (XO (XO (XO (XO (XI (XO (XI (XI (XO XH)))))))))), (Npos
    (XI (XO (XO (XO (XI (XO (XI (XI (XO XH))))))))))), (Npos XH)) :: ((((Npos
    (XO (XO (XO (XO (XO (XO (XO (XO (XI XH)))))))))), (Npos (XI (XO (XI (XO
    (XO (XO (XI (XO (XI XH))))))))))), (Npos XH)) :: ((((Npos (XO (XO (XO (XO
    (XO (XI (XI (XO (XI XH)))))))))), (Npos (XI (XO (XO (XO (XO (XI (XI (XO
    (XI XH))))))))))), (Npos XH)) :: ((((Npos (XI (XI (XI (XO (XO (XO (XO (XI
    (XI XH)))))))))), (Npos (XI (XI (XI (XO (XO (XO (XO (XI (XI
    XH))))))))))), (Npos XH)) :: ((((Npos (XI (XI (XO (XO (XO (XO (XO (XI (XO
    (XO XH))))))))))), (Npos (XO (XI (XI (XO (XO (XO (XO (XI (XO (XO
    XH)))))))))))), (Npos XH)) :: ((((Npos (XI (XO (XO (XO (XI (XO (XO (XI
    (XI (XO XH))))))))))), (Npos (XI (XO (XO (XO (XO (XI (XO (XI (XI (XO
    XH)))))))))))), (Npos XH)) :: ((((Npos (XI (XI (XO (XO (XO (XI (XO (XI
    (XI (XO XH))))))))))), (Npos (XI (XO (XO (XI (XI (XI (XO (XI (XI (XO
    XH)))))))))))), (Npos XH)) :: ((((Npos (XI (XI (XO (XI (XI (XI (XO (XI
    (XI (XO XH))))))))))), (Npos (XI (XO (XI (XI (XI (XI (XO (XI (XI (XO
    XH)))))))))))), (Npos XH)) :: ((((Npos (XI (XI (XI (XI (XI (XI (XO (XI
    (XI (XO XH))))))))))), (Npos (XI (XI (XI (XI (XI (XI (XO (XI (XI (XO
    XH)))))))))))), (Npos XH)) :: ((((Npos (XI (XO (XO (XO (XO (XO (XI (XI
    (XI (XO XH))))))))))), (Npos (XO (XI (XO (XO (XO (XO (XI (XI (XI (XO
    XH)))))))))))), (Npos XH)) :: ((((Npos (XO (XO (XI (XO (XO (XO (XI (XI
    (XI (XO XH))))))))))), (Npos (XO (XO (XO (XO (XO (XO (XI (XO (XO (XI
    XH)))))))))))), (Npos (XO (XO (XI (XI (XI (XI XH)))))))) :: ((((Npos (XI
    (XI (XO (XI (XO (XO (XI (XO (XO (XI XH))))))))))), (Npos (XO (XI (XO (XO
    (XI (XO (XI (XO (XO (XI XH)))))))))))), (Npos XH)) :: ((((Npos (XO (XO
    (XO (XO (XO (XI (XI (XO (XO (XI XH))))))))))), (Npos (XI (XO (XO (XI (XO
    (XI (XI (XO (XO (XI XH)))))))))))), (Npos XH)) :: ((((Npos (XO (XO (XO
    (XO (XI (XI (XI (XO (XO (XI XH))))))))))), (Npos (XO (XO (XO (XO (XI (XI
    (XI (XO (XO (XI XH)))))))))))), (Npos XH)) :: ((((Npos (XO (XI (XI (XO
    (XI (XO (XI (XI (XO (XI XH))))))))))), (Npos (XO (XO (XI (XI (XI (XO (XI
    (XI (XO (XI XH)))))))))))), (Npos XH)) :: ((((Npos (XI (XO (XI (XI (XI
    (XO (XI (XI (XO (XI XH))))))))))), (Npos (XI (XI (XI (XI (XI (XO (XI (XI
    (XO (XI XH)))))))))))), (Npos XH)) :: ((((Npos (XO (XO (XO (XO (XO (XI
    (XI (XI (XO (XI XH))))))))))), (Npos (XO (XO (XI (XO (XO (XI (XI (XI (XO
    (XI XH)))))))))))), (Npos XH)) :: ((((Npos (XI (XI (XI (XO (XO (XI (XI
    (XI (XO (XI XH))))))))))), (Npos (XO (XO (XO (XI (XO (XI (XI (XI (XO (XI
    XH)))))))))))), (Npos XH)) :: ((((Npos (XO (XI (XO (XI (XO (XI (XI (XI
    (XO (XI XH))))))))))), (Npos (XI (XO (XI (XI (XO (XI (XI (XI (XO (XI
    XH)))))))))))), (Npos XH)) :: ((((Npos (XO (XO (XO (XO (XI (XI (XI (XI
    (XO (XI XH))))))))))), (Npos (XI (XO (XO (XI (XI (XI (XI (XI (XO (XI
    XH)))))))))))), (Npos XH)) :: ((((Npos (XI (XO (XO (XO (XO (XO (XO (XO
    (XI (XO (XO XH)))))))))))), (Npos (XI (XI (XO (XO (XO (XO (XO (XO (XI (XO
    (XO XH))))))))))))), (Npos XH)) :: ((((Npos (XO (XO (XI (XI (XI (XI (XO
    (XO (XI (XO (XO XH)))))))))))), (Npos (XO (XO (XI (XI (XI (XI (XO (XO (XI
    (XO (XO XH))))))))))))), (Npos XH)) :: ((((Npos (XO (XI (XI (XI (XI (XI
    (XO (XO (XI (XO (XO XH)))))))))))), (Npos (XO (XO (XI (XI (XO (XO (XI (XO
    (XI (XO (XO XH))))))))))))), (Npos XH)) :: ((((Npos (XI (XO (XI (XI (XO
    (XO (XI (XO (XI (XO (XO XH)))))))))))), (Npos (XI (XO (XI (XI (XO (XO (XI
    (XO (XI (XO (XO XH))))))))))))), (Npos XH)) :: ((((Npos (XI (XO (XO (XO
    (XI (XO (XI (XO (XI (XO (XO XH)))))))))))), (Npos (XO (XO (XI (XO (XI (XO
    (XI (XO (XI (XO (XO XH))))))))))))), (Npos XH)) :: ((((Npos (XO (XI (XO
    (XO (XO (XI (XI (XO (XI (XO (XO XH)))))))))))), (Npos (XI (XI (XO (XO (XO
    (XI (XI (XO (XI (XO (XO XH))))))))))))), (Npos XH)) :: ((((Npos (XO (XI
    (XI (XO (XO (XI (XI (XO (XI (XO (XO XH)))))))))))), (Npos (XI (XI (XI (XI
    (XO (XI (XI (XO (XI (XO (XO XH))))))))))))), (Npos XH)) :: ((((Npos (XI
    (XO (XO (XO (XO (XO (XO (XI (XI (XO (XO XH)))))))))))), (Npos (XI (XI (XO
    (XO (XO (XO (XO (XI (XI (XO (XO XH))))))))))))), (Npos XH)) :: ((((Npos
    (XO (XO (XI (XI (XI (XI (XO (XI (XI (XO (XO XH)))))))))))), (Npos (XO (XO
    (XI (XI (XI (XI (XO (XI (XI (XO (XO XH))))))))))))), (Npos
    XH)) :: ((((Npos (XO (XI (XI (XI (XI (XI (XO (XI (XI (XO (XO
    XH)))))))))))), (Npos (XI (XI (XI (XI (XI (XI (XO (XI (XI (XO (XO
    XH))))))))))))), (Npos XH)) :: ((((Npos (XO (XO (XO (XO (XO (XO (XI (XI
    (XI (XO (XO XH)))))))))))), (Npos (XO (XO (XI (XO (XO (XO (XI (XI (XI (XO
    (XO XH))))))))))))), (Npos XH)) :: ((((Npos (XI (XI (XI (XO (XO (XO (XI
    (XI (XI (XO (XO XH)))))))))))), (Npos (XO (XO (XO (XI (XO (XO (XI (XI (XI
    (XO (XO XH))))))))))))), (Npos XH)) :: ((((Npos (XI (XI (XO (XI (XO (XO
    (XI (XI (XI (XO (XO XH)))))))))))), (Npos (XI (XO (XI (XI (XO (XO (XI (XI
    (XI (XO (XO XH))))))))))))), (Npos XH)) :: ((((Npos (XI (XI (XI (XO (XI
    (XO (XI (XI (XI (XO (XO XH)))))))))))), (Npos (XI (XI (XI (XO (XI (XO (XI
    (XI (XI (XO (XO XH))))))))))))), (Npos XH)) :: ((((Npos (XO (XI (XO (XO
    (XO (XI (XI (XI (XI (XO (XO XH)))))))))))), (Npos (XI (XI (XO (XO (XO (XI
    (XI (XI (XI (XO (XO XH))))))))))))), (Npos XH)) :: ((((Npos (XO (XI (XI
    (XO (XO (XI (XI (XI (XI (XO (XO XH)))))))))))), (Npos (XI (XI (XI (XI (XO
    (XI (XI (XI (XI (XO (XO XH))))))))))))), (Npos XH)) :: ((((Npos (XO (XI
    (XO (XO (XO (XO (XO (XO (XO (XI (XO XH)))))))))))), (Npos (XO (XO (XI (XI
    (XI (XI (XO (XO (XO (XI (XO XH))))))))))))), (Npos (XO (XI (XO (XI (XI
    XH))))))) :: ((((Npos (XO (XI (XI (XI (XI (XI (XO (XO (XO (XI (XO
    XH)))))))))))), (Npos (XI (XI (XI (XI (XI (XI (XO (XO (XO (XI (XO
    XH))))))))))))), (Npos XH)) :: ((((Npos (XO (XO (XO (XO (XO (XO (XI (XO
    (XO (XI (XO XH)))))))))))), (Npos (XO (XI (XO (XO (XO (XO (XI (XO (XO (XI
    (XO XH))))))))))))), (Npos XH)) :: ((((Npos (XI (XI (XI (XO (XO (XO (XI
    (XO (XO (XI (XO XH)))))))))))), (Npos (XO (XO (XO (XI (XO (XO (XI (XO (XO
    (XI (XO XH))))))))))))), (Npos XH)) :: ((((Npos (XI (XI (XO (XI (XO (XO
    (XI (XO (XO (XI (XO XH)))))))))))), (Npos (XI (XO (XI (XI (XO (XO (XI (XO
    (XO (XI (XO XH))))))))))))), (Npos XH)) :: ((((Npos (XO (XI (XI (XO (XO
    (XI (XI (XO (XO (XI (XO XH)))))))))))), (Npos (XI (XI (XI (XI (XO (XI (XI
    (XO (XO (XI (XO XH))))))))))))), (Npos XH)) :: ((((Npos (XO (XO (XO (XO
    (XI (XI (XI (XO (XO (XI (XO XH)))))))))))), (Npos (XI (XO (XO (XO (XI (XI
    (XI (XO (XO (XI (XO XH))))))))))))), (Npos XH)) :: ((((Npos (XI (XO (XO
    (XO (XO (XO (XO (XI (XO (XI (XO XH)))))))))))), (Npos (XI (XI (XO (XO (XO
    (XO (XO (XI (XO (XI (XO XH))))))))))))), (Npos XH)) :: ((((Npos (XO (XO
    (XI (XI (XI (XI (XO (XI (XO (XI (XO XH)))))))))))), (Npos (XO (XO (XI (XI
    (XI (XI (XO (XI (XO (XI (XO XH))))))))))))), (Npos XH)) :: ((((Npos (XO
    (XI (XI (XI (XI (XI (XO (XI (XO (XI (XO XH)))))))))))), (Npos (XI (XO (XI
    (XO (XO (XO (XI (XI (XO (XI (XO XH))))))))))))), (Npos XH)) :: ((((Npos
    (XI (XI (XI (XO (XO (XO (XI (XI (XO (XI (XO XH)))))))))))), (Npos (XI (XO
    (XO (XI (XO (XO (XI (XI (XO (XI (XO XH))))))))))))), (Npos
    XH)) :: ((((Npos (XI (XI (XO (XI (XO (XO (XI (XI (XO (XI (XO
    XH)))))))))))), (Npos (XI (XO (XI (XI (XO (XO (XI (XI (XO (XI (XO
    XH))))))))))))), (Npos XH)) :: ((((Npos (XO (XI (XI (XO (XO (XI (XI (XI
    (XO (XI (XO XH)))))))))))), (Npos (XI (XI (XI (XI (XO (XI (XI (XI (XO (XI
    (XO XH))))))))))))), (Npos XH)) :: ((((Npos (XI (XO (XO (XO (XO (XO (XO
    (XO (XI (XI (XO XH)))))))))))), (Npos (XI (XI (XO (XO (XO (XO (XO (XO (XI
    (XI (XO XH))))))))))))), (Npos XH)) :: ((((Npos (XO (XO (XI (XI (XI (XI
    (XO (XO (XI (XI (XO XH)))))))))))), (Npos (XO (XO (XI (XI (XI (XI (XO (XO
    (XI (XI (XO XH))))))))))))), (Npos XH)) :: ((((Npos (XO (XI (XI (XI (XI
    (XI (XO (XO (XI (XI (XO XH)))))))))))), (Npos (XI (XI (XO (XO (XO (XO (XI
    (XO (XI (XI (XO XH))))))))))))), (Npos XH)) :: ((((Npos (XI (XI (XI (XO
    (XO (XO (XI (XO (XI (XI (XO XH)))))))))))), (Npos (XO (XO (XO (XI (XO (XO
    (XI (XO (XI (XI (XO XH))))))))))))), (Npos XH)) :: ((((Npos (XI (XI (XO
    (XI (XO (XO (XI (XO (XI (XI (XO XH)))))))))))), (Npos (XI (XO (XI (XI (XO
    (XO (XI (XO (XI (XI (XO XH))))))))))))), (Npos XH)) :: ((((Npos (XO (XI
    (XI (XO (XI (XO (XI (XO (XI (XI (XO XH)))))))))))), (Npos (XI (XI (XI (XO
    (XI (XO (XI (XO (XI (XI (XO XH))))))))))))), (Npos XH)) :: ((((Npos (XO
    (XI (XI (XO (XO (XI (XI (XO (XI (XI (XO XH)))))))))))), (Npos (XI (XI (XI
    (XI (XO (XI (XI (XO (XI (XI (XO XH))))))))))))), (Npos XH)) :: ((((Npos
    (XO (XI (XO (XO (XO (XO (XO (XI (XI (XI (XO XH)))))))))))), (Npos (XI (XI
    (XO (XO (XO (XO (XO (XI (XI (XI (XO XH))))))))))))), (Npos
    XH)) :: ((((Npos (XO (XI (XI (XI (XI (XI (XO (XI (XI (XI (XO
    XH)))))))))))), (Npos (XO (XI (XO (XO (XO (XO (XI (XI (XI (XI (XO
    XH))))))))))))), (Npos XH)) :: ((((Npos (XO (XI (XI (XO (XO (XO (XI (XI
    (XI (XI (XO XH)))))))))))), (Npos (XO (XO (XO (XI (XO (XO (XI (XI (XI (XI
    (XO XH))))))))))))), (Npos XH)) :: ((((Npos (XO (XI (XO (XI (XO (XO (XI
    (XI (XI (XI (XO XH)))))))))))), (Npos (XI (XO (XI (XI (XO (XO (XI (XI (XI
    (XI (XO XH))))))))))))), (Npos XH)) :: ((((Npos (XI (XI (XI (XO (XI (XO
    (XI (XI (XI (XI (XO XH)))))))))))), (Npos (XI (XI (XI (XO (XI (XO (XI (XI
    (XI (XI (XO XH))))))))))))), (Npos XH)) :: ((((Npos (XI (XI (XI (XO (XO
    (XI (XI (XI (XI (XI (XO XH)))))))))))), (Npos (XI (XI (XI (XI (XO (XI (XI
    (XI (XI (XI (XO XH))))))))))))), (Npos XH)) :: ((((Npos (XI (XO (XO (XO
    (XO (XO (XO (XO (XO (XO (XI XH)))))))))))), (Npos (XI (XI (XO (XO (XO (XO
    (XO (XO (XO (XO (XI XH))))))))))))), (Npos XH)) :: ((((Npos (XO (XI (XI
    (XI (XI (XI (XO (XO (XO (XO (XI XH)))))))))))), (Npos (XO (XO (XI (XO (XO
    (XO (XI (XO (XO (XO (XI XH))))))))))))), (Npos XH)) :: ((((Npos (XO (XI
    (XI (XO (XO (XO (XI (XO (XO (XO (XI XH)))))))))))), (Npos (XO (XO (XO (XI
    (XO (XO (XI (XO (XO (XO (XI XH))))))))))))), (Npos XH)) :: ((((Npos (XO
    (XI (XO (XI (XO (XO (XI (XO (XO (XO (XI XH)))))))))))), (Npos (XI (XO (XI
    (XI (XO (XO (XI (XO (XO (XO (XI XH))))))))))))), (Npos XH)) :: ((((Npos
    (XI (XO (XI (XO (XI (XO (XI (XO (XO (XO (XI XH)))))))))))), (Npos (XO (XI
    (XI (XO (XI (XO (XI (XO (XO (XO (XI XH))))))))))))), (Npos
    XH)) :: ((((Npos (XO (XI (XI (XO (XO (XI (XI (XO (XO (XO (XI
    XH)))))))))))), (Npos (XI (XI (XI (XI (XO (XI (XI (XO (XO (XO (XI
    XH))))))))))))), (Npos XH)) :: ((((Npos (XO (XI (XO (XO (XO (XO (XO (XI
    (XO (XO (XI XH)))))))))))), (Npos (XI (XI (XO (XO (XO (XO (XO (XI (XO (XO
    (XI XH))))))))))))), (Npos XH)) :: ((((Npos (XO (XI (XI (XI (XI (XI (XO
    (XI (XO (XO (XI XH)))))))))))), (Npos (XO (XO (XI (XO (XO (XO (XI (XI (XO
    (XO (XI XH))))))))))))), (Npos XH)) :: ((((Npos (XO (XI (XI (XO (XO (XO
    (XI (XI (XO (XO (XI XH)))))))))))), (Npos (XO (XO (XO (XI (XO (XO (XI (XI
    (XO (XO (XI XH))))))))))))), (Npos XH)) :: ((((Npos (XO (XI (XO (XI (XO
    (XO (XI (XI (XO (XO (XI XH)))))))))))), (Npos (XI (XO (XI (XI (XO (XO (XI
    (XI (XO (XO (XI XH))))))))))))), (Npos XH)) :: ((((Npos (XI (XO (XI (XO
    (XI (XO (XI (XI (XO (XO (XI XH)))))))))))), (Npos (XO (XI (XI (XO (XI (XO
    (XI (XI (XO (XO (XI XH))))))))))))), (Npos XH)) :: ((((Npos (XO (XI (XI
    (XO (XO (XI (XI (XI (XO (XO (XI XH)))))))))))), (Npos (XI (XI (XI (XI (XO
    (XI (XI (XI (XO (XO (XI XH))))))))))))), (Npos XH)) :: ((((Npos (XO (XI
    (XO (XO (XO (XO (XO (XO (XI (XO (XI XH)))))))))))), (Npos (XI (XI (XO (XO
    (XO (XO (XO (XO (XI (XO (XI XH))))))))))))), (Npos XH)) :: ((((Npos (XO
    (XI (XI (XI (XI (XI (XO (XO (XI (XO (XI XH)))))))))))), (Npos (XI (XI (XO
    (XO (XO (XO (XI (XO (XI (XO (XI XH))))))))))))), (Npos XH)) :: ((((Npos
    (XO (XI (XI (XO (XO (XO (XI (XO (XI (XO (XI XH)))))))))))), (Npos (XO (XO
    (XO (XI (XO (XO (XI (XO (XI (XO (XI XH))))))))))))), (Npos
    XH)) :: ((((Npos (XO (XI (XO (XI (XO (XO (XI (XO (XI (XO (XI
    XH)))))))))))), (Npos (XI (XO (XI (XI (XO (XO (XI (XO (XI (XO (XI
    XH))))))))))))), (Npos XH)) :: ((((Npos (XI (XI (XI (XO (XI (XO (XI (XO
    (XI (XO (XI XH)))))))))))), (Npos (XI (XI (XI (XO (XI (XO (XI (XO (XI (XO
    (XI XH))))))))))))), (Npos XH)) :: ((((Npos (XO (XI (XI (XO (XO (XI (XI
    (XO (XI (XO (XI XH)))))))))))), (Npos (XI (XI (XI (XI (XO (XI (XI (XO (XI
    (XO (XI XH))))))))))))), (Npos XH)) :: ((((Npos (XI (XO (XO (XO (XI (XI
    (XO (XO (XO (XI (XI XH)))))))))))), (Npos (XI (XO (XO (XO (XI (XI (XO (XO
    (XO (XI (XI XH))))))))))))), (Npos XH)) :: ((((Npos (XO (XO (XI (XO (XI
    (XI (XO (XO (XO (XI (XI XH)))))))))))), (Npos (XO (XI (XO (XI (XI (XI (XO
    (XO (XO (XI (XI XH))))))))))))), (Npos XH)) :: ((((Npos (XO (XI (XI (XO
    (XO (XO (XI (XO (XO (XI (XI XH)))))))))))), (Npos (XO (XI (XI (XO (XO (XO
    (XI (XO (XO (XI (XI XH))))))))))))), (Npos XH)) :: ((((Npos (XI (XI (XI
    (XO (XO (XO (XI (XO (XO (XI (XI XH)))))))))))), (Npos (XO (XI (XI (XI (XO
    (XO (XI (XO (XO (XI (XI XH))))))))))))), (Npos XH)) :: ((((Npos (XO (XO
    (XO (XO (XI (XO (XI (XO (XO (XI (XI XH)))))))))))), (Npos (XI (XO (XO (XI
    (XI (XO (XI (XO (XO (XI (XI XH))))))))))))), (Npos XH)) :: ((((Npos (XI
    (XO (XO (XO (XI (XI (XO (XI (XO (XI (XI XH)))))))))))), (Npos (XI (XO (XO
    (XO (XI (XI (XO (XI (XO (XI (XI XH))))))))))))), (Npos XH)) :: ((((Npos
    (XO (XO (XI (XO (XI (XI (XO (XI (XO (XI (XI XH)))))))))))), (Npos (XI (XO
    (XO (XI (XI (XI (XO (XI (XO (XI (XI XH))))))))))))), (Npos
    XH)) :: ((((Npos (XI (XI (XO (XI (XI (XI (XO (XI (XO (XI (XI
    XH)))))))))))), (Npos (XO (XO (XI (XI (XI (XI (XO (XI (XO (XI (XI
    XH))))))))))))), (Npos XH)) :: ((((Npos (XO (XI (XI (XO (XO (XO (XI (XI
    (XO (XI (XI XH)))))))))))), (Npos (XO (XI (XI (XO (XO (XO (XI (XI (XO (XI
    (XI XH))))))))))))), (Npos XH)) :: ((((Npos (XO (XO (XO (XI (XO (XO (XI
    (XI (XO (XI (XI XH)))))))))))), (Npos (XI (XO (XI (XI (XO (XO (XI (XI (XO
    (XI (XI XH))))))))))))), (Npos XH)) :: ((((Npos (XO (XO (XO (XO (XI (XO
    (XI (XI (XO (XI (XI XH)))))))))))), (Npos (XI (XO (XO (XI (XI (XO (XI (XI
    (XO (XI (XI XH))))))))))))), (Npos XH)) :: ((((Npos (XO (XO (XO (XI (XI
    (XO (XO (XO (XI (XI (XI XH)))))))))))), (Npos (XI (XO (XO (XI (XI (XO (XO
    (XO (XI (XI (XI XH))))))))))))), (Npos XH)) :: ((((Npos (XO (XO (XO (XO
    (XO (XI (XO (XO (XI (XI (XI XH)))))))))))), (Npos (XI (XO (XO (XI (XO (XI
    (XO (XO (XI (XI (XI XH))))))))))))), (Npos XH)) :: ((((Npos (XI (XO (XI
    (XO (XI (XI (XO (XO (XI (XI (XI XH)))))))))))), (Npos (XI (XO (XO (XI (XI
    (XI (XO (XO (XI (XI (XI XH))))))))))))), (Npos (XO XH))) :: ((((Npos (XO
    (XI (XI (XI (XI (XI (XO (XO (XI (XI (XI XH)))))))))))), (Npos (XI (XI (XI
    (XI (XI (XI (XO (XO (XI (XI (XI XH))))))))))))), (Npos XH)) :: ((((Npos
    (XI (XO (XO (XO (XI (XI (XI (XO (XI (XI (XI XH)))))))))))), (Npos (XO (XO
    (XI (XO (XO (XO (XO (XI (XI (XI (XI XH))))))))))))), (Npos
    XH)) :: ((((Npos (XO (XI (XI (XO (XO (XO (XO (XI (XI (XI (XI
    XH)))))))))))), (Npos (XI (XI (XO (XI (XO (XO (XO (XI (XI (XI (XI
    XH))))))))))))), (Npos XH)) :: ((((Npos (XO (XO (XO (XO (XI (XO (XO (XI
    (XI (XI (XI XH)))))))))))), (Npos (XI (XO (XI (XO (XI (XO (XO (XI (XI (XI
    (XI XH))))))))))))), (Npos XH)) :: ((((Npos (XI (XI (XI (XO (XI (XO (XO
    (XI (XI (XI (XI XH)))))))))))), (Npos (XI (XI (XI (XO (XI (XO (XO (XI (XI
    (XI (XI XH))))))))))))), (Npos XH)) :: ((((Npos (XI (XO (XO (XI (XI (XO
    (XO (XI (XI (XI (XI XH)))))))))))), (Npos (XI (XO (XI (XI (XO (XI (XO (XI
    (XI (XI (XI XH))))))))))))), (Npos XH)) :: ((((Npos (XI (XO (XO (XO (XI
    (XI (XO (XI (XI (XI (XI XH)))))))))))), (Npos (XI (XI (XI (XO (XI (XI (XO
    (XI (XI (XI (XI XH))))))))))))), (Npos XH)) :: ((((Npos (XI (XO (XO (XI
    (XI (XI (XO (XI (XI (XI (XI XH)))))))))))), (Npos (XI (XO (XO (XI (XI (XI
    (XO (XI (XI (XI (XI XH))))))))))))), (Npos XH)) :: ((((Npos (XO (XO (XO
    (XO (XI (XO (XI (XI (XO (XO (XO (XO (XO XH)))))))))))))), (Npos (XO (XO
    (XI (XI (XI (XO (XI (XI (XO (XO (XO (XO (XO XH))))))))))))))), (Npos
    XH)) :: ((((Npos (XI (XO (XO (XO (XO (XI (XI (XI (XO (XO (XO (XO (XO
    XH)))))))))))))), (Npos (XI (XO (XI (XO (XO (XO (XO (XO (XO (XO (XO (XO
    (XI XH))))))))))))))), (Npos (XO (XO (XI (XO (XO (XI (XO (XO (XI (XI (XI
    XH))))))))))))) :: ((((Npos (XO (XI (XO (XI (XO (XI (XO (XO (XO (XO (XO
    (XO (XI XH)))))))))))))), (Npos (XI (XI (XI (XI (XO (XI (XO (XO (XO (XO
    (XO (XO (XI XH))))))))))))))), (Npos XH)) :: ((((Npos (XI (XO (XO (XO (XI
    (XI (XO (XO (XO (XO (XO (XO (XI XH)))))))))))))), (Npos (XI (XO (XI (XO
    (XI (XI (XO (XO (XO (XO (XO (XO (XI XH))))))))))))))), (Npos
    XH)) :: ((((Npos (XI (XO (XO (XI (XI (XO (XO (XI (XO (XO (XO (XO (XI
    XH)))))))))))))), (Npos (XO (XI (XO (XI (XI (XO (XO (XI (XO (XO (XO (XO
    (XI XH))))))))))))))), (Npos XH)) :: ((((Npos (XI (XO (XI (XI (XI (XO (XO
    (XI (XO (XO (XO (XO (XI XH)))))))))))))), (Npos (XO (XI (XI (XI (XI (XO
    (XO (XI (XO (XO (XO (XO (XI XH))))))))))))))), (Npos XH)) :: ((((Npos (XO
    (XO (XI (XI (XI (XI (XI (XI (XO (XO (XO (XO (XI XH)))))))))))))), (Npos
    (XO (XI (XI (XI (XI (XI (XI (XI (XO (XO (XO (XO (XI XH))))))))))))))),
    (Npos
    XH)) :: [])))))))))))))))))))))))))))))))))))))))))))))))))))))))))))))))))))))))))))))))))))))))))))))))))))))))))))))))

(** val tbl_digit : ((n * n) * n) list **)

let tbl_digit =
  (((Npos (XO (XO (XO (XO (XI XH)))))), (Npos (XI (XO (XO (XI (XI XH))))))),
    (Npos XH)) :: ((((Npos (XO (XO (XO (XO (XO (XI (XI (XO (XO (XI
    XH))))))))))), (Npos (XI (XO (XO (XI (XO (XI (XI (XO (XO (XI
    XH)))))))))))), (Npos XH)) :: ((((Npos (XO (XO (XO (XO (XI (XI (XI (XI
    (XO (XI XH))))))))))), (Npos (XI (XO (XO (XI (XI (XI (XI (XI (XO (XI
    XH)))))))))))), (Npos XH)) :: ((((Npos (XO (XO (XO (XO (XO (XO (XI (XI
    (XI (XI XH))))))))))), (Npos (XI (XO (XO (XI (XO (XO (XI (XI (XI (XI
    XH)))))))))))), (Npos XH)) :: ((((Npos (XO (XI (XI (XO (XO (XI (XI (XO
    (XI (XO (XO XH)))))))))))), (Npos (XI (XI (XI (XI (XO (XI (XI (XO (XI (XO
    (XO XH))))))))))))), (Npos XH)) :: ((((Npos (XO (XI (XI (XO (XO (XI (XI
    (XI (XI (XO (XO XH)))))))))))), (Npos (XI (XI (XI (XI (XO (XI (XI (XI (XI
    (XO (XO XH))))))))))))), (Npos XH)) :: ((((Npos (XO (XI (XI (XO (XO (XI
    (XI (XO (XO (XI (XO XH)))))))))))), (Npos (XI (XI (XI (XI (XO (XI (XI (XO
    (XO (XI (XO XH))))))))))))), (Npos XH)) :: ((((Npos (XO (XI (XI (XO (XO
    (XI (XI (XI (XO (XI (XO XH)))))))))))), (Npos (XI (XI (XI (XI (XO (XI (XI
    (XI (XO (XI (XO XH))))))))))))), (Npos XH)) :: ((((Npos (XO (XI (XI (XO
    (XO (XI (XI (XO (XI (XI (XO XH)))))))))))), (Npos (XI (XI (XI (XI (XO (XI
    (XI (XO (XI (XI (XO XH))))))))))))), (Npos XH)) :: ((((Npos (XO (XI (XI
    (XO (XO (XI (XI (XI (XI (XI (XO XH)))))))))))), (Npos (XI (XI (XI (XI (XO
    (XI (XI (XI (XI (XI (XO XH))))))))))))), (Npos XH)) :: ((((Npos (XO (XI
    (XI (XO (XO (XI (XI (XO (XO (XO (XI XH)))))))))))), (Npos (XI (XI (XI (XI
    (XO (XI (XI (XO (XO (XO (XI XH))))))))))))), (Npos XH)) :: ((((Npos (XO
    (XI (XI (XO (XO (XI (XI (XI (XO (XO (XI XH)))))))))))), (Npos (XI (XI (XI
    (XI (XO (XI (XI (XI (XO (XO (XI XH))))))))))))), (Npos XH)) :: ((((Npos
    (XO (XI (XI (XO (XO (XI (XI (XO (XI (XO (XI XH)))))))))))), (Npos (XI (XI
    (XI (XI (XO (XI (XI (XO (XI (XO (XI XH))))))))))))), (Npos
    XH)) :: ((((Npos (XO (XI (XI (XO (XO (XI (XI (XI (XI (XO (XI
    XH)))))))))))), (Npos (XI (XI (XI (XI (XO (XI (XI (XI (XI (XO (XI
    XH))))))))))))), (Npos XH)) :: ((((Npos (XO (XO (XO (XO (XI (XO (XI (XO
    (XO (XI (XI XH)))))))))))), (Npos (XI (XO (XO (XI (XI (XO (XI (XO (XO (XI
    (XI XH))))))))))))), (Npos XH)) :: ((((Npos (XO (XO (XO (XO (XI (XO (XI
    (XI (XO (XI (XI XH)))))))))))), (Npos (XI (XO (XO (XI (XI (XO (XI (XI (XO
    (XI (XI XH))))))))))))), (Npos XH)) :: ((((Npos (XO (XO (XO (XO (XO (XI
    (XO (XO (XI (XI (XI XH)))))))))))), (Npos (XI (XO (XO (XI (XO (XI (XO (XO
    (XI (XI (XI XH))))))))))))), (Npos XH)) :: ((((Npos (XO (XO (XO (XO (XO
    (XO (XI (XO (XO (XO (XO (XO XH))))))))))))), (Npos (XI (XO (XO (XI (XO
    (XO (XI (XO (XO (XO (XO (XO XH)))))))))))))), (Npos XH)) :: ((((Npos (XO
    (XO (XO (XO (XI (XO (XO (XI (XO (XO (XO (XO XH))))))))))))), (Npos (XI
    (XO (XO (XI (XI (XO (XO (XI (XO (XO (XO (XO XH)))))))))))))), (Npos
    XH)) :: ((((Npos (XO (XO (XO (XO (XO (XI (XI (XI (XI (XI (XI (XO
    XH))))))))))))), (Npos (XI (XO (XO (XI (XO (XI (XI (XI (XI (XI (XI (XO
    XH)))))))))))))), (Npos XH)) :: ((((Npos (XO (XO (XO (XO (XI (XO (XO (XO
    (XO (XO (XO (XI XH))))))))))))), (Npos (XI (XO (XO (XI (XI (XO (XO (XO
    (XO (XO (XO (XI XH)))))))))))))), (Npos XH)) :: ((((Npos (XO (XI (XI (XO
    (XO (XO (XI (XO (XI (XO (XO (XI XH))))))))))))), (Npos (XI (XI (XI (XI
    (XO (XO (XI (XO (XI (XO (XO (XI XH)))))))))))))), (Npos XH)) :: ((((Npos
    (XO (XO (XO (XO (XI (XO (XI (XI (XI (XO (XO (XI XH))))))))))))), (Npos
    (XI (XO (XO (XI (XI (XO (XI (XI (XI (XO (XO (XI XH)))))))))))))), (Npos
    XH)) :: ((((Npos (XO (XO (XO (XO (XO (XO (XO (XI (XO (XI (XO (XI
    XH))))))))))))), (Npos (XI (XO (XO (XI (XO (XO (XO (XI (XO (XI (XO (XI
    XH)))))))))))))), (Npos XH)) :: ((((Npos (XO (XO (XO (XO (XI (XO (XO (XI
    (XO (XI (XO (XI XH))))))))))))), (Npos (XI (XO (XO (XI (XI (XO (XO (XI
    (XO (XI (XO (XI XH)))))))))))))), (Npos XH)) :: ((((Npos (XO (XO (XO (XO
    (XI (XO (XI (XO (XI (XI (XO (XI XH))))))))))))), (Npos (XI (XO (XO (XI
    (XI (XO (XI (XO (XI (XI (XO (XI XH)))))))))))))), (Npos XH)) :: ((((Npos
    (XO (XO (XO (XO (XI (XI (XO (XI (XI (XI (XO (XI XH))))))))))))), (Npos
    (XI (XO (XO (XI (XI (XI (XO (XI (XI (XI (XO (XI XH)))))))))))))), (Npos
    XH)) :: ((((Npos (XO (XO (XO (XO (XO (XO (XI (XO (XO (XO (XI (XI
    XH))))))))))))), (Npos (XI (XO (XO (XI (XO (XO (XI (XO (XO (XO (XI (XI
    XH)))))))))))))), (Npos XH)) :: ((((Npos (XO (XO (XO (XO (XI (XO (XI (XO
    (XO (XO (XI (XI XH))))))))))))), (Npos (XI (XO (XO (XI (XI (XO (XI (XO
    (XO (XO (XI (XI XH)))))))))))))), (Npos XH)) :: ((((Npos (XO (XO (XO (XO
    (XO (XI (XO (XO (XO (XI (XI (XO (XO (XI (XO XH)))))))))))))))), (Npos (XI
    (XO (XO (XI (XO (XI (XO (XO (XO (XI (XI (XO (XO (XI (XO
    XH))))))))))))))))), (Npos XH)) :: ((((Npos (XO (XO (XO (XO (XI (XO (XI
    (XI (XO (XO (XO (XI (XO (XI (XO XH)))))))))))))))), (Npos (XI (XO (XO (XI
    (XI (XO (XI (XI (XO (XO (XO (XI (XO (XI (XO XH))))))))))))))))), (Npos
    XH)) :: ((((Npos (XO (XO (XO (XO (XO (XO (XO (XO (XI (XO (XO (XI (XO (XI
    (XO XH)))))))))))))))), (Npos (XI (XO (XO (XI (XO (XO (XO (XO (XI (XO (XO
    (XI (XO (XI (XO XH))))))))))))))))), (Npos XH)) :: ((((Npos (XO (XO (XO
    (XO (XI (XO (XI (XI (XI (XO (XO (XI (XO (XI (XO XH)))))))))))))))), (Npos
    (XI (XO (XO (XI (XI (XO (XI (XI (XI (XO (XO (XI (XO (XI (XO
    XH))))))))))))))))), (Npos XH)) :: ((((Npos (XO (XO (XO (XO (XI (XI (XI
    (XI (XI (XO (XO (XI (XO (XI (XO XH)))))))))))))))), (Npos (XI (XO (XO (XI
    (XI (XI (XI (XI (XI (XO (XO (XI (XO (XI (XO XH))))))))))))))))), (Npos
    XH)) :: ((((Npos (XO (XO (XO (XO (XI (XO (XI (XO (XO (XI (XO (XI (XO (XI
    (XO XH)))))))))))))))), (Npos (XI (XO (XO (XI (XI (XO (XI (XO (XO (XI (XO
    (XI (XO (XI (XO XH))))))))))))))))), (Npos XH)) :: ((((Npos (XO (XO (XO
    (XO (XI (XI (XI (XI (XI (XI (XO (XI (XO (XI (XO XH)))))))))))))))), (Npos
    (XI (XO (XO (XI (XI (XI (XI (XI (XI (XI (XO (XI (XO (XI (XO
    XH))))))))))))))))), (Npos XH)) :: ((((Npos (XO (XO (XO (XO (XI (XO (XO
    (XO (XI (XI (XI (XI (XI (XI (XI XH)))))))))))))))), (Npos (XI (XO (XO (XI
    (XI (XO (XO (XO (XI (XI (XI (XI (XI (XI (XI XH))))))))))))))))), (Npos
    XH)) :: ((((Npos (XO (XO (XO (XO (XO (XI (XO (XI (XO (XO (XI (XO (XO (XO
    (XO (XO XH))))))))))))))))), (Npos (XI (XO (XO (XI (XO (XI (XO (XI (XO
    (XO (XI (XO (XO (XO (XO (XO XH)))))))))))))))))), (Npos XH)) :: ((((Npos
    (XO (XO (XO (XO (XI (XI (XO (XO (XI (XO (XI (XI (XO (XO (XO (XO
    XH))))))))))))))))), (Npos (XI (XO (XO (XI (XI (XI (XO (XO (XI (XO (XI
    (XI (XO (XO (XO (XO XH)))))))))))))))))), (Npos XH)) :: ((((Npos (XO (XI
    (XI (XO (XO (XI (XI (XO (XO (XO (XO (XO (XI (XO (XO (XO
    XH))))))))))))))))), (Npos (XI (XI (XI (XI (XO (XI (XI (XO (XO (XO (XO
    (XO (XI (XO (XO (XO XH)))))))))))))))))), (Npos XH)) :: ((((Npos (XO (XO
    (XO (XO (XI (XI (XI (XI (XO (XO (XO (XO (XI (XO (XO (XO
    XH))))))))))))))))), (Npos (XI (XO (XO (XI (XI (XI (XI (XI (XO (XO (XO
    (XO (XI (XO (XO (XO XH)))))))))))))))))), (Npos XH)) :: ((((Npos (XO (XI
    (XI (XO (XI (XI (XO (XO (XI (XO (XO (XO (XI (XO (XO (XO
    XH))))))))))))))))), (Npos (XI (XI (XI (XI (XI (XI (XO (XO (XI (XO (XO
    (XO (XI (XO (XO (XO XH)))))))))))))))))), (Npos XH)) :: ((((Npos (XO (XO
    (XO (XO (XI (XO (XI (XI (XI (XO (XO (XO (XI (XO (XO (XO
    XH))))))))))))))))), (Npos (XI (XO (XO (XI (XI (XO (XI (XI (XI (XO (XO
    (XO (XI (XO (XO (XO XH)))))))))))))))))), (Npos XH)) :: ((((Npos (XO (XO
    (XO (XO (XI (XI (XI (XI (XO (XI (XO (XO (XI (XO (XO (XO
    XH))))))))))))))))), (Npos (XI (XO (XO (XI (XI (XI (XI (XI (XO (XI (XO
    (XO (XI (XO (XO (XO XH)))))))))))))))))), (Npos XH)) :: ((((Npos (XO (XO
    (XO (XO (XI (XO (XI (XO (XO (XO (XI (XO (XI (XO (XO (XO
    XH))))))))))))))))), (Npos (XI (XO (XO (XI (XI (XO (XI (XO (XO (XO (XI
    (XO (XI (XO (XO (XO XH)))))))))))))))))), (Npos XH)) :: ((((Npos (XO (XO
    (XO (XO (XI (XO (XI (XI (XO (XO (XI (XO (XI (XO (XO (XO
    XH))))))))))))))))), (Npos (XI (XO (XO (XI (XI (XO (XI (XI (XO (XO (XI
    (XO (XI (XO (XO (XO XH)))))))))))))))))), (Npos XH)) :: ((((Npos (XO (XO
    (XO (XO (XI (XO (XI (XO (XO (XI (XI (XO (XI (XO (XO (XO
    XH))))))))))))))))), (Npos (XI (XO (XO (XI (XI (XO (XI (XO (XO (XI (XI
    (XO (XI (XO (XO (XO XH)))))))))))))))))), (Npos XH)) :: ((((Npos (XO (XO
    (XO (XO (XO (XO (XI (XI (XO (XI (XI (XO (XI (XO (XO (XO
    XH))))))))))))))))), (Npos (XI (XO (XO (XI (XO (XO (XI (XI (XO (XI (XI
    (XO (XI (XO (XO (XO XH)))))))))))))))))), (Npos XH)) :: ((((Npos (XO (XO
    (XO (XO (XI (XI (XO (XO (XI (XI (XI (XO (XI (XO (XO (XO
    XH))))))))))))))))), (Npos (XI (XO (XO (XI (XI (XI (XO (XO (XI (XI (XI
    (XO (XI (XO (XO (XO XH)))))))))))))))))), (Npos XH)) :: ((((Npos (XO (XO
    (XO (XO (XO (XI (XI (XI (XO (XO (XO (XI (XI (XO (XO (XO
    XH))))))))))))))))), (Npos (XI (XO (XO (XI (XO (XI (XI (XI (XO (XO (XO
    (XI (XI (XO (XO (XO XH)))))))))))))))))), (Npos XH)) :: ((((Npos (XO (XO
    (XO (XO (XI (XO (XI (XO (XI (XO (XO (XI (XI (XO (XO (XO
    XH))))))))))))))))), (Npos (XI (XO (XO (XI (XI (XO (XI (XO (XI (XO (XO
    (XI (XI (XO (XO (XO XH)))))))))))))))))), (Npos XH)) :: ((((Npos (XO (XO
    (XO (XO (XI (XO (XI (XO (XO (XO (XI (XI (XI (XO (XO (XO
    XH))))))))))))))))), (Npos (XI (XO (XO (XI (XI (XO (XI (XO (XO (XO (XI
    (XI (XI (XO (XO (XO XH)))))))))))))))))), (Npos XH)) :: ((((Npos (XO (XO
    (XO (XO (XI (XO (XI (XO (XI (XO (XI (XI (XI (XO (XO (XO
    XH))))))))))))))))), (Npos (XI (XO (XO (XI (XI (XO (XI (XO (XI (XO (XI
    (XI (XI (XO (XO (XO XH)))))))))))))))))), (Npos XH)) :: ((((Npos (XO (XO
    (XO (XO (XO (XI (XO (XI (XI (XO (XI (XI (XI (XO (XO (XO
    XH))))))))))))))))), (Npos (XI (XO (XO (XI (XO (XI (XO (XI (XI (XO (XI
    (XI (XI (XO (XO (XO XH)))))))))))))))))), (Npos XH)) :: ((((Npos (XO (XO
    (XO (XO (XI (XO (XI (XO (XI (XI (XI (XI (XI (XO (XO (XO
    XH))))))))))))))))), (Npos (XI (XO (XO (XI (XI (XO (XI (XO (XI (XI (XI
    (XI (XI (XO (XO (XO XH)))))))))))))))))), (Npos XH)) :: ((((Npos (XO (XO
    (XO (XO (XO (XI (XI (XO (XO (XI (XO (XI (XO (XI (XI (XO
    XH))))))))))))))))), (Npos (XI (XO (XO (XI (XO (XI (XI (XO (XO (XI (XO
    (XI (XO (XI (XI (XO XH)))))))))))))))))), (Npos XH)) :: ((((Npos (XO (XO
    (XO (XO (XO (XO (XI (XI (XO (XI (XO (XI (XO (XI (XI (XO
    XH))))))))))))))))), (Npos (XI (XO (XO (XI (XO (XO (XI (XI (XO (XI (XO
    (XI (XO (XI (XI (XO XH)))))))))))))))))), (Npos XH)) :: ((((Npos (XO (XO
    (XO (XO (XI (XO (XI (XO (XI (XI (XO (XI (XO (XI (XI (XO
    XH))))))))))))))))), (Npos (XI (XO (XO (XI (XI (XO (XI (XO (XI (XI (XO
    (XI (XO (XI (XI (XO XH)))))))))))))))))), (Npos XH)) :: ((((Npos (XO (XI
    (XI (XI (XO (XO (XI (XI (XI (XI (XI (XO (XI (XO (XI (XI
    XH))))))))))))))))), (Npos (XI (XI (XI (XI (XI (XI (XI (XI (XI (XI (XI
    (XO (XI (XO (XI (XI XH)))))))))))))))))), (Npos XH)) :: ((((Npos (XO (XO
    (XO (XO (XO (XO (XI (XO (XI (XO (XO (XO (XO (XI (XI (XI
    XH))))))))))))))))), (Npos (XI (XO (XO (XI (XO (XO (XI (XO (XI (XO (XO
    (XO (XO (XI (XI (XI XH)))))))))))))))))), (Npos XH)) :: ((((Npos (XO (XO
    (XO (XO (XI (XI (XI (XI (XO (XI (XO (XO (XO (XI (XI (XI
    XH))))))))))))))))), (Npos (XI (XO (XO (XI (XI (XI (XI (XI (XO (XI (XO
    (XO (XO (XI (XI (XI XH)))))))))))))))))), (Npos XH)) :: ((((Npos (XO (XO
    (XO (XO (XI (XI (XI (XI (XO (XO (XI (XO (XO (XI (XI (XI
    XH))))))))))))))))), (Npos (XI (XO (XO (XI (XI (XI (XI (XI (XO (XO (XI
    (XO (XO (XI (XI (XI XH)))))))))))))))))), (Npos XH)) :: ((((Npos (XO (XO
    (XO (XO (XI (XO (XI (XO (XI (XO (XO (XI (XO (XI (XI (XI
    XH))))))))))))))))), (Npos (XI (XO (XO (XI (XI (XO (XI (XO (XI (XO (XO
    (XI (XO (XI (XI (XI XH)))))))))))))))))), (Npos XH)) :: ((((Npos (XO (XO
    (XO (XO (XI (XI (XI (XI (XI (XI (XO (XI (XI (XI (XI (XI
    XH))))))))))))))))), (Npos (XI (XO (XO (XI (XI (XI (XI (XI (XI (XI (XO
    (XI (XI (XI (XI (XI XH)))))))))))))))))), (Npos
    XH)) :: [])))))))))))))))))))))))))))))))))))))))))))))))))))))))))))))))

(** val tbl_space : ((n * n) * n) list **)

let tbl_space =
  (((Npos (XI (XO (XO XH)))), (Npos (XI (XO (XI XH))))), (Npos
    XH)) :: ((((Npos (XO (XO (XO (XO (XO XH)))))), (Npos (XI (XO (XI (XO (XO
    (XO (XO XH))))))))), (Npos (XI (XO (XI (XO (XO (XI XH)))))))) :: ((((Npos
    (XO (XO (XO (XO (XO (XI (XO XH)))))))), (Npos (XO (XO (XO (XO (XO (XO (XO
    (XI (XO (XI (XI (XO XH)))))))))))))), (Npos (XO (XO (XO (XO (XO (XI (XI
    (XI (XI (XO (XI (XO XH)))))))))))))) :: ((((Npos (XO (XO (XO (XO (XO (XO
    (XO (XO (XO (XO (XO (XO (XO XH)))))))))))))), (Npos (XO (XI (XO (XI (XO
    (XO (XO (XO (XO (XO (XO (XO (XO XH))))))))))))))), (Npos XH)) :: ((((Npos
    (XO (XO (XO (XI (XO (XI (XO (XO (XO (XO (XO (XO (XO XH)))))))))))))),
    (Npos (XI (XO (XO (XI (XO (XI (XO (XO (XO (XO (XO (XO (XO
    XH))))))))))))))), (Npos XH)) :: ((((Npos (XI (XI (XI (XI (XO (XI (XO (XO
    (XO (XO (XO (XO (XO XH)))))))))))))), (Npos (XI (XI (XI (XI (XI (XO (XI
    (XO (XO (XO (XO (XO (XO XH))))))))))))))), (Npos (XO (XO (XO (XO (XI
    XH))))))) :: ((((Npos (XO (XO (XO (XO (XO (XO (XO (XO (XO (XO (XO (XO (XI
    XH)))))))))))))), (Npos (XO (XO (XO (XO (XO (XO (XO (XO (XO (XO (XO (XO
    (XI XH))))))))))))))), (Npos XH)) :: []))))))

(** val in_range : n -> ((n * n) * n) -> bool **)

let in_range r = function
| (p, st) ->
  let (lo, hi) = p in
  (&&) ((&&) (N.leb lo r) (N.leb r hi)) (N.eqb (N.modulo (N.sub r lo) st) N0)

(** val in_table : ((n * n) * n) list -> n -> bool **)

let in_table t r =
  existsb (in_range r) t

(** val bN : char -> n **)

let bN =
  n_of_ascii

(** val cont : char -> bool **)

let cont c =
  (&&) (N.leb (Npos (XO (XO (XO (XO (XO (XO (XO XH)))))))) (bN c))
    (N.leb (bN c) (Npos (XI (XI (XI (XI (XI (XI (XO XH)))))))))

(** val btw : n -> n -> char -> bool **)

let btw lo hi c =
  (&&) (N.leb lo (bN c)) (N.leb (bN c) hi)

(** val rune_error : n **)

let rune_error =
  Npos (XI (XO (XI (XI (XI (XI (XI (XI (XI (XI (XI (XI (XI (XI (XI
    XH)))))))))))))))

(** val decode : char list -> n * nat **)

let decode = function
| [] -> (N0, O)
| b0 :: t ->
  let n0 = bN b0 in
  if N.ltb n0 (Npos (XO (XO (XO (XO (XO (XO (XO XH))))))))
  then (n0, (S O))
  else if btw (Npos (XO (XI (XO (XO (XO (XO (XI XH)))))))) (Npos (XI (XI (XI
            (XI (XI (XO (XI XH)))))))) b0
       then (match t with
             | [] -> (rune_error, (S O))
             | b1 :: _ ->
               if cont b1
               then ((N.add
                       (N.mul
                         (N.sub n0 (Npos (XO (XO (XO (XO (XO (XO (XI
                           XH))))))))) (Npos (XO (XO (XO (XO (XO (XO
                         XH))))))))
                       (N.sub (bN b1) (Npos (XO (XO (XO (XO (XO (XO (XO
                         XH)))))))))), (S (S O)))
               else (rune_error, (S O)))
       else if btw (Npos (XO (XO (XO (XO (XO (XI (XI XH)))))))) (Npos (XI (XI
                 (XI (XI (XO (XI (XI XH)))))))) b0
            then (match t with
                  | [] -> (rune_error, (S O))
                  | b1 :: l0 ->
                    (match l0 with
                     | [] -> (rune_error, (S O))
                     | b2 :: _ ->
                       let ok1 =
                         if N.eqb n0 (Npos (XO (XO (XO (XO (XO (XI (XI
                              XH))))))))
                         then btw (Npos (XO (XO (XO (XO (XO (XI (XO
                                XH)))))))) (Npos (XI (XI (XI (XI (XI (XI (XO
                                XH)))))))) b1
                         else if N.eqb n0 (Npos (XI (XO (XI (XI (XO (XI (XI
                                   XH))))))))
                              then btw (Npos (XO (XO (XO (XO (XO (XO (XO
                                     XH)))))))) (Npos (XI (XI (XI (XI (XI (XO
                                     (XO XH)))))))) b1
                              else cont b1
                       in
                       if (&&) ok1 (cont b2)
                       then ((N.add
                               (N.add
                                 (N.mul
                                   (N.sub n0 (Npos (XO (XO (XO (XO (XO (XI
                                     (XI XH))))))))) (Npos (XO (XO (XO (XO
                                   (XO (XO (XO (XO (XO (XO (XO (XO
                                   XH))))))))))))))
                                 (N.mul
                                   (N.sub (bN b1) (Npos (XO (XO (XO (XO (XO
                                     (XO (XO XH))))))))) (Npos (XO (XO (XO
                                   (XO (XO (XO XH)))))))))
                               (N.sub (bN b2) (Npos (XO (XO (XO (XO (XO (XO
                                 (XO XH)))))))))), (S (S (S O))))
                       else (rune_error, (S O))))
            else if btw (Npos (XO (XO (XO (XO (XI (XI (XI XH)))))))) (Npos
                      (XO (XO (XI (XO (XI (XI (XI XH)))))))) b0
                 then (match t with
                       | [] -> (rune_error, (S O))
                       | b1 :: l0 ->
                         (match l0 with
                          | [] -> (rune_error, (S O))
                          | b2 :: l1 ->
                            (match l1 with
                             | [] -> (rune_error, (S O))
                             | b3 :: _ ->
                               let ok1 =
                                 if N.eqb n0 (Npos (XO (XO (XO (XO (XI (XI
                                      (XI XH))))))))
                                 then btw (Npos (XO (XO (XO (XO (XI (XO (XO
                                        XH)))))))) (Npos (XI (XI (XI (XI (XI
                                        (XI (XO XH)))))))) b1
                                 else if N.eqb n0 (Npos (XO (XO (XI (XO (XI
                                           (XI (XI XH))))))))
                                      then btw (Npos (XO (XO (XO (XO (XO (XO
                                             (XO XH)))))))) (Npos (XI (XI (XI
                                             (XI (XO (XO (XO XH)))))))) b1
                                      else cont b1
                               in
                               if (&&) ok1 ((&&) (cont b2) (cont b3))
                               then ((N.add
                                       (N.add
                                         (N.add
                                           (N.mul
                                             (N.sub n0 (Npos (XO (XO (XO (XO
                                               (XI (XI (XI XH))))))))) (Npos
                                             (XO (XO (XO (XO (XO (XO (XO (XO
                                             (XO (XO (XO (XO (XO (XO (XO (XO
                                             (XO (XO XH))))))))))))))))))))
                                           (N.mul
                                             (N.sub (bN b1) (Npos (XO (XO (XO
                                               (XO (XO (XO (XO XH)))))))))
                                             (Npos (XO (XO (XO (XO (XO (XO
                                             (XO (XO (XO (XO (XO (XO
                                             XH)))))))))))))))
                                         (N.mul
                                           (N.sub (bN b2) (Npos (XO (XO (XO
                                             (XO (XO (XO (XO XH)))))))))
                                           (Npos (XO (XO (XO (XO (XO (XO
                                           XH)))))))))
                                       (N.sub (bN b3) (Npos (XO (XO (XO (XO
                                         (XO (XO (XO XH)))))))))), (S (S (S
                                      (S O)))))
                               else (rune_error, (S O)))))
                 else (rune_error, (S O))

(** val cur : char list -> n **)

let cur l =
  fst (decode l)

(** val cur_size : char list -> nat **)

let cur_size l =
  snd (decode l)

(** val advance : char list -> char list **)

let advance l =
  skipn (cur_size l) l

(** val is_name_rune : n -> bool **)

let is_name_rune r =
  (&&)
    ((&&) (negb (N.eqb r (Npos (XO (XI (XO (XI (XI XH))))))))
      (negb (N.eqb r (Npos (XI (XI (XI (XI (XO XH)))))))))
    ((||) (in_table tbl_first r) (in_table tbl_second r))

(** val is_digit_rune : n -> bool **)

let is_digit_rune r =
  if N.ltb r (Npos (XO (XO (XO (XO (XO (XO (XO (XO XH)))))))))
  then (&&) (N.leb (Npos (XO (XO (XO (XO (XI XH)))))) r)
         (N.leb r (Npos (XI (XO (XO (XI (XI XH)))))))
  else in_table tbl_digit r

(** val is_space_rune : n -> bool **)

let is_space_rune r =
  if N.ltb r (Npos (XO (XO (XO (XO (XO (XO (XO (XO XH)))))))))
  then (||)
         ((||)
           ((&&) (N.leb (Npos (XI (XO (XO XH)))) r)
             (N.leb r (Npos (XI (XO (XI XH))))))
           (N.eqb r (Npos (XO (XO (XO (XO (XO XH))))))))
         ((||) (N.eqb r (Npos (XI (XO (XI (XO (XO (XO (XO XH)))))))))
           (N.eqb r (Npos (XO (XO (XO (XO (XO (XI (XO XH))))))))))
  else in_table tbl_space r

type sstate = { s_rest : char list; s_typ : itype; s_name : char list;
                s_prefix : char list; s_strval : char list; s_numval : 
                f64; s_canfunc : bool }

(** val skip_space : nat -> char list -> char list **)

let rec skip_space fuel l =
  match fuel with
  | O -> l
  | S f ->
    (match l with
     | [] -> l
     | _ :: _ -> if is_space_rune (cur l) then skip_space f (advance l) else l)

(** val skipsp : char list -> char list **)

let skipsp l =
  skip_space (length l) l

(** val scan_name_loop :
    nat -> char list -> char list -> char list * char list **)

let rec scan_name_loop fuel l acc =
  match fuel with
  | O -> (acc, l)
  | S f ->
    (match l with
     | [] -> (acc, l)
     | _ :: _ ->
       if is_name_rune (cur l)
       then scan_name_loop f (advance l) (app acc (firstn (cur_size l) l))
       else ((app acc (firstn (sub (cur_size l) (S O)) l)), l))

(** val scan_name : char list -> char list * char list **)

let scan_name l =
  let (bs, r) = scan_name_loop (S (length l)) l [] in ((string_of_list bs), r)

(** val scan_string_loop :
    nat -> n -> char list -> char list -> (char list * char list) option **)

let rec scan_string_loop fuel q l acc =
  match fuel with
  | O -> None
  | S f ->
    (match l with
     | [] -> None
     | _ :: _ ->
       if N.eqb (cur l) q
       then Some (acc, (advance l))
       else scan_string_loop f q (advance l) (app acc (firstn (cur_size l) l)))

(** val scan_string : char list -> (char list * char list) option **)

let scan_string l =
  match scan_string_loop (S (length l)) (cur l) (advance l) [] with
  | Some p -> let (bs, r) = p in Some ((string_of_list bs), r)
  | None -> None

(** val scan_digits :
    nat -> char list -> char list -> bool -> (char list * bool) * char list **)

let rec scan_digits fuel l acc ascii_only =
  match fuel with
  | O -> ((acc, ascii_only), l)
  | S f ->
    (match l with
     | [] -> ((acc, ascii_only), l)
     | c :: _ ->
       if is_digit_rune (cur l)
       then scan_digits f (advance l) (app acc (c :: []))
              ((&&) ascii_only
                (N.ltb (cur l) (Npos (XO (XO (XO (XO (XO (XO (XO XH))))))))))
       else ((acc, ascii_only), l))

(** val finish_number : char list -> char list -> bool -> f64 cres **)

let finish_number ip fp = function
| true ->
  let v = of_decimal false ip fp in
  (match v with
   | S754_infinity _ ->
     Err
       ('s'::('c'::('a'::('n'::('N'::('u'::('m'::('b'::('e'::('r'::(' '::('p'::('a'::('r'::('s'::('e'::(' '::('f'::('l'::('o'::('a'::('t'::(' '::('g'::('o'::('t'::(' '::('e'::('r'::('r'::('o'::('r'::(':'::(' '::('v'::('a'::('l'::('u'::('e'::(' '::('o'::('u'::('t'::(' '::('o'::('f'::(' '::('r'::('a'::('n'::('g'::('e'::[]))))))))))))))))))))))))))))))))))))))))))))))))))))
   | _ -> Ok v)
| false ->
  Err
    ('s'::('c'::('a'::('n'::('N'::('u'::('m'::('b'::('e'::('r'::(' '::('p'::('a'::('r'::('s'::('e'::(' '::('f'::('l'::('o'::('a'::('t'::(' '::('g'::('o'::('t'::(' '::('e'::('r'::('r'::('o'::('r'::(':'::(' '::('i'::('n'::('v'::('a'::('l'::('i'::('d'::(' '::('s'::('y'::('n'::('t'::('a'::('x'::[]))))))))))))))))))))))))))))))))))))))))))))))))

(** val scan_number : char list -> (f64 * char list) cres **)

let scan_number l =
  let n0 = S (length l) in
  let (p, r1) = scan_digits n0 l [] true in
  let (ip, ok1) = p in
  if N.eqb (cur r1) (Npos (XO (XI (XI (XI (XO XH))))))
  then let (p0, r2) = scan_digits n0 (advance r1) [] true in
       let (fp, ok2) = p0 in
       cbind (finish_number ip fp ((&&) ok1 ok2)) (fun v -> Ok (v, r2))
  else cbind (finish_number ip [] ok1) (fun v -> Ok (v, r1))

(** val scan_fraction : char list -> (f64 * char list) cres **)

let scan_fraction l =
  let (p, r) = scan_digits (S (length l)) l [] true in
  let (fp, ok) = p in cbind (finish_number [] fp ok) (fun v -> Ok (v, r))

(** val next_item : sstate -> sstate cres **)

let next_item s =
  let l = skipsp s.s_rest in
  let c = cur l in
  let a = advance l in
  let one0 = fun t -> Ok { s_rest = a; s_typ = t; s_name = s.s_name;
    s_prefix = s.s_prefix; s_strval = s.s_strval; s_numval = s.s_numval;
    s_canfunc = s.s_canfunc }
  in
  let two = fun second t1 t2 ->
    if N.eqb (cur a) second
    then Ok { s_rest = (advance a); s_typ = t2; s_name = s.s_name; s_prefix =
           s.s_prefix; s_strval = s.s_strval; s_numval = s.s_numval;
           s_canfunc = s.s_canfunc }
    else Ok { s_rest = a; s_typ = t1; s_name = s.s_name; s_prefix =
           s.s_prefix; s_strval = s.s_strval; s_numval = s.s_numval;
           s_canfunc = s.s_canfunc }
  in
  if N.eqb c N0
  then Ok { s_rest = l; s_typ = IEOF; s_name = s.s_name; s_prefix =
         s.s_prefix; s_strval = s.s_strval; s_numval = s.s_numval;
         s_canfunc = s.s_canfunc }
  else if N.eqb c (Npos (XO (XO (XI (XI (XO XH))))))
       then one0 IComma
       else if N.eqb c (Npos (XO (XO (XO (XO (XO (XO XH)))))))
            then one0 IAt
            else if N.eqb c (Npos (XO (XO (XO (XI (XO XH))))))
                 then one0 ILParens
                 else if N.eqb c (Npos (XI (XO (XO (XI (XO XH))))))
                      then one0 IRParens
                      else if N.eqb c (Npos (XO (XO (XI (XI (XI (XI XH)))))))
                           then one0 IUnion
                           else if N.eqb c (Npos (XO (XI (XO (XI (XO XH))))))
                                then one0 IStar
                                else if N.eqb c (Npos (XI (XI (XO (XI (XI (XO
                                          XH)))))))
                                     then one0 ILBracket
                                     else if N.eqb c (Npos (XI (XO (XI (XI
                                               (XI (XO XH)))))))
                                          then one0 IRBracket
                                          else if N.eqb c (Npos (XI (XI (XO
                                                    (XI (XO XH))))))
                                               then one0 IPlus
                                               else if N.eqb c (Npos (XI (XO
                                                         (XI (XI (XO XH))))))
                                                    then one0 IMinus
                                                    else if N.eqb c (Npos (XI
                                                              (XO (XI (XI (XI
                                                              XH))))))
                                                         then one0 IEq
                                                         else if N.eqb c
                                                                   (Npos (XI
                                                                   (XI (XO
                                                                   (XO (XO
                                                                   XH))))))
                                                              then Err
                                                                    ('u'::('n'::('k'::('n'::('o'::('w'::('n'::(' '::('i'::('t'::('e'::('m'::(':'::(' '::('3'::('5'::[]))))))))))))))))
                                                              else if 
                                                                    N.eqb c
                                                                    (Npos (XO
                                                                    (XO (XI
                                                                    (XO (XO
                                                                    XH))))))
                                                                   then 
                                                                    one0
                                                                    IDollar
                                                                   else 
                                                                    if 
                                                                    N.eqb c
                                                                    (Npos (XO
                                                                    (XO (XI
                                                                    (XI (XI
                                                                    XH))))))
                                                                    then 
                                                                    two (Npos
                                                                    (XI (XO
                                                                    (XI (XI
                                                                    (XI
                                                                    XH))))))
                                                                    ILt ILe
                                                                    else 
                                                                    if 
                                                                    N.eqb c
                                                                    (Npos (XO
                                                                    (XI (XI
                                                                    (XI (XI
                                                                    XH))))))
                                                                    then 
                                                                    two (Npos
                                                                    (XI (XO
                                                                    (XI (XI
                                                                    (XI
                                                                    XH))))))
                                                                    IGt IGe
                                                                    else 
                                                                    if 
                                                                    N.eqb c
                                                                    (Npos (XI
                                                                    (XO (XO
                                                                    (XO (XO
                                                                    XH))))))
                                                                    then 
                                                                    two (Npos
                                                                    (XI (XO
                                                                    (XI (XI
                                                                    (XI
                                                                    XH))))))
                                                                    IBang INe
                                                                    else 
                                                                    if 
                                                                    N.eqb c
                                                                    (Npos (XO
                                                                    (XI (XI
                                                                    (XI (XO
                                                                    XH))))))
                                                                    then 
                                                                    if 
                                                                    N.eqb
                                                                    (cur a)
                                                                    (Npos (XO
                                                                    (XI (XI
                                                                    (XI (XO
                                                                    XH))))))
                                                                    then 
                                                                    Ok
                                                                    { s_rest =
                                                                    (advance
                                                                    a);
                                                                    s_typ =
                                                                    IDotDot;
                                                                    s_name =
                                                                    s.s_name;
                                                                    s_prefix =
                                                                    s.s_prefix;
                                                                    s_strval =
                                                                    s.s_strval;
                                                                    s_numval =
                                                                    s.s_numval;
                                                                    s_canfunc =
                                                                    s.s_canfunc }
                                                                    else 
                                                                    if 
                                                                    is_digit_rune
                                                                    (cur a)
                                                                    then 
                                                                    cbind
                                                                    (scan_fraction
                                                                    a)
                                                                    (fun pat ->
                                                                    let (
                                                                    v, r) =
                                                                    pat
                                                                    in
                                                                    Ok
                                                                    { s_rest =
                                                                    r;
                                                                    s_typ =
                                                                    INumber;
                                                                    s_name =
                                                                    s.s_name;
                                                                    s_prefix =
                                                                    s.s_prefix;
                                                                    s_strval =
                                                                    s.s_strval;
                                                                    s_numval =
                                                                    v;
                                                                    s_canfunc =
                                                                    s.s_canfunc })
                                                                    else 
                                                                    one0 IDot
                                                                    else 
                                                                    if 
                                                                    N.eqb c
                                                                    (Npos (XI
                                                                    (XI (XI
                                                                    (XI (XO
                                                                    XH))))))
                                                                    then 
                                                                    two (Npos
                                                                    (XI (XI
                                                                    (XI (XI
                                                                    (XO
                                                                    XH))))))
                                                                    ISlash
                                                                    ISlashSlash
                                                                    else 
                                                                    if 
                                                                    (||)
                                                                    (N.eqb c
                                                                    (Npos (XO
                                                                    (XI (XO
                                                                    (XO (XO
                                                                    XH)))))))
                                                                    (N.eqb c
                                                                    (Npos (XI
                                                                    (XI (XI
                                                                    (XO (XO
                                                                    XH)))))))
                                                                    then 
                                                                    (match 
                                                                    scan_string
                                                                    l with
                                                                    | Some p ->
                                                                    let (
                                                                    str, r) =
                                                                    p
                                                                    in
                                                                    Ok
                                                                    { s_rest =
                                                                    r;
                                                                    s_typ =
                                                                    IString;
                                                                    s_name =
                                                                    s.s_name;
                                                                    s_prefix =
                                                                    s.s_prefix;
                                                                    s_strval =
                                                                    str;
                                                                    s_numval =
                                                                    s.s_numval;
                                                                    s_canfunc =
                                                                    s.s_canfunc }
                                                                    | None ->
                                                                    Err
                                                                    ('x'::('p'::('a'::('t'::('h'::(':'::(' '::('s'::('c'::('a'::('n'::('S'::('t'::('r'::('i'::('n'::('g'::(' '::('g'::('o'::('t'::(' '::('u'::('n'::('c'::('l'::('o'::('s'::('e'::('d'::(' '::('s'::('t'::('r'::('i'::('n'::('g'::[]))))))))))))))))))))))))))))))))))))))
                                                                    else 
                                                                    if 
                                                                    is_digit_rune
                                                                    c
                                                                    then 
                                                                    cbind
                                                                    (scan_number
                                                                    l)
                                                                    (fun pat ->
                                                                    let (
                                                                    v, r) =
                                                                    pat
                                                                    in
                                                                    Ok
                                                                    { s_rest =
                                                                    r;
                                                                    s_typ =
                                                                    INumber;
                                                                    s_name =
                                                                    s.s_name;
                                                                    s_prefix =
                                                                    s.s_prefix;
                                                                    s_strval =
                                                                    s.s_strval;
                                                                    s_numval =
                                                                    v;
                                                                    s_canfunc =
                                                                    s.s_canfunc })
                                                                    else 
                                                                    if 
                                                                    is_name_rune
                                                                    c
                                                                    then 
                                                                    let (
                                                                    name, r) =
                                                                    scan_name
                                                                    l
                                                                    in
                                                                    let finish =
                                                                    fun t nm pre r' ->
                                                                    let r'' =
                                                                    skipsp r'
                                                                    in
                                                                    Ok
                                                                    { s_rest =
                                                                    r'';
                                                                    s_typ =
                                                                    t;
                                                                    s_name =
                                                                    nm;
                                                                    s_prefix =
                                                                    pre;
                                                                    s_strval =
                                                                    s.s_strval;
                                                                    s_numval =
                                                                    s.s_numval;
                                                                    s_canfunc =
                                                                    (N.eqb
                                                                    (cur r'')
                                                                    (Npos (XO
                                                                    (XO (XO
                                                                    (XI (XO
                                                                    XH))))))) }
                                                                    in
                                                                    if 
                                                                    N.eqb
                                                                    (cur r)
                                                                    (Npos (XO
                                                                    (XI (XO
                                                                    (XI (XI
                                                                    XH))))))
                                                                    then 
                                                                    let r1 =
                                                                    advance r
                                                                    in
                                                                    if 
                                                                    N.eqb
                                                                    (cur r1)
                                                                    (Npos (XO
                                                                    (XI (XO
                                                                    (XI (XI
                                                                    XH))))))
                                                                    then 
                                                                    finish
                                                                    IAxe name
                                                                    []
                                                                    (advance
                                                                    r1)
                                                                    else 
                                                                    if 
                                                                    N.eqb
                                                                    (cur r1)
                                                                    (Npos (XO
                                                                    (XI (XO
                                                                    (XI (XO
                                                                    XH))))))
                                                                    then 
                                                                    finish
                                                                    IName
                                                                    ('*'::[])
                                                                    name
                                                                    (advance
                                                                    r1)
                                                                    else 
                                                                    if 
                                                                    is_name_rune
                                                                    (cur r1)
                                                                    then 
                                                                    let (
                                                                    name2, r2) =
                                                                    scan_name
                                                                    r1
                                                                    in
                                                                    finish
                                                                    IName
                                                                    name2
                                                                    name r2
                                                                    else 
                                                                    Err
                                                                    ('h'::('a'::('s'::(' '::('a'::('n'::(' '::('i'::('n'::('v'::('a'::('l'::('i'::('d'::(' '::('q'::('u'::('a'::('l'::('i'::('f'::('i'::('e'::('d'::(' '::('n'::('a'::('m'::('e'::('.'::[]))))))))))))))))))))))))))))))
                                                                    else 
                                                                    let r1 =
                                                                    skipsp r
                                                                    in
                                                                    if 
                                                                    N.eqb
                                                                    (cur r1)
                                                                    (Npos (XO
                                                                    (XI (XO
                                                                    (XI (XI
                                                                    XH))))))
                                                                    then 
                                                                    let r2 =
                                                                    advance r1
                                                                    in
                                                                    if 
                                                                    N.eqb
                                                                    (cur r2)
                                                                    (Npos (XO
                                                                    (XI (XO
                                                                    (XI (XI
                                                                    XH))))))
                                                                    then 
                                                                    finish
                                                                    IAxe name
                                                                    []
                                                                    (advance
                                                                    r2)
                                                                    else 
                                                                    Err
                                                                    ('h'::('a'::('s'::(' '::('a'::('n'::(' '::('i'::('n'::('v'::('a'::('l'::('i'::('d'::(' '::('q'::('u'::('a'::('l'::('i'::('f'::('i'::('e'::('d'::(' '::('n'::('a'::('m'::('e'::('.'::[]))))))))))))))))))))))))))))))
                                                                    else 
                                                                    finish
                                                                    IName
                                                                    name [] r1
                                                                    else 
                                                                    Err
                                                                    ('h'::('a'::('s'::(' '::('a'::('n'::(' '::('i'::('n'::('v'::('a'::('l'::('i'::('d'::(' '::('t'::('o'::('k'::('e'::('n'::('.'::[])))))))))))))))))))))

(** val init_scanner : char list -> sstate **)

let init_scanner text =
  { s_rest = (list_of_string text); s_typ = IEOF; s_name = []; s_prefix = [];
    s_strval = []; s_numval = fzero; s_canfunc = false }

type pst = { p_s : sstate; p_d : nat }

type 'a pR = ('a * pst) cres

type nsmap = (char list * char list) list option

(** val ns_lookup :
    (char list * char list) list -> char list -> char list option **)

let rec ns_lookup m k =
  match m with
  | [] -> None
  | p :: r -> let (a, b) = p in if eqb0 a k then Some b else ns_lookup r k

(** val typ : pst -> itype **)

let typ st =
  st.p_s.s_typ

(** val is_typ : pst -> itype -> bool **)

let is_typ st t =
  itype_eqb (typ st) t

(** val pnext : pst -> pst cres **)

let pnext st =
  cbind (next_item st.p_s) (fun s' -> Ok { p_s = s'; p_d = st.p_d })

(** val check_item : pst -> itype -> unit cres **)

let check_item st t =
  if is_typ st t
  then Ok ()
  else Err
         ('h'::('a'::('s'::(' '::('a'::('n'::(' '::('i'::('n'::('v'::('a'::('l'::('i'::('d'::(' '::('t'::('o'::('k'::('e'::('n'::[]))))))))))))))))))))

(** val skip_item : pst -> itype -> pst cres **)

let skip_item st t =
  cbind (check_item st t) (fun _ -> pnext st)

(** val test_op : pst -> char list -> bool **)

let test_op st op =
  (&&) (is_typ st IName)
    ((&&) (eqb0 st.p_s.s_prefix []) (eqb0 st.p_s.s_name op))

(** val is_node_type : pst -> bool **)

let is_node_type st =
  let nm = st.p_s.s_name in
  if (||)
       ((||) (eqb0 nm ('n'::('o'::('d'::('e'::[])))))
         (eqb0 nm ('t'::('e'::('x'::('t'::[]))))))
       ((||)
         (eqb0 nm
           ('p'::('r'::('o'::('c'::('e'::('s'::('s'::('i'::('n'::('g'::('-'::('i'::('n'::('s'::('t'::('r'::('u'::('c'::('t'::('i'::('o'::('n'::[])))))))))))))))))))))))
         (eqb0 nm ('c'::('o'::('m'::('m'::('e'::('n'::('t'::[])))))))))
  then eqb0 st.p_s.s_prefix []
  else false

(** val is_primary_expr : pst -> bool **)

let is_primary_expr st =
  match typ st with
  | ILParens -> true
  | IDollar -> true
  | IName -> (&&) st.p_s.s_canfunc (negb (is_node_type st))
  | IString -> true
  | INumber -> true
  | _ -> false

(** val is_step : itype -> bool **)

let is_step = function
| IAt -> true
| IDot -> true
| IStar -> true
| IDotDot -> true
| IName -> true
| IAxe -> true
| _ -> false

(** val dos_node : anode option -> anode **)

let dos_node input =
  AAxis
    (('d'::('e'::('s'::('c'::('e'::('n'::('d'::('a'::('n'::('t'::('-'::('o'::('r'::('-'::('s'::('e'::('l'::('f'::[])))))))))))))))))),
    NTAll, [], [], [], false, [], input)

(** val bin_loop :
    nat -> (pst -> char list option) -> (pst -> anode pR) -> anode -> pst ->
    anode pR **)

let rec bin_loop fuel getop sub0 acc st =
  match fuel with
  | O -> OutOfFuel
  | S f ->
    (match getop st with
     | Some op ->
       cbind (pnext st) (fun st1 ->
         cbind (sub0 st1) (fun pat ->
           let (r, st2) = pat in bin_loop f getop sub0 (AOp (op, acc, r)) st2))
     | None -> Ok (acc, st))

(** val bin_level :
    nat -> (pst -> char list option) -> (pst -> anode pR) -> pst -> anode pR **)

let bin_level fuel getop sub0 st =
  cbind (sub0 st) (fun pat ->
    let (a, st1) = pat in bin_loop fuel getop sub0 a st1)

(** val op_or : pst -> char list option **)

let op_or st =
  if test_op st ('o'::('r'::[])) then Some ('o'::('r'::[])) else None

(** val op_and : pst -> char list option **)

let op_and st =
  if test_op st ('a'::('n'::('d'::[])))
  then Some ('a'::('n'::('d'::[])))
  else None

(** val op_eq : pst -> char list option **)

let op_eq st =
  match typ st with
  | IEq -> Some ('='::[])
  | INe -> Some ('!'::('='::[]))
  | _ -> None

(** val op_rel : pst -> char list option **)

let op_rel st =
  match typ st with
  | ILt -> Some ('<'::[])
  | IGt -> Some ('>'::[])
  | ILe -> Some ('<'::('='::[]))
  | IGe -> Some ('>'::('='::[]))
  | _ -> None

(** val op_add : pst -> char list option **)

let op_add st =
  match typ st with
  | IPlus -> Some ('+'::[])
  | IMinus -> Some ('-'::[])
  | _ -> None

(** val op_mul : pst -> char list option **)

let op_mul st =
  if is_typ st IStar
  then Some ('*'::[])
  else if (||) (test_op st ('d'::('i'::('v'::[]))))
            (test_op st ('m'::('o'::('d'::[]))))
       then Some st.p_s.s_name
       else None

(** val op_union : pst -> char list option **)

let op_union st =
  if is_typ st IUnion then Some ('|'::[]) else None

(** val minus_loop : nat -> bool -> pst -> (bool * pst) cres **)

let rec minus_loop fuel minus st =
  match fuel with
  | O -> OutOfFuel
  | S f ->
    if is_typ st IMinus
    then cbind (pnext st) (fun st1 -> minus_loop f (negb minus) st1)
    else Ok (minus, st)

(** val parse_node_test :
    nsmap -> anode option -> char list -> ntype -> pst -> anode pR **)

let parse_node_test ns n0 axis mt st =
  match typ st with
  | IStar ->
    cbind (pnext st) (fun st1 -> Ok ((AAxis (axis, mt, [], [], [], false, [],
      n0)), st1))
  | IName ->
    if (&&) st.p_s.s_canfunc (is_node_type st)
    then let prop = st.p_s.s_name in
         cbind (pnext st) (fun st1 ->
           cbind (skip_item st1 ILParens) (fun st2 ->
             cbind
               (if (&&)
                     (eqb0 prop
                       ('p'::('r'::('o'::('c'::('e'::('s'::('s'::('i'::('n'::('g'::('-'::('i'::('n'::('s'::('t'::('r'::('u'::('c'::('t'::('i'::('o'::('n'::[])))))))))))))))))))))))
                     (negb (is_typ st2 IRParens))
                then cbind (check_item st2 IString) (fun _ ->
                       let nm = st2.p_s.s_strval in
                       cbind (pnext st2) (fun st' -> Ok (nm, st')))
                else Ok ([], st2)) (fun pat ->
               let (name, st3) = pat in
               cbind (skip_item st3 IRParens) (fun st4 ->
                 let mt' =
                   if eqb0 prop
                        ('c'::('o'::('m'::('m'::('e'::('n'::('t'::[])))))))
                   then NTComment
                   else if eqb0 prop ('t'::('e'::('x'::('t'::[]))))
                        then NTText
                        else if eqb0 prop
                                  ('p'::('r'::('o'::('c'::('e'::('s'::('s'::('i'::('n'::('g'::('-'::('i'::('n'::('s'::('t'::('r'::('u'::('c'::('t'::('i'::('o'::('n'::[]))))))))))))))))))))))
                             then mt
                             else NTAll
                 in
                 Ok ((AAxis (axis, mt', [], name, prop, false, [], n0)), st4)))))
    else let prefix0 = st.p_s.s_prefix in
         let name0 = st.p_s.s_name in
         cbind (pnext st) (fun st1 ->
           let name = if eqb0 st1.p_s.s_name ('*'::[]) then [] else name0 in
           if (&&) (negb (eqb0 prefix0 []))
                (match ns with
                 | Some _ -> true
                 | None -> false)
           then (match ns with
                 | Some m ->
                   (match ns_lookup m prefix0 with
                    | Some uri ->
                      Ok ((AAxis (axis, mt, prefix0, name, [], true, uri,
                        n0)), st1)
                    | None ->
                      Err
                        ('p'::('r'::('e'::('f'::('i'::('x'::(' '::('n'::('o'::('t'::(' '::('d'::('e'::('f'::('i'::('n'::('e'::('d'::('.'::[]))))))))))))))))))))
                 | None ->
                   Ok ((AAxis (axis, mt, prefix0, name, [], false, [], n0)),
                     st1))
           else Ok ((AAxis (axis, mt, prefix0, name, [], false, [], n0)), st1))
  | _ ->
    Err
      ('e'::('x'::('p'::('r'::('e'::('s'::('s'::('i'::('o'::('n'::(' '::('m'::('u'::('s'::('t'::(' '::('e'::('v'::('a'::('l'::('u'::('a'::('t'::('e'::(' '::('t'::('o'::(' '::('a'::(' '::('n'::('o'::('d'::('e'::('-'::('s'::('e'::('t'::[]))))))))))))))))))))))))))))))))))))))

type entry =
| EExpr
| EStep

(** val pred_loop :
    nat -> (anode option -> pst -> anode pR) -> anode -> pst -> anode pR **)

let rec pred_loop fuel pexpr acc st =
  match fuel with
  | O -> OutOfFuel
  | S f ->
    if is_typ st ILBracket
    then cbind (skip_item st ILBracket) (fun st1 ->
           cbind (pexpr (Some acc) st1) (fun pat ->
             let (c, st2) = pat in
             cbind (skip_item st2 IRBracket) (fun st3 ->
               pred_loop f pexpr (AFilter (acc, c)) st3)))
    else Ok (acc, st)

(** val relpath_loop :
    nat -> (anode option -> pst -> anode pR) -> anode option -> pst -> anode
    pR **)

let rec relpath_loop fuel pstep n0 st =
  match fuel with
  | O -> OutOfFuel
  | S f ->
    cbind (pstep n0 st) (fun pat ->
      let (o, st1) = pat in
      (match typ st1 with
       | ISlash ->
         cbind (pnext st1) (fun st2 -> relpath_loop f pstep (Some o) st2)
       | ISlashSlash ->
         cbind (pnext st1) (fun st2 ->
           relpath_loop f pstep (Some (dos_node (Some o))) st2)
       | _ -> Ok (o, st1)))

(** val seq_loop :
    nat -> (anode option -> pst -> anode pR) -> anode option -> anode -> pst
    -> anode pR **)

let rec seq_loop fuel pstep n0 acc st =
  match fuel with
  | O -> OutOfFuel
  | S f ->
    if is_typ st IComma
    then cbind (pnext st) (fun st1 ->
           cbind (pstep n0 st1) (fun pat ->
             let (o2, st2) = pat in
             seq_loop f pstep n0 (AOp (('|'::[]), acc, o2)) st2))
    else Ok (acc, st)

(** val args_loop :
    nat -> (anode option -> pst -> anode pR) -> anode list -> pst -> anode
    list pR **)

let rec args_loop fuel pexpr acc st =
  match fuel with
  | O -> OutOfFuel
  | S f ->
    cbind (pexpr None st) (fun pat ->
      let (a, st1) = pat in
      if is_typ st1 IRParens
      then Ok ((app acc (a :: [])), st1)
      else cbind (skip_item st1 IComma) (fun st2 ->
             args_loop f pexpr (app acc (a :: [])) st2))

(** val is_operand : anode -> bool **)

let is_operand = function
| ANum _ -> true
| AStr _ -> true
| _ -> false

(** val max_depth : nat **)

let max_depth =
  S (S (S (S (S (S (S (S (S (S (S (S (S (S (S (S (S (S (S (S (S (S (S (S (S
    (S (S (S (S (S (S (S (S (S (S (S (S (S (S (S (S (S (S (S (S (S (S (S (S
    (S (S (S (S (S (S (S (S (S (S (S (S (S (S (S (S (S (S (S (S (S (S (S (S
    (S (S (S (S (S (S (S (S (S (S (S (S (S (S (S (S (S (S (S (S (S (S (S (S
    (S (S (S (S (S (S (S (S (S (S (S (S (S (S (S (S (S (S (S (S (S (S (S (S
    (S (S (S (S (S (S (S (S (S (S (S (S (S (S (S (S (S (S (S (S (S (S (S (S
    (S (S (S (S (S (S (S (S (S (S (S (S (S (S (S (S (S (S (S (S (S (S (S (S
    (S (S (S (S (S (S (S (S (S (S (S (S (S (S (S (S (S (S (S (S (S (S (S (S
    (S (S (S (S (S (S (S
    O)))))))))))))))))))))))))))))))))))))))))))))))))))))))))))))))))))))))))))))))))))))))))))))))))))))))))))))))))))))))))))))))))))))))))))))))))))))))))))))))))))))))))))))))))))))))))))))))))))))))

(** val pgo : nsmap -> nat -> entry -> anode option -> pst -> anode pR **)

let rec pgo ns fuel what n0 st =
  match fuel with
  | O -> OutOfFuel
  | S f ->
    let pexpr = pgo ns f EExpr in
    let pstep = pgo ns f EStep in
    (match what with
     | EExpr ->
       let d = S st.p_d in
       if Nat.ltb max_depth d
       then Err
              ('t'::('h'::('e'::(' '::('x'::('p'::('a'::('t'::('h'::(' '::('q'::('u'::('e'::('r'::('y'::(' '::('i'::('s'::(' '::('t'::('o'::('o'::(' '::('c'::('o'::('m'::('p'::('l'::('e'::('x'::('('::('d'::('e'::('p'::('t'::('h'::(' '::('>'::(' '::('2'::('0'::('0'::(')'::[])))))))))))))))))))))))))))))))))))))))))))
       else let st0 = { p_s = st.p_s; p_d = d } in
            let primary = fun n1 st1 ->
              match typ st1 with
              | IComma ->
                let name = st1.p_s.s_name in
                let prefix0 = st1.p_s.s_prefix in
                cbind (skip_item st1 IName) (fun st2 ->
                  cbind (skip_item st2 ILParens) (fun st3 ->
                    cbind
                      (if is_typ st3 IRParens
                       then Ok ([], st3)
                       else args_loop f pexpr [] st3) (fun pat ->
                      let (args, st4) = pat in
                      cbind (skip_item st4 IRParens) (fun st5 -> Ok ((AFunc
                        (prefix0, name, args)), st5)))))
              | ISlash ->
                let name = st1.p_s.s_name in
                let prefix0 = st1.p_s.s_prefix in
                cbind (skip_item st1 IName) (fun st2 ->
                  cbind (skip_item st2 ILParens) (fun st3 ->
                    cbind
                      (if is_typ st3 IRParens
                       then Ok ([], st3)
                       else args_loop f pexpr [] st3) (fun pat ->
                      let (args, st4) = pat in
                      cbind (skip_item st4 IRParens) (fun st5 -> Ok ((AFunc
                        (prefix0, name, args)), st5)))))
              | IAt ->
                let name = st1.p_s.s_name in
                let prefix0 = st1.p_s.s_prefix in
                cbind (skip_item st1 IName) (fun st2 ->
                  cbind (skip_item st2 ILParens) (fun st3 ->
                    cbind
                      (if is_typ st3 IRParens
                       then Ok ([], st3)
                       else args_loop f pexpr [] st3) (fun pat ->
                      let (args, st4) = pat in
                      cbind (skip_item st4 IRParens) (fun st5 -> Ok ((AFunc
                        (prefix0, name, args)), st5)))))
              | IDot ->
                let name = st1.p_s.s_name in
                let prefix0 = st1.p_s.s_prefix in
                cbind (skip_item st1 IName) (fun st2 ->
                  cbind (skip_item st2 ILParens) (fun st3 ->
                    cbind
                      (if is_typ st3 IRParens
                       then Ok ([], st3)
                       else args_loop f pexpr [] st3) (fun pat ->
                      let (args, st4) = pat in
                      cbind (skip_item st4 IRParens) (fun st5 -> Ok ((AFunc
                        (prefix0, name, args)), st5)))))
              | ILParens ->
                cbind (pnext st1) (fun st2 ->
                  cbind (pexpr n1 st2) (fun pat ->
                    let (o, st3) = pat in
                    let o' = if is_operand o then o else AGroup o in
                    cbind (skip_item st3 IRParens) (fun st4 -> Ok (o', st4))))
              | IRParens ->
                let name = st1.p_s.s_name in
                let prefix0 = st1.p_s.s_prefix in
                cbind (skip_item st1 IName) (fun st2 ->
                  cbind (skip_item st2 ILParens) (fun st3 ->
                    cbind
                      (if is_typ st3 IRParens
                       then Ok ([], st3)
                       else args_loop f pexpr [] st3) (fun pat ->
                      let (args, st4) = pat in
                      cbind (skip_item st4 IRParens) (fun st5 -> Ok ((AFunc
                        (prefix0, name, args)), st5)))))
              | ILBracket ->
                let name = st1.p_s.s_name in
                let prefix0 = st1.p_s.s_prefix in
                cbind (skip_item st1 IName) (fun st2 ->
                  cbind (skip_item st2 ILParens) (fun st3 ->
                    cbind
                      (if is_typ st3 IRParens
                       then Ok ([], st3)
                       else args_loop f pexpr [] st3) (fun pat ->
                      let (args, st4) = pat in
                      cbind (skip_item st4 IRParens) (fun st5 -> Ok ((AFunc
                        (prefix0, name, args)), st5)))))
              | IRBracket ->
                let name = st1.p_s.s_name in
                let prefix0 = st1.p_s.s_prefix in
                cbind (skip_item st1 IName) (fun st2 ->
                  cbind (skip_item st2 ILParens) (fun st3 ->
                    cbind
                      (if is_typ st3 IRParens
                       then Ok ([], st3)
                       else args_loop f pexpr [] st3) (fun pat ->
                      let (args, st4) = pat in
                      cbind (skip_item st4 IRParens) (fun st5 -> Ok ((AFunc
                        (prefix0, name, args)), st5)))))
              | IStar ->
                let name = st1.p_s.s_name in
                let prefix0 = st1.p_s.s_prefix in
                cbind (skip_item st1 IName) (fun st2 ->
                  cbind (skip_item st2 ILParens) (fun st3 ->
                    cbind
                      (if is_typ st3 IRParens
                       then Ok ([], st3)
                       else args_loop f pexpr [] st3) (fun pat ->
                      let (args, st4) = pat in
                      cbind (skip_item st4 IRParens) (fun st5 -> Ok ((AFunc
                        (prefix0, name, args)), st5)))))
              | IPlus ->
                let name = st1.p_s.s_name in
                let prefix0 = st1.p_s.s_prefix in
                cbind (skip_item st1 IName) (fun st2 ->
                  cbind (skip_item st2 ILParens) (fun st3 ->
                    cbind
                      (if is_typ st3 IRParens
                       then Ok ([], st3)
                       else args_loop f pexpr [] st3) (fun pat ->
                      let (args, st4) = pat in
                      cbind (skip_item st4 IRParens) (fun st5 -> Ok ((AFunc
                        (prefix0, name, args)), st5)))))
              | IMinus ->
                let name = st1.p_s.s_name in
                let prefix0 = st1.p_s.s_prefix in
                cbind (skip_item st1 IName) (fun st2 ->
                  cbind (skip_item st2 ILParens) (fun st3 ->
                    cbind
                      (if is_typ st3 IRParens
                       then Ok ([], st3)
                       else args_loop f pexpr [] st3) (fun pat ->
                      let (args, st4) = pat in
                      cbind (skip_item st4 IRParens) (fun st5 -> Ok ((AFunc
                        (prefix0, name, args)), st5)))))
              | IEq ->
                let name = st1.p_s.s_name in
                let prefix0 = st1.p_s.s_prefix in
                cbind (skip_item st1 IName) (fun st2 ->
                  cbind (skip_item st2 ILParens) (fun st3 ->
                    cbind
                      (if is_typ st3 IRParens
                       then Ok ([], st3)
                       else args_loop f pexpr [] st3) (fun pat ->
                      let (args, st4) = pat in
                      cbind (skip_item st4 IRParens) (fun st5 -> Ok ((AFunc
                        (prefix0, name, args)), st5)))))
              | ILt ->
                let name = st1.p_s.s_name in
                let prefix0 = st1.p_s.s_prefix in
                cbind (skip_item st1 IName) (fun st2 ->
                  cbind (skip_item st2 ILParens) (fun st3 ->
                    cbind
                      (if is_typ st3 IRParens
                       then Ok ([], st3)
                       else args_loop f pexpr [] st3) (fun pat ->
                      let (args, st4) = pat in
                      cbind (skip_item st4 IRParens) (fun st5 -> Ok ((AFunc
                        (prefix0, name, args)), st5)))))
              | IGt ->
                let name = st1.p_s.s_name in
                let prefix0 = st1.p_s.s_prefix in
                cbind (skip_item st1 IName) (fun st2 ->
                  cbind (skip_item st2 ILParens) (fun st3 ->
                    cbind
                      (if is_typ st3 IRParens
                       then Ok ([], st3)
                       else args_loop f pexpr [] st3) (fun pat ->
                      let (args, st4) = pat in
                      cbind (skip_item st4 IRParens) (fun st5 -> Ok ((AFunc
                        (prefix0, name, args)), st5)))))
              | IBang ->
                let name = st1.p_s.s_name in
                let prefix0 = st1.p_s.s_prefix in
                cbind (skip_item st1 IName) (fun st2 ->
                  cbind (skip_item st2 ILParens) (fun st3 ->
                    cbind
                      (if is_typ st3 IRParens
                       then Ok ([], st3)
                       else args_loop f pexpr [] st3) (fun pat ->
                      let (args, st4) = pat in
                      cbind (skip_item st4 IRParens) (fun st5 -> Ok ((AFunc
                        (prefix0, name, args)), st5)))))
              | IDollar ->
                cbind (pnext st1) (fun st2 ->
                  cbind (check_item st2 IName) (fun _ ->
                    let v = AVar (st2.p_s.s_prefix, st2.p_s.s_name) in
                    cbind (pnext st2) (fun st3 -> Ok (v, st3))))
              | IApos ->
                let name = st1.p_s.s_name in
                let prefix0 = st1.p_s.s_prefix in
                cbind (skip_item st1 IName) (fun st2 ->
                  cbind (skip_item st2 ILParens) (fun st3 ->
                    cbind
                      (if is_typ st3 IRParens
                       then Ok ([], st3)
                       else args_loop f pexpr [] st3) (fun pat ->
                      let (args, st4) = pat in
                      cbind (skip_item st4 IRParens) (fun st5 -> Ok ((AFunc
                        (prefix0, name, args)), st5)))))
              | IQuote ->
                let name = st1.p_s.s_name in
                let prefix0 = st1.p_s.s_prefix in
                cbind (skip_item st1 IName) (fun st2 ->
                  cbind (skip_item st2 ILParens) (fun st3 ->
                    cbind
                      (if is_typ st3 IRParens
                       then Ok ([], st3)
                       else args_loop f pexpr [] st3) (fun pat ->
                      let (args, st4) = pat in
                      cbind (skip_item st4 IRParens) (fun st5 -> Ok ((AFunc
                        (prefix0, name, args)), st5)))))
              | IUnion ->
                let name = st1.p_s.s_name in
                let prefix0 = st1.p_s.s_prefix in
                cbind (skip_item st1 IName) (fun st2 ->
                  cbind (skip_item st2 ILParens) (fun st3 ->
                    cbind
                      (if is_typ st3 IRParens
                       then Ok ([], st3)
                       else args_loop f pexpr [] st3) (fun pat ->
                      let (args, st4) = pat in
                      cbind (skip_item st4 IRParens) (fun st5 -> Ok ((AFunc
                        (prefix0, name, args)), st5)))))
              | INe ->
                let name = st1.p_s.s_name in
                let prefix0 = st1.p_s.s_prefix in
                cbind (skip_item st1 IName) (fun st2 ->
                  cbind (skip_item st2 ILParens) (fun st3 ->
                    cbind
                      (if is_typ st3 IRParens
                       then Ok ([], st3)
                       else args_loop f pexpr [] st3) (fun pat ->
                      let (args, st4) = pat in
                      cbind (skip_item st4 IRParens) (fun st5 -> Ok ((AFunc
                        (prefix0, name, args)), st5)))))
              | ILe ->
                let name = st1.p_s.s_name in
                let prefix0 = st1.p_s.s_prefix in
                cbind (skip_item st1 IName) (fun st2 ->
                  cbind (skip_item st2 ILParens) (fun st3 ->
                    cbind
                      (if is_typ st3 IRParens
                       then Ok ([], st3)
                       else args_loop f pexpr [] st3) (fun pat ->
                      let (args, st4) = pat in
                      cbind (skip_item st4 IRParens) (fun st5 -> Ok ((AFunc
                        (prefix0, name, args)), st5)))))
              | IGe ->
                let name = st1.p_s.s_name in
                let prefix0 = st1.p_s.s_prefix in
                cbind (skip_item st1 IName) (fun st2 ->
                  cbind (skip_item st2 ILParens) (fun st3 ->
                    cbind
                      (if is_typ st3 IRParens
                       then Ok ([], st3)
                       else args_loop f pexpr [] st3) (fun pat ->
                      let (args, st4) = pat in
                      cbind (skip_item st4 IRParens) (fun st5 -> Ok ((AFunc
                        (prefix0, name, args)), st5)))))
              | IAnd ->
                let name = st1.p_s.s_name in
                let prefix0 = st1.p_s.s_prefix in
                cbind (skip_item st1 IName) (fun st2 ->
                  cbind (skip_item st2 ILParens) (fun st3 ->
                    cbind
                      (if is_typ st3 IRParens
                       then Ok ([], st3)
                       else args_loop f pexpr [] st3) (fun pat ->
                      let (args, st4) = pat in
                      cbind (skip_item st4 IRParens) (fun st5 -> Ok ((AFunc
                        (prefix0, name, args)), st5)))))
              | IOr ->
                let name = st1.p_s.s_name in
                let prefix0 = st1.p_s.s_prefix in
                cbind (skip_item st1 IName) (fun st2 ->
                  cbind (skip_item st2 ILParens) (fun st3 ->
                    cbind
                      (if is_typ st3 IRParens
                       then Ok ([], st3)
                       else args_loop f pexpr [] st3) (fun pat ->
                      let (args, st4) = pat in
                      cbind (skip_item st4 IRParens) (fun st5 -> Ok ((AFunc
                        (prefix0, name, args)), st5)))))
              | IDotDot ->
                let name = st1.p_s.s_name in
                let prefix0 = st1.p_s.s_prefix in
                cbind (skip_item st1 IName) (fun st2 ->
                  cbind (skip_item st2 ILParens) (fun st3 ->
                    cbind
                      (if is_typ st3 IRParens
                       then Ok ([], st3)
                       else args_loop f pexpr [] st3) (fun pat ->
                      let (args, st4) = pat in
                      cbind (skip_item st4 IRParens) (fun st5 -> Ok ((AFunc
                        (prefix0, name, args)), st5)))))
              | ISlashSlash ->
                let name = st1.p_s.s_name in
                let prefix0 = st1.p_s.s_prefix in
                cbind (skip_item st1 IName) (fun st2 ->
                  cbind (skip_item st2 ILParens) (fun st3 ->
                    cbind
                      (if is_typ st3 IRParens
                       then Ok ([], st3)
                       else args_loop f pexpr [] st3) (fun pat ->
                      let (args, st4) = pat in
                      cbind (skip_item st4 IRParens) (fun st5 -> Ok ((AFunc
                        (prefix0, name, args)), st5)))))
              | IName ->
                let name = st1.p_s.s_name in
                let prefix0 = st1.p_s.s_prefix in
                cbind (skip_item st1 IName) (fun st2 ->
                  cbind (skip_item st2 ILParens) (fun st3 ->
                    cbind
                      (if is_typ st3 IRParens
                       then Ok ([], st3)
                       else args_loop f pexpr [] st3) (fun pat ->
                      let (args, st4) = pat in
                      cbind (skip_item st4 IRParens) (fun st5 -> Ok ((AFunc
                        (prefix0, name, args)), st5)))))
              | IString ->
                let v = st1.p_s.s_strval in
                cbind (pnext st1) (fun st2 -> Ok ((AStr v), st2))
              | INumber ->
                let v = st1.p_s.s_numval in
                cbind (pnext st1) (fun st2 -> Ok ((ANum v), st2))
              | IAxe ->
                let name = st1.p_s.s_name in
                let prefix0 = st1.p_s.s_prefix in
                cbind (skip_item st1 IName) (fun st2 ->
                  cbind (skip_item st2 ILParens) (fun st3 ->
                    cbind
                      (if is_typ st3 IRParens
                       then Ok ([], st3)
                       else args_loop f pexpr [] st3) (fun pat ->
                      let (args, st4) = pat in
                      cbind (skip_item st4 IRParens) (fun st5 -> Ok ((AFunc
                        (prefix0, name, args)), st5)))))
              | IEOF ->
                let name = st1.p_s.s_name in
                let prefix0 = st1.p_s.s_prefix in
                cbind (skip_item st1 IName) (fun st2 ->
                  cbind (skip_item st2 ILParens) (fun st3 ->
                    cbind
                      (if is_typ st3 IRParens
                       then Ok ([], st3)
                       else args_loop f pexpr [] st3) (fun pat ->
                      let (args, st4) = pat in
                      cbind (skip_item st4 IRParens) (fun st5 -> Ok ((AFunc
                        (prefix0, name, args)), st5)))))
            in
            let filter_expr = fun n1 st1 ->
              cbind (primary n1 st1) (fun pat ->
                let (o, st2) = pat in
                if is_typ st2 ILBracket
                then cbind (skip_item st2 ILBracket) (fun st3 ->
                       cbind (pexpr (Some o) st3) (fun pat0 ->
                         let (c, st4) = pat0 in
                         cbind (skip_item st4 IRBracket) (fun st5 -> Ok
                           ((AFilter (o, c)), st5))))
                else Ok (o, st2))
            in
            let location_path = fun st1 ->
              match typ st1 with
              | ISlash ->
                cbind (pnext st1) (fun st2 ->
                  if is_step (typ st2)
                  then relpath_loop f pstep (Some (ARoot ('/'::[]))) st2
                  else Ok ((ARoot ('/'::[])), st2))
              | ISlashSlash ->
                cbind (pnext st1) (fun st2 ->
                  relpath_loop f pstep (Some
                    (dos_node (Some (ARoot ('/'::('/'::[])))))) st2)
              | _ -> relpath_loop f pstep None st1
            in
            let path_expr = fun n1 st1 ->
              if is_primary_expr st1
              then cbind (filter_expr n1 st1) (fun pat ->
                     let (o, st2) = pat in
                     (match typ st2 with
                      | IComma -> Ok (o, st2)
                      | ISlash ->
                        cbind (pnext st2) (fun st3 ->
                          relpath_loop f pstep (Some o) st3)
                      | ISlashSlash ->
                        cbind (pnext st2) (fun st3 ->
                          relpath_loop f pstep (Some (dos_node (Some o))) st3)
                      | _ -> Ok (o, st2)))
              else location_path st1
            in
            let union_expr = fun n1 -> bin_level f op_union (path_expr n1) in
            let unary_expr = fun n1 st1 ->
              cbind (minus_loop f false st1) (fun pat ->
                let (minus, st2) = pat in
                cbind (union_expr n1 st2) (fun pat0 ->
                  let (o, st3) = pat0 in
                  Ok
                  ((if minus then AOp (('*'::[]), o, (ANum fminus_one)) else o),
                  st3)))
            in
            let mul_expr = fun n1 -> bin_level f op_mul (unary_expr n1) in
            let add_expr = fun n1 -> bin_level f op_add (mul_expr n1) in
            let rel_expr = fun n1 -> bin_level f op_rel (add_expr n1) in
            let eq_expr = fun n1 -> bin_level f op_eq (rel_expr n1) in
            let and_expr = fun n1 -> bin_level f op_and (eq_expr n1) in
            let or_expr = fun n1 -> bin_level f op_or (and_expr n1) in
            cbind (or_expr n0 st0) (fun pat ->
              let (o, st1) = pat in
              Ok (o, { p_s = st1.p_s; p_d = (sub st1.p_d (S O)) }))
     | EStep ->
       if (||) (is_typ st IDot) (is_typ st IDotDot)
       then let o =
              if is_typ st IDot
              then AAxis (('s'::('e'::('l'::('f'::[])))), NTAll, [], [], [],
                     false, [], n0)
              else AAxis (('p'::('a'::('r'::('e'::('n'::('t'::[])))))),
                     NTAll, [], [], [], false, [], n0)
            in
            cbind (pnext st) (fun st1 ->
              if is_typ st1 ILBracket
              then pred_loop f pexpr o st1
              else Ok (o, st1))
       else (match typ st with
             | IComma ->
               cbind
                 (match typ st with
                  | IAt ->
                    cbind (pnext st) (fun st' -> Ok
                      (('a'::('t'::('t'::('r'::('i'::('b'::('u'::('t'::('e'::[]))))))))),
                      st'))
                  | IAxe ->
                    let nm = st.p_s.s_name in
                    cbind (pnext st) (fun st' -> Ok (nm, st'))
                  | _ -> Ok (('c'::('h'::('i'::('l'::('d'::[]))))), st))
                 (fun pat ->
                 let (axis, st1) = pat in
                 let mt =
                   if eqb0 axis
                        ('a'::('t'::('t'::('r'::('i'::('b'::('u'::('t'::('e'::[])))))))))
                   then NTAttr
                   else NTElem
                 in
                 cbind (parse_node_test ns n0 axis mt st1) (fun pat0 ->
                   let (o, st2) = pat0 in pred_loop f pexpr o st2))
             | ISlash ->
               cbind
                 (match typ st with
                  | IAt ->
                    cbind (pnext st) (fun st' -> Ok
                      (('a'::('t'::('t'::('r'::('i'::('b'::('u'::('t'::('e'::[]))))))))),
                      st'))
                  | IAxe ->
                    let nm = st.p_s.s_name in
                    cbind (pnext st) (fun st' -> Ok (nm, st'))
                  | _ -> Ok (('c'::('h'::('i'::('l'::('d'::[]))))), st))
                 (fun pat ->
                 let (axis, st1) = pat in
                 let mt =
                   if eqb0 axis
                        ('a'::('t'::('t'::('r'::('i'::('b'::('u'::('t'::('e'::[])))))))))
                   then NTAttr
                   else NTElem
                 in
                 cbind (parse_node_test ns n0 axis mt st1) (fun pat0 ->
                   let (o, st2) = pat0 in pred_loop f pexpr o st2))
             | IAt ->
               cbind
                 (match typ st with
                  | IAt ->
                    cbind (pnext st) (fun st' -> Ok
                      (('a'::('t'::('t'::('r'::('i'::('b'::('u'::('t'::('e'::[]))))))))),
                      st'))
                  | IAxe ->
                    let nm = st.p_s.s_name in
                    cbind (pnext st) (fun st' -> Ok (nm, st'))
                  | _ -> Ok (('c'::('h'::('i'::('l'::('d'::[]))))), st))
                 (fun pat ->
                 let (axis, st1) = pat in
                 let mt =
                   if eqb0 axis
                        ('a'::('t'::('t'::('r'::('i'::('b'::('u'::('t'::('e'::[])))))))))
                   then NTAttr
                   else NTElem
                 in
                 cbind (parse_node_test ns n0 axis mt st1) (fun pat0 ->
                   let (o, st2) = pat0 in pred_loop f pexpr o st2))
             | IDot ->
               cbind
                 (match typ st with
                  | IAt ->
                    cbind (pnext st) (fun st' -> Ok
                      (('a'::('t'::('t'::('r'::('i'::('b'::('u'::('t'::('e'::[]))))))))),
                      st'))
                  | IAxe ->
                    let nm = st.p_s.s_name in
                    cbind (pnext st) (fun st' -> Ok (nm, st'))
                  | _ -> Ok (('c'::('h'::('i'::('l'::('d'::[]))))), st))
                 (fun pat ->
                 let (axis, st1) = pat in
                 let mt =
                   if eqb0 axis
                        ('a'::('t'::('t'::('r'::('i'::('b'::('u'::('t'::('e'::[])))))))))
                   then NTAttr
                   else NTElem
                 in
                 cbind (parse_node_test ns n0 axis mt st1) (fun pat0 ->
                   let (o, st2) = pat0 in pred_loop f pexpr o st2))
             | ILParens ->
               let d = S st.p_d in
               if Nat.ltb max_depth d
               then Err
                      ('t'::('h'::('e'::(' '::('x'::('p'::('a'::('t'::('h'::(' '::('q'::('u'::('e'::('r'::('y'::(' '::('i'::('s'::(' '::('t'::('o'::('o'::(' '::('c'::('o'::('m'::('p'::('l'::('e'::('x'::('('::('d'::('e'::('p'::('t'::('h'::(' '::('>'::(' '::('2'::('0'::('0'::(')'::[])))))))))))))))))))))))))))))))))))))))))))
               else let st0 = { p_s = st.p_s; p_d = d } in
                    cbind (skip_item st0 ILParens) (fun st1 ->
                      cbind (pstep n0 st1) (fun pat ->
                        let (o, st2) = pat in
                        cbind (seq_loop f pstep n0 o st2) (fun pat0 ->
                          let (o', st3) = pat0 in
                          cbind (skip_item st3 IRParens) (fun st4 -> Ok (o',
                            { p_s = st4.p_s; p_d = (sub st4.p_d (S O)) })))))
             | IRParens ->
               cbind
                 (match typ st with
                  | IAt ->
                    cbind (pnext st) (fun st' -> Ok
                      (('a'::('t'::('t'::('r'::('i'::('b'::('u'::('t'::('e'::[]))))))))),
                      st'))
                  | IAxe ->
                    let nm = st.p_s.s_name in
                    cbind (pnext st) (fun st' -> Ok (nm, st'))
                  | _ -> Ok (('c'::('h'::('i'::('l'::('d'::[]))))), st))
                 (fun pat ->
                 let (axis, st1) = pat in
                 let mt =
                   if eqb0 axis
                        ('a'::('t'::('t'::('r'::('i'::('b'::('u'::('t'::('e'::[])))))))))
                   then NTAttr
                   else NTElem
                 in
                 cbind (parse_node_test ns n0 axis mt st1) (fun pat0 ->
                   let (o, st2) = pat0 in pred_loop f pexpr o st2))
             | ILBracket ->
               cbind
                 (match typ st with
                  | IAt ->
                    cbind (pnext st) (fun st' -> Ok
                      (('a'::('t'::('t'::('r'::('i'::('b'::('u'::('t'::('e'::[]))))))))),
                      st'))
                  | IAxe ->
                    let nm = st.p_s.s_name in
                    cbind (pnext st) (fun st' -> Ok (nm, st'))
                  | _ -> Ok (('c'::('h'::('i'::('l'::('d'::[]))))), st))
                 (fun pat ->
                 let (axis, st1) = pat in
                 let mt =
                   if eqb0 axis
                        ('a'::('t'::('t'::('r'::('i'::('b'::('u'::('t'::('e'::[])))))))))
                   then NTAttr
                   else NTElem
                 in
                 cbind (parse_node_test ns n0 axis mt st1) (fun pat0 ->
                   let (o, st2) = pat0 in pred_loop f pexpr o st2))
             | IRBracket ->
               cbind
                 (match typ st with
                  | IAt ->
                    cbind (pnext st) (fun st' -> Ok
                      (('a'::('t'::('t'::('r'::('i'::('b'::('u'::('t'::('e'::[]))))))))),
                      st'))
                  | IAxe ->
                    let nm = st.p_s.s_name in
                    cbind (pnext st) (fun st' -> Ok (nm, st'))
                  | _ -> Ok (('c'::('h'::('i'::('l'::('d'::[]))))), st))
                 (fun pat ->
                 let (axis, st1) = pat in
                 let mt =
                   if eqb0 axis
                        ('a'::('t'::('t'::('r'::('i'::('b'::('u'::('t'::('e'::[])))))))))
                   then NTAttr
                   else NTElem
                 in
                 cbind (parse_node_test ns n0 axis mt st1) (fun pat0 ->
                   let (o, st2) = pat0 in pred_loop f pexpr o st2))
             | IStar ->
               cbind
                 (match typ st with
                  | IAt ->
                    cbind (pnext st) (fun st' -> Ok
                      (('a'::('t'::('t'::('r'::('i'::('b'::('u'::('t'::('e'::[]))))))))),
                      st'))
                  | IAxe ->
                    let nm = st.p_s.s_name in
                    cbind (pnext st) (fun st' -> Ok (nm, st'))
                  | _ -> Ok (('c'::('h'::('i'::('l'::('d'::[]))))), st))
                 (fun pat ->
                 let (axis, st1) = pat in
                 let mt =
                   if eqb0 axis
                        ('a'::('t'::('t'::('r'::('i'::('b'::('u'::('t'::('e'::[])))))))))
                   then NTAttr
                   else NTElem
                 in
                 cbind (parse_node_test ns n0 axis mt st1) (fun pat0 ->
                   let (o, st2) = pat0 in pred_loop f pexpr o st2))
             | IPlus ->
               cbind
                 (match typ st with
                  | IAt ->
                    cbind (pnext st) (fun st' -> Ok
                      (('a'::('t'::('t'::('r'::('i'::('b'::('u'::('t'::('e'::[]))))))))),
                      st'))
                  | IAxe ->
                    let nm = st.p_s.s_name in
                    cbind (pnext st) (fun st' -> Ok (nm, st'))
                  | _ -> Ok (('c'::('h'::('i'::('l'::('d'::[]))))), st))
                 (fun pat ->
                 let (axis, st1) = pat in
                 let mt =
                   if eqb0 axis
                        ('a'::('t'::('t'::('r'::('i'::('b'::('u'::('t'::('e'::[])))))))))
                   then NTAttr
                   else NTElem
                 in
                 cbind (parse_node_test ns n0 axis mt st1) (fun pat0 ->
                   let (o, st2) = pat0 in pred_loop f pexpr o st2))
             | IMinus ->
               cbind
                 (match typ st with
                  | IAt ->
                    cbind (pnext st) (fun st' -> Ok
                      (('a'::('t'::('t'::('r'::('i'::('b'::('u'::('t'::('e'::[]))))))))),
                      st'))
                  | IAxe ->
                    let nm = st.p_s.s_name in
                    cbind (pnext st) (fun st' -> Ok (nm, st'))
                  | _ -> Ok (('c'::('h'::('i'::('l'::('d'::[]))))), st))
                 (fun pat ->
                 let (axis, st1) = pat in
                 let mt =
                   if eqb0 axis
                        ('a'::('t'::('t'::('r'::('i'::('b'::('u'::('t'::('e'::[])))))))))
                   then NTAttr
                   else NTElem
                 in
                 cbind (parse_node_test ns n0 axis mt st1) (fun pat0 ->
                   let (o, st2) = pat0 in pred_loop f pexpr o st2))
             | IEq ->
               cbind
                 (match typ st with
                  | IAt ->
                    cbind (pnext st) (fun st' -> Ok
                      (('a'::('t'::('t'::('r'::('i'::('b'::('u'::('t'::('e'::[]))))))))),
                      st'))
                  | IAxe ->
                    let nm = st.p_s.s_name in
                    cbind (pnext st) (fun st' -> Ok (nm, st'))
                  | _ -> Ok (('c'::('h'::('i'::('l'::('d'::[]))))), st))
                 (fun pat ->
                 let (axis, st1) = pat in
                 let mt =
                   if eqb0 axis
                        ('a'::('t'::('t'::('r'::('i'::('b'::('u'::('t'::('e'::[])))))))))
                   then NTAttr
                   else NTElem
                 in
                 cbind (parse_node_test ns n0 axis mt st1) (fun pat0 ->
                   let (o, st2) = pat0 in pred_loop f pexpr o st2))
             | ILt ->
               cbind
                 (match typ st with
                  | IAt ->
                    cbind (pnext st) (fun st' -> Ok
                      (('a'::('t'::('t'::('r'::('i'::('b'::('u'::('t'::('e'::[]))))))))),
                      st'))
                  | IAxe ->
                    let nm = st.p_s.s_name in
                    cbind (pnext st) (fun st' -> Ok (nm, st'))
                  | _ -> Ok (('c'::('h'::('i'::('l'::('d'::[]))))), st))
                 (fun pat ->
                 let (axis, st1) = pat in
                 let mt =
                   if eqb0 axis
                        ('a'::('t'::('t'::('r'::('i'::('b'::('u'::('t'::('e'::[])))))))))
                   then NTAttr
                   else NTElem
                 in
                 cbind (parse_node_test ns n0 axis mt st1) (fun pat0 ->
                   let (o, st2) = pat0 in pred_loop f pexpr o st2))
             | IGt ->
               cbind
                 (match typ st with
                  | IAt ->
                    cbind (pnext st) (fun st' -> Ok
                      (('a'::('t'::('t'::('r'::('i'::('b'::('u'::('t'::('e'::[]))))))))),
                      st'))
                  | IAxe ->
                    let nm = st.p_s.s_name in
                    cbind (pnext st) (fun st' -> Ok (nm, st'))
                  | _ -> Ok (('c'::('h'::('i'::('l'::('d'::[]))))), st))
                 (fun pat ->
                 let (axis, st1) = pat in
                 let mt =
                   if eqb0 axis
                        ('a'::('t'::('t'::('r'::('i'::('b'::('u'::('t'::('e'::[])))))))))
                   then NTAttr
                   else NTElem
                 in
                 cbind (parse_node_test ns n0 axis mt st1) (fun pat0 ->
                   let (o, st2) = pat0 in pred_loop f pexpr o st2))
             | IBang ->
               cbind
                 (match typ st with
                  | IAt ->
                    cbind (pnext st) (fun st' -> Ok
                      (('a'::('t'::('t'::('r'::('i'::('b'::('u'::('t'::('e'::[]))))))))),
                      st'))
                  | IAxe ->
                    let nm = st.p_s.s_name in
                    cbind (pnext st) (fun st' -> Ok (nm, st'))
                  | _ -> Ok (('c'::('h'::('i'::('l'::('d'::[]))))), st))
                 (fun pat ->
                 let (axis, st1) = pat in
                 let mt =
                   if eqb0 axis
                        ('a'::('t'::('t'::('r'::('i'::('b'::('u'::('t'::('e'::[])))))))))
                   then NTAttr
                   else NTElem
                 in
                 cbind (parse_node_test ns n0 axis mt st1) (fun pat0 ->
                   let (o, st2) = pat0 in pred_loop f pexpr o st2))
             | IDollar ->
               cbind
                 (match typ st with
                  | IAt ->
                    cbind (pnext st) (fun st' -> Ok
                      (('a'::('t'::('t'::('r'::('i'::('b'::('u'::('t'::('e'::[]))))))))),
                      st'))
                  | IAxe ->
                    let nm = st.p_s.s_name in
                    cbind (pnext st) (fun st' -> Ok (nm, st'))
                  | _ -> Ok (('c'::('h'::('i'::('l'::('d'::[]))))), st))
                 (fun pat ->
                 let (axis, st1) = pat in
                 let mt =
                   if eqb0 axis
                        ('a'::('t'::('t'::('r'::('i'::('b'::('u'::('t'::('e'::[])))))))))
                   then NTAttr
                   else NTElem
                 in
                 cbind (parse_node_test ns n0 axis mt st1) (fun pat0 ->
                   let (o, st2) = pat0 in pred_loop f pexpr o st2))
             | IApos ->
               cbind
                 (match typ st with
                  | IAt ->
                    cbind (pnext st) (fun st' -> Ok
                      (('a'::('t'::('t'::('r'::('i'::('b'::('u'::('t'::('e'::[]))))))))),
                      st'))
                  | IAxe ->
                    let nm = st.p_s.s_name in
                    cbind (pnext st) (fun st' -> Ok (nm, st'))
                  | _ -> Ok (('c'::('h'::('i'::('l'::('d'::[]))))), st))
                 (fun pat ->
                 let (axis, st1) = pat in
                 let mt =
                   if eqb0 axis
                        ('a'::('t'::('t'::('r'::('i'::('b'::('u'::('t'::('e'::[])))))))))
                   then NTAttr
                   else NTElem
                 in
                 cbind (parse_node_test ns n0 axis mt st1) (fun pat0 ->
                   let (o, st2) = pat0 in pred_loop f pexpr o st2))
             | IQuote ->
               cbind
                 (match typ st with
                  | IAt ->
                    cbind (pnext st) (fun st' -> Ok
                      (('a'::('t'::('t'::('r'::('i'::('b'::('u'::('t'::('e'::[]))))))))),
                      st'))
                  | IAxe ->
                    let nm = st.p_s.s_name in
                    cbind (pnext st) (fun st' -> Ok (nm, st'))
                  | _ -> Ok (('c'::('h'::('i'::('l'::('d'::[]))))), st))
                 (fun pat ->
                 let (axis, st1) = pat in
                 let mt =
                   if eqb0 axis
                        ('a'::('t'::('t'::('r'::('i'::('b'::('u'::('t'::('e'::[])))))))))
                   then NTAttr
                   else NTElem
                 in
                 cbind (parse_node_test ns n0 axis mt st1) (fun pat0 ->
                   let (o, st2) = pat0 in pred_loop f pexpr o st2))
             | IUnion ->
               cbind
                 (match typ st with
                  | IAt ->
                    cbind (pnext st) (fun st' -> Ok
                      (('a'::('t'::('t'::('r'::('i'::('b'::('u'::('t'::('e'::[]))))))))),
                      st'))
                  | IAxe ->
                    let nm = st.p_s.s_name in
                    cbind (pnext st) (fun st' -> Ok (nm, st'))
                  | _ -> Ok (('c'::('h'::('i'::('l'::('d'::[]))))), st))
                 (fun pat ->
                 let (axis, st1) = pat in
                 let mt =
                   if eqb0 axis
                        ('a'::('t'::('t'::('r'::('i'::('b'::('u'::('t'::('e'::[])))))))))
                   then NTAttr
                   else NTElem
                 in
                 cbind (parse_node_test ns n0 axis mt st1) (fun pat0 ->
                   let (o, st2) = pat0 in pred_loop f pexpr o st2))
             | INe ->
               cbind
                 (match typ st with
                  | IAt ->
                    cbind (pnext st) (fun st' -> Ok
                      (('a'::('t'::('t'::('r'::('i'::('b'::('u'::('t'::('e'::[]))))))))),
                      st'))
                  | IAxe ->
                    let nm = st.p_s.s_name in
                    cbind (pnext st) (fun st' -> Ok (nm, st'))
                  | _ -> Ok (('c'::('h'::('i'::('l'::('d'::[]))))), st))
                 (fun pat ->
                 let (axis, st1) = pat in
                 let mt =
                   if eqb0 axis
                        ('a'::('t'::('t'::('r'::('i'::('b'::('u'::('t'::('e'::[])))))))))
                   then NTAttr
                   else NTElem
                 in
                 cbind (parse_node_test ns n0 axis mt st1) (fun pat0 ->
                   let (o, st2) = pat0 in pred_loop f pexpr o st2))
             | ILe ->
               cbind
                 (match typ st with
                  | IAt ->
                    cbind (pnext st) (fun st' -> Ok
                      (('a'::('t'::('t'::('r'::('i'::('b'::('u'::('t'::('e'::[]))))))))),
                      st'))
                  | IAxe ->
                    let nm = st.p_s.s_name in
                    cbind (pnext st) (fun st' -> Ok (nm, st'))
                  | _ -> Ok (('c'::('h'::('i'::('l'::('d'::[]))))), st))
                 (fun pat ->
                 let (axis, st1) = pat in
                 let mt =
                   if eqb0 axis
                        ('a'::('t'::('t'::('r'::('i'::('b'::('u'::('t'::('e'::[])))))))))
                   then NTAttr
                   else NTElem
                 in
                 cbind (parse_node_test ns n0 axis mt st1) (fun pat0 ->
                   let (o, st2) = pat0 in pred_loop f pexpr o st2))
             | IGe ->
               cbind
                 (match typ st with
                  | IAt ->
                    cbind (pnext st) (fun st' -> Ok
                      (('a'::('t'::('t'::('r'::('i'::('b'::('u'::('t'::('e'::[]))))))))),
                      st'))
                  | IAxe ->
                    let nm = st.p_s.s_name in
                    cbind (pnext st) (fun st' -> Ok (nm, st'))
                  | _ -> Ok (('c'::('h'::('i'::('l'::('d'::[]))))), st))
                 (fun pat ->
                 let (axis, st1) = pat in
                 let mt =
                   if eqb0 axis
                        ('a'::('t'::('t'::('r'::('i'::('b'::('u'::('t'::('e'::[])))))))))
                   then NTAttr
                   else NTElem
                 in
                 cbind (parse_node_test ns n0 axis mt st1) (fun pat0 ->
                   let (o, st2) = pat0 in pred_loop f pexpr o st2))
             | IAnd ->
               cbind
                 (match typ st with
                  | IAt ->
                    cbind (pnext st) (fun st' -> Ok
                      (('a'::('t'::('t'::('r'::('i'::('b'::('u'::('t'::('e'::[]))))))))),
                      st'))
                  | IAxe ->
                    let nm = st.p_s.s_name in
                    cbind (pnext st) (fun st' -> Ok (nm, st'))
                  | _ -> Ok (('c'::('h'::('i'::('l'::('d'::[]))))), st))
                 (fun pat ->
                 let (axis, st1) = pat in
                 let mt =
                   if eqb0 axis
                        ('a'::('t'::('t'::('r'::('i'::('b'::('u'::('t'::('e'::[])))))))))
                   then NTAttr
                   else NTElem
                 in
                 cbind (parse_node_test ns n0 axis mt st1) (fun pat0 ->
                   let (o, st2) = pat0 in pred_loop f pexpr o st2))
             | IOr ->
               cbind
                 (match typ st with
                  | IAt ->
                    cbind (pnext st) (fun st' -> Ok
                      (('a'::('t'::('t'::('r'::('i'::('b'::('u'::('t'::('e'::[]))))))))),
                      st'))
                  | IAxe ->
                    let nm = st.p_s.s_name in
                    cbind (pnext st) (fun st' -> Ok (nm, st'))
                  | _ -> Ok (('c'::('h'::('i'::('l'::('d'::[]))))), st))
                 (fun pat ->
                 let (axis, st1) = pat in
                 let mt =
                   if eqb0 axis
                        ('a'::('t'::('t'::('r'::('i'::('b'::('u'::('t'::('e'::[])))))))))
                   then NTAttr
                   else NTElem
                 in
                 cbind (parse_node_test ns n0 axis mt st1) (fun pat0 ->
                   let (o, st2) = pat0 in pred_loop f pexpr o st2))
             | IDotDot ->
               cbind
                 (match typ st with
                  | IAt ->
                    cbind (pnext st) (fun st' -> Ok
                      (('a'::('t'::('t'::('r'::('i'::('b'::('u'::('t'::('e'::[]))))))))),
                      st'))
                  | IAxe ->
                    let nm = st.p_s.s_name in
                    cbind (pnext st) (fun st' -> Ok (nm, st'))
                  | _ -> Ok (('c'::('h'::('i'::('l'::('d'::[]))))), st))
                 (fun pat ->
                 let (axis, st1) = pat in
                 let mt =
                   if eqb0 axis
                        ('a'::('t'::('t'::('r'::('i'::('b'::('u'::('t'::('e'::[])))))))))
                   then NTAttr
                   else NTElem
                 in
                 cbind (parse_node_test ns n0 axis mt st1) (fun pat0 ->
                   let (o, st2) = pat0 in pred_loop f pexpr o st2))
             | ISlashSlash ->
               cbind
                 (match typ st with
                  | IAt ->
                    cbind (pnext st) (fun st' -> Ok
                      (('a'::('t'::('t'::('r'::('i'::('b'::('u'::('t'::('e'::[]))))))))),
                      st'))
                  | IAxe ->
                    let nm = st.p_s.s_name in
                    cbind (pnext st) (fun st' -> Ok (nm, st'))
                  | _ -> Ok (('c'::('h'::('i'::('l'::('d'::[]))))), st))
                 (fun pat ->
                 let (axis, st1) = pat in
                 let mt =
                   if eqb0 axis
                        ('a'::('t'::('t'::('r'::('i'::('b'::('u'::('t'::('e'::[])))))))))
                   then NTAttr
                   else NTElem
                 in
                 cbind (parse_node_test ns n0 axis mt st1) (fun pat0 ->
                   let (o, st2) = pat0 in pred_loop f pexpr o st2))
             | IName ->
               cbind
                 (match typ st with
                  | IAt ->
                    cbind (pnext st) (fun st' -> Ok
                      (('a'::('t'::('t'::('r'::('i'::('b'::('u'::('t'::('e'::[]))))))))),
                      st'))
                  | IAxe ->
                    let nm = st.p_s.s_name in
                    cbind (pnext st) (fun st' -> Ok (nm, st'))
                  | _ -> Ok (('c'::('h'::('i'::('l'::('d'::[]))))), st))
                 (fun pat ->
                 let (axis, st1) = pat in
                 let mt =
                   if eqb0 axis
                        ('a'::('t'::('t'::('r'::('i'::('b'::('u'::('t'::('e'::[])))))))))
                   then NTAttr
                   else NTElem
                 in
                 cbind (parse_node_test ns n0 axis mt st1) (fun pat0 ->
                   let (o, st2) = pat0 in pred_loop f pexpr o st2))
             | IString ->
               cbind
                 (match typ st with
                  | IAt ->
                    cbind (pnext st) (fun st' -> Ok
                      (('a'::('t'::('t'::('r'::('i'::('b'::('u'::('t'::('e'::[]))))))))),
                      st'))
                  | IAxe ->
                    let nm = st.p_s.s_name in
                    cbind (pnext st) (fun st' -> Ok (nm, st'))
                  | _ -> Ok (('c'::('h'::('i'::('l'::('d'::[]))))), st))
                 (fun pat ->
                 let (axis, st1) = pat in
                 let mt =
                   if eqb0 axis
                        ('a'::('t'::('t'::('r'::('i'::('b'::('u'::('t'::('e'::[])))))))))
                   then NTAttr
                   else NTElem
                 in
                 cbind (parse_node_test ns n0 axis mt st1) (fun pat0 ->
                   let (o, st2) = pat0 in pred_loop f pexpr o st2))
             | INumber ->
               cbind
                 (match typ st with
                  | IAt ->
                    cbind (pnext st) (fun st' -> Ok
                      (('a'::('t'::('t'::('r'::('i'::('b'::('u'::('t'::('e'::[]))))))))),
                      st'))
                  | IAxe ->
                    let nm = st.p_s.s_name in
                    cbind (pnext st) (fun st' -> Ok (nm, st'))
                  | _ -> Ok (('c'::('h'::('i'::('l'::('d'::[]))))), st))
                 (fun pat ->
                 let (axis, st1) = pat in
                 let mt =
                   if eqb0 axis
                        ('a'::('t'::('t'::('r'::('i'::('b'::('u'::('t'::('e'::[])))))))))
                   then NTAttr
                   else NTElem
                 in
                 cbind (parse_node_test ns n0 axis mt st1) (fun pat0 ->
                   let (o, st2) = pat0 in pred_loop f pexpr o st2))
             | IAxe ->
               cbind
                 (match typ st with
                  | IAt ->
                    cbind (pnext st) (fun st' -> Ok
                      (('a'::('t'::('t'::('r'::('i'::('b'::('u'::('t'::('e'::[]))))))))),
                      st'))
                  | IAxe ->
                    let nm = st.p_s.s_name in
                    cbind (pnext st) (fun st' -> Ok (nm, st'))
                  | _ -> Ok (('c'::('h'::('i'::('l'::('d'::[]))))), st))
                 (fun pat ->
                 let (axis, st1) = pat in
                 let mt =
                   if eqb0 axis
                        ('a'::('t'::('t'::('r'::('i'::('b'::('u'::('t'::('e'::[])))))))))
                   then NTAttr
                   else NTElem
                 in
                 cbind (parse_node_test ns n0 axis mt st1) (fun pat0 ->
                   let (o, st2) = pat0 in pred_loop f pexpr o st2))
             | IEOF ->
               cbind
                 (match typ st with
                  | IAt ->
                    cbind (pnext st) (fun st' -> Ok
                      (('a'::('t'::('t'::('r'::('i'::('b'::('u'::('t'::('e'::[]))))))))),
                      st'))
                  | IAxe ->
                    let nm = st.p_s.s_name in
                    cbind (pnext st) (fun st' -> Ok (nm, st'))
                  | _ -> Ok (('c'::('h'::('i'::('l'::('d'::[]))))), st))
                 (fun pat ->
                 let (axis, st1) = pat in
                 let mt =
                   if eqb0 axis
                        ('a'::('t'::('t'::('r'::('i'::('b'::('u'::('t'::('e'::[])))))))))
                   then NTAttr
                   else NTElem
                 in
                 cbind (parse_node_test ns n0 axis mt st1) (fun pat0 ->
                   let (o, st2) = pat0 in pred_loop f pexpr o st2))))

(** val parse_fuel : nat -> char list -> nsmap -> anode cres **)

let parse_fuel fuel text ns =
  let s0 = init_scanner text in
  cbind (next_item s0) (fun s1 ->
    cbind (pgo ns fuel EExpr None { p_s = s1; p_d = O }) (fun pat ->
      let (a, st) = pat in cbind (check_item st IEOF) (fun _ -> Ok a)))

(** val default_fuel : char list -> nat **)

let default_fuel text =
  add (mul (S (S O)) (length0 text)) (S (S (S (S (S (S (S (S O))))))))

(** val parse : char list -> nsmap -> anode cres **)

let parse text ns =
  parse_fuel (default_fuel text) text ns

type flags = { f_smart : bool; f_pos : bool; f_filter : bool }

(** val fl_none : flags **)

let fl_none =
  { f_smart = false; f_pos = false; f_filter = false }

(** val fl_smart : flags **)

let fl_smart =
  { f_smart = true; f_pos = false; f_filter = false }

type props = { pr_posfilter : bool; pr_haspos : bool; pr_haslast : bool;
               pr_nonflat : bool }

(** val pr_none : props **)

let pr_none =
  { pr_posfilter = false; pr_haspos = false; pr_haslast = false; pr_nonflat =
    false }

(** val pr_or : props -> props -> props **)

let pr_or a b =
  { pr_posfilter = ((||) a.pr_posfilter b.pr_posfilter); pr_haspos =
    ((||) a.pr_haspos b.pr_haspos); pr_haslast =
    ((||) a.pr_haslast b.pr_haslast); pr_nonflat =
    ((||) a.pr_nonflat b.pr_nonflat) }

(** val set_nonflat : props -> props **)

let set_nonflat p =
  { pr_posfilter = p.pr_posfilter; pr_haspos = p.pr_haspos; pr_haslast =
    p.pr_haslast; pr_nonflat = true }

(** val set_posfilter : props -> bool -> props **)

let set_posfilter p b =
  { pr_posfilter = b; pr_haspos = p.pr_haspos; pr_haslast = p.pr_haslast;
    pr_nonflat = p.pr_nonflat }

(** val set_haspos : props -> props **)

let set_haspos p =
  { pr_posfilter = p.pr_posfilter; pr_haspos = true; pr_haslast =
    p.pr_haslast; pr_nonflat = p.pr_nonflat }

(** val set_haslast : props -> props **)

let set_haslast p =
  { pr_posfilter = p.pr_posfilter; pr_haspos = p.pr_haspos; pr_haslast =
    true; pr_nonflat = p.pr_nonflat }

type first = { fi_q : query option; fi_self : bool }

(** val fi_nil : first **)

let fi_nil =
  { fi_q = None; fi_self = false }

(** val q_merge : query -> bool **)

let rec q_merge = function
| QNil -> false
| QFilter (_, i, _) -> q_merge i
| QGroup _ -> false
| _ -> true

type rtype =
| RBoolean
| RNumber
| RString
| RNodeSet
| RAny

(** val value_type : query -> rtype **)

let rec value_type = function
| QFn0 _ -> RAny
| QFn1 (_, _) -> RAny
| QFn2 (_, _, _) -> RAny
| QFn3 (_, _, _, _) -> RAny
| QConcat _ -> RAny
| QPosition _ -> RAny
| QLast _ -> RAny
| QReverse _ -> RAny
| QNum _ -> RNumber
| QStr _ -> RString
| QGroup i -> value_type i
| QLogical (_, _, _) -> RBoolean
| QNumeric (_, _, _) -> RNumber
| QBoolean (_, _, _) -> RBoolean
| QLastFunc _ -> RNumber
| _ -> RNodeSet

(** val can_be_number : query -> bool **)

let can_be_number q =
  match value_type q with
  | RNumber -> true
  | RAny -> true
  | _ -> false

(** val axis_test :
    ntype -> char list -> char list -> bool -> char list -> ntest **)

let axis_test tt pre loc hasns ns =
  { nt_type = tt; nt_pre = pre; nt_loc = loc; nt_hasns = hasns; nt_ns = ns }

(** val is_context : query -> bool **)

let is_context = function
| QContext -> true
| _ -> false

(** val reroot : query -> (query * query) option **)

let reroot = function
| QAncestor (s, t, i) ->
  if is_context i then None else Some (i, (QAncestor (s, t, QContext)))
| QAttribute (t, i) ->
  if is_context i then None else Some (i, (QAttribute (t, QContext)))
| QChild (t, i) ->
  if is_context i then None else Some (i, (QChild (t, QContext)))
| QCachedChild (t, i) ->
  if is_context i then None else Some (i, (QCachedChild (t, QContext)))
| QDescendant (s, t, i) ->
  if is_context i then None else Some (i, (QDescendant (s, t, QContext)))
| QFollowing (s, t, i) ->
  if is_context i then None else Some (i, (QFollowing (s, t, QContext)))
| QPreceding (s, t, i) ->
  if is_context i then None else Some (i, (QPreceding (s, t, QContext)))
| QParent (t, i) ->
  if is_context i then None else Some (i, (QParent (t, QContext)))
| QSelf (t, i) ->
  if is_context i then None else Some (i, (QSelf (t, QContext)))
| QGroup i -> if is_context i then None else Some (i, (QGroup QContext))
| QDoD (m, t, i) ->
  if is_context i then None else Some (i, (QDoD (m, t, QContext)))
| _ -> None

(** val is_filter_node : anode -> bool **)

let is_filter_node = function
| AFilter (_, _) -> true
| _ -> false

(** val max_build_depth : nat **)

let max_build_depth =
  S (S (S (S (S (S (S (S (S (S (S (S (S (S (S (S (S (S (S (S (S (S (S (S (S
    (S (S (S (S (S (S (S (S (S (S (S (S (S (S (S (S (S (S (S (S (S (S (S (S
    (S (S (S (S (S (S (S (S (S (S (S (S (S (S (S (S (S (S (S (S (S (S (S (S
    (S (S (S (S (S (S (S (S (S (S (S (S (S (S (S (S (S (S (S (S (S (S (S (S
    (S (S (S (S (S (S (S (S (S (S (S (S (S (S (S (S (S (S (S (S (S (S (S (S
    (S (S (S (S (S (S (S (S (S (S (S (S (S (S (S (S (S (S (S (S (S (S (S (S
    (S (S (S (S (S (S (S (S (S (S (S (S (S (S (S (S (S (S (S (S (S (S (S (S
    (S (S (S (S (S (S (S (S (S (S (S (S (S (S (S (S (S (S (S (S (S (S (S (S
    (S (S (S (S (S (S (S (S (S (S (S (S (S (S (S (S (S (S (S (S (S (S (S (S
    (S (S (S (S (S (S (S (S (S (S (S (S (S (S (S (S (S (S (S (S (S (S (S (S
    (S (S (S (S (S (S (S (S (S (S (S (S (S (S (S (S (S (S (S (S (S (S (S (S
    (S (S (S (S (S (S (S (S (S (S (S (S (S (S (S (S (S (S (S (S (S (S (S (S
    (S (S (S (S (S (S (S (S (S (S (S (S (S (S (S (S (S (S (S (S (S (S (S (S
    (S (S (S (S (S (S (S (S (S (S (S (S (S (S (S (S (S (S (S (S (S (S (S (S
    (S (S (S (S (S (S (S (S (S (S (S (S (S (S (S (S (S (S (S (S (S (S (S (S
    (S (S (S (S (S (S (S (S (S (S (S (S (S (S (S (S (S (S (S (S (S (S (S (S
    (S (S (S (S (S (S (S (S (S (S (S (S (S (S (S (S (S (S (S (S (S (S (S (S
    (S (S (S (S (S (S (S (S (S (S (S (S (S (S (S (S (S (S (S (S (S (S (S (S
    (S (S (S (S (S (S (S (S (S (S (S (S (S (S (S (S (S (S (S (S (S (S (S (S
    (S (S (S (S (S (S (S (S (S (S (S (S (S (S (S (S (S (S (S (S (S (S (S (S
    (S (S (S (S (S (S (S (S (S (S (S (S (S (S (S (S (S (S (S (S (S (S (S (S
    (S (S (S (S (S (S (S (S (S (S (S (S (S (S (S (S (S (S (S (S (S (S (S (S
    (S (S (S (S (S (S (S (S (S (S (S (S (S (S (S (S (S (S (S (S (S (S (S (S
    (S (S (S (S (S (S (S (S (S (S (S (S (S (S (S (S (S (S (S (S (S (S (S (S
    (S (S (S (S (S (S (S (S (S (S (S (S (S (S (S (S (S (S (S (S (S (S (S (S
    (S (S (S (S (S (S (S (S (S (S (S (S (S (S (S (S (S (S (S (S (S (S (S (S
    (S (S (S (S (S (S (S (S (S (S (S (S (S (S (S (S (S (S (S (S (S (S (S (S
    (S (S (S (S (S (S (S (S (S (S (S (S (S (S (S (S (S (S (S (S (S (S (S (S
    (S (S (S (S (S (S (S (S (S (S (S (S (S (S (S (S (S (S (S (S (S (S (S (S
    (S (S (S (S (S (S (S (S (S (S (S (S (S (S (S (S (S (S (S (S (S (S (S (S
    (S (S (S (S (S (S (S (S (S (S (S (S (S (S (S (S (S (S (S (S (S (S (S (S
    (S (S (S (S (S (S (S (S (S (S (S (S (S (S (S (S (S (S (S (S (S (S (S (S
    (S (S (S (S (S (S (S (S (S (S (S (S (S (S (S (S (S (S (S (S (S (S (S (S
    (S (S (S (S (S (S (S (S (S (S (S (S (S (S (S (S (S (S (S (S (S (S (S (S
    (S (S (S (S (S (S (S (S (S (S (S (S (S (S (S (S (S (S (S (S (S (S (S (S
    (S (S (S (S (S (S (S (S (S (S (S (S (S (S (S (S (S (S (S (S (S (S (S (S
    (S (S (S (S (S (S (S (S (S (S (S (S (S (S (S (S (S (S (S (S (S (S (S (S
    (S (S (S (S (S (S (S (S (S (S (S (S (S (S (S (S (S (S (S (S (S (S (S (S
    (S (S (S (S (S (S (S (S (S (S (S (S (S (S (S (S (S (S (S (S (S (S (S (S
    (S (S (S (S (S (S (S (S (S (S (S (S (S (S (S (S (S (S (S (S (S (S (S (S
    (S (S (S (S (S (S (S (S (S (S (S (S (S (S (S (S (S (S (S (S (S (S (S (S
    (S (S (S (S (S (S (S (S (S (S (S (S (S (S (S (S (S (S (S (S (S (S (S (S
    (S (S (S (S (S (S (S (S (S (S (S (S (S (S (S
    O)))))))))))))))))))))))))))))))))))))))))))))))))))))))))))))))))))))))))))))))))))))))))))))))))))))))))))))))))))))))))))))))))))))))))))))))))))))))))))))))))))))))))))))))))))))))))))))))))))))))))))))))))))))))))))))))))))))))))))))))))))))))))))))))))))))))))))))))))))))))))))))))))))))))))))))))))))))))))))))))))))))))))))))))))))))))))))))))))))))))))))))))))))))))))))))))))))))))))))))))))))))))))))))))))))))))))))))))))))))))))))))))))))))))))))))))))))))))))))))))))))))))))))))))))))))))))))))))))))))))))))))))))))))))))))))))))))))))))))))))))))))))))))))))))))))))))))))))))))))))))))))))))))))))))))))))))))))))))))))))))))))))))))))))))))))))))))))))))))))))))))))))))))))))))))))))))))))))))))))))))))))))))))))))))))))))))))))))))))))))))))))))))))))))))))))))))))))))))))))))))))))))))))))))))))))))))))))))))))))))))))))))))))))))))))))))))))))))))))))))))))))))))))))))))))))))))))))))))))))))))))))))))))))))))))))))))))))))))))))))))))))))))))))))))))))))))))))))))))))))))))))))))))))))))))))))

type bR = ((query * props) * first) cres

(** val self_node_query : query **)

let self_node_query =
  QSelf ((axis_test NTAll [] [] false []), QContext)

(** val list_of_args : query list -> query **)

let rec list_of_args = function
| [] -> QNil
| a :: r -> QArg (a, (list_of_args r))

(** val mk_axis :
    char list -> ntest -> flags -> query -> props -> (query * props) cres **)

let mk_axis axis t fl qi pr =
  if eqb0 axis ('a'::('n'::('c'::('e'::('s'::('t'::('o'::('r'::[]))))))))
  then Ok ((QAncestor (false, t, qi)), (set_nonflat pr))
  else if eqb0 axis
            ('a'::('n'::('c'::('e'::('s'::('t'::('o'::('r'::('-'::('o'::('r'::('-'::('s'::('e'::('l'::('f'::[]))))))))))))))))
       then Ok ((QAncestor (true, t, qi)), (set_nonflat pr))
       else if eqb0 axis
                 ('a'::('t'::('t'::('r'::('i'::('b'::('u'::('t'::('e'::[])))))))))
            then Ok ((QAttribute (t, qi)), pr)
            else if eqb0 axis ('c'::('h'::('i'::('l'::('d'::[])))))
                 then Ok
                        ((if pr.pr_nonflat
                          then QCachedChild (t, qi)
                          else QChild (t, qi)), pr)
                 else if eqb0 axis
                           ('d'::('e'::('s'::('c'::('e'::('n'::('d'::('a'::('n'::('t'::[]))))))))))
                      then Ok
                             ((if fl.f_smart
                               then QDoD (false, t, qi)
                               else QDescendant (false, t, qi)),
                             (set_nonflat pr))
                      else if eqb0 axis
                                ('d'::('e'::('s'::('c'::('e'::('n'::('d'::('a'::('n'::('t'::('-'::('o'::('r'::('-'::('s'::('e'::('l'::('f'::[]))))))))))))))))))
                           then Ok
                                  ((if fl.f_smart
                                    then QDoD (true, t, qi)
                                    else QDescendant (true, t, qi)),
                                  (set_nonflat pr))
                           else if eqb0 axis
                                     ('f'::('o'::('l'::('l'::('o'::('w'::('i'::('n'::('g'::[])))))))))
                                then Ok ((QFollowing (false, t, qi)),
                                       (set_nonflat pr))
                                else if eqb0 axis
                                          ('f'::('o'::('l'::('l'::('o'::('w'::('i'::('n'::('g'::('-'::('s'::('i'::('b'::('l'::('i'::('n'::('g'::[])))))))))))))))))
                                     then Ok ((QFollowing (true, t, qi)), pr)
                                     else if eqb0 axis
                                               ('p'::('a'::('r'::('e'::('n'::('t'::[]))))))
                                          then Ok ((QParent (t, qi)), pr)
                                          else if eqb0 axis
                                                    ('p'::('r'::('e'::('c'::('e'::('d'::('i'::('n'::('g'::[])))))))))
                                               then Ok ((QPreceding (false,
                                                      t, qi)),
                                                      (set_nonflat pr))
                                               else if eqb0 axis
                                                         ('p'::('r'::('e'::('c'::('e'::('d'::('i'::('n'::('g'::('-'::('s'::('i'::('b'::('l'::('i'::('n'::('g'::[])))))))))))))))))
                                                    then Ok ((QPreceding
                                                           (true, t, qi)), pr)
                                                    else if eqb0 axis
                                                              ('s'::('e'::('l'::('f'::[]))))
                                                         then Ok ((QSelf (t,
                                                                qi)), pr)
                                                         else if eqb0 axis
                                                                   ('n'::('a'::('m'::('e'::('s'::('p'::('a'::('c'::('e'::[])))))))))
                                                              then Err
                                                                    ('x'::('p'::('a'::('t'::('h'::(':'::(' '::('t'::('h'::('e'::(' '::('n'::('a'::('m'::('e'::('s'::('p'::('a'::('c'::('e'::(' '::('a'::('x'::('i'::('s'::(' '::('i'::('s'::(' '::('n'::('o'::('t'::(' '::('s'::('u'::('p'::('p'::('o'::('r'::('t'::('e'::('d'::[]))))))))))))))))))))))))))))))))))))))))))
                                                              else Err
                                                                    ('u'::('n'::('k'::('n'::('o'::('w'::('n'::(' '::('a'::('x'::('e'::(' '::('t'::('y'::('p'::('e'::[]))))))))))))))))

(** val cmp_of : char list -> cmpop option **)

let cmp_of op =
  if eqb0 op ('='::[])
  then Some CEq
  else if eqb0 op ('!'::('='::[]))
       then Some CNe
       else if eqb0 op ('<'::[])
            then Some CLt
            else if eqb0 op ('<'::('='::[]))
                 then Some CLe
                 else if eqb0 op ('>'::[])
                      then Some CGt
                      else if eqb0 op ('>'::('='::[])) then Some CGe else None

(** val arith_of : char list -> arith option **)

let arith_of op =
  if eqb0 op ('+'::[])
  then Some OAdd
  else if eqb0 op ('-'::[])
       then Some OSub
       else if eqb0 op ('*'::[])
            then Some OMul
            else if eqb0 op ('d'::('i'::('v'::[])))
                 then Some ODiv
                 else if eqb0 op ('m'::('o'::('d'::[])))
                      then Some OMod
                      else None

(** val index_panic : char list **)

let index_panic =
  'r'::('u'::('n'::('t'::('i'::('m'::('e'::(' '::('e'::('r'::('r'::('o'::('r'::(':'::(' '::('i'::('n'::('d'::('e'::('x'::(' '::('o'::('u'::('t'::(' '::('o'::('f'::(' '::('r'::('a'::('n'::('g'::('e'::[]))))))))))))))))))))))))))))))))

(** val process :
    (char list -> bool) -> nat -> anode -> flags -> first -> bR **)

let rec process re_ok depth root fl fi =
  if Nat.ltb max_build_depth (S depth)
  then Err
         ('t'::('h'::('e'::(' '::('x'::('p'::('a'::('t'::('h'::(' '::('e'::('x'::('p'::('r'::('e'::('s'::('s'::('i'::('o'::('n'::('s'::(' '::('i'::('s'::(' '::('t'::('o'::('o'::(' '::('c'::('o'::('m'::('p'::('l'::('e'::('x'::[]))))))))))))))))))))))))))))))))))))
  else let d = S depth in
       (match root with
        | ARoot _ ->
          Ok ((QAbsolute, pr_none), { fi_q = fi.fi_q; fi_self = false })
        | AAxis (axis, nty, pre, loc, _, hasns, ns, input) ->
          let t = axis_test nty pre loc hasns ns in
          let finish = fun r ->
            cbind r (fun pat ->
              let (q, pr) = pat in
              Ok ((q, pr), { fi_q = (Some q); fi_self = true }))
          in
          (match input with
           | Some inp ->
             let normal =
               let smart =
                 (&&) (negb fl.f_filter)
                   ((||)
                     (eqb0 axis
                       ('d'::('e'::('s'::('c'::('e'::('n'::('d'::('a'::('n'::('t'::[])))))))))))
                     (eqb0 axis
                       ('d'::('e'::('s'::('c'::('e'::('n'::('d'::('a'::('n'::('t'::('-'::('o'::('r'::('-'::('s'::('e'::('l'::('f'::[]))))))))))))))))))))
               in
               cbind
                 (process re_ok d inp { f_smart = smart; f_pos = false;
                   f_filter = false } fi_nil) (fun pat ->
                 let (p, _) = pat in
                 let (qi, pr) = p in finish (mk_axis axis t fl qi pr))
             in
             (match inp with
              | AAxis (iax, itt, ipre, iloc, _, _, _, ginput) ->
                if (&&)
                     ((&&) (negb fl.f_filter)
                       (eqb0 axis ('c'::('h'::('i'::('l'::('d'::[])))))))
                     ((&&)
                       ((&&)
                         (eqb0 iax
                           ('d'::('e'::('s'::('c'::('e'::('n'::('d'::('a'::('n'::('t'::('-'::('o'::('r'::('-'::('s'::('e'::('l'::('f'::[])))))))))))))))))))
                         (ntype_eqb itt NTAll))
                       ((&&) (eqb0 iloc []) (eqb0 ipre [])))
                then (match ginput with
                      | Some g ->
                        cbind (process re_ok d g fl_smart fi_nil) (fun pat ->
                          let (p, _) = pat in
                          let (qg, pr) = p in
                          finish (Ok ((QDescendant (false, t, qg)),
                            (set_nonflat pr))))
                      | None ->
                        finish (Ok ((QDescendant (false, t, QContext)),
                          (set_nonflat pr_none))))
                else normal
              | _ -> normal)
           | None -> finish (mk_axis axis t fl QContext pr_none))
        | AFilter (input, cond) ->
          let isfirst = negb fl.f_filter in
          let fl0 = { f_smart = false; f_pos = fl.f_pos; f_filter =
            fl.f_filter }
          in
          cbind
            (process re_ok d input { f_smart = fl0.f_smart; f_pos =
              fl0.f_pos; f_filter = true } fi) (fun pat ->
            let (p, fi1) = pat in
            let (qi, pr) = p in
            cbind (process re_ok d cond fl0 fi1) (fun pat0 ->
              let (p0, _) = pat0 in
              let (c, prc) = p0 in
              let prc0 =
                if (||) (can_be_number c) ((||) prc.pr_haspos prc.pr_haslast)
                then set_haspos prc
                else prc
              in
              let pr0 =
                if is_filter_node input then pr else set_posfilter pr false
              in
              let pr1 = if prc0.pr_haspos then set_posfilter pr0 true else pr0
              in
              let c0 =
                if (&&) prc0.pr_haspos prc0.pr_haslast
                then (match c with
                      | QPosition i0 ->
                        (match i0 with
                         | QFilter (np, i, p1) ->
                           QLastFunc (QFilter (np, i, p1))
                         | _ -> c)
                      | QLast i0 ->
                        (match i0 with
                         | QFilter (np, i, p1) ->
                           QLastFunc (QFilter (np, i, p1))
                         | _ -> c)
                      | _ -> c)
                else c
              in
              let plain0 = QFilter ((negb prc0.pr_haspos), qi, c0) in
              if isfirst
              then (match fi1.fi_q with
                    | Some fq ->
                      if (&&) (q_merge qi) pr1.pr_posfilter
                      then (match reroot fq with
                            | Some p1 ->
                              let (parent, fq') = p1 in
                              let qi' = if fi1.fi_self then fq' else qi in
                              let q = QMerge (parent, (QFilter (false, qi',
                                c0)))
                              in
                              Ok ((q, pr1), { fi_q = (Some q); fi_self =
                              true })
                            | None ->
                              let q = QFilter (false, qi, c0) in
                              Ok ((q, pr1), { fi_q = (Some q); fi_self =
                              true }))
                      else Ok ((plain0, pr1), { fi_q = (Some plain0);
                             fi_self = true })
                    | None ->
                      Ok ((plain0, pr1), { fi_q = (Some plain0); fi_self =
                        true }))
              else Ok ((plain0, pr1), { fi_q = (Some plain0); fi_self =
                     true })))
        | AFunc (_, name, args) ->
          let nargs = length args in
          let arg = fun a fi0 -> process re_ok d a fl_none fi0 in
          let fn_first = fun k ->
            match args with
            | [] -> Err index_panic
            | a0 :: _ ->
              cbind (arg a0 fi) (fun pat ->
                let (p, fi') = pat in
                let (q0, pr) = p in
                Ok (((k q0), pr), { fi_q = fi'.fi_q; fi_self = false }))
          in
          let fn_two = fun k ->
            match args with
            | [] -> Err index_panic
            | a0 :: l ->
              (match l with
               | [] -> cbind (arg a0 fi) (fun _ -> Err index_panic)
               | a1 :: _ ->
                 cbind (arg a0 fi) (fun pat ->
                   let (p, fi0) = pat in
                   let (q0, _) = p in
                   cbind (arg a1 fi0) (fun pat0 ->
                     let (p0, fi1) = pat0 in
                     let (q1, pr) = p0 in
                     cbind (k q0 q1) (fun q -> Ok ((q, pr), { fi_q =
                       fi1.fi_q; fi_self = false })))))
          in
          let fn_three = fun k ->
            match args with
            | [] -> Err index_panic
            | a0 :: l ->
              (match l with
               | [] -> Err index_panic
               | a1 :: l0 ->
                 (match l0 with
                  | [] -> Err index_panic
                  | a2 :: _ ->
                    cbind (arg a0 fi) (fun pat ->
                      let (p, fi0) = pat in
                      let (q0, _) = p in
                      cbind (arg a1 fi0) (fun pat0 ->
                        let (p0, fi1) = pat0 in
                        let (q1, _) = p0 in
                        cbind (arg a2 fi1) (fun pat1 ->
                          let (p1, fi2) = pat1 in
                          let (q2, pr) = p1 in
                          Ok (((k q0 q1 q2), pr), { fi_q = fi2.fi_q;
                          fi_self = false }))))))
          in
          let default_self = fun k ->
            match args with
            | [] ->
              Ok (((k self_node_query), pr_none), { fi_q = (Some
                self_node_query); fi_self = false })
            | a0 :: _ ->
              cbind (arg a0 fi) (fun pat ->
                let (p, fi') = pat in
                let (q0, pr) = p in
                Ok (((k q0), pr), { fi_q = fi'.fi_q; fi_self = false }))
          in
          let eqs = eqb0 name in
          if eqs
               ('l'::('o'::('w'::('e'::('r'::('-'::('c'::('a'::('s'::('e'::[]))))))))))
          then fn_first (fun x -> QFn1 (FLowerCase, x))
          else if eqs
                    ('s'::('t'::('a'::('r'::('t'::('s'::('-'::('w'::('i'::('t'::('h'::[])))))))))))
               then fn_two (fun a b -> Ok (QFn2 (FStartsWith, a, b)))
               else if eqs
                         ('e'::('n'::('d'::('s'::('-'::('w'::('i'::('t'::('h'::[])))))))))
                    then fn_two (fun a b -> Ok (QFn2 (FEndsWith, a, b)))
                    else if eqs
                              ('c'::('o'::('n'::('t'::('a'::('i'::('n'::('s'::[]))))))))
                         then fn_two (fun a b -> Ok (QFn2 (FContains, a, b)))
                         else if eqs
                                   ('m'::('a'::('t'::('c'::('h'::('e'::('s'::[])))))))
                              then if negb (Nat.eqb nargs (S (S O)))
                                   then Err
                                          ('x'::('p'::('a'::('t'::('h'::(':'::(' '::('m'::('a'::('t'::('c'::('h'::('e'::('s'::(' '::('f'::('u'::('n'::('c'::('t'::('i'::('o'::('n'::(' '::('m'::('u'::('s'::('t'::(' '::('h'::('a'::('v'::('e'::(' '::('t'::('w'::('o'::(' '::('p'::('a'::('r'::('a'::('m'::('e'::('t'::('e'::('r'::('s'::[]))))))))))))))))))))))))))))))))))))))))))))))))
                                   else fn_two (fun a b ->
                                          match b with
                                          | QNum _ ->
                                            Err
                                              ('i'::('n'::('t'::('e'::('r'::('f'::('a'::('c'::('e'::(' '::('c'::('o'::('n'::('v'::('e'::('r'::('s'::('i'::('o'::('n'::(':'::(' '::('i'::('n'::('t'::('e'::('r'::('f'::('a'::('c'::('e'::(' '::('{'::('}'::(' '::('i'::('s'::(' '::('f'::('l'::('o'::('a'::('t'::('6'::('4'::(','::(' '::('n'::('o'::('t'::(' '::('s'::('t'::('r'::('i'::('n'::('g'::[])))))))))))))))))))))))))))))))))))))))))))))))))))))))))
                                          | QStr p ->
                                            if re_ok p
                                            then Ok (QFn2 (FMatches, a, b))
                                            else Err
                                                   ('m'::('a'::('t'::('c'::('h'::('e'::('s'::('('::(')'::(' '::('g'::('o'::('t'::(' '::('e'::('r'::('r'::('o'::('r'::('.'::[]))))))))))))))))))))
                                          | _ -> Ok (QFn2 (FMatches, a, b)))
                              else if eqs
                                        ('s'::('u'::('b'::('s'::('t'::('r'::('i'::('n'::('g'::[])))))))))
                                   then if Nat.ltb nargs (S (S O))
                                        then Err
                                               ('x'::('p'::('a'::('t'::('h'::(':'::(' '::('s'::('u'::('b'::('s'::('t'::('r'::('i'::('n'::('g'::(' '::('f'::('u'::('n'::('c'::('t'::('i'::('o'::('n'::(' '::('m'::('u'::('s'::('t'::(' '::('h'::('a'::('v'::('e'::(' '::('a'::('t'::(' '::('l'::('e'::('a'::('s'::('t'::(' '::('t'::('w'::('o'::(' '::('p'::('a'::('r'::('a'::('m'::('e'::('t'::('e'::('r'::[]))))))))))))))))))))))))))))))))))))))))))))))))))))))))))
                                        else if Nat.eqb nargs (S (S (S O)))
                                             then fn_three (fun x x0 x1 ->
                                                    QFn3 (FSubstring, x, x0,
                                                    x1))
                                             else fn_two (fun a b -> Ok (QFn3
                                                    (FSubstring, a, b, QNil)))
                                   else if (||)
                                             (eqs
                                               ('s'::('u'::('b'::('s'::('t'::('r'::('i'::('n'::('g'::('-'::('b'::('e'::('f'::('o'::('r'::('e'::[])))))))))))))))))
                                             (eqs
                                               ('s'::('u'::('b'::('s'::('t'::('r'::('i'::('n'::('g'::('-'::('a'::('f'::('t'::('e'::('r'::[]))))))))))))))))
                                        then if negb (Nat.eqb nargs (S (S O)))
                                             then Err
                                                    ('x'::('p'::('a'::('t'::('h'::(':'::(' '::('s'::('u'::('b'::('s'::('t'::('r'::('i'::('n'::('g'::('-'::('b'::('e'::('f'::('o'::('r'::('e'::(' '::('f'::('u'::('n'::('c'::('t'::('i'::('o'::('n'::(' '::('m'::('u'::('s'::('t'::(' '::('h'::('a'::('v'::('e'::(' '::('t'::('w'::('o'::(' '::('p'::('a'::('r'::('a'::('m'::('e'::('t'::('e'::('r'::('s'::[])))))))))))))))))))))))))))))))))))))))))))))))))))))))))
                                             else fn_two (fun a b -> Ok (QFn2
                                                    ((if eqs
                                                           ('s'::('u'::('b'::('s'::('t'::('r'::('i'::('n'::('g'::('-'::('a'::('f'::('t'::('e'::('r'::[])))))))))))))))
                                                      then FSubstringAfter
                                                      else FSubstringBefore),
                                                    a, b)))
                                        else if eqs
                                                  ('s'::('t'::('r'::('i'::('n'::('g'::('-'::('l'::('e'::('n'::('g'::('t'::('h'::[])))))))))))))
                                             then if Nat.ltb nargs (S O)
                                                  then Err
                                                         ('x'::('p'::('a'::('t'::('h'::(':'::(' '::('s'::('t'::('r'::('i'::('n'::('g'::('-'::('l'::('e'::('n'::('g'::('t'::('h'::(' '::('f'::('u'::('n'::('c'::('t'::('i'::('o'::('n'::(' '::('m'::('u'::('s'::('t'::(' '::('h'::('a'::('v'::('e'::(' '::('a'::('t'::(' '::('l'::('e'::('a'::('s'::('t'::(' '::('o'::('n'::('e'::(' '::('p'::('a'::('r'::('a'::('m'::('e'::('t'::('e'::('r'::[]))))))))))))))))))))))))))))))))))))))))))))))))))))))))))))))
                                                  else fn_first (fun x ->
                                                         QFn1 (FStringLength,
                                                         x))
                                             else if eqs
                                                       ('n'::('o'::('r'::('m'::('a'::('l'::('i'::('z'::('e'::('-'::('s'::('p'::('a'::('c'::('e'::[])))))))))))))))
                                                  then default_self (fun x ->
                                                         QFn1
                                                         (FNormalizeSpace, x))
                                                  else if eqs
                                                            ('r'::('e'::('p'::('l'::('a'::('c'::('e'::[])))))))
                                                       then if negb
                                                                 (Nat.eqb
                                                                   nargs (S
                                                                   (S (S O))))
                                                            then Err
                                                                   ('x'::('p'::('a'::('t'::('h'::(':'::(' '::('r'::('e'::('p'::('l'::('a'::('c'::('e'::(' '::('f'::('u'::('n'::('c'::('t'::('i'::('o'::('n'::(' '::('m'::('u'::('s'::('t'::(' '::('h'::('a'::('v'::('e'::(' '::('t'::('h'::('r'::('e'::('e'::(' '::('p'::('a'::('r'::('a'::('m'::('e'::('t'::('e'::('r'::('s'::[]))))))))))))))))))))))))))))))))))))))))))))))))))
                                                            else fn_three
                                                                   (fun x x0 x1 ->
                                                                   QFn3
                                                                   (FReplace,
                                                                   x, x0, x1))
                                                       else if eqs
                                                                 ('t'::('r'::('a'::('n'::('s'::('l'::('a'::('t'::('e'::[])))))))))
                                                            then if negb
                                                                    (Nat.eqb
                                                                    nargs (S
                                                                    (S (S
                                                                    O))))
                                                                 then 
                                                                   Err
                                                                    ('x'::('p'::('a'::('t'::('h'::(':'::(' '::('t'::('r'::('a'::('n'::('s'::('l'::('a'::('t'::('e'::(' '::('f'::('u'::('n'::('c'::('t'::('i'::('o'::('n'::(' '::('m'::('u'::('s'::('t'::(' '::('h'::('a'::('v'::('e'::(' '::('t'::('h'::('r'::('e'::('e'::(' '::('p'::('a'::('r'::('a'::('m'::('e'::('t'::('e'::('r'::('s'::[]))))))))))))))))))))))))))))))))))))))))))))))))))))
                                                                 else 
                                                                   fn_three
                                                                    (fun x x0 x1 ->
                                                                    QFn3
                                                                    (FTranslate,
                                                                    x, x0,
                                                                    x1))
                                                            else if eqs
                                                                    ('n'::('o'::('t'::[])))
                                                                 then 
                                                                   if 
                                                                    Nat.eqb
                                                                    nargs O
                                                                   then 
                                                                    Err
                                                                    ('x'::('p'::('a'::('t'::('h'::(':'::(' '::('n'::('o'::('t'::(' '::('f'::('u'::('n'::('c'::('t'::('i'::('o'::('n'::(' '::('m'::('u'::('s'::('t'::(' '::('h'::('a'::('v'::('e'::(' '::('a'::('t'::(' '::('l'::('e'::('a'::('s'::('t'::(' '::('o'::('n'::('e'::(' '::('p'::('a'::('r'::('a'::('m'::('e'::('t'::('e'::('r'::[]))))))))))))))))))))))))))))))))))))))))))))))))))))
                                                                   else 
                                                                    fn_first
                                                                    (fun x ->
                                                                    QFn1
                                                                    (FNot, x))
                                                                 else 
                                                                   if 
                                                                    (||)
                                                                    (eqs
                                                                    ('n'::('a'::('m'::('e'::[])))))
                                                                    ((||)
                                                                    (eqs
                                                                    ('l'::('o'::('c'::('a'::('l'::('-'::('n'::('a'::('m'::('e'::[])))))))))))
                                                                    (eqs
                                                                    ('n'::('a'::('m'::('e'::('s'::('p'::('a'::('c'::('e'::('-'::('u'::('r'::('i'::[])))))))))))))))
                                                                   then 
                                                                    if 
                                                                    Nat.ltb
                                                                    (S O)
                                                                    nargs
                                                                    then 
                                                                    Err
                                                                    ('x'::('p'::('a'::('t'::('h'::(':'::(' '::('f'::('u'::('n'::('c'::('t'::('i'::('o'::('n'::(' '::('m'::('u'::('s'::('t'::(' '::('h'::('a'::('v'::('e'::(' '::('a'::('t'::(' '::('m'::('o'::('s'::('t'::(' '::('o'::('n'::('e'::(' '::('p'::('a'::('r'::('a'::('m'::('e'::('t'::('e'::('r'::[])))))))))))))))))))))))))))))))))))))))))))))))
                                                                    else 
                                                                    let f =
                                                                    if 
                                                                    eqs
                                                                    ('n'::('a'::('m'::('e'::[]))))
                                                                    then FName
                                                                    else 
                                                                    if 
                                                                    eqs
                                                                    ('l'::('o'::('c'::('a'::('l'::('-'::('n'::('a'::('m'::('e'::[]))))))))))
                                                                    then 
                                                                    FLocalName
                                                                    else 
                                                                    FNamespaceURI
                                                                    in
                                                                    (
                                                                    match args with
                                                                    | [] ->
                                                                    Ok
                                                                    (((QFn1
                                                                    (f,
                                                                    QNil)),
                                                                    pr_none),
                                                                    { fi_q =
                                                                    fi.fi_q;
                                                                    fi_self =
                                                                    false })
                                                                    | a0 :: _ ->
                                                                    cbind
                                                                    (arg a0
                                                                    fi)
                                                                    (fun pat ->
                                                                    let (
                                                                    p, fi') =
                                                                    pat
                                                                    in
                                                                    let (
                                                                    q0, pr) =
                                                                    p
                                                                    in
                                                                    Ok
                                                                    (((QFn1
                                                                    (f, q0)),
                                                                    pr),
                                                                    { fi_q =
                                                                    fi'.fi_q;
                                                                    fi_self =
                                                                    false })))
                                                                   else 
                                                                    if 
                                                                    eqs
                                                                    ('t'::('r'::('u'::('e'::[]))))
                                                                    then 
                                                                    Ok
                                                                    (((QFn0
                                                                    FTrue),
                                                                    pr_none),
                                                                    { fi_q =
                                                                    fi.fi_q;
                                                                    fi_self =
                                                                    false })
                                                                    else 
                                                                    if 
                                                                    eqs
                                                                    ('f'::('a'::('l'::('s'::('e'::[])))))
                                                                    then 
                                                                    Ok
                                                                    (((QFn0
                                                                    FFalse),
                                                                    pr_none),
                                                                    { fi_q =
                                                                    fi.fi_q;
                                                                    fi_self =
                                                                    false })
                                                                    else 
                                                                    if 
                                                                    eqs
                                                                    ('l'::('a'::('s'::('t'::[]))))
                                                                    then 
                                                                    Ok
                                                                    (((QLast
                                                                    (opt_default
                                                                    QNil
                                                                    fi.fi_q)),
                                                                    (set_haslast
                                                                    pr_none)),
                                                                    { fi_q =
                                                                    fi.fi_q;
                                                                    fi_self =
                                                                    false })
                                                                    else 
                                                                    if 
                                                                    eqs
                                                                    ('p'::('o'::('s'::('i'::('t'::('i'::('o'::('n'::[]))))))))
                                                                    then 
                                                                    Ok
                                                                    (((QPosition
                                                                    (opt_default
                                                                    QNil
                                                                    fi.fi_q)),
                                                                    (set_haspos
                                                                    pr_none)),
                                                                    { fi_q =
                                                                    fi.fi_q;
                                                                    fi_self =
                                                                    false })
                                                                    else 
                                                                    if 
                                                                    (||)
                                                                    (eqs
                                                                    ('b'::('o'::('o'::('l'::('e'::('a'::('n'::[]))))))))
                                                                    ((||)
                                                                    (eqs
                                                                    ('n'::('u'::('m'::('b'::('e'::('r'::[])))))))
                                                                    (eqs
                                                                    ('s'::('t'::('r'::('i'::('n'::('g'::[]))))))))
                                                                    then 
                                                                    if 
                                                                    Nat.ltb
                                                                    (S O)
                                                                    nargs
                                                                    then 
                                                                    Err
                                                                    ('x'::('p'::('a'::('t'::('h'::(':'::(' '::('f'::('u'::('n'::('c'::('t'::('i'::('o'::('n'::(' '::('m'::('u'::('s'::('t'::(' '::('h'::('a'::('v'::('e'::(' '::('a'::('t'::(' '::('m'::('o'::('s'::('t'::(' '::('o'::('n'::('e'::(' '::('p'::('a'::('r'::('a'::('m'::('e'::('t'::('e'::('r'::[])))))))))))))))))))))))))))))))))))))))))))))))
                                                                    else 
                                                                    default_self
                                                                    (fun x ->
                                                                    QFn1
                                                                    ((if 
                                                                    eqs
                                                                    ('b'::('o'::('o'::('l'::('e'::('a'::('n'::[])))))))
                                                                    then 
                                                                    FBoolean
                                                                    else 
                                                                    if 
                                                                    eqs
                                                                    ('n'::('u'::('m'::('b'::('e'::('r'::[]))))))
                                                                    then 
                                                                    FNumber
                                                                    else 
                                                                    FString),
                                                                    x))
                                                                    else 
                                                                    if 
                                                                    eqs
                                                                    ('c'::('o'::('u'::('n'::('t'::[])))))
                                                                    then 
                                                                    if 
                                                                    Nat.eqb
                                                                    nargs O
                                                                    then 
                                                                    Err
                                                                    ('x'::('p'::('a'::('t'::('h'::(':'::(' '::('c'::('o'::('u'::('n'::('t'::('('::('n'::('o'::('d'::('e'::('-'::('s'::('e'::('t'::('s'::(')'::(' '::('f'::('u'::('n'::('c'::('t'::('i'::('o'::('n'::(' '::('m'::('u'::('s'::('t'::(' '::('w'::('i'::('t'::('h'::(' '::('h'::('a'::('v'::('e'::(' '::('p'::('a'::('r'::('a'::('m'::('e'::('t'::('e'::('r'::('s'::(' '::('n'::('o'::('d'::('e'::('-'::('s'::('e'::('t'::('s'::[]))))))))))))))))))))))))))))))))))))))))))))))))))))))))))))))))))))
                                                                    else 
                                                                    fn_first
                                                                    (fun x ->
                                                                    QFn1
                                                                    (FCount,
                                                                    x))
                                                                    else 
                                                                    if 
                                                                    eqs
                                                                    ('s'::('u'::('m'::[])))
                                                                    then 
                                                                    if 
                                                                    Nat.eqb
                                                                    nargs O
                                                                    then 
                                                                    Err
                                                                    ('x'::('p'::('a'::('t'::('h'::(':'::(' '::('s'::('u'::('m'::('('::('n'::('o'::('d'::('e'::('-'::('s'::('e'::('t'::('s'::(')'::(' '::('f'::('u'::('n'::('c'::('t'::('i'::('o'::('n'::(' '::('m'::('u'::('s'::('t'::(' '::('w'::('i'::('t'::('h'::(' '::('h'::('a'::('v'::('e'::(' '::('p'::('a'::('r'::('a'::('m'::('e'::('t'::('e'::('r'::('s'::(' '::('n'::('o'::('d'::('e'::('-'::('s'::('e'::('t'::('s'::[]))))))))))))))))))))))))))))))))))))))))))))))))))))))))))))))))))
                                                                    else 
                                                                    fn_first
                                                                    (fun x ->
                                                                    QFn1
                                                                    (FSum, x))
                                                                    else 
                                                                    if 
                                                                    (||)
                                                                    (eqs
                                                                    ('c'::('e'::('i'::('l'::('i'::('n'::('g'::[]))))))))
                                                                    ((||)
                                                                    (eqs
                                                                    ('f'::('l'::('o'::('o'::('r'::[]))))))
                                                                    (eqs
                                                                    ('r'::('o'::('u'::('n'::('d'::[])))))))
                                                                    then 
                                                                    if 
                                                                    Nat.eqb
                                                                    nargs O
                                                                    then 
                                                                    Err
                                                                    ('x'::('p'::('a'::('t'::('h'::(':'::(' '::('c'::('e'::('i'::('l'::('i'::('n'::('g'::('('::('n'::('o'::('d'::('e'::('-'::('s'::('e'::('t'::('s'::(')'::(' '::('f'::('u'::('n'::('c'::('t'::('i'::('o'::('n'::(' '::('m'::('u'::('s'::('t'::(' '::('w'::('i'::('t'::('h'::(' '::('h'::('a'::('v'::('e'::(' '::('p'::('a'::('r'::('a'::('m'::('e'::('t'::('e'::('r'::('s'::(' '::('n'::('o'::('d'::('e'::('-'::('s'::('e'::('t'::('s'::[]))))))))))))))))))))))))))))))))))))))))))))))))))))))))))))))))))))))
                                                                    else 
                                                                    fn_first
                                                                    (fun x ->
                                                                    QFn1
                                                                    ((if 
                                                                    eqs
                                                                    ('c'::('e'::('i'::('l'::('i'::('n'::('g'::[])))))))
                                                                    then 
                                                                    FCeiling
                                                                    else 
                                                                    if 
                                                                    eqs
                                                                    ('f'::('l'::('o'::('o'::('r'::[])))))
                                                                    then 
                                                                    FFloor
                                                                    else 
                                                                    FRound),
                                                                    x))
                                                                    else 
                                                                    if 
                                                                    eqs
                                                                    ('c'::('o'::('n'::('c'::('a'::('t'::[]))))))
                                                                    then 
                                                                    if 
                                                                    Nat.ltb
                                                                    nargs (S
                                                                    (S O))
                                                                    then 
                                                                    Err
                                                                    ('x'::('p'::('a'::('t'::('h'::(':'::(' '::('c'::('o'::('n'::('c'::('a'::('t'::('('::(')'::(' '::('m'::('u'::('s'::('t'::(' '::('h'::('a'::('v'::('e'::(' '::('a'::('t'::(' '::('l'::('e'::('a'::('s'::('t'::(' '::('t'::('w'::('o'::(' '::('a'::('r'::('g'::('u'::('m'::('e'::('n'::('t'::('s'::[]))))))))))))))))))))))))))))))))))))))))))))))))
                                                                    else 
                                                                    cbind
                                                                    (let rec go l fi0 pr =
                                                                      
                                                                    match l with
                                                                    | [] ->
                                                                    Ok (([],
                                                                    pr), fi0)
                                                                    | a :: r ->
                                                                    cbind
                                                                    (process
                                                                    re_ok d a
                                                                    fl_none
                                                                    fi0)
                                                                    (fun pat ->
                                                                    let (
                                                                    p, fi') =
                                                                    pat
                                                                    in
                                                                    let (
                                                                    q, pr') =
                                                                    p
                                                                    in
                                                                    cbind
                                                                    (go r fi'
                                                                    pr')
                                                                    (fun pat0 ->
                                                                    let (
                                                                    p0, fi'') =
                                                                    pat0
                                                                    in
                                                                    let (
                                                                    qs, pr'') =
                                                                    p0
                                                                    in
                                                                    Ok
                                                                    (((q :: qs),
                                                                    pr''),
                                                                    fi'')))
                                                                    in 
                                                                    go args
                                                                    fi pr_none)
                                                                    (fun pat ->
                                                                    let (
                                                                    p, fi') =
                                                                    pat
                                                                    in
                                                                    let (
                                                                    qs, pr) =
                                                                    p
                                                                    in
                                                                    Ok
                                                                    (((QConcat
                                                                    (list_of_args
                                                                    qs)),
                                                                    pr),
                                                                    { fi_q =
                                                                    fi'.fi_q;
                                                                    fi_self =
                                                                    false }))
                                                                    else 
                                                                    if 
                                                                    eqs
                                                                    ('r'::('e'::('v'::('e'::('r'::('s'::('e'::[])))))))
                                                                    then 
                                                                    if 
                                                                    Nat.eqb
                                                                    nargs O
                                                                    then 
                                                                    Err
                                                                    ('x'::('p'::('a'::('t'::('h'::(':'::(' '::('r'::('e'::('v'::('e'::('r'::('s'::('e'::('('::('n'::('o'::('d'::('e'::('-'::('s'::('e'::('t'::('s'::(')'::(' '::('f'::('u'::('n'::('c'::('t'::('i'::('o'::('n'::(' '::('m'::('u'::('s'::('t'::(' '::('w'::('i'::('t'::('h'::(' '::('h'::('a'::('v'::('e'::(' '::('p'::('a'::('r'::('a'::('m'::('e'::('t'::('e'::('r'::('s'::(' '::('n'::('o'::('d'::('e'::('-'::('s'::('e'::('t'::('s'::[]))))))))))))))))))))))))))))))))))))))))))))))))))))))))))))))))))))))
                                                                    else 
                                                                    fn_first
                                                                    (fun x ->
                                                                    QReverse
                                                                    x)
                                                                    else 
                                                                    if 
                                                                    eqs
                                                                    ('s'::('t'::('r'::('i'::('n'::('g'::('-'::('j'::('o'::('i'::('n'::[])))))))))))
                                                                    then 
                                                                    if 
                                                                    negb
                                                                    (Nat.eqb
                                                                    nargs (S
                                                                    (S O)))
                                                                    then 
                                                                    Err
                                                                    ('x'::('p'::('a'::('t'::('h'::(':'::(' '::('s'::('t'::('r'::('i'::('n'::('g'::('-'::('j'::('o'::('i'::('n'::('('::('n'::('o'::('d'::('e'::('-'::('s'::('e'::('t'::('s'::(','::(' '::('s'::('e'::('p'::('a'::('r'::('a'::('t'::('o'::('r'::(')'::(' '::('f'::('u'::('n'::('c'::('t'::('i'::('o'::('n'::(' '::('r'::('e'::('q'::('u'::('i'::('r'::('e'::('s'::(' '::('n'::('o'::('d'::('e'::('-'::('s'::('e'::('t'::(' '::('a'::('n'::('d'::(' '::('a'::('r'::('g'::('u'::('m'::('e'::('n'::('t'::[]))))))))))))))))))))))))))))))))))))))))))))))))))))))))))))))))))))))))))))))))
                                                                    else 
                                                                    fn_two
                                                                    (fun a b ->
                                                                    Ok (QFn2
                                                                    (FStringJoin,
                                                                    a, b)))
                                                                    else 
                                                                    Err
                                                                    ('n'::('o'::('t'::(' '::('y'::('e'::('t'::(' '::('s'::('u'::('p'::('p'::('o'::('r'::('t'::(' '::('t'::('h'::('i'::('s'::(' '::('f'::('u'::('n'::('c'::('t'::('i'::('o'::('n'::[])))))))))))))))))))))))))))))
        | AOp (op, l, r) ->
          cbind (process re_ok d l fl_none fi) (fun pat ->
            let (p, fi1) = pat in
            let (ql, prl) = p in
            cbind (process re_ok d r fl_none fi1) (fun pat0 ->
              let (p0, fi2) = pat0 in
              let (qr, prr) = p0 in
              let pr = pr_or prl prr in
              let fo = { fi_q = fi2.fi_q; fi_self = false } in
              (match arith_of op with
               | Some o -> Ok (((QNumeric (o, ql, qr)), pr), fo)
               | None ->
                 (match cmp_of op with
                  | Some o -> Ok (((QLogical (o, ql, qr)), pr), fo)
                  | None ->
                    if eqb0 op ('o'::('r'::[]))
                    then Ok (((QBoolean (true, ql, qr)), pr), fo)
                    else if eqb0 op ('a'::('n'::('d'::[])))
                         then Ok (((QBoolean (false, ql, qr)), pr), fo)
                         else if eqb0 op ('|'::[])
                              then Ok (((QUnion (ql, qr)), (set_nonflat pr)),
                                     fo)
                              else Ok ((QNil, pr), fo)))))
        | ANum v ->
          Ok (((QNum v), pr_none), { fi_q = fi.fi_q; fi_self = false })
        | AStr s ->
          Ok (((QStr s), pr_none), { fi_q = fi.fi_q; fi_self = false })
        | AVar (_, _) ->
          Err
            ('x'::('p'::('a'::('t'::('h'::(':'::(' '::('v'::('a'::('r'::('i'::('a'::('b'::('l'::('e'::(' '::('i'::('s'::(' '::('n'::('o'::('t'::(' '::('s'::('u'::('p'::('p'::('o'::('r'::('t'::('e'::('d'::[]))))))))))))))))))))))))))))))))
        | AGroup input ->
          cbind (process re_ok d input fl_none fi) (fun pat ->
            let (p, fi1) = pat in
            let (qi, pr) = p in
            let q = QGroup qi in
            (match fi1.fi_q with
             | Some _ -> Ok ((q, pr), { fi_q = fi1.fi_q; fi_self = false })
             | None -> Ok ((q, pr), { fi_q = (Some q); fi_self = true }))))

(** val build_fuel :
    (char list -> bool) -> nat -> char list -> nsmap -> query cres **)

let build_fuel re_ok fuel text ns =
  cbind (parse_fuel fuel text ns) (fun root ->
    cbind (process re_ok O root fl_none fi_nil) (fun pat ->
      let (p, _) = pat in let (q, _) = p in Ok q))

(** val type_byte : ntype -> char **)

let type_byte t =
  ascii_of_nat
    (add (S (S (S (S (S (S (S (S (S (S (S (S (S (S (S (S (S (S (S (S (S (S (S
      (S (S (S (S (S (S (S (S (S (S (S (S (S (S (S (S (S (S (S (S (S (S (S (S
      (S (S (S (S (S (S (S (S (S (S (S (S (S (S (S (S (S (S (S (S (S (S (S (S
      (S (S (S (S (S (S (S (S (S (S (S (S (S (S (S (S (S (S (S (S (S (S (S (S
      (S (S
      O)))))))))))))))))))))))))))))))))))))))))))))))))))))))))))))))))))))))))))))))))))))))))))))))))
      (match t with
       | NTRoot -> O
       | NTElem -> S O
       | NTAttr -> S (S O)
       | NTText -> S (S (S O))
       | NTComment -> S (S (S (S O)))
       | NTAll -> S (S (S (S (S O))))))

(** val lp : char list -> char list **)

let lp s =
  append (itoa (length0 s)) (append (':'::[]) s)

(** val index_suffix : nat list -> char list **)

let rec index_suffix = function
| [] -> []
| i :: q -> append (index_suffix q) (append ('-'::[]) (itoa (S i)))

(** val path_suffix : nat list -> char list **)

let path_suffix p =
  append (index_suffix p) ('-'::('1'::[]))

(** val hash_key : tree -> node -> char list **)

let hash_key d n0 =
  match node_type d n0 with
  | NTRoot -> []
  | NTAll -> []
  | x ->
    append
      ((type_byte x)::(append (lp (node_prefix d n0)) (lp (local_name d n0))))
      (append (match x with
               | NTElem -> []
               | _ -> lp (node_value d n0))
        (append (match n0.nattr with
                 | Some _ -> '-'::('1'::[])
                 | None -> []) (path_suffix n0.npath)))

(** val fnv_offset : n **)

let fnv_offset =
  Npos (XI (XO (XI (XO (XO (XI (XO (XO (XI (XI (XO (XO (XO (XI (XO (XO (XO
    (XI (XO (XO (XO (XI (XO (XO (XO (XO (XI (XO (XO (XO (XO (XI (XO (XO (XI
    (XO (XO (XI (XI (XI (XO (XO (XI (XI (XI (XO (XO (XI (XO (XI (XO (XO (XI
    (XI (XI (XI (XI (XI (XO (XI (XO (XO (XI
    XH)))))))))))))))))))))))))))))))))))))))))))))))))))))))))))))))

(** val fnv_prime : n **)

let fnv_prime =
  Npos (XI (XI (XO (XO (XI (XI (XO (XI (XI (XO (XO (XO (XO (XO (XO (XO (XO
    (XO (XO (XO (XO (XO (XO (XO (XO (XO (XO (XO (XO (XO (XO (XO (XO (XO (XO
    (XO (XO (XO (XO (XO XH))))))))))))))))))))))))))))))))))))))))

(** val two64 : n **)

let two64 =
  Npos (XO (XO (XO (XO (XO (XO (XO (XO (XO (XO (XO (XO (XO (XO (XO (XO (XO
    (XO (XO (XO (XO (XO (XO (XO (XO (XO (XO (XO (XO (XO (XO (XO (XO (XO (XO
    (XO (XO (XO (XO (XO (XO (XO (XO (XO (XO (XO (XO (XO (XO (XO (XO (XO (XO
    (XO (XO (XO (XO (XO (XO (XO (XO (XO (XO (XO
    XH))))))))))))))))))))))))))))))))))))))))))))))))))))))))))))))))

(** val fnv64a : char list -> n -> n **)

let rec fnv64a s h =
  match s with
  | [] -> h
  | c::r ->
    fnv64a r (N.modulo (N.mul (N.coq_lxor h (n_of_ascii c)) fnv_prime) two64)

(** val hash_code : tree -> node -> n **)

let hash_code d n0 =
  fnv64a (hash_key d n0) fnv_offset

(** val match_test : tree -> bool -> ntest -> node -> bool **)

let match_test d has_ns t n0 =
  if (||) (ntype_eqb t.nt_type (node_type d n0)) (ntype_eqb t.nt_type NTAll)
  then if (||) (negb (eqb0 t.nt_loc [])) (negb (eqb0 t.nt_pre []))
       then if (&&) has_ns t.nt_hasns
            then (&&) (eqb0 t.nt_loc (local_name d n0))
                   (eqb0 t.nt_ns (node_ns d n0))
            else (&&) (eqb0 t.nt_loc (local_name d n0))
                   (eqb0 t.nt_pre (node_prefix d n0))
       else true
  else false

(** val number_from : nat -> nat -> node list -> item list **)

let rec number_from k lvl = function
| [] -> []
| n0 :: r ->
  { it_node = n0; it_pos = k; it_lvl = lvl } :: (number_from (S k) lvl r)

(** val numbered : node list -> item list **)

let numbered l =
  number_from (S O) O l

(** val unnumbered : node list -> item list **)

let unnumbered l =
  map (fun n0 -> { it_node = n0; it_pos = (S O); it_lvl = O }) l

(** val step_child : tree -> bool -> ntest -> node -> item list **)

let step_child d has_ns t n0 =
  numbered (filter (match_test d has_ns t) (children d n0))

(** val step_attribute : tree -> bool -> ntest -> node -> item list **)

let step_attribute d has_ns t n0 =
  match node_type d n0 with
  | NTElem ->
    unnumbered (filter (match_test d has_ns t) (attributes_after d n0))
  | _ -> []

(** val number_desc : nat -> nat -> node list -> item list **)

let rec number_desc k base = function
| [] -> []
| n0 :: r ->
  { it_node = n0; it_pos = k; it_lvl =
    (sub (length n0.npath) base) } :: (number_desc (S k) base r)

(** val step_descendant :
    tree -> bool -> bool -> ntest -> node -> item list **)

let step_descendant d has_ns self t n0 =
  let cands = app (if self then n0 :: [] else []) (descendants d n0) in
  number_desc (S O) (length n0.npath) (filter (match_test d has_ns t) cands)

(** val step_ancestor_raw :
    tree -> bool -> bool -> ntest -> node -> node list **)

let step_ancestor_raw d has_ns self t n0 =
  filter (match_test d has_ns t)
    (app (if self then n0 :: [] else []) (ancestors n0))

(** val step_parent : tree -> bool -> ntest -> node -> item list **)

let step_parent d has_ns t n0 =
  match move_parent n0 with
  | Some p ->
    if match_test d has_ns t p
    then { it_node = p; it_pos = (S O); it_lvl = O } :: []
    else []
  | None -> []

(** val step_self : tree -> bool -> ntest -> node -> item list **)

let step_self d has_ns t n0 =
  if match_test d has_ns t n0
  then { it_node = n0; it_pos = (S O); it_lvl = O } :: []
  else []

(** val step_following_sibling :
    tree -> bool -> ntest -> node -> item list **)

let step_following_sibling d has_ns t n0 =
  numbered (filter (match_test d has_ns t) (following_siblings d n0))

(** val step_preceding_sibling :
    tree -> bool -> ntest -> node -> item list **)

let step_preceding_sibling d has_ns t n0 =
  numbered (filter (match_test d has_ns t) (preceding_siblings n0))

(** val self_and_ancestors : node -> node list **)

let self_and_ancestors n0 =
  match n0.nattr with
  | Some _ -> ancestors n0
  | None -> n0 :: (ancestors n0)

(** val step_following : tree -> bool -> ntest -> node -> item list **)

let step_following d has_ns t n0 =
  app
    (match n0.nattr with
     | Some _ ->
       step_descendant d has_ns false t { npath = n0.npath; nattr = None }
     | None -> [])
    (flat_map (fun a ->
      flat_map (fun s -> step_descendant d has_ns true t s)
        (following_siblings d a)) (self_and_ancestors n0))

(** val step_preceding : tree -> bool -> ntest -> node -> item list **)

let step_preceding d has_ns t n0 =
  flat_map (fun a ->
    numbered
      (flat_map (fun s -> filter (match_test d has_ns t) (desc_or_self d s))
        (preceding_siblings a))) (self_and_ancestors n0)

(** val top_below : tree -> bool -> ntest -> tree -> nat list -> node list **)

let rec top_below d has_ns t s p =
  let T (_, _, _, _, _, _, ks) = s in
  let rec go l i =
    match l with
    | [] -> []
    | c :: r ->
      app
        (if match_test d has_ns t { npath = (app p (i :: [])); nattr = None }
         then { npath = (app p (i :: [])); nattr = None } :: []
         else top_below d has_ns t c (app p (i :: []))) (go r (S i))
  in go ks O

(** val step_dod : tree -> bool -> bool -> ntest -> node -> item list **)

let step_dod d has_ns matchself t n0 =
  if (&&) matchself (match_test d has_ns t n0)
  then { it_node = n0; it_pos = (S O); it_lvl = O } :: []
  else (match n0.nattr with
        | Some _ -> []
        | None ->
          (match node_tree d n0 with
           | Some s -> numbered (top_below d has_ns t s n0.npath)
           | None -> []))

(** val dedup_hash : tree -> n list -> node list -> node list * n list **)

let rec dedup_hash d seen = function
| [] -> ([], seen)
| n0 :: r ->
  let h = hash_code d n0 in
  if existsb (N.eqb h) seen
  then dedup_hash d seen r
  else let (r', s') = dedup_hash d (h :: seen) r in ((n0 :: r'), s')

(** val ancestors_all :
    tree -> bool -> bool -> ntest -> n list -> node list -> node list **)

let rec ancestors_all d has_ns self t seen = function
| [] -> []
| n0 :: r ->
  let (l, seen') = dedup_hash d seen (step_ancestor_raw d has_ns self t n0) in
  app l (ancestors_all d has_ns self t seen' r)

(** val xpath_number_string : f64 -> char list **)

let xpath_number_string f = match f with
| S754_zero _ -> '0'::[]
| S754_infinity s ->
  if s
  then '-'::('I'::('n'::('f'::('i'::('n'::('i'::('t'::('y'::[]))))))))
  else 'I'::('n'::('f'::('i'::('n'::('i'::('t'::('y'::[])))))))
| _ -> format_f f

(** val is_xml_space : char -> bool **)

let is_xml_space c =
  let n0 = byte_of c in
  (||)
    ((||)
      (Nat.eqb n0 (S (S (S (S (S (S (S (S (S (S (S (S (S (S (S (S (S (S (S (S
        (S (S (S (S (S (S (S (S (S (S (S (S O)))))))))))))))))))))))))))))))))
      (Nat.eqb n0 (S (S (S (S (S (S (S (S (S O)))))))))))
    ((||) (Nat.eqb n0 (S (S (S (S (S (S (S (S (S (S (S (S (S O))))))))))))))
      (Nat.eqb n0 (S (S (S (S (S (S (S (S (S (S O))))))))))))

(** val trim_left_xml : char list -> char list **)

let rec trim_left_xml l = match l with
| [] -> []
| c :: r -> if is_xml_space c then trim_left_xml r else l

(** val trim_xml : char list -> char list **)

let trim_xml l =
  rev (trim_left_xml (rev (trim_left_xml l)))

(** val split_number :
    char list -> bool -> char list -> char list -> (char list * char list)
    option **)

let rec split_number l seen_dot ip fp =
  match l with
  | [] -> Some (ip, fp)
  | c :: r ->
    if is_digit_ascii c
    then if seen_dot
         then split_number r seen_dot ip (app fp (c :: []))
         else split_number r seen_dot (app ip (c :: [])) fp
    else if (&&)
              (Nat.eqb (byte_of c) (S (S (S (S (S (S (S (S (S (S (S (S (S (S
                (S (S (S (S (S (S (S (S (S (S (S (S (S (S (S (S (S (S (S (S
                (S (S (S (S (S (S (S (S (S (S (S (S
                O)))))))))))))))))))))))))))))))))))))))))))))))
              (negb seen_dot)
         then split_number r true ip fp
         else None

(** val string_to_number : char list -> f64 **)

let string_to_number s =
  let l = trim_xml (list_of_string s) in
  (match l with
   | [] ->
     let neg = false in
     (match split_number l false [] [] with
      | Some p ->
        let (ip, fp) = p in
        (match ip with
         | [] -> (match fp with
                  | [] -> fnan
                  | _ :: _ -> of_decimal neg ip fp)
         | _ :: _ -> of_decimal neg ip fp)
      | None -> fnan)
   | c :: r ->
     if Nat.eqb (byte_of c) (S (S (S (S (S (S (S (S (S (S (S (S (S (S (S (S
          (S (S (S (S (S (S (S (S (S (S (S (S (S (S (S (S (S (S (S (S (S (S
          (S (S (S (S (S (S (S O)))))))))))))))))))))))))))))))))))))))))))))
     then let neg = true in
          (match split_number r false [] [] with
           | Some p ->
             let (ip, fp) = p in
             (match ip with
              | [] ->
                (match fp with
                 | [] -> fnan
                 | _ :: _ -> of_decimal neg ip fp)
              | _ :: _ -> of_decimal neg ip fp)
           | None -> fnan)
     else let neg = false in
          (match split_number l false [] [] with
           | Some p ->
             let (ip, fp) = p in
             (match ip with
              | [] ->
                (match fp with
                 | [] -> fnan
                 | _ :: _ -> of_decimal neg ip fp)
              | _ :: _ -> of_decimal neg ip fp)
           | None -> fnan))

(** val first_value : tree -> item list -> char list option **)

let first_value d = function
| [] -> None
| i :: _ -> Some (node_value d i.it_node)

(** val as_bool : value -> bool outcome **)

let as_bool = function
| VBool b -> Val b
| VNum f -> Val (negb ((||) (is_zero f) (is_nan f)))
| VStr s -> Val (negb (eqb0 s []))
| VNodes l -> Val (match l with
                   | [] -> false
                   | _ :: _ -> true)
| VInt _ ->
  Complaint
    ('u'::('n'::('e'::('x'::('p'::('e'::('c'::('t'::('e'::('d'::(' '::('t'::('y'::('p'::('e'::(':'::(' '::('i'::('n'::('t'::[]))))))))))))))))))))
| VNil -> Val false

(** val as_string : tree -> value -> char list outcome **)

let as_string d = function
| VBool b ->
  Val
    (if b
     then 't'::('r'::('u'::('e'::[])))
     else 'f'::('a'::('l'::('s'::('e'::[])))))
| VNum f -> Val (xpath_number_string f)
| VStr s -> Val s
| VNodes l -> Val (opt_default [] (first_value d l))
| VInt _ ->
  Complaint
    ('u'::('n'::('e'::('x'::('p'::('e'::('c'::('t'::('e'::('d'::(' '::('t'::('y'::('p'::('e'::(':'::(' '::('i'::('n'::('t'::[]))))))))))))))))))))
| VNil -> Val []

(** val as_number : tree -> value -> f64 **)

let as_number d = function
| VNum f -> f
| VStr s -> string_to_number s
| VNodes l ->
  (match first_value d l with
   | Some s -> string_to_number s
   | None -> fnan)
| _ -> fnan

(** val cmp_num : cmpop -> f64 -> f64 -> bool **)

let cmp_num op a b =
  match op with
  | CEq -> feq a b
  | CNe -> fne a b
  | CLt -> flt a b
  | CLe -> fle a b
  | CGt -> fgt a b
  | CGe -> fge a b

(** val cmp_str : cmpop -> char list -> char list -> bool **)

let cmp_str op a b =
  let c = str_compare a b in
  (match op with
   | CEq -> (match c with
             | Eq -> true
             | _ -> false)
   | CNe -> (match c with
             | Eq -> false
             | _ -> true)
   | CLt -> (match c with
             | Lt -> true
             | _ -> false)
   | CLe -> (match c with
             | Gt -> false
             | _ -> true)
   | CGt -> (match c with
             | Gt -> true
             | _ -> false)
   | CGe -> (match c with
             | Lt -> false
             | _ -> true))

(** val values_of : tree -> item list -> char list list **)

let values_of d l =
  map (fun i -> node_value d i.it_node) l

(** val bool_num : tree -> value -> f64 outcome **)

let bool_num d v = match v with
| VNum _ -> Val (as_number d v)
| VStr _ -> Val (as_number d v)
| _ -> obind (as_bool v) (fun b -> Val (if b then fone else fzero))

(** val cmp_boolean_any : tree -> cmpop -> value -> value -> bool outcome **)

let cmp_boolean_any d op m n0 =
  match op with
  | CEq ->
    obind (as_bool m) (fun a -> obind (as_bool n0) (fun b -> Val (eqb a b)))
  | CNe ->
    obind (as_bool m) (fun a ->
      obind (as_bool n0) (fun b -> Val (negb (eqb a b))))
  | _ ->
    obind (bool_num d m) (fun a ->
      obind (bool_num d n0) (fun b -> Val (cmp_num op a b)))

(** val compare_values : tree -> cmpop -> value -> value -> value outcome **)

let compare_values d op m n0 =
  match m with
  | VBool _ ->
    (match n0 with
     | VInt _ ->
       Complaint
         ('x'::('p'::('a'::('t'::('h'::(' '::('u'::('n'::('k'::('n'::('o'::('w'::('n'::(' '::('v'::('a'::('l'::('u'::('e'::(' '::('t'::('y'::('p'::('e'::[]))))))))))))))))))))))))
     | VNil ->
       Complaint
         ('x'::('p'::('a'::('t'::('h'::(' '::('u'::('n'::('k'::('n'::('o'::('w'::('n'::(' '::('v'::('a'::('l'::('u'::('e'::(' '::('t'::('y'::('p'::('e'::[]))))))))))))))))))))))))
     | _ -> obind (cmp_boolean_any d op m n0) (fun b -> Val (VBool b)))
  | VNum a ->
    (match n0 with
     | VBool _ -> obind (cmp_boolean_any d op m n0) (fun b -> Val (VBool b))
     | VNum b -> Val (VBool (cmp_num op a b))
     | VStr b -> Val (VBool (cmp_num op a (string_to_number b)))
     | VNodes l ->
       Val (VBool
         (existsb (fun s -> cmp_num op a (string_to_number s))
           (values_of d l)))
     | _ ->
       Complaint
         ('x'::('p'::('a'::('t'::('h'::(' '::('u'::('n'::('k'::('n'::('o'::('w'::('n'::(' '::('v'::('a'::('l'::('u'::('e'::(' '::('t'::('y'::('p'::('e'::[])))))))))))))))))))))))))
  | VStr a ->
    (match n0 with
     | VBool _ -> obind (cmp_boolean_any d op m n0) (fun b -> Val (VBool b))
     | VNum b -> Val (VBool (cmp_num op (string_to_number a) b))
     | VStr b -> Val (VBool (cmp_str op a b))
     | VNodes l ->
       Val (VBool (existsb (fun s -> cmp_str op a s) (values_of d l)))
     | _ ->
       Complaint
         ('x'::('p'::('a'::('t'::('h'::(' '::('u'::('n'::('k'::('n'::('o'::('w'::('n'::(' '::('v'::('a'::('l'::('u'::('e'::(' '::('t'::('y'::('p'::('e'::[])))))))))))))))))))))))))
  | VNodes l1 ->
    (match n0 with
     | VBool _ -> obind (cmp_boolean_any d op m n0) (fun b -> Val (VBool b))
     | VNum b ->
       Val (VBool
         (existsb (fun s -> cmp_num op (string_to_number s) b)
           (values_of d l1)))
     | VStr b ->
       Val (VBool (existsb (fun s -> cmp_str op b s) (values_of d l1)))
     | VNodes l2 ->
       Val (VBool
         (existsb (fun x ->
           existsb (fun y -> cmp_str op x y) (values_of d l2))
           (values_of d l1)))
     | _ ->
       Complaint
         ('x'::('p'::('a'::('t'::('h'::(' '::('u'::('n'::('k'::('n'::('o'::('w'::('n'::(' '::('v'::('a'::('l'::('u'::('e'::(' '::('t'::('y'::('p'::('e'::[])))))))))))))))))))))))))
  | _ ->
    Complaint
      ('x'::('p'::('a'::('t'::('h'::(' '::('u'::('n'::('k'::('n'::('o'::('w'::('n'::(' '::('v'::('a'::('l'::('u'::('e'::(' '::('t'::('y'::('p'::('e'::[]))))))))))))))))))))))))

(** val arith_op : arith -> f64 -> f64 -> f64 **)

let arith_op op a b =
  match op with
  | OAdd -> fadd a b
  | OSub -> fsub a b
  | OMul -> fmul a b
  | ODiv -> fdiv a b
  | OMod -> fmod a b

(** val str_or_first : tree -> value -> char list **)

let str_or_first d = function
| VStr s -> s
| VNodes l -> opt_default [] (first_value d l)
| _ -> []

(** val xround : f64 -> f64 **)

let xround f =
  ffloor (fadd f fhalf)

(** val substring_go : char list -> f64 -> f64 option -> char list **)

let substring_go m start len =
  let n0 = Z.of_nat (length0 m) in
  let start0 = xround start in
  (match len with
   | Some length1 ->
     let length2 = xround length1 in
     let e = fadd start0 length2 in
     let start1 = if fgt start0 fone then start0 else fone in
     let e0 =
       if fgt e (of_Z (Z.add n0 (Zpos XH)))
       then of_Z (Z.add n0 (Zpos XH))
       else e
     in
     if fgt e0 start1
     then let a = Z.to_nat (Z.sub (go_int start1) (Zpos XH)) in
          let b = Z.to_nat (Z.sub (go_int e0) (Zpos XH)) in
          firstn_s (sub b a) (skipn_s a m)
     else []
   | None ->
     if (||) (is_nan start0) (fgt start0 (of_Z n0))
     then []
     else if flt start0 fone
          then m
          else skipn_s (Z.to_nat (Z.sub (go_int start0) (Zpos XH))) m)

(** val replace_all_fuel :
    nat -> char list -> char list -> char list -> char list **)

let rec replace_all_fuel fuel s old new0 =
  match fuel with
  | O -> s
  | S f ->
    (match s with
     | [] -> []
     | c::r ->
       if prefix old s
       then append new0
              (replace_all_fuel f (skipn_s (length0 old) s) old new0)
       else c::(replace_all_fuel f r old new0))

(** val replace_all : char list -> char list -> char list -> char list **)

let replace_all s old new0 =
  replace_all_fuel (S (length0 s)) s old new0

(** val rewrite_refs : nat -> char list -> char list **)

let rec rewrite_refs idx dst =
  match idx with
  | O -> dst
  | S k ->
    rewrite_refs k
      (replace_all dst (append ('$'::[]) (itoa idx))
        (append ('$'::('{'::[])) (append (itoa idx) ('}'::[]))))

(** val query_test : tree -> bool -> query -> node -> bool **)

let query_test d has_ns = function
| QAncestor (_, t, _) -> match_test d has_ns t
| QAttribute (t, _) -> match_test d has_ns t
| QChild (t, _) -> match_test d has_ns t
| QCachedChild (t, _) -> match_test d has_ns t
| QDescendant (_, t, _) -> match_test d has_ns t
| QFollowing (_, t, _) -> match_test d has_ns t
| QPreceding (_, t, _) -> match_test d has_ns t
| QParent (t, _) -> match_test d has_ns t
| QSelf (t, _) -> match_test d has_ns t
| _ -> (fun _ -> true)

(** val position_of : (node -> bool) -> node -> f64 **)

let position_of test c =
  of_Z (Z.of_nat (S (length (filter test (preceding_siblings c)))))

(** val last_of : tree -> (node -> bool) -> node -> f64 **)

let last_of d test c =
  let first0 = match move_first c with
               | Some f -> f
               | None -> c in
  of_Z
    (Z.of_nat
      (length (filter test (first0 :: (following_siblings d first0)))))

(** val pm_get : (nat * nat) list -> nat -> nat **)

let rec pm_get m k =
  match m with
  | [] -> O
  | p :: r -> let (a, b) = p in if Nat.eqb a k then b else pm_get r k

(** val pm_set : (nat * nat) list -> nat -> nat -> (nat * nat) list **)

let rec pm_set m k v =
  match m with
  | [] -> (k, v) :: []
  | p :: r ->
    let (a, b) = p in
    if Nat.eqb a k then (a, v) :: r else (a, b) :: (pm_set r k v)

(** val oflat_map :
    ('a1 -> 'a2 list outcome) -> 'a1 list -> 'a2 list outcome **)

let rec oflat_map f = function
| [] -> Val []
| a :: r ->
  obind (f a) (fun x -> obind (oflat_map f r) (fun y -> Val (app x y)))

(** val nodes_of : item list -> node list **)

let nodes_of l =
  map (fun i -> i.it_node) l

(** val truth_of_filter : value -> nat -> bool **)

let truth_of_filter v pos =
  match v with
  | VBool b -> b
  | VNum f -> Z.eqb (go_int f) (Z.of_nat pos)
  | VStr s -> negb (eqb0 s [])
  | VNodes l -> (match l with
                 | [] -> false
                 | _ :: _ -> true)
  | _ -> false

(** val regroup : nat -> item list -> item list **)

let rec regroup k = function
| [] -> []
| i :: r ->
  { it_node = i.it_node; it_pos = k; it_lvl = O } :: (regroup (S k) r)

(** val sel_body :
    tree -> bool -> (query -> node -> item list outcome) -> (query -> node ->
    value outcome) -> query -> node -> item list outcome **)

let sel_body d has_ns sel0 eval0 q c =
  let step = fun i f ->
    obind (sel0 i c) (fun l -> Val (flat_map (fun it -> f it.it_node) l))
  in
  (match q with
   | QContext -> Val ({ it_node = c; it_pos = (S O); it_lvl = O } :: [])
   | QAbsolute ->
     Val ({ it_node = root_node; it_pos = (S O); it_lvl = O } :: [])
   | QAncestor (self, t, i) ->
     obind (sel0 i c) (fun l -> Val
       (unnumbered (ancestors_all d has_ns self t [] (nodes_of l))))
   | QAttribute (t, i) -> step i (step_attribute d has_ns t)
   | QChild (t, i) -> step i (step_child d has_ns t)
   | QCachedChild (t, i) -> step i (step_child d has_ns t)
   | QDescendant (self, t, i) -> step i (step_descendant d has_ns self t)
   | QFollowing (sibling, t, i) ->
     if sibling
     then step i (step_following_sibling d has_ns t)
     else step i (step_following d has_ns t)
   | QPreceding (sibling, t, i) ->
     if sibling
     then step i (step_preceding_sibling d has_ns t)
     else step i (step_preceding d has_ns t)
   | QParent (t, i) -> step i (step_parent d has_ns t)
   | QSelf (t, i) -> step i (step_self d has_ns t)
   | QFilter (_, i, p) ->
     obind (sel0 i c) (fun l ->
       let rec go l0 pm =
         match l0 with
         | [] -> Val []
         | it :: r ->
           obind (eval0 p it.it_node) (fun v ->
             if truth_of_filter v it.it_pos
             then let k = S (pm_get pm it.it_lvl) in
                  obind (go r (pm_set pm it.it_lvl k)) (fun rest -> Val
                    ({ it_node = it.it_node; it_pos = k; it_lvl =
                    O } :: rest))
             else go r pm)
       in go l [])
   | QReverse i ->
     obind (sel0 i c) (fun l -> Val (unnumbered (rev (nodes_of l))))
   | QGroup i -> obind (sel0 i c) (fun l -> Val (regroup (S O) l))
   | QLogical (op, l, r) ->
     obind (eval0 l c) (fun m ->
       obind (eval0 r c) (fun n0 ->
         obind (compare_values d op m n0) (fun v -> Val
           (match v with
            | VBool b ->
              if b
              then { it_node = c; it_pos = (S O); it_lvl = O } :: []
              else []
            | _ -> []))))
   | QBoolean (isor, l, r) ->
     obind (sel0 l c) (fun a ->
       obind (sel0 r c) (fun b ->
         if isor
         then Val (unnumbered (app (nodes_of a) (nodes_of b)))
         else Val
                (unnumbered
                  (match rev (nodes_of b) with
                   | [] ->
                     (match rev (nodes_of a) with
                      | [] -> []
                      | x :: _ -> x :: [])
                   | x :: _ -> x :: []))))
   | QUnion (l, r) ->
     obind (sel0 l c) (fun a ->
       obind (sel0 r c) (fun b -> Val
         (unnumbered (fst (dedup_hash d [] (app (nodes_of a) (nodes_of b)))))))
   | QDoD (m, t, i) -> step i (step_dod d has_ns m t)
   | QMerge (i, ch) ->
     obind (sel0 i c) (fun roots ->
       obind (oflat_map (fun it -> sel0 ch it.it_node) roots) (fun l -> Val
         (unnumbered (nodes_of l))))
   | _ -> Val [])

(** val sel :
    tree -> bool -> (char list -> char list -> bool option) -> (char list ->
    nat) -> (char list -> char list -> char list -> char list) -> query ->
    node -> item list outcome **)

let sel d has_ns re_match re_numsubexp re_replace_all =
  let rec sel0 q c =
    sel_body d has_ns sel0 eval0 q c
  and eval0 q c =
    match q with
    | QNil -> Val (VStr [])
    | QNop -> Val VNil
    | QFn0 f ->
      (match f with
       | FTrue -> Val (VBool true)
       | FFalse -> Val (VBool false))
    | QFn1 (f, a) ->
      (match f with
       | FName ->
         obind
           (match a with
            | QNil -> Val (Some c)
            | QNop ->
              obind (sel0 a c) (fun l -> Val
                (match l with
                 | [] -> None
                 | i :: _ -> Some i.it_node))
            | QContext ->
              obind (sel0 a c) (fun l -> Val
                (match l with
                 | [] -> None
                 | i :: _ -> Some i.it_node))
            | QAbsolute ->
              obind (sel0 a c) (fun l -> Val
                (match l with
                 | [] -> None
                 | i :: _ -> Some i.it_node))
            | QAncestor (_, _, _) ->
              obind (sel0 a c) (fun l -> Val
                (match l with
                 | [] -> None
                 | i :: _ -> Some i.it_node))
            | QAttribute (_, _) ->
              obind (sel0 a c) (fun l -> Val
                (match l with
                 | [] -> None
                 | i :: _ -> Some i.it_node))
            | QChild (_, _) ->
              obind (sel0 a c) (fun l -> Val
                (match l with
                 | [] -> None
                 | i :: _ -> Some i.it_node))
            | QCachedChild (_, _) ->
              obind (sel0 a c) (fun l -> Val
                (match l with
                 | [] -> None
                 | i :: _ -> Some i.it_node))
            | QDescendant (_, _, _) ->
              obind (sel0 a c) (fun l -> Val
                (match l with
                 | [] -> None
                 | i :: _ -> Some i.it_node))
            | QFollowing (_, _, _) ->
              obind (sel0 a c) (fun l -> Val
                (match l with
                 | [] -> None
                 | i :: _ -> Some i.it_node))
            | QPreceding (_, _, _) ->
              obind (sel0 a c) (fun l -> Val
                (match l with
                 | [] -> None
                 | i :: _ -> Some i.it_node))
            | QParent (_, _) ->
              obind (sel0 a c) (fun l -> Val
                (match l with
                 | [] -> None
                 | i :: _ -> Some i.it_node))
            | QSelf (_, _) ->
              obind (sel0 a c) (fun l -> Val
                (match l with
                 | [] -> None
                 | i :: _ -> Some i.it_node))
            | QFilter (_, _, _) ->
              obind (sel0 a c) (fun l -> Val
                (match l with
                 | [] -> None
                 | i :: _ -> Some i.it_node))
            | QFn0 _ ->
              obind (sel0 a c) (fun l -> Val
                (match l with
                 | [] -> None
                 | i :: _ -> Some i.it_node))
            | QFn1 (_, _) ->
              obind (sel0 a c) (fun l -> Val
                (match l with
                 | [] -> None
                 | i :: _ -> Some i.it_node))
            | QFn2 (_, _, _) ->
              obind (sel0 a c) (fun l -> Val
                (match l with
                 | [] -> None
                 | i :: _ -> Some i.it_node))
            | QFn3 (_, _, _, _) ->
              obind (sel0 a c) (fun l -> Val
                (match l with
                 | [] -> None
                 | i :: _ -> Some i.it_node))
            | QConcat _ ->
              obind (sel0 a c) (fun l -> Val
                (match l with
                 | [] -> None
                 | i :: _ -> Some i.it_node))
            | QArg (_, _) ->
              obind (sel0 a c) (fun l -> Val
                (match l with
                 | [] -> None
                 | i :: _ -> Some i.it_node))
            | QPosition _ ->
              obind (sel0 a c) (fun l -> Val
                (match l with
                 | [] -> None
                 | i :: _ -> Some i.it_node))
            | QLast _ ->
              obind (sel0 a c) (fun l -> Val
                (match l with
                 | [] -> None
                 | i :: _ -> Some i.it_node))
            | QReverse _ ->
              obind (sel0 a c) (fun l -> Val
                (match l with
                 | [] -> None
                 | i :: _ -> Some i.it_node))
            | QNum _ ->
              obind (sel0 a c) (fun l -> Val
                (match l with
                 | [] -> None
                 | i :: _ -> Some i.it_node))
            | QStr _ ->
              obind (sel0 a c) (fun l -> Val
                (match l with
                 | [] -> None
                 | i :: _ -> Some i.it_node))
            | QGroup _ ->
              obind (sel0 a c) (fun l -> Val
                (match l with
                 | [] -> None
                 | i :: _ -> Some i.it_node))
            | QLogical (_, _, _) ->
              obind (sel0 a c) (fun l -> Val
                (match l with
                 | [] -> None
                 | i :: _ -> Some i.it_node))
            | QNumeric (_, _, _) ->
              obind (sel0 a c) (fun l -> Val
                (match l with
                 | [] -> None
                 | i :: _ -> Some i.it_node))
            | QBoolean (_, _, _) ->
              obind (sel0 a c) (fun l -> Val
                (match l with
                 | [] -> None
                 | i :: _ -> Some i.it_node))
            | QUnion (_, _) ->
              obind (sel0 a c) (fun l -> Val
                (match l with
                 | [] -> None
                 | i :: _ -> Some i.it_node))
            | QLastFunc _ ->
              obind (sel0 a c) (fun l -> Val
                (match l with
                 | [] -> None
                 | i :: _ -> Some i.it_node))
            | QDoD (_, _, _) ->
              obind (sel0 a c) (fun l -> Val
                (match l with
                 | [] -> None
                 | i :: _ -> Some i.it_node))
            | QMerge (_, _) ->
              obind (sel0 a c) (fun l -> Val
                (match l with
                 | [] -> None
                 | i :: _ -> Some i.it_node))) (fun target ->
           match target with
           | Some n0 ->
             (match f with
              | FName ->
                let p = node_prefix d n0 in
                Val (VStr
                (if eqb0 p []
                 then local_name d n0
                 else append p (append (':'::[]) (local_name d n0))))
              | FLocalName -> Val (VStr (local_name d n0))
              | _ ->
                Val (VStr (if has_ns then node_ns d n0 else node_prefix d n0)))
           | None -> Val (VStr []))
       | FLocalName ->
         obind
           (match a with
            | QNil -> Val (Some c)
            | QNop ->
              obind (sel0 a c) (fun l -> Val
                (match l with
                 | [] -> None
                 | i :: _ -> Some i.it_node))
            | QContext ->
              obind (sel0 a c) (fun l -> Val
                (match l with
                 | [] -> None
                 | i :: _ -> Some i.it_node))
            | QAbsolute ->
              obind (sel0 a c) (fun l -> Val
                (match l with
                 | [] -> None
                 | i :: _ -> Some i.it_node))
            | QAncestor (_, _, _) ->
              obind (sel0 a c) (fun l -> Val
                (match l with
                 | [] -> None
                 | i :: _ -> Some i.it_node))
            | QAttribute (_, _) ->
              obind (sel0 a c) (fun l -> Val
                (match l with
                 | [] -> None
                 | i :: _ -> Some i.it_node))
            | QChild (_, _) ->
              obind (sel0 a c) (fun l -> Val
                (match l with
                 | [] -> None
                 | i :: _ -> Some i.it_node))
            | QCachedChild (_, _) ->
              obind (sel0 a c) (fun l -> Val
                (match l with
                 | [] -> None
                 | i :: _ -> Some i.it_node))
            | QDescendant (_, _, _) ->
              obind (sel0 a c) (fun l -> Val
                (match l with
                 | [] -> None
                 | i :: _ -> Some i.it_node))
            | QFollowing (_, _, _) ->
              obind (sel0 a c) (fun l -> Val
                (match l with
                 | [] -> None
                 | i :: _ -> Some i.it_node))
            | QPreceding (_, _, _) ->
              obind (sel0 a c) (fun l -> Val
                (match l with
                 | [] -> None
                 | i :: _ -> Some i.it_node))
            | QParent (_, _) ->
              obind (sel0 a c) (fun l -> Val
                (match l with
                 | [] -> None
                 | i :: _ -> Some i.it_node))
            | QSelf (_, _) ->
              obind (sel0 a c) (fun l -> Val
                (match l with
                 | [] -> None
                 | i :: _ -> Some i.it_node))
            | QFilter (_, _, _) ->
              obind (sel0 a c) (fun l -> Val
                (match l with
                 | [] -> None
                 | i :: _ -> Some i.it_node))
            | QFn0 _ ->
              obind (sel0 a c) (fun l -> Val
                (match l with
                 | [] -> None
                 | i :: _ -> Some i.it_node))
            | QFn1 (_, _) ->
              obind (sel0 a c) (fun l -> Val
                (match l with
                 | [] -> None
                 | i :: _ -> Some i.it_node))
            | QFn2 (_, _, _) ->
              obind (sel0 a c) (fun l -> Val
                (match l with
                 | [] -> None
                 | i :: _ -> Some i.it_node))
            | QFn3 (_, _, _, _) ->
              obind (sel0 a c) (fun l -> Val
                (match l with
                 | [] -> None
                 | i :: _ -> Some i.it_node))
            | QConcat _ ->
              obind (sel0 a c) (fun l -> Val
                (match l with
                 | [] -> None
                 | i :: _ -> Some i.it_node))
            | QArg (_, _) ->
              obind (sel0 a c) (fun l -> Val
                (match l with
                 | [] -> None
                 | i :: _ -> Some i.it_node))
            | QPosition _ ->
              obind (sel0 a c) (fun l -> Val
                (match l with
                 | [] -> None
                 | i :: _ -> Some i.it_node))
            | QLast _ ->
              obind (sel0 a c) (fun l -> Val
                (match l with
                 | [] -> None
                 | i :: _ -> Some i.it_node))
            | QReverse _ ->
              obind (sel0 a c) (fun l -> Val
                (match l with
                 | [] -> None
                 | i :: _ -> Some i.it_node))
            | QNum _ ->
              obind (sel0 a c) (fun l -> Val
                (match l with
                 | [] -> None
                 | i :: _ -> Some i.it_node))
            | QStr _ ->
              obind (sel0 a c) (fun l -> Val
                (match l with
                 | [] -> None
                 | i :: _ -> Some i.it_node))
            | QGroup _ ->
              obind (sel0 a c) (fun l -> Val
                (match l with
                 | [] -> None
                 | i :: _ -> Some i.it_node))
            | QLogical (_, _, _) ->
              obind (sel0 a c) (fun l -> Val
                (match l with
                 | [] -> None
                 | i :: _ -> Some i.it_node))
            | QNumeric (_, _, _) ->
              obind (sel0 a c) (fun l -> Val
                (match l with
                 | [] -> None
                 | i :: _ -> Some i.it_node))
            | QBoolean (_, _, _) ->
              obind (sel0 a c) (fun l -> Val
                (match l with
                 | [] -> None
                 | i :: _ -> Some i.it_node))
            | QUnion (_, _) ->
              obind (sel0 a c) (fun l -> Val
                (match l with
                 | [] -> None
                 | i :: _ -> Some i.it_node))
            | QLastFunc _ ->
              obind (sel0 a c) (fun l -> Val
                (match l with
                 | [] -> None
                 | i :: _ -> Some i.it_node))
            | QDoD (_, _, _) ->
              obind (sel0 a c) (fun l -> Val
                (match l with
                 | [] -> None
                 | i :: _ -> Some i.it_node))
            | QMerge (_, _) ->
              obind (sel0 a c) (fun l -> Val
                (match l with
                 | [] -> None
                 | i :: _ -> Some i.it_node))) (fun target ->
           match target with
           | Some n0 ->
             (match f with
              | FName ->
                let p = node_prefix d n0 in
                Val (VStr
                (if eqb0 p []
                 then local_name d n0
                 else append p (append (':'::[]) (local_name d n0))))
              | FLocalName -> Val (VStr (local_name d n0))
              | _ ->
                Val (VStr (if has_ns then node_ns d n0 else node_prefix d n0)))
           | None -> Val (VStr []))
       | FNamespaceURI ->
         obind
           (match a with
            | QNil -> Val (Some c)
            | QNop ->
              obind (sel0 a c) (fun l -> Val
                (match l with
                 | [] -> None
                 | i :: _ -> Some i.it_node))
            | QContext ->
              obind (sel0 a c) (fun l -> Val
                (match l with
                 | [] -> None
                 | i :: _ -> Some i.it_node))
            | QAbsolute ->
              obind (sel0 a c) (fun l -> Val
                (match l with
                 | [] -> None
                 | i :: _ -> Some i.it_node))
            | QAncestor (_, _, _) ->
              obind (sel0 a c) (fun l -> Val
                (match l with
                 | [] -> None
                 | i :: _ -> Some i.it_node))
            | QAttribute (_, _) ->
              obind (sel0 a c) (fun l -> Val
                (match l with
                 | [] -> None
                 | i :: _ -> Some i.it_node))
            | QChild (_, _) ->
              obind (sel0 a c) (fun l -> Val
                (match l with
                 | [] -> None
                 | i :: _ -> Some i.it_node))
            | QCachedChild (_, _) ->
              obind (sel0 a c) (fun l -> Val
                (match l with
                 | [] -> None
                 | i :: _ -> Some i.it_node))
            | QDescendant (_, _, _) ->
              obind (sel0 a c) (fun l -> Val
                (match l with
                 | [] -> None
                 | i :: _ -> Some i.it_node))
            | QFollowing (_, _, _) ->
              obind (sel0 a c) (fun l -> Val
                (match l with
                 | [] -> None
                 | i :: _ -> Some i.it_node))
            | QPreceding (_, _, _) ->
              obind (sel0 a c) (fun l -> Val
                (match l with
                 | [] -> None
                 | i :: _ -> Some i.it_node))
            | QParent (_, _) ->
              obind (sel0 a c) (fun l -> Val
                (match l with
                 | [] -> None
                 | i :: _ -> Some i.it_node))
            | QSelf (_, _) ->
              obind (sel0 a c) (fun l -> Val
                (match l with
                 | [] -> None
                 | i :: _ -> Some i.it_node))
            | QFilter (_, _, _) ->
              obind (sel0 a c) (fun l -> Val
                (match l with
                 | [] -> None
                 | i :: _ -> Some i.it_node))
            | QFn0 _ ->
              obind (sel0 a c) (fun l -> Val
                (match l with
                 | [] -> None
                 | i :: _ -> Some i.it_node))
            | QFn1 (_, _) ->
              obind (sel0 a c) (fun l -> Val
                (match l with
                 | [] -> None
                 | i :: _ -> Some i.it_node))
            | QFn2 (_, _, _) ->
              obind (sel0 a c) (fun l -> Val
                (match l with
                 | [] -> None
                 | i :: _ -> Some i.it_node))
            | QFn3 (_, _, _, _) ->
              obind (sel0 a c) (fun l -> Val
                (match l with
                 | [] -> None
                 | i :: _ -> Some i.it_node))
            | QConcat _ ->
              obind (sel0 a c) (fun l -> Val
                (match l with
                 | [] -> None
                 | i :: _ -> Some i.it_node))
            | QArg (_, _) ->
              obind (sel0 a c) (fun l -> Val
                (match l with
                 | [] -> None
                 | i :: _ -> Some i.it_node))
            | QPosition _ ->
              obind (sel0 a c) (fun l -> Val
                (match l with
                 | [] -> None
                 | i :: _ -> Some i.it_node))
            | QLast _ ->
              obind (sel0 a c) (fun l -> Val
                (match l with
                 | [] -> None
                 | i :: _ -> Some i.it_node))
            | QReverse _ ->
              obind (sel0 a c) (fun l -> Val
                (match l with
                 | [] -> None
                 | i :: _ -> Some i.it_node))
            | QNum _ ->
              obind (sel0 a c) (fun l -> Val
                (match l with
                 | [] -> None
                 | i :: _ -> Some i.it_node))
            | QStr _ ->
              obind (sel0 a c) (fun l -> Val
                (match l with
                 | [] -> None
                 | i :: _ -> Some i.it_node))
            | QGroup _ ->
              obind (sel0 a c) (fun l -> Val
                (match l with
                 | [] -> None
                 | i :: _ -> Some i.it_node))
            | QLogical (_, _, _) ->
              obind (sel0 a c) (fun l -> Val
                (match l with
                 | [] -> None
                 | i :: _ -> Some i.it_node))
            | QNumeric (_, _, _) ->
              obind (sel0 a c) (fun l -> Val
                (match l with
                 | [] -> None
                 | i :: _ -> Some i.it_node))
            | QBoolean (_, _, _) ->
              obind (sel0 a c) (fun l -> Val
                (match l with
                 | [] -> None
                 | i :: _ -> Some i.it_node))
            | QUnion (_, _) ->
              obind (sel0 a c) (fun l -> Val
                (match l with
                 | [] -> None
                 | i :: _ -> Some i.it_node))
            | QLastFunc _ ->
              obind (sel0 a c) (fun l -> Val
                (match l with
                 | [] -> None
                 | i :: _ -> Some i.it_node))
            | QDoD (_, _, _) ->
              obind (sel0 a c) (fun l -> Val
                (match l with
                 | [] -> None
                 | i :: _ -> Some i.it_node))
            | QMerge (_, _) ->
              obind (sel0 a c) (fun l -> Val
                (match l with
                 | [] -> None
                 | i :: _ -> Some i.it_node))) (fun target ->
           match target with
           | Some n0 ->
             (match f with
              | FName ->
                let p = node_prefix d n0 in
                Val (VStr
                (if eqb0 p []
                 then local_name d n0
                 else append p (append (':'::[]) (local_name d n0))))
              | FLocalName -> Val (VStr (local_name d n0))
              | _ ->
                Val (VStr (if has_ns then node_ns d n0 else node_prefix d n0)))
           | None -> Val (VStr []))
       | _ ->
         obind (eval0 a c) (fun v ->
           match f with
           | FCount ->
             Val (VNum
               (match v with
                | VNodes l ->
                  of_Z
                    (Z.of_nat
                      (length (filter (query_test d has_ns a) (nodes_of l))))
                | _ -> fzero))
           | FSum ->
             (match v with
              | VNum f0 -> Val (VNum f0)
              | VStr s ->
                let x = string_to_number s in
                if is_nan x
                then Complaint
                       ('s'::('u'::('m'::('('::(')'::(' '::('f'::('u'::('n'::('c'::('t'::('i'::('o'::('n'::(' '::('a'::('r'::('g'::('u'::('m'::('e'::('n'::('t'::(' '::('t'::('y'::('p'::('e'::(' '::('m'::('u'::('s'::('t'::(' '::('b'::('e'::(' '::('a'::(' '::('n'::('o'::('d'::('e'::('-'::('s'::('e'::('t'::(' '::('o'::('r'::(' '::('n'::('u'::('m'::('b'::('e'::('r'::[])))))))))))))))))))))))))))))))))))))))))))))))))))))))))
                else Val (VNum x)
              | VNodes l ->
                Val (VNum
                  (fold_left (fun acc s ->
                    let x = string_to_number s in
                    if is_nan x then acc else fadd acc x) (values_of d l)
                    fzero))
              | _ -> Val (VNum fzero))
           | FCeiling -> Val (VNum (fceil (as_number d v)))
           | FFloor -> Val (VNum (ffloor (as_number d v)))
           | FRound -> Val (VInt (go_int (fround_away (as_number d v))))
           | FBoolean -> obind (as_bool v) (fun b -> Val (VBool b))
           | FNumber -> Val (VNum (as_number d v))
           | FString -> obind (as_string d v) (fun s -> Val (VStr s))
           | FNot ->
             Val (VBool
               (match v with
                | VBool b -> negb b
                | VNodes l -> (match l with
                               | [] -> true
                               | _ :: _ -> false)
                | _ -> false))
           | FNormalizeSpace ->
             Val (VStr (normalize_space (str_or_first d v)))
           | FStringLength ->
             Val (VNum (of_Z (Z.of_nat (length0 (str_or_first d v)))))
           | FLowerCase ->
             obind (as_string d v) (fun s -> Val (VStr (to_lower s)))
           | _ -> Val VNil))
    | QFn2 (f, a, b) ->
      obind (eval0 a c) (fun va ->
        match f with
        | FMatches ->
          let s = str_or_first d va in
          obind (eval0 b c) (fun vb ->
            match vb with
            | VStr p ->
              (match re_match p s with
               | Some r -> Val (VBool r)
               | None ->
                 Complaint
                   ('m'::('a'::('t'::('c'::('h'::('e'::('s'::('('::(')'::(' '::('f'::('u'::('n'::('c'::('t'::('i'::('o'::('n'::(' '::('s'::('e'::('c'::('o'::('n'::('d'::(' '::('a'::('r'::('g'::('u'::('m'::('e'::('n'::('t'::(' '::('i'::('s'::(' '::('n'::('o'::('t'::(' '::('a'::(' '::('v'::('a'::('l'::('i'::('d'::(' '::('r'::('e'::('g'::('e'::('x'::('p'::(' '::('p'::('a'::('t'::('t'::('e'::('r'::('n'::[])))))))))))))))))))))))))))))))))))))))))))))))))))))))))))))))))
            | _ ->
              Complaint
                ('m'::('a'::('t'::('c'::('h'::('e'::('s'::('('::(')'::(' '::('f'::('u'::('n'::('c'::('t'::('i'::('o'::('n'::(' '::('s'::('e'::('c'::('o'::('n'::('d'::(' '::('a'::('r'::('g'::('u'::('m'::('e'::('n'::('t'::(' '::('t'::('y'::('p'::('e'::(' '::('m'::('u'::('s'::('t'::(' '::('b'::('e'::(' '::('s'::('t'::('r'::('i'::('n'::('g'::[])))))))))))))))))))))))))))))))))))))))))))))))))))))))
        | FSubstringBefore ->
          let s = str_or_first d va in
          obind (eval0 b c) (fun vb ->
            let w = str_or_first d vb in
            (match index_of w s with
             | Some i ->
               Val (VStr
                 (match f with
                  | FSubstringAfter -> skipn_s (add i (length0 w)) s
                  | _ -> firstn_s i s))
             | None -> Val (VStr [])))
        | FSubstringAfter ->
          let s = str_or_first d va in
          obind (eval0 b c) (fun vb ->
            let w = str_or_first d vb in
            (match index_of w s with
             | Some i ->
               Val (VStr
                 (match f with
                  | FSubstringAfter -> skipn_s (add i (length0 w)) s
                  | _ -> firstn_s i s))
             | None -> Val (VStr [])))
        | FStringJoin ->
          obind (eval0 b c) (fun vb ->
            let sep = str_or_first d vb in
            (match va with
             | VStr s -> Val (VStr s)
             | VNodes l ->
               Val (VStr
                 (join sep
                   (map (node_value d)
                     (filter (query_test d has_ns a) (nodes_of l)))))
             | _ -> Val (VStr [])))
        | _ ->
          let nm =
            match f with
            | FStartsWith ->
              's'::('t'::('a'::('r'::('t'::('s'::('-'::('w'::('i'::('t'::('h'::[]))))))))))
            | FEndsWith ->
              'e'::('n'::('d'::('s'::('-'::('w'::('i'::('t'::('h'::[]))))))))
            | _ -> 'c'::('o'::('n'::('t'::('a'::('i'::('n'::('s'::[])))))))
          in
          (match va with
           | VStr _ ->
             let m = str_or_first d va in
             obind (eval0 b c) (fun vb ->
               match vb with
               | VStr n0 ->
                 Val (VBool
                   (match f with
                    | FStartsWith -> prefix n0 m
                    | FEndsWith -> has_suffix m n0
                    | _ -> contains m n0))
               | _ ->
                 Complaint
                   (append nm
                     ('('::(')'::(' '::('f'::('u'::('n'::('c'::('t'::('i'::('o'::('n'::(' '::('a'::('r'::('g'::('u'::('m'::('e'::('n'::('t'::(' '::('t'::('y'::('p'::('e'::(' '::('m'::('u'::('s'::('t'::(' '::('b'::('e'::(' '::('s'::('t'::('r'::('i'::('n'::('g'::[]))))))))))))))))))))))))))))))))))))))))))
           | VNodes _ ->
             let m = str_or_first d va in
             obind (eval0 b c) (fun vb ->
               match vb with
               | VStr n0 ->
                 Val (VBool
                   (match f with
                    | FStartsWith -> prefix n0 m
                    | FEndsWith -> has_suffix m n0
                    | _ -> contains m n0))
               | _ ->
                 Complaint
                   (append nm
                     ('('::(')'::(' '::('f'::('u'::('n'::('c'::('t'::('i'::('o'::('n'::(' '::('a'::('r'::('g'::('u'::('m'::('e'::('n'::('t'::(' '::('t'::('y'::('p'::('e'::(' '::('m'::('u'::('s'::('t'::(' '::('b'::('e'::(' '::('s'::('t'::('r'::('i'::('n'::('g'::[]))))))))))))))))))))))))))))))))))))))))))
           | _ ->
             Complaint
               (append nm
                 ('('::(')'::(' '::('f'::('u'::('n'::('c'::('t'::('i'::('o'::('n'::(' '::('a'::('r'::('g'::('u'::('m'::('e'::('n'::('t'::(' '::('t'::('y'::('p'::('e'::(' '::('m'::('u'::('s'::('t'::(' '::('b'::('e'::(' '::('s'::('t'::('r'::('i'::('n'::('g'::[])))))))))))))))))))))))))))))))))))))))))))
    | QFn3 (f, a, b, x) ->
      (match f with
       | FSubstring ->
         obind (eval0 a c) (fun va ->
           let m = str_or_first d va in
           obind (eval0 b c) (fun vb ->
             match vb with
             | VNum start ->
               (match x with
                | QNil -> Val (VStr (substring_go m start None))
                | _ ->
                  obind (eval0 x c) (fun vx ->
                    match vx with
                    | VNum len -> Val (VStr (substring_go m start (Some len)))
                    | _ ->
                      Complaint
                        ('s'::('u'::('b'::('s'::('t'::('r'::('i'::('n'::('g'::('('::(')'::(' '::('f'::('u'::('n'::('c'::('t'::('i'::('o'::('n'::(' '::('s'::('e'::('c'::('o'::('n'::('d'::(' '::('a'::('r'::('g'::('u'::('m'::('e'::('n'::('t'::(' '::('t'::('y'::('p'::('e'::(' '::('m'::('u'::('s'::('t'::(' '::('b'::('e'::(' '::('n'::('u'::('m'::('b'::('e'::('r'::[]))))))))))))))))))))))))))))))))))))))))))))))))))))))))))
             | _ ->
               Complaint
                 ('s'::('u'::('b'::('s'::('t'::('r'::('i'::('n'::('g'::('('::(')'::(' '::('f'::('u'::('n'::('c'::('t'::('i'::('o'::('n'::(' '::('f'::('i'::('r'::('s'::('t'::(' '::('a'::('r'::('g'::('u'::('m'::('e'::('n'::('t'::(' '::('t'::('y'::('p'::('e'::(' '::('m'::('u'::('s'::('t'::(' '::('b'::('e'::(' '::('n'::('u'::('m'::('b'::('e'::('r'::[])))))))))))))))))))))))))))))))))))))))))))))))))))))))))
       | FTranslate ->
         obind (eval0 a c) (fun va ->
           obind (as_string d va) (fun s ->
             obind (eval0 b c) (fun vb ->
               obind (as_string d vb) (fun src ->
                 obind (eval0 x c) (fun vx ->
                   obind (as_string d vx) (fun dst -> Val (VStr
                     (translate s src dst))))))))
       | FReplace ->
         obind (eval0 a c) (fun va ->
           obind (as_string d va) (fun s ->
             obind (eval0 b c) (fun vb ->
               obind (as_string d vb) (fun src ->
                 obind (eval0 x c) (fun vx ->
                   obind (as_string d vx) (fun dst ->
                     match re_match src [] with
                     | Some _ ->
                       Val (VStr
                         (re_replace_all src s
                           (rewrite_refs (re_numsubexp src) dst)))
                     | None ->
                       Complaint
                         ('r'::('e'::('p'::('l'::('a'::('c'::('e'::('('::(')'::(' '::('f'::('u'::('n'::('c'::('t'::('i'::('o'::('n'::(' '::('s'::('e'::('c'::('o'::('n'::('d'::(' '::('a'::('r'::('g'::('u'::('m'::('e'::('n'::('t'::(' '::('i'::('s'::(' '::('n'::('o'::('t'::(' '::('a'::(' '::('v'::('a'::('l'::('i'::('d'::(' '::('r'::('e'::('g'::('e'::('x'::('p'::(' '::('p'::('a'::('t'::('t'::('e'::('r'::('n'::[])))))))))))))))))))))))))))))))))))))))))))))))))))))))))))))))))))))))
    | QConcat args -> eval0 args c
    | QArg (a, rest) ->
      obind (eval0 a c) (fun v ->
        obind (eval0 rest c) (fun r -> Val (VStr
          (append
            (match v with
             | VStr s -> s
             | VNodes l -> opt_default [] (first_value d l)
             | _ -> []) (match r with
                         | VStr s -> s
                         | _ -> [])))))
    | QPosition i -> Val (VNum (position_of (query_test d has_ns i) c))
    | QLast i -> Val (VNum (last_of d (query_test d has_ns i) c))
    | QNum v -> Val (VNum v)
    | QStr s -> Val (VStr s)
    | QGroup i -> eval0 i c
    | QLogical (op, l, r) ->
      obind (eval0 l c) (fun m ->
        obind (eval0 r c) (fun n0 -> compare_values d op m n0))
    | QNumeric (op, l, r) ->
      obind (eval0 l c) (fun m ->
        obind (eval0 r c) (fun n0 -> Val (VNum
          (arith_op op (as_number d m) (as_number d n0)))))
    | QBoolean (isor, l, r) ->
      obind (eval0 l c) (fun m ->
        obind (as_bool m) (fun a ->
          if isor
          then if a
               then Val (VBool true)
               else obind (eval0 r c) (fun n0 ->
                      obind (as_bool n0) (fun b -> Val (VBool b)))
          else if a
               then obind (eval0 r c) (fun n0 ->
                      obind (as_bool n0) (fun b -> Val (VBool b)))
               else Val (VBool false)))
    | QLastFunc i ->
      obind (sel0 i c) (fun l -> Val (VNum (of_Z (Z.of_nat (length l)))))
    | _ -> obind (sel_body d has_ns sel0 eval0 q c) (fun l -> Val (VNodes l))
  in sel0

(** val eval :
    tree -> bool -> (char list -> char list -> bool option) -> (char list ->
    nat) -> (char list -> char list -> char list -> char list) -> query ->
    node -> value outcome **)

let eval d has_ns re_match re_numsubexp re_replace_all =
  let rec sel0 q c =
    sel_body d has_ns sel0 eval0 q c
  and eval0 q c =
    match q with
    | QNil -> Val (VStr [])
    | QNop -> Val VNil
    | QFn0 f ->
      (match f with
       | FTrue -> Val (VBool true)
       | FFalse -> Val (VBool false))
    | QFn1 (f, a) ->
      (match f with
       | FName ->
         obind
           (match a with
            | QNil -> Val (Some c)
            | QNop ->
              obind (sel0 a c) (fun l -> Val
                (match l with
                 | [] -> None
                 | i :: _ -> Some i.it_node))
            | QContext ->
              obind (sel0 a c) (fun l -> Val
                (match l with
                 | [] -> None
                 | i :: _ -> Some i.it_node))
            | QAbsolute ->
              obind (sel0 a c) (fun l -> Val
                (match l with
                 | [] -> None
                 | i :: _ -> Some i.it_node))
            | QAncestor (_, _, _) ->
              obind (sel0 a c) (fun l -> Val
                (match l with
                 | [] -> None
                 | i :: _ -> Some i.it_node))
            | QAttribute (_, _) ->
              obind (sel0 a c) (fun l -> Val
                (match l with
                 | [] -> None
                 | i :: _ -> Some i.it_node))
            | QChild (_, _) ->
              obind (sel0 a c) (fun l -> Val
                (match l with
                 | [] -> None
                 | i :: _ -> Some i.it_node))
            | QCachedChild (_, _) ->
              obind (sel0 a c) (fun l -> Val
                (match l with
                 | [] -> None
                 | i :: _ -> Some i.it_node))
            | QDescendant (_, _, _) ->
              obind (sel0 a c) (fun l -> Val
                (match l with
                 | [] -> None
                 | i :: _ -> Some i.it_node))
            | QFollowing (_, _, _) ->
              obind (sel0 a c) (fun l -> Val
                (match l with
                 | [] -> None
                 | i :: _ -> Some i.it_node))
            | QPreceding (_, _, _) ->
              obind (sel0 a c) (fun l -> Val
                (match l with
                 | [] -> None
                 | i :: _ -> Some i.it_node))
            | QParent (_, _) ->
              obind (sel0 a c) (fun l -> Val
                (match l with
                 | [] -> None
                 | i :: _ -> Some i.it_node))
            | QSelf (_, _) ->
              obind (sel0 a c) (fun l -> Val
                (match l with
                 | [] -> None
                 | i :: _ -> Some i.it_node))
            | QFilter (_, _, _) ->
              obind (sel0 a c) (fun l -> Val
                (match l with
                 | [] -> None
                 | i :: _ -> Some i.it_node))
            | QFn0 _ ->
              obind (sel0 a c) (fun l -> Val
                (match l with
                 | [] -> None
                 | i :: _ -> Some i.it_node))
            | QFn1 (_, _) ->
              obind (sel0 a c) (fun l -> Val
                (match l with
                 | [] -> None
                 | i :: _ -> Some i.it_node))
            | QFn2 (_, _, _) ->
              obind (sel0 a c) (fun l -> Val
                (match l with
                 | [] -> None
                 | i :: _ -> Some i.it_node))
            | QFn3 (_, _, _, _) ->
              obind (sel0 a c) (fun l -> Val
                (match l with
                 | [] -> None
                 | i :: _ -> Some i.it_node))
            | QConcat _ ->
              obind (sel0 a c) (fun l -> Val
                (match l with
                 | [] -> None
                 | i :: _ -> Some i.it_node))
            | QArg (_, _) ->
              obind (sel0 a c) (fun l -> Val
                (match l with
                 | [] -> None
                 | i :: _ -> Some i.it_node))
            | QPosition _ ->
              obind (sel0 a c) (fun l -> Val
                (match l with
                 | [] -> None
                 | i :: _ -> Some i.it_node))
            | QLast _ ->
              obind (sel0 a c) (fun l -> Val
                (match l with
                 | [] -> None
                 | i :: _ -> Some i.it_node))
            | QReverse _ ->
              obind (sel0 a c) (fun l -> Val
                (match l with
                 | [] -> None
                 | i :: _ -> Some i.it_node))
            | QNum _ ->
              obind (sel0 a c) (fun l -> Val
                (match l with
                 | [] -> None
                 | i :: _ -> Some i.it_node))
            | QStr _ ->
              obind (sel0 a c) (fun l -> Val
                (match l with
                 | [] -> None
                 | i :: _ -> Some i.it_node))
            | QGroup _ ->
              obind (sel0 a c) (fun l -> Val
                (match l with
                 | [] -> None
                 | i :: _ -> Some i.it_node))
            | QLogical (_, _, _) ->
              obind (sel0 a c) (fun l -> Val
                (match l with
                 | [] -> None
                 | i :: _ -> Some i.it_node))
            | QNumeric (_, _, _) ->
              obind (sel0 a c) (fun l -> Val
                (match l with
                 | [] -> None
                 | i :: _ -> Some i.it_node))
            | QBoolean (_, _, _) ->
              obind (sel0 a c) (fun l -> Val
                (match l with
                 | [] -> None
                 | i :: _ -> Some i.it_node))
            | QUnion (_, _) ->
              obind (sel0 a c) (fun l -> Val
                (match l with
                 | [] -> None
                 | i :: _ -> Some i.it_node))
            | QLastFunc _ ->
              obind (sel0 a c) (fun l -> Val
                (match l with
                 | [] -> None
                 | i :: _ -> Some i.it_node))
            | QDoD (_, _, _) ->
              obind (sel0 a c) (fun l -> Val
                (match l with
                 | [] -> None
                 | i :: _ -> Some i.it_node))
            | QMerge (_, _) ->
              obind (sel0 a c) (fun l -> Val
                (match l with
                 | [] -> None
                 | i :: _ -> Some i.it_node))) (fun target ->
           match target with
           | Some n0 ->
             (match f with
              | FName ->
                let p = node_prefix d n0 in
                Val (VStr
                (if eqb0 p []
                 then local_name d n0
                 else append p (append (':'::[]) (local_name d n0))))
              | FLocalName -> Val (VStr (local_name d n0))
              | _ ->
                Val (VStr (if has_ns then node_ns d n0 else node_prefix d n0)))
           | None -> Val (VStr []))
       | FLocalName ->
         obind
           (match a with
            | QNil -> Val (Some c)
            | QNop ->
              obind (sel0 a c) (fun l -> Val
                (match l with
                 | [] -> None
                 | i :: _ -> Some i.it_node))
            | QContext ->
              obind (sel0 a c) (fun l -> Val
                (match l with
                 | [] -> None
                 | i :: _ -> Some i.it_node))
            | QAbsolute ->
              obind (sel0 a c) (fun l -> Val
                (match l with
                 | [] -> None
                 | i :: _ -> Some i.it_node))
            | QAncestor (_, _, _) ->
              obind (sel0 a c) (fun l -> Val
                (match l with
                 | [] -> None
                 | i :: _ -> Some i.it_node))
            | QAttribute (_, _) ->
              obind (sel0 a c) (fun l -> Val
                (match l with
                 | [] -> None
                 | i :: _ -> Some i.it_node))
            | QChild (_, _) ->
              obind (sel0 a c) (fun l -> Val
                (match l with
                 | [] -> None
                 | i :: _ -> Some i.it_node))
            | QCachedChild (_, _) ->
              obind (sel0 a c) (fun l -> Val
                (match l with
                 | [] -> None
                 | i :: _ -> Some i.it_node))
            | QDescendant (_, _, _) ->
              obind (sel0 a c) (fun l -> Val
                (match l with
                 | [] -> None
                 | i :: _ -> Some i.it_node))
            | QFollowing (_, _, _) ->
              obind (sel0 a c) (fun l -> Val
                (match l with
                 | [] -> None
                 | i :: _ -> Some i.it_node))
            | QPreceding (_, _, _) ->
              obind (sel0 a c) (fun l -> Val
                (match l with
                 | [] -> None
                 | i :: _ -> Some i.it_node))
            | QParent (_, _) ->
              obind (sel0 a c) (fun l -> Val
                (match l with
                 | [] -> None
                 | i :: _ -> Some i.it_node))
            | QSelf (_, _) ->
              obind (sel0 a c) (fun l -> Val
                (match l with
                 | [] -> None
                 | i :: _ -> Some i.it_node))
            | QFilter (_, _, _) ->
              obind (sel0 a c) (fun l -> Val
                (match l with
                 | [] -> None
                 | i :: _ -> Some i.it_node))
            | QFn0 _ ->
              obind (sel0 a c) (fun l -> Val
                (match l with
                 | [] -> None
                 | i :: _ -> Some i.it_node))
            | QFn1 (_, _) ->
              obind (sel0 a c) (fun l -> Val
                (match l with
                 | [] -> None
                 | i :: _ -> Some i.it_node))
            | QFn2 (_, _, _) ->
              obind (sel0 a c) (fun l -> Val
                (match l with
                 | [] -> None
                 | i :: _ -> Some i.it_node))
            | QFn3 (_, _, _, _) ->
              obind (sel0 a c) (fun l -> Val
                (match l with
                 | [] -> None
                 | i :: _ -> Some i.it_node))
            | QConcat _ ->
              obind (sel0 a c) (fun l -> Val
                (match l with
                 | [] -> None
                 | i :: _ -> Some i.it_node))
            | QArg (_, _) ->
              obind (sel0 a c) (fun l -> Val
                (match l with
                 | [] -> None
                 | i :: _ -> Some i.it_node))
            | QPosition _ ->
              obind (sel0 a c) (fun l -> Val
                (match l with
                 | [] -> None
                 | i :: _ -> Some i.it_node))
            | QLast _ ->
              obind (sel0 a c) (fun l -> Val
                (match l with
                 | [] -> None
                 | i :: _ -> Some i.it_node))
            | QReverse _ ->
              obind (sel0 a c) (fun l -> Val
                (match l with
                 | [] -> None
                 | i :: _ -> Some i.it_node))
            | QNum _ ->
              obind (sel0 a c) (fun l -> Val
                (match l with
                 | [] -> None
                 | i :: _ -> Some i.it_node))
            | QStr _ ->
              obind (sel0 a c) (fun l -> Val
                (match l with
                 | [] -> None
                 | i :: _ -> Some i.it_node))
            | QGroup _ ->
              obind (sel0 a c) (fun l -> Val
                (match l with
                 | [] -> None
                 | i :: _ -> Some i.it_node))
            | QLogical (_, _, _) ->
              obind (sel0 a c) (fun l -> Val
                (match l with
                 | [] -> None
                 | i :: _ -> Some i.it_node))
            | QNumeric (_, _, _) ->
              obind (sel0 a c) (fun l -> Val
                (match l with
                 | [] -> None
                 | i :: _ -> Some i.it_node))
            | QBoolean (_, _, _) ->
              obind (sel0 a c) (fun l -> Val
                (match l with
                 | [] -> None
                 | i :: _ -> Some i.it_node))
            | QUnion (_, _) ->
              obind (sel0 a c) (fun l -> Val
                (match l with
                 | [] -> None
                 | i :: _ -> Some i.it_node))
            | QLastFunc _ ->
              obind (sel0 a c) (fun l -> Val
                (match l with
                 | [] -> None
                 | i :: _ -> Some i.it_node))
            | QDoD (_, _, _) ->
              obind (sel0 a c) (fun l -> Val
                (match l with
                 | [] -> None
                 | i :: _ -> Some i.it_node))
            | QMerge (_, _) ->
              obind (sel0 a c) (fun l -> Val
                (match l with
                 | [] -> None
                 | i :: _ -> Some i.it_node))) (fun target ->
           match target with
           | Some n0 ->
             (match f with
              | FName ->
                let p = node_prefix d n0 in
                Val (VStr
                (if eqb0 p []
                 then local_name d n0
                 else append p (append (':'::[]) (local_name d n0))))
              | FLocalName -> Val (VStr (local_name d n0))
              | _ ->
                Val (VStr (if has_ns then node_ns d n0 else node_prefix d n0)))
           | None -> Val (VStr []))
       | FNamespaceURI ->
         obind
           (match a with
            | QNil -> Val (Some c)
            | QNop ->
              obind (sel0 a c) (fun l -> Val
                (match l with
                 | [] -> None
                 | i :: _ -> Some i.it_node))
            | QContext ->
              obind (sel0 a c) (fun l -> Val
                (match l with
                 | [] -> None
                 | i :: _ -> Some i.it_node))
            | QAbsolute ->
              obind (sel0 a c) (fun l -> Val
                (match l with
                 | [] -> None
                 | i :: _ -> Some i.it_node))
            | QAncestor (_, _, _) ->
              obind (sel0 a c) (fun l -> Val
                (match l with
                 | [] -> None
                 | i :: _ -> Some i.it_node))
            | QAttribute (_, _) ->
              obind (sel0 a c) (fun l -> Val
                (match l with
                 | [] -> None
                 | i :: _ -> Some i.it_node))
            | QChild (_, _) ->
              obind (sel0 a c) (fun l -> Val
                (match l with
                 | [] -> None
                 | i :: _ -> Some i.it_node))
            | QCachedChild (_, _) ->
              obind (sel0 a c) (fun l -> Val
                (match l with
                 | [] -> None
                 | i :: _ -> Some i.it_node))
            | QDescendant (_, _, _) ->
              obind (sel0 a c) (fun l -> Val
                (match l with
                 | [] -> None
                 | i :: _ -> Some i.it_node))
            | QFollowing (_, _, _) ->
              obind (sel0 a c) (fun l -> Val
                (match l with
                 | [] -> None
                 | i :: _ -> Some i.it_node))
            | QPreceding (_, _, _) ->
              obind (sel0 a c) (fun l -> Val
                (match l with
                 | [] -> None
                 | i :: _ -> Some i.it_node))
            | QParent (_, _) ->
              obind (sel0 a c) (fun l -> Val
                (match l with
                 | [] -> None
                 | i :: _ -> Some i.it_node))
            | QSelf (_, _) ->
              obind (sel0 a c) (fun l -> Val
                (match l with
                 | [] -> None
                 | i :: _ -> Some i.it_node))
            | QFilter (_, _, _) ->
              obind (sel0 a c) (fun l -> Val
                (match l with
                 | [] -> None
                 | i :: _ -> Some i.it_node))
            | QFn0 _ ->
              obind (sel0 a c) (fun l -> Val
                (match l with
                 | [] -> None
                 | i :: _ -> Some i.it_node))
            | QFn1 (_, _) ->
              obind (sel0 a c) (fun l -> Val
                (match l with
                 | [] -> None
                 | i :: _ -> Some i.it_node))
            | QFn2 (_, _, _) ->
              obind (sel0 a c) (fun l -> Val
                (match l with
                 | [] -> None
                 | i :: _ -> Some i.it_node))
            | QFn3 (_, _, _, _) ->
              obind (sel0 a c) (fun l -> Val
                (match l with
                 | [] -> None
                 | i :: _ -> Some i.it_node))
            | QConcat _ ->
              obind (sel0 a c) (fun l -> Val
                (match l with
                 | [] -> None
                 | i :: _ -> Some i.it_node))
            | QArg (_, _) ->
              obind (sel0 a c) (fun l -> Val
                (match l with
                 | [] -> None
                 | i :: _ -> Some i.it_node))
            | QPosition _ ->
              obind (sel0 a c) (fun l -> Val
                (match l with
                 | [] -> None
                 | i :: _ -> Some i.it_node))
            | QLast _ ->
              obind (sel0 a c) (fun l -> Val
                (match l with
                 | [] -> None
                 | i :: _ -> Some i.it_node))
            | QReverse _ ->
              obind (sel0 a c) (fun l -> Val
                (match l with
                 | [] -> None
                 | i :: _ -> Some i.it_node))
            | QNum _ ->
              obind (sel0 a c) (fun l -> Val
                (match l with
                 | [] -> None
                 | i :: _ -> Some i.it_node))
            | QStr _ ->
              obind (sel0 a c) (fun l -> Val
                (match l with
                 | [] -> None
                 | i :: _ -> Some i.it_node))
            | QGroup _ ->
              obind (sel0 a c) (fun l -> Val
                (match l with
                 | [] -> None
                 | i :: _ -> Some i.it_node))
            | QLogical (_, _, _) ->
              obind (sel0 a c) (fun l -> Val
                (match l with
                 | [] -> None
                 | i :: _ -> Some i.it_node))
            | QNumeric (_, _, _) ->
              obind (sel0 a c) (fun l -> Val
                (match l with
                 | [] -> None
                 | i :: _ -> Some i.it_node))
            | QBoolean (_, _, _) ->
              obind (sel0 a c) (fun l -> Val
                (match l with
                 | [] -> None
                 | i :: _ -> Some i.it_node))
            | QUnion (_, _) ->
              obind (sel0 a c) (fun l -> Val
                (match l with
                 | [] -> None
                 | i :: _ -> Some i.it_node))
            | QLastFunc _ ->
              obind (sel0 a c) (fun l -> Val
                (match l with
                 | [] -> None
                 | i :: _ -> Some i.it_node))
            | QDoD (_, _, _) ->
              obind (sel0 a c) (fun l -> Val
                (match l with
                 | [] -> None
                 | i :: _ -> Some i.it_node))
            | QMerge (_, _) ->
              obind (sel0 a c) (fun l -> Val
                (match l with
                 | [] -> None
                 | i :: _ -> Some i.it_node))) (fun target ->
           match target with
           | Some n0 ->
             (match f with
              | FName ->
                let p = node_prefix d n0 in
                Val (VStr
                (if eqb0 p []
                 then local_name d n0
                 else append p (append (':'::[]) (local_name d n0))))
              | FLocalName -> Val (VStr (local_name d n0))
              | _ ->
                Val (VStr (if has_ns then node_ns d n0 else node_prefix d n0)))
           | None -> Val (VStr []))
       | _ ->
         obind (eval0 a c) (fun v ->
           match f with
           | FCount ->
             Val (VNum
               (match v with
                | VNodes l ->
                  of_Z
                    (Z.of_nat
                      (length (filter (query_test d has_ns a) (nodes_of l))))
                | _ -> fzero))
           | FSum ->
             (match v with
              | VNum f0 -> Val (VNum f0)
              | VStr s ->
                let x = string_to_number s in
                if is_nan x
                then Complaint
                       ('s'::('u'::('m'::('('::(')'::(' '::('f'::('u'::('n'::('c'::('t'::('i'::('o'::('n'::(' '::('a'::('r'::('g'::('u'::('m'::('e'::('n'::('t'::(' '::('t'::('y'::('p'::('e'::(' '::('m'::('u'::('s'::('t'::(' '::('b'::('e'::(' '::('a'::(' '::('n'::('o'::('d'::('e'::('-'::('s'::('e'::('t'::(' '::('o'::('r'::(' '::('n'::('u'::('m'::('b'::('e'::('r'::[])))))))))))))))))))))))))))))))))))))))))))))))))))))))))
                else Val (VNum x)
              | VNodes l ->
                Val (VNum
                  (fold_left (fun acc s ->
                    let x = string_to_number s in
                    if is_nan x then acc else fadd acc x) (values_of d l)
                    fzero))
              | _ -> Val (VNum fzero))
           | FCeiling -> Val (VNum (fceil (as_number d v)))
           | FFloor -> Val (VNum (ffloor (as_number d v)))
           | FRound -> Val (VInt (go_int (fround_away (as_number d v))))
           | FBoolean -> obind (as_bool v) (fun b -> Val (VBool b))
           | FNumber -> Val (VNum (as_number d v))
           | FString -> obind (as_string d v) (fun s -> Val (VStr s))
           | FNot ->
             Val (VBool
               (match v with
                | VBool b -> negb b
                | VNodes l -> (match l with
                               | [] -> true
                               | _ :: _ -> false)
                | _ -> false))
           | FNormalizeSpace ->
             Val (VStr (normalize_space (str_or_first d v)))
           | FStringLength ->
             Val (VNum (of_Z (Z.of_nat (length0 (str_or_first d v)))))
           | FLowerCase ->
             obind (as_string d v) (fun s -> Val (VStr (to_lower s)))
           | _ -> Val VNil))
    | QFn2 (f, a, b) ->
      obind (eval0 a c) (fun va ->
        match f with
        | FMatches ->
          let s = str_or_first d va in
          obind (eval0 b c) (fun vb ->
            match vb with
            | VStr p ->
              (match re_match p s with
               | Some r -> Val (VBool r)
               | None ->
                 Complaint
                   ('m'::('a'::('t'::('c'::('h'::('e'::('s'::('('::(')'::(' '::('f'::('u'::('n'::('c'::('t'::('i'::('o'::('n'::(' '::('s'::('e'::('c'::('o'::('n'::('d'::(' '::('a'::('r'::('g'::('u'::('m'::('e'::('n'::('t'::(' '::('i'::('s'::(' '::('n'::('o'::('t'::(' '::('a'::(' '::('v'::('a'::('l'::('i'::('d'::(' '::('r'::('e'::('g'::('e'::('x'::('p'::(' '::('p'::('a'::('t'::('t'::('e'::('r'::('n'::[])))))))))))))))))))))))))))))))))))))))))))))))))))))))))))))))))
            | _ ->
              Complaint
                ('m'::('a'::('t'::('c'::('h'::('e'::('s'::('('::(')'::(' '::('f'::('u'::('n'::('c'::('t'::('i'::('o'::('n'::(' '::('s'::('e'::('c'::('o'::('n'::('d'::(' '::('a'::('r'::('g'::('u'::('m'::('e'::('n'::('t'::(' '::('t'::('y'::('p'::('e'::(' '::('m'::('u'::('s'::('t'::(' '::('b'::('e'::(' '::('s'::('t'::('r'::('i'::('n'::('g'::[])))))))))))))))))))))))))))))))))))))))))))))))))))))))
        | FSubstringBefore ->
          let s = str_or_first d va in
          obind (eval0 b c) (fun vb ->
            let w = str_or_first d vb in
            (match index_of w s with
             | Some i ->
               Val (VStr
                 (match f with
                  | FSubstringAfter -> skipn_s (add i (length0 w)) s
                  | _ -> firstn_s i s))
             | None -> Val (VStr [])))
        | FSubstringAfter ->
          let s = str_or_first d va in
          obind (eval0 b c) (fun vb ->
            let w = str_or_first d vb in
            (match index_of w s with
             | Some i ->
               Val (VStr
                 (match f with
                  | FSubstringAfter -> skipn_s (add i (length0 w)) s
                  | _ -> firstn_s i s))
             | None -> Val (VStr [])))
        | FStringJoin ->
          obind (eval0 b c) (fun vb ->
            let sep = str_or_first d vb in
            (match va with
             | VStr s -> Val (VStr s)
             | VNodes l ->
               Val (VStr
                 (join sep
                   (map (node_value d)
                     (filter (query_test d has_ns a) (nodes_of l)))))
             | _ -> Val (VStr [])))
        | _ ->
          let nm =
            match f with
            | FStartsWith ->
              's'::('t'::('a'::('r'::('t'::('s'::('-'::('w'::('i'::('t'::('h'::[]))))))))))
            | FEndsWith ->
              'e'::('n'::('d'::('s'::('-'::('w'::('i'::('t'::('h'::[]))))))))
            | _ -> 'c'::('o'::('n'::('t'::('a'::('i'::('n'::('s'::[])))))))
          in
          (match va with
           | VStr _ ->
             let m = str_or_first d va in
             obind (eval0 b c) (fun vb ->
               match vb with
               | VStr n0 ->
                 Val (VBool
                   (match f with
                    | FStartsWith -> prefix n0 m
                    | FEndsWith -> has_suffix m n0
                    | _ -> contains m n0))
               | _ ->
                 Complaint
                   (append nm
                     ('('::(')'::(' '::('f'::('u'::('n'::('c'::('t'::('i'::('o'::('n'::(' '::('a'::('r'::('g'::('u'::('m'::('e'::('n'::('t'::(' '::('t'::('y'::('p'::('e'::(' '::('m'::('u'::('s'::('t'::(' '::('b'::('e'::(' '::('s'::('t'::('r'::('i'::('n'::('g'::[]))))))))))))))))))))))))))))))))))))))))))
           | VNodes _ ->
             let m = str_or_first d va in
             obind (eval0 b c) (fun vb ->
               match vb with
               | VStr n0 ->
                 Val (VBool
                   (match f with
                    | FStartsWith -> prefix n0 m
                    | FEndsWith -> has_suffix m n0
                    | _ -> contains m n0))
               | _ ->
                 Complaint
                   (append nm
                     ('('::(')'::(' '::('f'::('u'::('n'::('c'::('t'::('i'::('o'::('n'::(' '::('a'::('r'::('g'::('u'::('m'::('e'::('n'::('t'::(' '::('t'::('y'::('p'::('e'::(' '::('m'::('u'::('s'::('t'::(' '::('b'::('e'::(' '::('s'::('t'::('r'::('i'::('n'::('g'::[]))))))))))))))))))))))))))))))))))))))))))
           | _ ->
             Complaint
               (append nm
                 ('('::(')'::(' '::('f'::('u'::('n'::('c'::('t'::('i'::('o'::('n'::(' '::('a'::('r'::('g'::('u'::('m'::('e'::('n'::('t'::(' '::('t'::('y'::('p'::('e'::(' '::('m'::('u'::('s'::('t'::(' '::('b'::('e'::(' '::('s'::('t'::('r'::('i'::('n'::('g'::[])))))))))))))))))))))))))))))))))))))))))))
    | QFn3 (f, a, b, x) ->
      (match f with
       | FSubstring ->
         obind (eval0 a c) (fun va ->
           let m = str_or_first d va in
           obind (eval0 b c) (fun vb ->
             match vb with
             | VNum start ->
               (match x with
                | QNil -> Val (VStr (substring_go m start None))
                | _ ->
                  obind (eval0 x c) (fun vx ->
                    match vx with
                    | VNum len -> Val (VStr (substring_go m start (Some len)))
                    | _ ->
                      Complaint
                        ('s'::('u'::('b'::('s'::('t'::('r'::('i'::('n'::('g'::('('::(')'::(' '::('f'::('u'::('n'::('c'::('t'::('i'::('o'::('n'::(' '::('s'::('e'::('c'::('o'::('n'::('d'::(' '::('a'::('r'::('g'::('u'::('m'::('e'::('n'::('t'::(' '::('t'::('y'::('p'::('e'::(' '::('m'::('u'::('s'::('t'::(' '::('b'::('e'::(' '::('n'::('u'::('m'::('b'::('e'::('r'::[]))))))))))))))))))))))))))))))))))))))))))))))))))))))))))
             | _ ->
               Complaint
                 ('s'::('u'::('b'::('s'::('t'::('r'::('i'::('n'::('g'::('('::(')'::(' '::('f'::('u'::('n'::('c'::('t'::('i'::('o'::('n'::(' '::('f'::('i'::('r'::('s'::('t'::(' '::('a'::('r'::('g'::('u'::('m'::('e'::('n'::('t'::(' '::('t'::('y'::('p'::('e'::(' '::('m'::('u'::('s'::('t'::(' '::('b'::('e'::(' '::('n'::('u'::('m'::('b'::('e'::('r'::[])))))))))))))))))))))))))))))))))))))))))))))))))))))))))
       | FTranslate ->
         obind (eval0 a c) (fun va ->
           obind (as_string d va) (fun s ->
             obind (eval0 b c) (fun vb ->
               obind (as_string d vb) (fun src ->
                 obind (eval0 x c) (fun vx ->
                   obind (as_string d vx) (fun dst -> Val (VStr
                     (translate s src dst))))))))
       | FReplace ->
         obind (eval0 a c) (fun va ->
           obind (as_string d va) (fun s ->
             obind (eval0 b c) (fun vb ->
               obind (as_string d vb) (fun src ->
                 obind (eval0 x c) (fun vx ->
                   obind (as_string d vx) (fun dst ->
                     match re_match src [] with
                     | Some _ ->
                       Val (VStr
                         (re_replace_all src s
                           (rewrite_refs (re_numsubexp src) dst)))
                     | None ->
                       Complaint
                         ('r'::('e'::('p'::('l'::('a'::('c'::('e'::('('::(')'::(' '::('f'::('u'::('n'::('c'::('t'::('i'::('o'::('n'::(' '::('s'::('e'::('c'::('o'::('n'::('d'::(' '::('a'::('r'::('g'::('u'::('m'::('e'::('n'::('t'::(' '::('i'::('s'::(' '::('n'::('o'::('t'::(' '::('a'::(' '::('v'::('a'::('l'::('i'::('d'::(' '::('r'::('e'::('g'::('e'::('x'::('p'::(' '::('p'::('a'::('t'::('t'::('e'::('r'::('n'::[])))))))))))))))))))))))))))))))))))))))))))))))))))))))))))))))))))))))
    | QConcat args -> eval0 args c
    | QArg (a, rest) ->
      obind (eval0 a c) (fun v ->
        obind (eval0 rest c) (fun r -> Val (VStr
          (append
            (match v with
             | VStr s -> s
             | VNodes l -> opt_default [] (first_value d l)
             | _ -> []) (match r with
                         | VStr s -> s
                         | _ -> [])))))
    | QPosition i -> Val (VNum (position_of (query_test d has_ns i) c))
    | QLast i -> Val (VNum (last_of d (query_test d has_ns i) c))
    | QNum v -> Val (VNum v)
    | QStr s -> Val (VStr s)
    | QGroup i -> eval0 i c
    | QLogical (op, l, r) ->
      obind (eval0 l c) (fun m ->
        obind (eval0 r c) (fun n0 -> compare_values d op m n0))
    | QNumeric (op, l, r) ->
      obind (eval0 l c) (fun m ->
        obind (eval0 r c) (fun n0 -> Val (VNum
          (arith_op op (as_number d m) (as_number d n0)))))
    | QBoolean (isor, l, r) ->
      obind (eval0 l c) (fun m ->
        obind (as_bool m) (fun a ->
          if isor
          then if a
               then Val (VBool true)
               else obind (eval0 r c) (fun n0 ->
                      obind (as_bool n0) (fun b -> Val (VBool b)))
          else if a
               then obind (eval0 r c) (fun n0 ->
                      obind (as_bool n0) (fun b -> Val (VBool b)))
               else Val (VBool false)))
    | QLastFunc i ->
      obind (sel0 i c) (fun l -> Val (VNum (of_Z (Z.of_nat (length l)))))
    | _ -> obind (sel_body d has_ns sel0 eval0 q c) (fun l -> Val (VNodes l))
  in eval0

(** val compile_fuel :
    (char list -> bool) -> nat -> char list -> nsmap -> query cres **)

let compile_fuel re_ok fuel text ns =
  if eqb0 text []
  then Err
         ('e'::('x'::('p'::('r'::(' '::('e'::('x'::('p'::('r'::('e'::('s'::('s'::('i'::('o'::('n'::(' '::('i'::('s'::(' '::('n'::('i'::('l'::[]))))))))))))))))))))))
  else cbind (build_fuel re_ok fuel text ns) (fun q ->
         match q with
         | QNil ->
           Err
             ('u'::('n'::('d'::('e'::('c'::('l'::('a'::('r'::('e'::('d'::(' '::('v'::('a'::('r'::('i'::('a'::('b'::('l'::('e'::(' '::('i'::('n'::(' '::('X'::('P'::('a'::('t'::('h'::(' '::('e'::('x'::('p'::('r'::('e'::('s'::('s'::('i'::('o'::('n'::[])))))))))))))))))))))))))))))))))))))))
         | _ -> Ok q)

(** val compile : (char list -> bool) -> char list -> nsmap -> query cres **)

let compile re_ok text ns =
  compile_fuel re_ok (default_fuel text) text ns

(** val select :
    (char list -> char list -> bool option) -> (char list -> nat) ->
    (char list -> char list -> char list -> char list) -> tree -> bool ->
    query -> node -> node list outcome **)

let select re_match re_numsubexp re_replace_all d has_ns q c =
  obind (sel d has_ns re_match re_numsubexp re_replace_all q c) (fun l -> Val
    (nodes_of l))

(** val evaluate :
    (char list -> char list -> bool option) -> (char list -> nat) ->
    (char list -> char list -> char list -> char list) -> tree -> bool ->
    query -> node -> value outcome **)

let evaluate re_match re_numsubexp re_replace_all d has_ns q c =
  match eval d has_ns re_match re_numsubexp re_replace_all q c with
  | Val a ->
    (match a with
     | VNodes _ ->
       obind (select re_match re_numsubexp re_replace_all d has_ns q c)
         (fun l -> Val (VNodes (unnumbered l)))
     | x -> Val x)
  | x -> x

(** val lit_char : char -> bool **)

let lit_char c =
  let n0 = byte_of c in
  (||)
    ((||)
      ((&&)
        (Nat.leb (S (S (S (S (S (S (S (S (S (S (S (S (S (S (S (S (S (S (S (S
          (S (S (S (S (S (S (S (S (S (S (S (S (S (S (S (S (S (S (S (S (S (S
          (S (S (S (S (S (S O))))))))))))))))))))))))))))))))))))))))))))))))
          n0)
        (Nat.leb n0 (S (S (S (S (S (S (S (S (S (S (S (S (S (S (S (S (S (S (S
          (S (S (S (S (S (S (S (S (S (S (S (S (S (S (S (S (S (S (S (S (S (S
          (S (S (S (S (S (S (S (S (S (S (S (S (S (S (S (S
          O)))))))))))))))))))))))))))))))))))))))))))))))))))))))))))
      ((&&)
        (Nat.leb (S (S (S (S (S (S (S (S (S (S (S (S (S (S (S (S (S (S (S (S
          (S (S (S (S (S (S (S (S (S (S (S (S (S (S (S (S (S (S (S (S (S (S
          (S (S (S (S (S (S (S (S (S (S (S (S (S (S (S (S (S (S (S (S (S (S
          (S
          O)))))))))))))))))))))))))))))))))))))))))))))))))))))))))))))))))
          n0)
        (Nat.leb n0 (S (S (S (S (S (S (S (S (S (S (S (S (S (S (S (S (S (S (S
          (S (S (S (S (S (S (S (S (S (S (S (S (S (S (S (S (S (S (S (S (S (S
          (S (S (S (S (S (S (S (S (S (S (S (S (S (S (S (S (S (S (S (S (S (S
          (S (S (S (S (S (S (S (S (S (S (S (S (S (S (S (S (S (S (S (S (S (S
          (S (S (S (S (S
          O)))))))))))))))))))))))))))))))))))))))))))))))))))))))))))))))))))))))))))))))))))))))))))))
    ((||)
      ((&&)
        (Nat.leb (S (S (S (S (S (S (S (S (S (S (S (S (S (S (S (S (S (S (S (S
          (S (S (S (S (S (S (S (S (S (S (S (S (S (S (S (S (S (S (S (S (S (S
          (S (S (S (S (S (S (S (S (S (S (S (S (S (S (S (S (S (S (S (S (S (S
          (S (S (S (S (S (S (S (S (S (S (S (S (S (S (S (S (S (S (S (S (S (S
          (S (S (S (S (S (S (S (S (S (S (S
          O)))))))))))))))))))))))))))))))))))))))))))))))))))))))))))))))))))))))))))))))))))))))))))))))))
          n0)
        (Nat.leb n0 (S (S (S (S (S (S (S (S (S (S (S (S (S (S (S (S (S (S (S
          (S (S (S (S (S (S (S (S (S (S (S (S (S (S (S (S (S (S (S (S (S (S
          (S (S (S (S (S (S (S (S (S (S (S (S (S (S (S (S (S (S (S (S (S (S
          (S (S (S (S (S (S (S (S (S (S (S (S (S (S (S (S (S (S (S (S (S (S
          (S (S (S (S (S (S (S (S (S (S (S (S (S (S (S (S (S (S (S (S (S (S
          (S (S (S (S (S (S (S (S (S (S (S (S (S (S (S
          O))))))))))))))))))))))))))))))))))))))))))))))))))))))))))))))))))))))))))))))))))))))))))))))))))))))))))))))))))))))))))))
      (Nat.eqb n0 (S (S (S (S (S (S (S (S (S (S (S (S (S (S (S (S (S (S (S (S
        (S (S (S (S (S (S (S (S (S (S (S (S O))))))))))))))))))))))))))))))))))

(** val all_lit : char list -> bool **)

let rec all_lit = function
| [] -> true
| c::r -> (&&) (lit_char c) (all_lit r)

(** val lit_ok : char list -> bool **)

let lit_ok p =
  (&&) (negb (eqb0 p [])) (all_lit p)

(** val lit_match : char list -> char list -> bool option **)

let lit_match p s =
  if lit_ok p then Some (contains s p) else None

(** val lit_numsubexp : char list -> nat **)

let lit_numsubexp _ =
  O

(** val lit_replace_all : char list -> char list -> char list -> char list **)

let lit_replace_all p s t =
  replace_all s p t

(** val hex_digit : n -> char **)

let hex_digit n0 =
  ascii_of_N
    (if N.ltb n0 (Npos (XO (XI (XO XH))))
     then N.add (Npos (XO (XO (XO (XO (XI XH)))))) n0
     else N.add (Npos (XI (XI (XI (XO (XI (XO XH))))))) n0)

(** val hex_digit_up : n -> char **)

let hex_digit_up n0 =
  ascii_of_N
    (if N.ltb n0 (Npos (XO (XI (XO XH))))
     then N.add (Npos (XO (XO (XO (XO (XI XH)))))) n0
     else N.add (Npos (XI (XI (XI (XO (XI XH)))))) n0)

(** val hex_fixed : nat -> n -> char list -> char list **)

let rec hex_fixed digits n0 acc =
  match digits with
  | O -> acc
  | S d ->
    hex_fixed d (N.div n0 (Npos (XO (XO (XO (XO XH))))))
      ((hex_digit (N.modulo n0 (Npos (XO (XO (XO (XO XH)))))))::acc)

(** val is_plain : char -> bool **)

let is_plain c =
  let n0 = byte_of c in
  (||)
    ((||)
      ((&&)
        (Nat.leb (S (S (S (S (S (S (S (S (S (S (S (S (S (S (S (S (S (S (S (S
          (S (S (S (S (S (S (S (S (S (S (S (S (S (S (S (S (S (S (S (S (S (S
          (S (S (S (S (S (S (S (S (S (S (S (S (S (S (S (S (S (S (S (S (S (S
          (S (S (S (S (S (S (S (S (S (S (S (S (S (S (S (S (S (S (S (S (S (S
          (S (S (S (S (S (S (S (S (S (S (S
          O)))))))))))))))))))))))))))))))))))))))))))))))))))))))))))))))))))))))))))))))))))))))))))))))))
          n0)
        (Nat.leb n0 (S (S (S (S (S (S (S (S (S (S (S (S (S (S (S (S (S (S (S
          (S (S (S (S (S (S (S (S (S (S (S (S (S (S (S (S (S (S (S (S (S (S
          (S (S (S (S (S (S (S (S (S (S (S (S (S (S (S (S (S (S (S (S (S (S
          (S (S (S (S (S (S (S (S (S (S (S (S (S (S (S (S (S (S (S (S (S (S
          (S (S (S (S (S (S (S (S (S (S (S (S (S (S (S (S (S (S (S (S (S (S
          (S (S (S (S (S (S (S (S (S (S (S (S (S (S (S
          O))))))))))))))))))))))))))))))))))))))))))))))))))))))))))))))))))))))))))))))))))))))))))))))))))))))))))))))))))))))))))))
      ((&&)
        (Nat.leb (S (S (S (S (S (S (S (S (S (S (S (S (S (S (S (S (S (S (S (S
          (S (S (S (S (S (S (S (S (S (S (S (S (S (S (S (S (S (S (S (S (S (S
          (S (S (S (S (S (S (S (S (S (S (S (S (S (S (S (S (S (S (S (S (S (S
          (S
          O)))))))))))))))))))))))))))))))))))))))))))))))))))))))))))))))))
          n0)
        (Nat.leb n0 (S (S (S (S (S (S (S (S (S (S (S (S (S (S (S (S (S (S (S
          (S (S (S (S (S (S (S (S (S (S (S (S (S (S (S (S (S (S (S (S (S (S
          (S (S (S (S (S (S (S (S (S (S (S (S (S (S (S (S (S (S (S (S (S (S
          (S (S (S (S (S (S (S (S (S (S (S (S (S (S (S (S (S (S (S (S (S (S
          (S (S (S (S (S
          O)))))))))))))))))))))))))))))))))))))))))))))))))))))))))))))))))))))))))))))))))))))))))))))
    ((||)
      ((&&)
        (Nat.leb (S (S (S (S (S (S (S (S (S (S (S (S (S (S (S (S (S (S (S (S
          (S (S (S (S (S (S (S (S (S (S (S (S (S (S (S (S (S (S (S (S (S (S
          (S (S (S (S (S (S O))))))))))))))))))))))))))))))))))))))))))))))))
          n0)
        (Nat.leb n0 (S (S (S (S (S (S (S (S (S (S (S (S (S (S (S (S (S (S (S
          (S (S (S (S (S (S (S (S (S (S (S (S (S (S (S (S (S (S (S (S (S (S
          (S (S (S (S (S (S (S (S (S (S (S (S (S (S (S (S
          O)))))))))))))))))))))))))))))))))))))))))))))))))))))))))))
      ((||)
        (Nat.eqb n0 (S (S (S (S (S (S (S (S (S (S (S (S (S (S (S (S (S (S (S
          (S (S (S (S (S (S (S (S (S (S (S (S (S (S (S (S (S (S (S (S (S (S
          (S (S (S (S (S (S (S (S (S (S (S (S (S (S (S (S (S (S (S (S (S (S
          (S (S (S (S (S (S (S (S (S (S (S (S (S (S (S (S (S (S (S (S (S (S
          (S (S (S (S (S (S (S (S (S (S
          O))))))))))))))))))))))))))))))))))))))))))))))))))))))))))))))))))))))))))))))))))))))))))))))))
        ((||)
          (Nat.eqb n0 (S (S (S (S (S (S (S (S (S (S (S (S (S (S (S (S (S (S
            (S (S (S (S (S (S (S (S (S (S (S (S (S (S (S (S (S (S (S (S (S (S
            (S (S (S (S (S (S O)))))))))))))))))))))))))))))))))))))))))))))))
          (Nat.eqb n0 (S (S (S (S (S (S (S (S (S (S (S (S (S (S (S (S (S (S
            (S (S (S (S (S (S (S (S (S (S (S (S (S (S (S (S (S (S (S (S (S (S
            (S (S (S (S (S O)))))))))))))))))))))))))))))))))))))))))))))))))

(** val esc : char list -> char list **)

let rec esc = function
| [] -> []
| c::r ->
  if is_plain c
  then c::(esc r)
  else let n0 = n_of_ascii c in
       '%'::((hex_digit_up (N.div n0 (Npos (XO (XO (XO (XO XH)))))))::(
       (hex_digit_up (N.modulo n0 (Npos (XO (XO (XO (XO XH)))))))::(esc r)))

(** val path_str : nat list -> char list **)

let rec path_str = function
| [] -> []
| i :: r ->
  (match r with
   | [] -> itoa i
   | _ :: _ -> append (itoa i) (append ('.'::[]) (path_str r)))

(** val addr : node -> char list **)

let addr n0 =
  append ('/'::[])
    (append (path_str n0.npath)
      (match n0.nattr with
       | Some i -> append ('@'::[]) (itoa i)
       | None -> []))

(** val addrs : node list -> char list **)

let addrs l =
  join (','::[]) (map addr l)

(** val z_str : z -> char list **)

let z_str z0 = match z0 with
| Z0 -> '0'::[]
| Zpos _ -> z_digits z0
| Zneg p -> append ('-'::[]) (z_digits (Zpos p))

(** val f64_str : f64 -> char list **)

let f64_str f =
  if is_nan f
  then 'n'::('a'::('n'::[]))
  else hex_fixed (S (S (S (S (S (S (S (S (S (S (S (S (S (S (S (S
         O)))))))))))))))) (Z.to_N (bits_of f)) []

(** val render_value : value -> char list **)

let render_value = function
| VBool b ->
  if b
  then 'B'::(':'::('t'::('r'::('u'::('e'::[])))))
  else 'B'::(':'::('f'::('a'::('l'::('s'::('e'::[]))))))
| VNum f -> append ('F'::(':'::[])) (f64_str f)
| VStr s -> append ('S'::(':'::[])) (esc s)
| VNodes l -> append ('N'::(':'::[])) (addrs (nodes_of l))
| VInt z0 -> append ('I'::(':'::[])) (z_str z0)
| VNil -> 'Z'::(':'::('n'::('i'::('l'::[]))))

(** val render_outcome : ('a1 -> char list) -> 'a1 outcome -> char list **)

let render_outcome r = function
| Val a -> r a
| Complaint m ->
  append
    ('E'::(':'::('c'::('o'::('m'::('p'::('l'::('a'::('i'::('n'::('t'::(':'::[]))))))))))))
    (esc m)
| Crash k ->
  append ('E'::(':'::('c'::('r'::('a'::('s'::('h'::(':'::[])))))))) (esc k)

(** val ntype_num : ntype -> char list **)

let ntype_num = function
| NTRoot -> '0'::[]
| NTElem -> '1'::[]
| NTAttr -> '2'::[]
| NTText -> '3'::[]
| NTComment -> '4'::[]
| NTAll -> '5'::[]

(** val bstr : bool -> char list **)

let bstr = function
| true -> 't'::('r'::('u'::('e'::[])))
| false -> 'f'::('a'::('l'::('s'::('e'::[]))))

(** val b01 : bool -> char list **)

let b01 = function
| true -> '1'::[]
| false -> '0'::[]

(** val dump_ast : anode -> char list **)

let rec dump_ast = function
| ARoot s -> append ('R'::('('::[])) (append (esc s) (')'::[]))
| AAxis (ax, ty, pre, loc, prop, hasns, ns, input) ->
  append ('A'::('('::[]))
    (append (esc ax)
      (append (','::[])
        (append (ntype_num ty)
          (append (','::[])
            (append (esc pre)
              (append (','::[])
                (append (esc loc)
                  (append (','::[])
                    (append (esc prop)
                      (append (','::[])
                        (append (bstr hasns)
                          (append (','::[])
                            (append (esc ns)
                              (append (','::[])
                                (append
                                  (match input with
                                   | Some i -> dump_ast i
                                   | None -> '_'::[]) (')'::[]))))))))))))))))
| AFilter (i, c) ->
  append ('F'::('('::[]))
    (append (dump_ast i) (append (','::[]) (append (dump_ast c) (')'::[]))))
| AFunc (pre, name, args) ->
  append ('C'::('('::[]))
    (append (esc pre)
      (append (','::[])
        (append (esc name)
          (append
            (let rec go = function
             | [] -> []
             | x :: r -> append (','::[]) (append (dump_ast x) (go r))
             in go args) (')'::[])))))
| AOp (op, l, r) ->
  append ('O'::('('::[]))
    (append (esc op)
      (append (','::[])
        (append (dump_ast l)
          (append (','::[]) (append (dump_ast r) (')'::[]))))))
| ANum v ->
  append ('N'::('('::[]))
    (append
      (hex_fixed (S (S (S (S (S (S (S (S (S (S (S (S (S (S (S (S
        O)))))))))))))))) (Z.to_N (bits_of v)) []) (')'::[]))
| AStr s -> append ('S'::('('::[])) (append (esc s) (')'::[]))
| AVar (pre, name) ->
  append ('V'::('('::[]))
    (append (esc pre) (append (','::[]) (append (esc name) (')'::[]))))
| AGroup i -> append ('G'::('('::[])) (append (dump_ast i) (')'::[]))

(** val cmp_name : cmpop -> char list **)

let cmp_name = function
| CEq -> 'e'::('q'::('F'::('u'::('n'::('c'::[])))))
| CNe -> 'n'::('e'::('F'::('u'::('n'::('c'::[])))))
| CLt -> 'l'::('t'::('F'::('u'::('n'::('c'::[])))))
| CLe -> 'l'::('e'::('F'::('u'::('n'::('c'::[])))))
| CGt -> 'g'::('t'::('F'::('u'::('n'::('c'::[])))))
| CGe -> 'g'::('e'::('F'::('u'::('n'::('c'::[])))))

(** val dump_query : query -> char list **)

let rec dump_query = function
| QNil -> '_'::[]
| QNop -> 'n'::('o'::('p'::[]))
| QContext -> 'c'::('t'::('x'::[]))
| QAbsolute -> 'a'::('b'::('s'::[]))
| QAncestor (s, _, i) ->
  append ('a'::('n'::('c'::('('::[]))))
    (append (b01 s) (append (','::[]) (append (dump_query i) (')'::[]))))
| QAttribute (_, i) ->
  append ('a'::('t'::('t'::('r'::('('::[])))))
    (append (dump_query i) (')'::[]))
| QChild (_, i) ->
  append ('c'::('h'::('i'::('l'::('d'::('('::[]))))))
    (append (dump_query i) (')'::[]))
| QCachedChild (_, i) ->
  append ('c'::('c'::('h'::('i'::('l'::('d'::('('::[])))))))
    (append (dump_query i) (')'::[]))
| QDescendant (s, _, i) ->
  append ('d'::('e'::('s'::('c'::('('::[])))))
    (append (b01 s) (append (','::[]) (append (dump_query i) (')'::[]))))
| QFollowing (s, _, i) ->
  append ('f'::('o'::('l'::('l'::('('::[])))))
    (append (b01 s) (append (','::[]) (append (dump_query i) (')'::[]))))
| QPreceding (s, _, i) ->
  append ('p'::('r'::('e'::('c'::('('::[])))))
    (append (b01 s) (append (','::[]) (append (dump_query i) (')'::[]))))
| QParent (_, i) ->
  append ('p'::('a'::('r'::('e'::('n'::('t'::('('::[])))))))
    (append (dump_query i) (')'::[]))
| QSelf (_, i) ->
  append ('s'::('e'::('l'::('f'::('('::[])))))
    (append (dump_query i) (')'::[]))
| QFilter (np, i, p) ->
  append ('f'::('i'::('l'::('t'::('e'::('r'::('('::[])))))))
    (append (b01 np)
      (append (','::[])
        (append (dump_query i)
          (append (','::[]) (append (dump_query p) (')'::[]))))))
| QPosition i ->
  append ('f'::('n'::('p'::('o'::('s'::('('::[]))))))
    (append (dump_query i) (')'::[]))
| QLast i ->
  append ('f'::('n'::('l'::('a'::('s'::('t'::('('::[])))))))
    (append (dump_query i) (')'::[]))
| QReverse i ->
  append ('t'::('f'::('n'::('('::[])))) (append (dump_query i) (')'::[]))
| QNum v ->
  append ('n'::('u'::('m'::('('::[]))))
    (append
      (hex_fixed (S (S (S (S (S (S (S (S (S (S (S (S (S (S (S (S
        O)))))))))))))))) (Z.to_N (bits_of v)) []) (')'::[]))
| QStr s -> append ('s'::('t'::('r'::('('::[])))) (append (esc s) (')'::[]))
| QGroup i ->
  append ('g'::('r'::('o'::('u'::('p'::('('::[]))))))
    (append (dump_query i) (')'::[]))
| QLogical (o, l, r) ->
  append ('c'::('m'::('p'::('('::[]))))
    (append (cmp_name o)
      (append (','::[])
        (append (dump_query l)
          (append (','::[]) (append (dump_query r) (')'::[]))))))
| QNumeric (_, l, r) ->
  append ('a'::('r'::('i'::('t'::('h'::('('::[]))))))
    (append (dump_query l)
      (append (','::[]) (append (dump_query r) (')'::[]))))
| QBoolean (o, l, r) ->
  append ('b'::('o'::('o'::('l'::('('::[])))))
    (append (b01 o)
      (append (','::[])
        (append (dump_query l)
          (append (','::[]) (append (dump_query r) (')'::[]))))))
| QUnion (l, r) ->
  append ('u'::('n'::('i'::('o'::('n'::('('::[]))))))
    (append (dump_query l)
      (append (','::[]) (append (dump_query r) (')'::[]))))
| QLastFunc i ->
  append ('l'::('a'::('s'::('t'::('q'::('('::[]))))))
    (append (dump_query i) (')'::[]))
| QDoD (m, _, i) ->
  append ('d'::('o'::('d'::('('::[]))))
    (append (b01 m) (append (','::[]) (append (dump_query i) (')'::[]))))
| QMerge (i, ch) ->
  append ('m'::('e'::('r'::('g'::('e'::('('::[]))))))
    (append (dump_query i)
      (append (','::[]) (append (dump_query ch) (')'::[]))))
| _ -> 'f'::('n'::[])

(** val render_cres : ('a1 -> char list) -> 'a1 cres -> char list **)

let render_cres r = function
| Ok a -> r a
| Err m ->
  append
    ('E'::(':'::('c'::('o'::('m'::('p'::('i'::('l'::('e'::(':'::[]))))))))))
    (esc m)
| OutOfFuel ->
  'E'::(':'::('o'::('u'::('t'::('o'::('f'::('f'::('u'::('e'::('l'::[]))))))))))

(** val no_dollar : char list -> bool **)

let rec no_dollar = function
| [] -> true
| c::r ->
  (&&)
    (negb
      (Nat.eqb (byte_of c) (S (S (S (S (S (S (S (S (S (S (S (S (S (S (S (S (S
        (S (S (S (S (S (S (S (S (S (S (S (S (S (S (S (S (S (S (S
        O)))))))))))))))))))))))))))))))))))))) (no_dollar r)

(** val regex_outside : anode -> bool **)

let rec regex_outside = function
| AAxis (_, _, _, _, _, _, _, input) ->
  (match input with
   | Some i -> regex_outside i
   | None -> false)
| AFilter (i, c) -> (||) (regex_outside i) (regex_outside c)
| AFunc (_, name, args) ->
  (||)
    (let rec go = function
     | [] -> false
     | x :: r -> (||) (regex_outside x) (go r)
     in go args)
    (if eqb0 name ('m'::('a'::('t'::('c'::('h'::('e'::('s'::[])))))))
     then (match args with
           | [] -> false
           | _ :: l ->
             (match l with
              | [] -> false
              | a1 :: l0 ->
                (match a1 with
                 | AOp (_, _, _) ->
                   (match l0 with
                    | [] -> true
                    | _ :: _ -> false)
                 | AStr p ->
                   (match l0 with
                    | [] -> negb (lit_ok p)
                    | _ :: _ -> false)
                 | _ -> (match l0 with
                         | [] -> true
                         | _ :: _ -> false))))
     else if eqb0 name ('r'::('e'::('p'::('l'::('a'::('c'::('e'::[])))))))
          then (match args with
                | [] -> false
                | _ :: l ->
                  (match l with
                   | [] -> false
                   | a1 :: l0 ->
                     (match a1 with
                      | AOp (_, _, _) ->
                        (match l0 with
                         | [] -> false
                         | _ :: l2 ->
                           (match l2 with
                            | [] -> true
                            | _ :: _ -> false))
                      | AStr p ->
                        (match l0 with
                         | [] -> false
                         | a2 :: l1 ->
                           (match a2 with
                            | AOp (_, _, _) ->
                              (match l1 with
                               | [] -> true
                               | _ :: _ -> false)
                            | AStr t ->
                              (match l1 with
                               | [] -> negb ((&&) (lit_ok p) (no_dollar t))
                               | _ :: _ -> false)
                            | _ ->
                              (match l1 with
                               | [] -> true
                               | _ :: _ -> false)))
                      | _ ->
                        (match l0 with
                         | [] -> false
                         | _ :: l1 ->
                           (match l1 with
                            | [] -> true
                            | _ :: _ -> false)))))
          else false)
| AOp (_, l, r) -> (||) (regex_outside l) (regex_outside r)
| AGroup i -> regex_outside i
| _ -> false

(** val with_query :
    char list -> nsmap -> (query -> char list) -> char list **)

let with_query text ns k =
  match parse text ns with
  | Ok a ->
    if regex_outside a
    then 'U'::(':'::('r'::('e'::('g'::('e'::('x'::[]))))))
    else (match compile lit_ok text ns with
          | Ok q -> k q
          | Err m ->
            append
              ('E'::(':'::('c'::('o'::('m'::('p'::('i'::('l'::('e'::(':'::[]))))))))))
              (esc m)
          | OutOfFuel ->
            'E'::(':'::('o'::('u'::('t'::('o'::('f'::('f'::('u'::('e'::('l'::[])))))))))))
  | Err m ->
    append
      ('E'::(':'::('c'::('o'::('m'::('p'::('i'::('l'::('e'::(':'::[]))))))))))
      (esc m)
  | OutOfFuel ->
    'E'::(':'::('o'::('u'::('t'::('o'::('f'::('f'::('u'::('e'::('l'::[]))))))))))

(** val run_sel : tree -> bool -> char list -> nsmap -> node -> char list **)

let run_sel d has_ns text ns c =
  with_query text ns (fun q ->
    render_outcome (fun l -> append ('N'::(':'::[])) (addrs l))
      (select lit_match lit_numsubexp lit_replace_all d has_ns q c))

(** val run_eval : tree -> bool -> char list -> nsmap -> node -> char list **)

let run_eval d has_ns text ns c =
  with_query text ns (fun q ->
    render_outcome render_value
      (evaluate lit_match lit_numsubexp lit_replace_all d has_ns q c))

(** val run_compile : char list -> nsmap -> char list **)

let run_compile text ns =
  if eqb0 text []
  then 'E'::(':'::('c'::('o'::('m'::('p'::('i'::('l'::('e'::(':'::('e'::('m'::('p'::('t'::('y'::[]))))))))))))))
  else with_query text ns (fun _ -> 'o'::('k'::[]))

(** val run_parse : char list -> nsmap -> char list **)

let run_parse text ns =
  render_cres dump_ast (parse text ns)

(** val run_qdump : char list -> nsmap -> char list **)

let run_qdump text ns =
  with_query text ns dump_query

(** val run_hash : tree -> node -> char list **)

let run_hash d c =
  hex_fixed (S (S (S (S (S (S (S (S (S (S (S (S (S (S (S (S O))))))))))))))))
    (hash_code d c) []

(** val opt_addr : node option -> char list **)

let opt_addr = function
| Some n0 -> addr n0
| None -> '-'::[]

(** val run_nav : tree -> char list -> node -> char list **)

let run_nav d op c =
  if eqb0 op ('p'::('a'::('r'::('e'::('n'::('t'::[]))))))
  then opt_addr (move_parent c)
  else if eqb0 op ('c'::('h'::('i'::('l'::('d'::[])))))
       then opt_addr (move_child d c)
       else if eqb0 op ('n'::('e'::('x'::('t'::[]))))
            then opt_addr (move_next d c)
            else if eqb0 op ('p'::('r'::('e'::('v'::[]))))
                 then opt_addr (move_prev c)
                 else if eqb0 op ('f'::('i'::('r'::('s'::('t'::[])))))
                      then opt_addr (move_first c)
                      else if eqb0 op
                                ('n'::('e'::('x'::('t'::('a'::('t'::('t'::('r'::[]))))))))
                           then opt_addr (move_next_attr d c)
                           else if eqb0 op
                                     ('v'::('a'::('l'::('u'::('e'::[])))))
                                then append ('S'::(':'::[]))
                                       (esc (node_value d c))
                                else if eqb0 op ('n'::('a'::('m'::('e'::[]))))
                                     then append ('S'::(':'::[]))
                                            (append (esc (node_prefix d c))
                                              (append (':'::[])
                                                (esc (local_name d c))))
                                     else if eqb0 op
                                               ('t'::('y'::('p'::('e'::[]))))
                                          then ntype_num (node_type d c)
                                          else if eqb0 op
                                                    ('a'::('l'::('l'::[])))
                                               then addrs (all_nodes d)
                                               else '?'::[]

(** val run_num : char list -> char list -> char list **)

let run_num what arg =
  if eqb0 what ('p'::('a'::('r'::('s'::('e'::[])))))
  then f64_str (string_to_number arg)
  else '?'::[]

(** val run_fmt : n -> char list **)

let run_fmt bits =
  append ('S'::(':'::[])) (esc (xpath_number_string (of_bits (Z.of_N bits))))
