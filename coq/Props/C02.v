(* C02 — boolean predicates keep exactly the nodes for which the predicate is
   true; the verdict for one candidate never depends on which candidates were
   tested before it.  Property theorems only; proofs in Proofs/Filter.v.
   [sel (QFilter np i p) c] is the model of a step / parenthesised path [i]
   followed by the predicate [p] (of ANY nesting depth: p is an arbitrary query). *)
From Coq Require Import List.
From XP Require Import Base F64 Doc Ast Eval.
From XP.Proofs Require Import Filter.

(* a candidate is returned iff it was a candidate and its predicate value,
   evaluated with THAT candidate as context node, is true *)
Theorem C02_filter_members : forall D has_ns hc rm rn rr np i p c r l,
  sel D has_ns hc rm rn rr (QFilter np i p) c = Val r ->
  sel D has_ns hc rm rn rr i c = Val l ->
  forall n, In n (nodes_of r) <->
    (exists it v, In it l /\ it_node it = n /\
       eval D has_ns hc rm rn rr p n = Val v /\ truth_of_filter v (it_pos it) = true).
Proof. exact filter_members. Qed.
Print Assumptions C02_filter_members.

(* for a boolean-valued predicate (its value is never a number) the result is
   List.filter of the candidate sequence by the XPath boolean value *)
Theorem C02_filter_is_filter : forall D has_ns hc rm rn rr np i p c r l,
  sel D has_ns hc rm rn rr (QFilter np i p) c = Val r ->
  sel D has_ns hc rm rn rr i c = Val l ->
  boolean_valued_on D has_ns hc rm rn rr p (nodes_of l) ->
  nodes_of r = filter (node_verdict D has_ns hc rm rn rr p) (nodes_of l).
Proof. exact filter_is_filter. Qed.
Print Assumptions C02_filter_is_filter.

(* order independence: two candidate sequences (any orders, duplicates, position
   counters, even different inputs and context nodes) that both contain n give
   the same verdict for n *)
Theorem C02_order_independent : forall D has_ns hc rm rn rr np1 np2 i1 i2 p c1 c2 l1 l2 r1 r2 n,
  sel D has_ns hc rm rn rr i1 c1 = Val l1 -> sel D has_ns hc rm rn rr i2 c2 = Val l2 ->
  sel D has_ns hc rm rn rr (QFilter np1 i1 p) c1 = Val r1 ->
  sel D has_ns hc rm rn rr (QFilter np2 i2 p) c2 = Val r2 ->
  In n (nodes_of l1) -> In n (nodes_of l2) ->
  (forall f, eval D has_ns hc rm rn rr p n <> Val (VNum f)) ->
  (In n (nodes_of r1) <-> In n (nodes_of r2)).
Proof. exact filter_order_independent. Qed.
Print Assumptions C02_order_independent.

(* several predicates: a node is kept iff every predicate is true for it *)
Theorem C02_two_predicates : forall D has_ns hc rm rn rr np1 np2 i p1 p2 c r l,
  sel D has_ns hc rm rn rr (QFilter np2 (QFilter np1 i p1) p2) c = Val r ->
  sel D has_ns hc rm rn rr i c = Val l ->
  boolean_valued_on D has_ns hc rm rn rr p1 (nodes_of l) ->
  boolean_valued_on D has_ns hc rm rn rr p2 (nodes_of l) ->
  forall n, In n (nodes_of r) <->
    In n (nodes_of l) /\ node_verdict D has_ns hc rm rn rr p1 n = true /\
    node_verdict D has_ns hc rm rn rr p2 n = true.
Proof. exact filter_filter_members. Qed.
Print Assumptions C02_two_predicates.

(* ---- the BUILDER (Proofs/BuildFilter.v): what [step[pred]] compiles to ---- *)
From XP Require Import Parse Build.
From XP.Proofs Require Import BuildFilter.

(* a predicate the builder classifies as boolean (it cannot be a number and uses
   neither position() nor last()) never evaluates to a number: the static test is sound *)
Theorem C02_builder_boolean_test_sound : forall D has_ns hc rm rn rr c,
  can_be_number c = false -> forall n f, eval D has_ns hc rm rn rr c n <> Val (VNum f).
Proof. exact can_be_number_false_non_numeric. Qed.
Print Assumptions C02_builder_boolean_test_sound.

(* for such a predicate, whatever the input expression and the builder's flags:
   the compiled query selects exactly the candidates of the compiled input whose
   predicate value, evaluated at the candidate, is true — in candidate order *)
Theorem C02_builder_boolean_filter : forall D has_ns hc rm rn rr re_ok d input cond fl fi qi pr fi1 c prc fi2,
  d < max_build_depth ->
  process re_ok (S d) input (input_flags fl) fi = Ok (qi, pr, fi1) ->
  process re_ok (S d) cond (cond_flags fl) fi1 = Ok (c, prc, fi2) ->
  boolean_cond c prc ->
  exists q pr' fo,
    process re_ok d (AFilter input cond) fl fi = Ok (q, pr', fo) /\
    (forall ctx l r, sel D has_ns hc rm rn rr qi ctx = Val l -> sel D has_ns hc rm rn rr q ctx = Val r ->
       nodes_of r = filter (node_verdict D has_ns hc rm rn rr c) (nodes_of l) /\
       (forall n, In n (nodes_of r) <->
          In n (nodes_of l) /\ (exists v, eval D has_ns hc rm rn rr c n = Val v /\ xboolean_value v = true))).
Proof. exact boolean_filter_selects. Qed.
Print Assumptions C02_builder_boolean_filter.

(* ---- END TO END for one boolean predicate on the last step (Proofs/EndToEndPred.v):
   P[E] (path existence) and P[E = 'lit'], P and E predicate-free location paths: the
   compiled TEXT selects exactly the nodes n of P for which E, evaluated with n as
   context node, is non-empty (resp. contains a node whose string-value is the literal) ---- *)
From XP Require Import Api.
From XP.Spec Require Import Paths.
From XP.Proofs Require Import HashInj RoundTripPaths EndToEndPaths EndToEndPred.

Theorem C02_path_existence_end_to_end : forall D has_ns hcode rm rn rr re_ok ns p e abs steps iabs isteps,
  path_syntax p -> steps_of p = (abs, steps) -> path_syntax e -> steps_of e = (iabs, isteps) ->
  xok (with_pred p e) -> List.length steps + 1 < max_build_depth -> List.length isteps + 2 < max_build_depth ->
  hash_ok hcode (all_nodes D) ->
  exists q, compile re_ok (print_min (with_pred p e)) ns = Ok q /\
    selects_where D has_ns hcode rm rn rr q abs steps
      (fun n => exists m, path_den D has_ns isteps (if iabs then root_node else n) m).
Proof. exact C02_exists_end_to_end. Qed.
Print Assumptions C02_path_existence_end_to_end.

Theorem C02_equals_literal_end_to_end : forall D has_ns hcode rm rn rr re_ok ns p e lit abs steps iabs isteps,
  path_syntax p -> steps_of p = (abs, steps) -> path_syntax e -> steps_of e = (iabs, isteps) ->
  xok (with_pred p (eq_lit e lit)) -> List.length steps + 1 < max_build_depth -> List.length isteps + 2 < max_build_depth ->
  hash_ok hcode (all_nodes D) ->
  exists q, compile re_ok (print_min (with_pred p (eq_lit e lit))) ns = Ok q /\
    selects_where D has_ns hcode rm rn rr q abs steps
      (fun n => exists m, path_den D has_ns isteps (if iabs then root_node else n) m /\ node_value D m = lit).
Proof. exact C02_eq_literal_end_to_end. Qed.
Print Assumptions C02_equals_literal_end_to_end.

(* ------------------------------------------------------------------ *)
(* END TO END, from the TEXT, further predicate forms.  Atoms A are existence tests  E  and literal
   comparisons  E = 'lit'  for predicate-free paths E; [asem D has_ns A n] is what A says about n. *)
From XP.Proofs Require Import EndToEndPred2.

Theorem C02_end_to_end_and_or : forall D has_ns hcode rm rn rr re_ok ns,
  hash_ok hcode (all_nodes D) ->
  forall (isor : bool) p abs steps a1 a2,
  path_syntax p -> steps_of p = (abs, steps) -> atom_ok a1 -> atom_ok a2 ->
  xok (with_pred p (pred_andor isor a1 a2)) ->
  List.length steps + 1 < max_build_depth ->
  2 + asize a1 <= max_build_depth -> 2 + asize a2 <= max_build_depth ->
  exists q, compile re_ok (print_min (with_pred p (pred_andor isor a1 a2))) ns = Ok q /\
    selects_where2 D has_ns hcode rm rn rr q abs steps
      (fun n => if isor then asem D has_ns a1 n \/ asem D has_ns a2 n
                else asem D has_ns a1 n /\ asem D has_ns a2 n).
Proof. exact C02_andor_end_to_end. Qed.
Print Assumptions C02_end_to_end_and_or.

Theorem C02_end_to_end_two_predicates : forall D has_ns hcode rm rn rr re_ok ns,
  hash_ok hcode (all_nodes D) ->
  forall p abs steps a1 a2,
  path_syntax p -> steps_of p = (abs, steps) -> atom_ok a1 -> atom_ok a2 ->
  xok (with_pred2 p (apx a1) (apx a2)) ->
  List.length steps + 2 < max_build_depth ->
  2 + asize a1 <= max_build_depth -> 1 + asize a2 <= max_build_depth ->
  exists q, compile re_ok (print_min (with_pred2 p (apx a1) (apx a2))) ns = Ok q /\
    selects_where2 D has_ns hcode rm rn rr q abs steps (fun n => asem D has_ns a1 n /\ asem D has_ns a2 n).
Proof. exact C02_twice_end_to_end. Qed.
Print Assumptions C02_end_to_end_two_predicates.

Theorem C02_end_to_end_not : forall D has_ns hcode rm rn rr re_ok ns,
  hash_ok hcode (all_nodes D) ->
  forall p abs steps a1,
  path_syntax p -> steps_of p = (abs, steps) -> last_not_ancestor steps -> atom_ok a1 ->
  xok (with_pred p (pred_not a1)) ->
  List.length steps + 1 < max_build_depth -> 2 + asize a1 <= max_build_depth ->
  exists q, compile re_ok (print_min (with_pred p (pred_not a1))) ns = Ok q /\
    selects_where2 D has_ns hcode rm rn rr q abs steps (fun n => ~ asem D has_ns a1 n).
Proof. exact C02_not_end_to_end. Qed.
Print Assumptions C02_end_to_end_not.
