(* C16 — the pattern cache is exact, bounded, does not remember failed loads and
   may be used concurrently.  Property theorems only; proofs in Proofs/CacheProofs.v.
   The cache is modelled in Cache.v for an arbitrary key/value type, an arbitrary
   deterministic load function (None = error) and an arbitrary capacity; a state is
   reached by any number of concurrent get calls (threads ks) under any schedule
   (a list of thread indices; each step is one of get's three atomic sections). *)
From Coq Require Import List Arith.
Import ListNotations.
From XP Require Import Cache.
From XP.Proofs Require Import CacheProofs.

(* exact: every entry of every reachable cache state is the load of its key *)
Theorem C16_entries_exact :
  forall K V (keq : forall a b : K, {a = b} + {a <> b}) (load : K -> option V) (cap : nat)
         (ks : list K) (sched : list nat) k v,
    find K V keq k (m K V (fold_left (step K V keq load cap) sched (init K V ks))) = Some v -> load k = Some v.
Proof. exact entries_exact. Qed.
Print Assumptions C16_entries_exact.

(* bounded: with a positive capacity the cache never holds more entries than its capacity *)
Theorem C16_size_bounded :
  forall K V (keq : forall a b : K, {a = b} + {a <> b}) (load : K -> option V) (cap : nat)
         (ks : list K) (sched : list nat),
    0 < cap -> length (m K V (fold_left (step K V keq load cap) sched (init K V ks))) <= cap.
Proof. exact size_bounded. Qed.
Print Assumptions C16_size_bounded.

(* every finished get(k), under any interleaving with any other gets, returned load k
   (the compilation of exactly the requested pattern, or the error) *)
Theorem C16_get_returns_load :
  forall K V (keq : forall a b : K, {a = b} + {a <> b}) (load : K -> option V) (cap : nat)
         (ks : list K) (sched : list nat) i k r,
    nth_error (thr K V (fold_left (step K V keq load cap) sched (init K V ks))) i = Some (Ret k r) -> r = load k.
Proof. exact get_returns_load. Qed.
Print Assumptions C16_get_returns_load.

(* a failed load stores nothing: the map is unchanged and the caller gets the error *)
Theorem C16_failed_load_not_stored :
  forall K V (keq : forall a b : K, {a = b} + {a <> b}) (load : K -> option V) (cap : nat) s i k,
    nth_error (thr K V s) i = Some (Missed k) -> load k = None ->
    m K V (step K V keq load cap s i) = m K V s /\
    nth_error (thr K V (step K V keq load cap s i)) i = Some (Ret k None).
Proof. exact failed_load_not_stored. Qed.
Print Assumptions C16_failed_load_not_stored.

(* the sequential get that the correspondence check runs against cache.go is the
   three atomic steps of the interleaving model run back to back *)
Theorem C16_sequential_get_refines :
  forall K V (keq : forall a b : K, {a = b} + {a <> b}) (load : K -> option V) (cap : nat) mm rs k,
    let s0 := mkSt K V mm rs [Start k] in
    let s3 := step K V keq load cap (step K V keq load cap (step K V keq load cap s0 0) 0) 0 in
    let '(mm', rs', res) := get_seq K V keq load cap mm rs k in
    m K V s3 = mm' /\ resets K V s3 = rs' /\ thr K V s3 = [Ret k res].
Proof. exact get_seq_refines. Qed.
Print Assumptions C16_sequential_get_refines.

(* sequential histories of any length: every result is load k, every size within capacity *)
Theorem C16_sequential_history :
  forall K V (keq : forall a b : K, {a = b} + {a <> b}) (load : K -> option V) (cap : nat) ks,
    Forall2 (fun k '(res, len, _) => res = load k /\ (0 < cap -> len <= cap)) ks
            (run_seq K V keq load cap [] 0 ks).
Proof.
  intros. apply run_seq_exact.
  - intros k v H. discriminate H.
  - intros _. apply Nat.le_0_l.
Qed.
Print Assumptions C16_sequential_history.

(* non-vacuity: a concrete run with capacity 2 that resets, and a failing key *)
Example C16_example :
  run_cache 2 [1; 2; 1; 3; 4; 4; 1] =
  [(Some 8, 1, 0); (Some 15, 2, 0); (Some 8, 2, 0); (Some 22, 1, 1); (None, 1, 1); (None, 1, 1); (Some 8, 2, 1)].
Proof. vm_compute. reflexivity. Qed.

(* ---- replace(): "$N" of the replacement is group N (Spec/Template.v,
   Proofs/Rewrite.v, Proofs/RewriteFixed.v) ----
   [go_expand] models Go's regexp template expansion (from its documentation, checked
   against observed outputs), [fo_expand] the XPath F&O 7.6.3 reading of the
   replacement string, [rewrite_refs] the engine's rewriting (rewriteGroupRefs after the
   repairs cfc1f2b, db5d0b2), [rewrite_refs_loop] the loop it replaced. *)
From Coq Require Import String.
From XP Require Import Base Eval.
From XP.Spec Require Import Template.
From XP.Proofs Require Import Rewrite RewriteFixed.

(* the repaired rewriting followed by Go's expansion is the XPath reading, for every
   replacement in which each "$" is followed by a digit *)
Theorem C16_replace_template : forall nsub group r,
  String.length (itoa nsub) <= 9 -> dollar_digit r = true ->
  go_expand nsub group (rewrite_refs nsub r) = fo_expand nsub group r.
Proof. intros nsub group r H1 H2. unfold rewrite_refs. apply rewrite_max9_fo; assumption. Qed.
Print Assumptions C16_replace_template.

(* the loop it replaced did not: the defect found by stating this theorem *)
Theorem C16_pinned_rewrite_refuted :
  ~ (forall nsub group r, simple_template r = true ->
       go_expand nsub group (rewrite_refs_loop nsub r) = xpath_expand nsub group r).
Proof. exact rewrite_correct_unrestricted_refuted. Qed.
Print Assumptions C16_pinned_rewrite_refuted.

(* ------------------------------------------------------------------ *)
(* END TO END, from the TEXT  matches(E,'pat')  and  replace(E,'pat','tmpl')  (E a string literal or
   a predicate-free path; the regexp engine is the model's parameters re_ok / rm / rn / rr):
   a constant pattern that does not compile is rejected by Compile; otherwise matches is the
   engine's verdict on the string value of E, and replace is ReplaceAll with the template in which
   every $N has been braced, which Go's expansion reads as group N. *)
From XP Require Import F64 Doc Ast Scan Parse Build Api.
From XP.Spec Require Import Template.
From XP.Proofs Require Import HashInj RoundTripOps RoundTripPaths EndToEndValues EndToEndRegex.
Open Scope string_scope.

Theorem C16_end_to_end_bad_pattern_rejected : forall re_ok ns e pat,
  is_operand_px e -> xok (matches_px e pat) -> 1 + osize e <= max_build_depth ->
  re_ok pat = false ->
  compile re_ok (print_min (matches_px e pat)) ns = Err "matches() got error.".
Proof. exact C16_text_matches_bad_pattern. Qed.
Print Assumptions C16_end_to_end_bad_pattern_rejected.

Theorem C16_end_to_end_matches : forall D has_ns hc rm rn rr,
  hash_ok (hc D) (all_nodes D) ->
  forall re_ok ns e pat,
  is_operand_px e -> xok (matches_px e pat) -> 1 + osize e <= max_build_depth ->
  re_ok pat = true ->
  exists q,
    compile re_ok (print_min (matches_px e pat)) ns = Ok q /\
    forall c, valid D c = true ->
    exists m, opval D has_ns e c m /\
      evaluate rm rn rr hc D has_ns q c =
      match rm pat (str_or_first D m) with
      | Some b => Val (VBool b)
      | None => Complaint "matches() function second argument is not a valid regexp pattern"
      end.
Proof. exact C16_text_matches. Qed.
Print Assumptions C16_end_to_end_matches.

Theorem C16_end_to_end_replace : forall D has_ns hc rm rn rr,
  hash_ok (hc D) (all_nodes D) ->
  forall re_ok ns e pat tmpl,
  is_operand_px e -> not_number e -> xok (replace_px e pat tmpl) -> 1 + osize e <= max_build_depth ->
  exists q,
    compile re_ok (print_min (replace_px e pat tmpl)) ns = Ok q /\
    (forall c, valid D c = true ->
     exists m, opval D has_ns e c m /\
       evaluate rm rn rr hc D has_ns q c =
       match rm pat "" with
       | None => Complaint "replace() function second argument is not a valid regexp pattern"
       | Some _ => Val (VStr (rr pat (str_or_first D m) (rewrite_refs (rn pat) tmpl)))
       end) /\
    (String.length (itoa (rn pat)) <= 9 -> dollar_digit tmpl = true ->
     forall group, go_expand (rn pat) group (rewrite_refs (rn pat) tmpl) = fo_expand (rn pat) group tmpl).
Proof. exact C16_text_replace. Qed.
Print Assumptions C16_end_to_end_replace.
