(* C06 — Compile is total: it terminates and returns exactly one of (usable
   expression, error); MustCompile never returns nil; nesting beyond the limits
   is an error.  Property theorems only; proofs in Proofs/ParseTerm.v,
   Proofs/BuildFacts.v, Proofs/CompileTotal.v (the stack clause: Props/C06_stack.v).
   The model (Scan.v, Parse.v, Build.v, Api.v) gives every loop and every
   recursive entry of the Go parser explicit fuel; [OutOfFuel] is the model's
   "did not terminate within the budget"; every Go panic during build is
   recovered into [Err] exactly as build()'s deferred recover() does. *)
From Coq Require Import List String.
From XP Require Import Base F64 Doc Ast Scan Parse Build Api.
From XP.Proofs Require Import ParseTerm BuildFacts CompileTotal.

(* the parser terminates on EVERY byte string: a budget linear in the input
   length (length + 2; the model runs with 2*length + 8) is never exhausted *)
Theorem C06_parse_terminates : forall text ns, parse text ns <> OutOfFuel.
Proof. exact parse_terminates. Qed.
Print Assumptions C06_parse_terminates.

Theorem C06_parse_fuel_linear : forall f text ns,
  String.length text + 2 <= f -> parse_fuel f text ns <> OutOfFuel.
Proof. exact parse_fuel_terminates. Qed.
Print Assumptions C06_parse_fuel_linear.

(* Compile / CompileWithNS: for every input string and namespace map exactly one
   of: a usable query (not nil, no nil sub-query where one is run: [qok]) or an error *)
Theorem C06_one_of : forall re_ok text ns,
  (exists q, compile re_ok text ns = Ok q /\ q <> QNil /\ qok q = true) \/
  (exists m, compile re_ok text ns = Err m).
Proof. exact compile_one_of. Qed.
Print Assumptions C06_one_of.

(* MustCompile never returns nil (it returns the nop query on failure) *)
Theorem C06_mustcompile_not_nil : forall re_ok text, must_compile re_ok text <> QNil.
Proof. exact must_compile_not_nil. Qed.
Print Assumptions C06_mustcompile_not_nil.

(* the builder's depth guard: beyond 1024 levels the result is an error, whatever the tree *)
Theorem C06_builder_depth_guard : forall re_ok d root fl fi,
  max_build_depth <= d -> process re_ok d root fl fi = Err "the xpath expressions is too complex".
Proof. exact process_depth_guard. Qed.
Print Assumptions C06_builder_depth_guard.
Theorem C06_too_deep_is_error : forall re_ok d root fl fi,
  max_build_depth < d + vdepth root -> is_err (process re_ok d root fl fi).
Proof. exact process_too_deep. Qed.
Print Assumptions C06_too_deep_is_error.

(* the empty string is rejected *)
Theorem C06_empty_rejected : forall re_ok ns, compile re_ok "" ns = Err "expr expression is nil".
Proof. exact compile_empty. Qed.
Print Assumptions C06_empty_rejected.

(* ------------------------------------------------------------------ *)
(* FOR EVERY TEXT (any byte string) and namespace map: Compile returns exactly one of a usable
   query and an error; MustCompile returns that query or the nop query, never nil. *)
From XP.Proofs Require Import EndToEndTotal.

Theorem C06_text_exactly_one : forall re_ok text ns,
  (exists q, compile re_ok text ns = Ok q /\ q <> QNil /\ qok q = true /\
             forall msg, compile re_ok text ns <> Err msg) \/
  (exists msg, compile re_ok text ns = Err msg /\ forall q, compile re_ok text ns <> Ok q).
Proof. exact C06_text_compile_exactly_one. Qed.
Print Assumptions C06_text_exactly_one.

Theorem C06_text_must_compile_total : forall re_ok text,
  ((exists q, compile re_ok text None = Ok q /\ must_compile re_ok text = q) \/
   (exists msg, compile re_ok text None = Err msg /\ must_compile re_ok text = QNop)) /\
  must_compile re_ok text <> QNil.
Proof. exact C06_text_must_compile. Qed.
Print Assumptions C06_text_must_compile_total.
