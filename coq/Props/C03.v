(* C03 — positional predicates on child steps use the XPath proximity position.
   Property theorems only; proofs in Proofs/Position.v.  [cands D has_ns t n] is
   the list of the children of n that pass the step's node test, in document
   order: the step's candidates for the parent n. *)
From Coq Require Import List ZArith.
From XP Require Import Base F64 Doc Ast Eval.
From XP.Proofs Require Import DocOrder Position.

(* the k-th item a child step hands out for one parent carries position k+1 *)
Theorem C03_child_counter_is_proximity_position : forall D has_ns t n k it,
  nth_error (step_child D has_ns t n) k = Some it ->
  it_pos it = S k /\ it_lvl it = 0 /\ nth_error (cands D has_ns t n) k = Some (it_node it).
Proof. exact step_child_positions. Qed.
Print Assumptions C03_child_counter_is_proximity_position.

(* step[n]: for every parent (in order) the n-th candidate of THAT parent *)
Theorem C03_child_index : forall D has_ns hc rm rn rr np t i v c parents r,
  sel D has_ns hc rm rn rr i c = Val parents ->
  sel D has_ns hc rm rn rr (QFilter np (QChild t i) (QNum v)) c = Val r ->
  nodes_of r = flat_map (fun par => pick_nth (go_int v) (cands D has_ns t (it_node par))) parents.
Proof. exact child_index_filter_nodes. Qed.
Print Assumptions C03_child_index.

(* position() and last(), computed by the engine by counting siblings that pass
   the step's test, are the index among the candidates and their number *)
Theorem C03_position_function : forall D test n m j,
  nth_error (filter test (children D n)) j = Some m -> position_of test m = of_Z (Z.of_nat (S j)).
Proof. exact position_of_child. Qed.
Print Assumptions C03_position_function.
Theorem C03_last_function : forall D test n m,
  In m (children D n) -> last_of D test m = of_Z (Z.of_nat (List.length (filter test (children D n)))).
Proof. exact last_of_child. Qed.
Print Assumptions C03_last_function.

(* step[position() op n] and step[last()] *)
Theorem C03_position_compare : forall D has_ns hc rm rn rr np t i i' op v c parents,
  sel D has_ns hc rm rn rr i c = Val parents ->
  sel D has_ns hc rm rn rr (QFilter np (QChild t i) (QLogical op (QPosition (QChild t i')) (QNum v))) c =
  Val (numbered (flat_map (fun par =>
         select_pos (fun pos => cmp_num op (of_Z (Z.of_nat pos)) v) 1 (cands D has_ns t (it_node par))) parents)).
Proof. exact child_position_filter. Qed.
Print Assumptions C03_position_compare.
Theorem C03_last : forall D has_ns hc rm rn rr np t i i' c parents,
  sel D has_ns hc rm rn rr i c = Val parents ->
  sel D has_ns hc rm rn rr (QFilter np (QChild t i) (QLast (QChild t i'))) c =
  Val (numbered (flat_map (fun par =>
         pick_nth (go_int (of_Z (Z.of_nat (List.length (cands D has_ns t (it_node par))))))
                  (cands D has_ns t (it_node par))) parents)).
Proof. exact child_last_filter. Qed.
Print Assumptions C03_last.

(* the builder's merge rewrite (per-parent re-evaluation) selects the same nodes *)
Theorem C03_merge_rewrite_same_nodes : forall D has_ns hc rm rn rr np1 np2 t parent v c ps,
  sel D has_ns hc rm rn rr parent c = Val ps ->
  omap nodes_of (sel D has_ns hc rm rn rr (QMerge parent (QFilter np1 (QChild t QContext) (QNum v))) c) =
  omap nodes_of (sel D has_ns hc rm rn rr (QFilter np2 (QChild t parent) (QNum v)) c).
Proof. exact merge_child_index_same_nodes. Qed.
Print Assumptions C03_merge_rewrite_same_nodes.

(* (P)[n] for a flat path P: the n-th node of P in document order *)
Theorem C03_group_index_doc_order : forall D has_ns hc rm rn rr np i v c l,
  flat_query i -> sel D has_ns hc rm rn rr i c = Val l ->
  sorted_doc (nodes_of l) /\
  sel D has_ns hc rm rn rr (QFilter np (QGroup i) (QNum v)) c = Val (numbered (pick_nth (go_int v) (nodes_of l))) /\
  (forall s, sorted_doc s -> (forall x, In x s <-> In x (nodes_of l)) ->
     sel D has_ns hc rm rn rr (QFilter np (QGroup i) (QNum v)) c = Val (numbered (pick_nth (go_int v) s))).
Proof. exact group_index_doc_order. Qed.
Print Assumptions C03_group_index_doc_order.

(* ---- the BUILDER (Proofs/BuildFilter.v) ---- *)
From XP Require Import Parse Build.
From XP.Proofs Require Import BuildFilter.

(* step[pred] for ANY predicate (positional, numeric, boolean, failing): whichever
   branch the builder takes (plain filter, filter with position bookkeeping, merge
   rewrite with the step re-rooted on the context), the compiled query yields the same
   node sequence as the plain filter over the compiled step, from every context node of
   every document (the ancestor axis excepted: positional predicates on it are outside C03) *)
Theorem C03_builder_step_filter_sound :
  forall D has_ns hc rm rn rr re_ok d axis nty pre loc prop hasns ns inp cond fl fi q pr' fo,
  process re_ok d (AFilter (AAxis axis nty pre loc prop hasns ns inp) cond) fl fi = Ok (q, pr', fo) ->
  exists qi pr fi1 c prc fi2,
    process re_ok (S d) (AAxis axis nty pre loc prop hasns ns inp) (input_flags fl) fi = Ok (qi, pr, fi1) /\
    process re_ok (S d) cond (cond_flags fl) fi1 = Ok (c, prc, fi2) /\
    (is_ancestor_q qi = false -> forall np ctx,
       omap nodes_of (sel D has_ns hc rm rn rr q ctx) =
       omap nodes_of (sel D has_ns hc rm rn rr (QFilter np qi (adj_cond c (adj_prc c prc))) ctx)).
Proof. exact process_step_filter_sound. Qed.
Print Assumptions C03_builder_step_filter_sound.

(* (P)[pred] always compiles to a filter over the group of P: never rewritten *)
Theorem C03_builder_group_filter : forall re_ok d inner cond fl fi q pr' fo,
  process re_ok d (AFilter (AGroup inner) cond) fl fi = Ok (q, pr', fo) ->
  exists qin pr fi0 fi1 c prc fi2,
    process re_ok (S (S d)) inner fl_none fi = Ok (qin, pr, fi0) /\
    process re_ok (S d) cond (cond_flags fl) fi1 = Ok (c, prc, fi2) /\
    q = QFilter (negb (pr_haspos (adj_prc c prc))) (QGroup qin) (adj_cond c (adj_prc c prc)).
Proof. exact process_group_filter_shape. Qed.
Print Assumptions C03_builder_group_filter.

(* ------------------------------------------------------------------ *)
(* END TO END, from the TEXT: for a predicate-free path P whose last step is a child step,
   P[k], P[last()] and P[position() op k] compile and select, for every parent the prefix
   of P yields (in the prefix's order), the picked candidates of THAT parent. *)
From XP Require Import Scan Parse Build Api.
From XP.Spec Require Import Axes Paths.
From XP.Proofs Require Import HashInj RoundTripOps RoundTripPaths EndToEndPaths EndToEndPred EndToEndPos.
Open Scope Z_scope.

Theorem C03_end_to_end_index : forall D has_ns hcode rm rn rr re_ok ns p abs pre t ds,
  path_syntax p -> steps_of p = (abs, (pre ++ [mkStep Child t])%list) ->
  xok (with_pred p (pred_index ds)) ->
  (List.length pre + 2 < max_build_depth)%nat -> hash_ok hcode (all_nodes D) ->
  Z.abs (lit_Z ds) <= 2 ^ 53 ->
  exists q, compile re_ok (print_min (with_pred p (pred_index ds))) ns = Ok q /\
            per_parent D has_ns hcode rm rn rr q abs pre t (pick_nth (lit_Z ds)).
Proof. exact C03_index_end_to_end. Qed.
Print Assumptions C03_end_to_end_index.

Theorem C03_end_to_end_index_members : forall D has_ns hcode rm rn rr re_ok ns p abs pre t ds,
  path_syntax p -> steps_of p = (abs, (pre ++ [mkStep Child t])%list) ->
  xok (with_pred p (pred_index ds)) ->
  (List.length pre + 2 < max_build_depth)%nat -> hash_ok hcode (all_nodes D) ->
  Z.abs (lit_Z ds) <= 2 ^ 53 ->
  exists q, compile re_ok (print_min (with_pred p (pred_index ds))) ns = Ok q /\
    forall c, valid D c = true ->
    exists l, sel D has_ns hcode rm rn rr q c = Val l /\
      forall n, In n (nodes_of l) <->
        exists m, path_den D has_ns pre (if abs then root_node else c) m /\
                  1 <= lit_Z ds /\
                  nth_error (cands D has_ns t m) (Z.to_nat (lit_Z ds - 1)) = Some n.
Proof. exact C03_index_members. Qed.
Print Assumptions C03_end_to_end_index_members.

Theorem C03_end_to_end_last : forall D has_ns hcode rm rn rr re_ok ns p abs pre t,
  path_syntax p -> steps_of p = (abs, (pre ++ [mkStep Child t])%list) ->
  xok (with_pred p pred_last) ->
  (List.length pre + 2 < max_build_depth)%nat -> hash_ok hcode (all_nodes D) ->
  exists q, compile re_ok (print_min (with_pred p pred_last)) ns = Ok q /\
            per_parent D has_ns hcode rm rn rr q abs pre t
              (fun l => pick_nth (go_int (of_Z (Z.of_nat (List.length l)))) l).
Proof. exact C03_last_end_to_end. Qed.
Print Assumptions C03_end_to_end_last.

Theorem C03_end_to_end_position : forall D has_ns hcode rm rn rr re_ok ns p abs pre t b o ds,
  path_syntax p -> steps_of p = (abs, (pre ++ [mkStep Child t])%list) ->
  cmp_of (opname b) = Some o ->
  xok (with_pred p (pred_position b ds)) ->
  (List.length pre + 2 < max_build_depth)%nat -> hash_ok hcode (all_nodes D) ->
  exists q, compile re_ok (print_min (with_pred p (pred_position b ds))) ns = Ok q /\
            per_parent D has_ns hcode rm rn rr q abs pre t
              (select_pos (fun pos => cmp_num o (of_Z (Z.of_nat pos)) (lit_f ds)) 1).
Proof. exact C03_position_end_to_end. Qed.
Print Assumptions C03_end_to_end_position.

(* (P)[k] from the TEXT, P an ordered path (flat steps, optionally one final descendant step): the
   k-th node of P in document order, nothing when k is out of range *)
From XP.Proofs Require Import DocOrder EndToEndFlat EndToEndGroupNth.

Theorem C03_end_to_end_group_nth : forall D has_ns hc rm rn rr,
  hash_ok (hc D) (all_nodes D) ->
  forall re_ok ns p abs steps ds,
  path_syntax p -> steps_of p = (abs, steps) -> ordered_steps steps ->
  xok (group_nth p ds) -> (List.length steps + 3 <= max_build_depth)%nat ->
  (Z.abs (lit_Z ds) <= 2 ^ 53)%Z ->
  exists q,
    compile re_ok (print_min (group_nth p ds)) ns = Ok q /\
    forall c, valid D c = true ->
    exists l,
      sorted_doc l /\ (forall n, In n l <-> path_den D has_ns steps (if abs then root_node else c) n) /\
      select rm rn rr hc D has_ns q c = Val (pick_nth (lit_Z ds) l) /\
      (forall x, (1 <= lit_Z ds)%Z -> nth_error l (Z.to_nat (lit_Z ds - 1)) = Some x ->
         select rm rn rr hc D has_ns q c = Val [x]) /\
      ((lit_Z ds < 1)%Z \/ (Z.of_nat (List.length l) < lit_Z ds)%Z -> select rm rn rr hc D has_ns q c = Val []).
Proof. exact C03_group_nth_end_to_end. Qed.
Print Assumptions C03_end_to_end_group_nth.
