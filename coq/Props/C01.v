(* C01 — predicate-free location paths select exactly the XPath 1.0 node-set.
   Property theorems only.  Spec/Axes.v is the specification (the twelve axes as
   relations on node addresses); Proofs/AxesSound.v proves every step function
   of the engine model sound and complete against it. *)
From Coq Require Import List.
From XP Require Import Base Doc Ast Eval.
From XP.Spec Require Import Axes.
From XP.Proofs Require Import AxesSound.

(* one step over any of the twelve axes, any node test, any document, any
   valid context node (element, attribute, text, comment, root): the engine's
   enumeration contains exactly the nodes of the axis that pass the test *)
Theorem C01_step_sound_complete : forall D has_ns a t n m, valid D n = true ->
  (In m (step_of D has_ns a t n) <-> axis_rel D a n m /\ match_test D has_ns t m = true).
Proof. exact step_of_spec. Qed.
Print Assumptions C01_step_sound_complete.

(* the //a//b optimisation (descendant-over-descendant yields top-most matches
   only): the node set after the next descendant step is unchanged *)
Theorem C01_descendant_over_descendant_same_set : forall D has_ns t t2 self n x, valid D n = true ->
  ((exists m, In m (nodes_of (step_dod D has_ns false t n)) /\ In x (nodes_of (step_descendant D has_ns self t2 m))) <->
   (exists m, In m (nodes_of (step_descendant D has_ns false t n)) /\ In x (nodes_of (step_descendant D has_ns self t2 m)))).
Proof. exact dod_same_set. Qed.
Print Assumptions C01_descendant_over_descendant_same_set.
