module verif

go 1.23

require github.com/antchfx/xpath v0.0.0

replace github.com/antchfx/xpath => /repo
