(* C14 — name tests, namespaces and name functions identify nodes as documented.
   Property theorems only; proofs in Proofs/NameTest.v. *)
From Coq Require Import List String.
From XP Require Import Base F64 Doc Ast Scan Parse Eval.
From XP.Proofs Require Import NameTest.

(* the decision table of a node test, for all documents, tests, nodes and both
   navigator variants: type filter; a test without a name always matches; with
   a namespace map AND a navigator exposing URIs: (local name, URI); otherwise
   (local name, prefix) *)
Theorem C14_match_rule : forall D has_ns t n,
  match_test D has_ns t n = true <->
  type_ok D t n /\
  (no_name t \/
   ~ no_name t /\ nt_loc t = local_name D n /\
   (if by_uri has_ns t then nt_ns t = node_ns D n else nt_pre t = node_prefix D n)).
Proof. exact match_test_table. Qed.
Print Assumptions C14_match_rule.

(* an unprefixed name test (no namespace binding) matches only unprefixed nodes *)
Theorem C14_unprefixed : forall D has_ns t n,
  nt_pre t = "" -> nt_loc t <> "" -> nt_hasns t = false ->
  (match_test D has_ns t n = true <-> type_ok D t n /\ local_name D n = nt_loc t /\ node_prefix D n = "").
Proof. exact match_test_unprefixed. Qed.
Print Assumptions C14_unprefixed.

(* matching by URI is regardless of the prefix used in the document *)
Theorem C14_prefix_irrelevant : forall D has_ns t n1 n2,
  by_uri has_ns t = true -> node_type D n1 = node_type D n2 ->
  local_name D n1 = local_name D n2 -> node_ns D n1 = node_ns D n2 ->
  match_test D has_ns t n1 = match_test D has_ns t n2.
Proof. exact match_test_prefix_irrelevant. Qed.
Print Assumptions C14_prefix_irrelevant.

(* with a namespace map, an unbound prefix is a compile error; a bound one is
   compiled to (URI, local name) *)
Theorem C14_unbound_prefix_error : forall n axis mt st st1,
  typ st = IName -> Scan.s_canfunc (p_s st) && is_node_type st = false -> pnext st = Ok st1 ->
  forall m, Scan.s_prefix (p_s st) <> "" -> ns_lookup m (Scan.s_prefix (p_s st)) = None ->
  parse_node_test (Some m) n axis mt st = Err "prefix not defined.".
Proof. exact parse_node_test_unbound. Qed.
Print Assumptions C14_unbound_prefix_error.

Theorem C14_bound_prefix : forall n axis mt st st1,
  typ st = IName -> Scan.s_canfunc (p_s st) && is_node_type st = false -> pnext st = Ok st1 ->
  forall m uri, Scan.s_prefix (p_s st) <> "" -> ns_lookup m (Scan.s_prefix (p_s st)) = Some uri ->
  parse_node_test (Some m) n axis mt st =
  Ok (AAxis axis mt (Scan.s_prefix (p_s st))
        (if (Scan.s_name (p_s st1) =? "*")%string then "" else Scan.s_name (p_s st)) "" true uri n, st1).
Proof. exact parse_node_test_bound. Qed.
Print Assumptions C14_bound_prefix.

(* name(), local-name(), namespace-uri(): no argument = the context node; a
   node-set argument = its first node; the empty set = "" *)
Theorem C14_name_fn_context : forall D has_ns hcode rm rn rr f c, is_name_fn f ->
  eval D has_ns hcode rm rn rr (QFn1 f QNil) c = Val (VStr (name_fn D has_ns f c)).
Proof. exact eval_name_fn_context. Qed.
Print Assumptions C14_name_fn_context.
Theorem C14_name_fn_argument : forall D has_ns hcode rm rn rr f a c l, is_name_fn f -> a <> QNil ->
  sel D has_ns hcode rm rn rr a c = Val l ->
  eval D has_ns hcode rm rn rr (QFn1 f a) c =
  Val (VStr match l with nil => "" | i :: _ => name_fn D has_ns f (it_node i) end).
Proof. exact eval_name_fn_arg. Qed.
Print Assumptions C14_name_fn_argument.

(* ------------------------------------------------------------------ *)
(* END TO END, from the TEXT of one-step name tests and of the name functions. *)
From XP Require Import Build Api.
From XP.Proofs Require Import ScanTokens EndToEndName.
Open Scope string_scope.

Theorem C14_end_to_end_qname_lexical : forall D has_ns hc rm rn rr re_ok pfx nm c,
  name_ok pfx = true -> name_ok nm = true ->
  exists q l, compile re_ok ("child::" ++ pfx ++ ":" ++ nm) None = Ok q /\
    select rm rn rr hc D has_ns q c = Val l /\
    forall n, In n l <-> In n (children D c) /\ node_type D n = NTElem /\
                         local_name D n = nm /\ node_prefix D n = pfx.
Proof. exact C14_child_qname_nomap. Qed.
Print Assumptions C14_end_to_end_qname_lexical.

Theorem C14_end_to_end_qname_bound : forall D has_ns hc rm rn rr re_ok m pfx nm uri c,
  name_ok pfx = true -> name_ok nm = true -> ns_lookup m pfx = Some uri ->
  exists q l, compile re_ok ("child::" ++ pfx ++ ":" ++ nm) (Some m) = Ok q /\
    select rm rn rr hc D has_ns q c = Val l /\
    forall n, In n l <-> In n (children D c) /\ node_type D n = NTElem /\ local_name D n = nm /\
                         (if has_ns then node_ns D n = uri else node_prefix D n = pfx).
Proof. exact C14_child_qname_bound. Qed.
Print Assumptions C14_end_to_end_qname_bound.

Theorem C14_end_to_end_qname_unbound : forall re_ok m pfx nm,
  name_ok pfx = true -> name_ok nm = true -> ns_lookup m pfx = None ->
  compile re_ok ("child::" ++ pfx ++ ":" ++ nm) (Some m) = Err "prefix not defined.".
Proof. exact C14_child_qname_unbound. Qed.
Print Assumptions C14_end_to_end_qname_unbound.

Theorem C14_end_to_end_name : forall D has_ns hc rm rn rr re_ok ns nm c,
  name_ok nm = true ->
  exists q l, compile re_ok ("child::" ++ nm) ns = Ok q /\
    select rm rn rr hc D has_ns q c = Val l /\
    forall n, In n l <-> In n (children D c) /\ node_type D n = NTElem /\
                         local_name D n = nm /\ node_prefix D n = "".
Proof. exact C14_child_name. Qed.
Print Assumptions C14_end_to_end_name.

Theorem C14_end_to_end_star : forall D has_ns hc rm rn rr re_ok ns c,
  exists q l, compile re_ok "child::*" ns = Ok q /\
    select rm rn rr hc D has_ns q c = Val l /\
    forall n, In n l <-> In n (children D c) /\ node_type D n = NTElem.
Proof. exact C14_child_star. Qed.
Print Assumptions C14_end_to_end_star.

Theorem C14_end_to_end_attribute : forall D has_ns hc rm rn rr re_ok ns nm c,
  name_ok nm = true ->
  exists q l, compile re_ok ("attribute::" ++ nm) ns = Ok q /\
    select rm rn rr hc D has_ns q c = Val l /\
    forall n, In n l <-> node_type D c = NTElem /\ In n (attributes_after D c) /\
                         node_type D n = NTAttr /\ local_name D n = nm /\ node_prefix D n = "".
Proof. exact C14_attribute_name. Qed.
Print Assumptions C14_end_to_end_attribute.

Theorem C14_end_to_end_name_functions : forall D has_ns hc rm rn rr re_ok ns f c,
  is_name_fn f ->
  exists q, compile re_ok (fn_text f) ns = Ok q /\
            evaluate rm rn rr hc D has_ns q c = Val (VStr (name_fn D has_ns f c)).
Proof. exact C14_name_functions. Qed.
Print Assumptions C14_end_to_end_name_functions.
