(* Model1/Clone3.v — the Clone() methods of query.go at cursor level, for the query tree
   of Model1/Iter3.v.  Definitions only.

   In Go every Clone returns a NEW object: the configuration fields are copied, the
   sub-queries are cloned recursively, every other field has Go's zero value:

     contextQuery / absoluteQuery      &contextQuery{} / &absoluteQuery{}                 count 0
     ancestorQuery                     {name, Self, Input.Clone(), Predicate}              iterator nil, table nil
     attributeQuery, childQuery        {name, Input.Clone(), Predicate}                    iterator nil, posit 0
     cachedChildQuery                  &childQuery{name, Input.Clone(), Predicate}         -- a childQuery!
     descendantQuery                   {name, Self, Input.Clone(), Predicate}              iterator nil, posit 0, level 0
     followingQuery, precedingQuery    {Input.Clone(), Sibling, Predicate}                 iterator nil, posit 0
     parentQuery, selfQuery            {Input.Clone(), Predicate}
     filterQuery                       {Input.Clone(), Predicate.Clone()}                  posit 0, positmap nil, NoPosition false (dropped)
     transformFunctionQuery            {Input.Clone(), Func}                               iterator nil
     groupQuery                        {Input.Clone()}                                     posit 0
     logicalQuery                      {Left.Clone(), Right.Clone(), Do}                   done false
     numericQuery                      {Left.Clone(), Right.Clone(), Do}
     booleanQuery                      {IsOr, Left.Clone(), Right.Clone()}                 iterator nil
     unionQuery                        {Left.Clone(), Right.Clone()}                       iterator nil
     lastFuncQuery                     {Input.Clone()}                                     buffer nil, counted false
     descendantOverDescendantQuery     {Input.Clone(), Predicate, MatchSelf}               level 0, posit 0, currentNode nil
     mergeQuery                        {Input.Clone(), Child.Clone()}                      iterator nil
     nopQuery                          nopQuery{}
     constantQuery                     return c                                            -- the SAME object (it has no state)
     functionQuery                     {Input.Clone() (if any), Func: f.Func}              -- the SAME closure

   functionQuery is the one place where a clone shares mutable-looking objects with its
   original: Func is a closure that captured the ARGUMENT queries (lowerCaseFunc(arg),
   startwithFunc(arg1, arg2), concatFunc(args...)), and Clone copies the closure value, so
   original and clone evaluate the very same argument objects.  In the model the state of
   QFn1 f a / QFn2 f a b / QFn3 f a b x / QConcat args / QArg a rest IS the state of those
   captured objects, and [clone_state3] hands it to the clone unchanged.  (position() and
   last() capture nothing; their Input -- used only for its test -- is cloned.)
   Proofs/CloneRefine3.v shows why this is harmless: an argument that is not a functionQuery
   is only ever used through functionArgs, i.e. on a per-call Clone, and an argument that is
   a functionQuery is never changed by being evaluated (fn_immutable). *)
From XP Require Import Base F64 Doc Ast Hash Eval.
From XP.Model1 Require Import Iter Iter2 Iter3.

(* the configuration of the clone *)
Fixpoint clone_cfg3 (q : query) : query :=
  match q with
  | QNil | QNop | QNum _ | QStr _ | QFn0 _ | QContext | QAbsolute => q
  | QAncestor self t i => QAncestor self t (clone_cfg3 i)
  | QAttribute t i => QAttribute t (clone_cfg3 i)
  | QChild t i => QChild t (clone_cfg3 i)
  | QCachedChild t i => QChild t (clone_cfg3 i)            (* cachedChildQuery.Clone returns a childQuery *)
  | QDescendant self t i => QDescendant self t (clone_cfg3 i)
  | QFollowing sb t i => QFollowing sb t (clone_cfg3 i)
  | QPreceding sb t i => QPreceding sb t (clone_cfg3 i)
  | QParent t i => QParent t (clone_cfg3 i)
  | QSelf t i => QSelf t (clone_cfg3 i)
  | QFilter _ i p => QFilter false (clone_cfg3 i) (clone_cfg3 p)   (* NoPosition is not copied *)
  (* functionQuery{Func: closure over the argument queries}: the closure is shared *)
  | QFn1 _ _ | QFn2 _ _ _ | QFn3 _ _ _ _ | QConcat _ | QArg _ _ => q
  (* functionQuery{Input: firstInput, Func: positionFunc()/lastFunc()}: Input is cloned *)
  | QPosition i => QPosition (clone_cfg3 i)
  | QLast i => QLast (clone_cfg3 i)
  | QReverse i => QReverse (clone_cfg3 i)
  | QGroup i => QGroup (clone_cfg3 i)
  | QLogical op l r => QLogical op (clone_cfg3 l) (clone_cfg3 r)
  | QNumeric op l r => QNumeric op (clone_cfg3 l) (clone_cfg3 r)
  | QBoolean isor l r => QBoolean isor (clone_cfg3 l) (clone_cfg3 r)
  | QUnion l r => QUnion (clone_cfg3 l) (clone_cfg3 r)
  | QLastFunc i => QLastFunc (clone_cfg3 i)
  | QDoD ms t i => QDoD ms t (clone_cfg3 i)
  | QMerge i ch => QMerge (clone_cfg3 i) (clone_cfg3 ch)
  end.

(* the state the clone starts with, given the state of the original *)
Fixpoint clone_state3 (q : query) : state3 q -> state3 (clone_cfg3 q) :=
  match q return state3 q -> state3 (clone_cfg3 q) with
  | QNil => fun _ => tt
  | QNop => fun _ => tt
  | QNum _ => fun _ => tt                    (* constantQuery.Clone returns c itself *)
  | QStr _ => fun _ => tt
  | QFn0 _ => fun _ => tt
  | QContext => fun _ => 0
  | QAbsolute => fun _ => 0
  | QAncestor _ _ i => fun s => mkAnc NI_none None (clone_state3 i (n_in s))
  | QAttribute _ i => fun s => mkAttrSt AI_none (clone_state3 i (a_in s))
  | QChild _ i => fun s => mkChild 0 CI_none (clone_state3 i (c_in s))
  | QCachedChild _ i => fun s => mkChild 0 CI_none (clone_state3 i (c_in s))
  | QDescendant _ _ i => fun s => mkDesc DI_none 0 0 (clone_state3 i (d_in s))
  | QFollowing _ _ i => fun s => mkFol 0 FI_none (clone_state3 i (fo_in s))
  | QPreceding _ _ i => fun s => mkPre 0 PI_none (clone_state3 i (pr_in s))
  | QParent _ i => fun s => clone_state3 i s
  | QSelf _ i => fun s => clone_state3 i s
  | QFilter _ i p => fun s => mkFilter3 0 None (clone_state3 i (f3_in s)) (clone_state3 p (f3_pred s))
  (* the shared closure: the clone sees the captured argument objects in the state they are in *)
  | QFn1 _ _ => fun s => s
  | QFn2 _ _ _ => fun s => s
  | QFn3 _ _ _ _ => fun s => s
  | QConcat _ => fun s => s
  | QArg _ _ => fun s => s
  | QPosition i => fun s => clone_state3 i s
  | QLast i => fun s => clone_state3 i s
  | QReverse i => fun s => mkRev LI_none (clone_state3 i (rv_in s))
  | QGroup i => fun s => mkGroup 0 (clone_state3 i (g_in s))
  | QLogical _ l r => fun s => mkLogic false (clone_state3 l (lg_l s)) (clone_state3 r (lg_r s))
  | QNumeric _ l r => fun s => (clone_state3 l (fst s), clone_state3 r (snd s))
  | QBoolean _ l r => fun s => mkBoolSt LI_none (clone_state3 l (bo_l s)) (clone_state3 r (bo_r s))
  | QUnion l r => fun s => mkUnion LI_none (clone_state3 l (u_l s)) (clone_state3 r (u_r s))
  | QLastFunc i => fun s => mkLastF [] false (clone_state3 i (lf_in s))
  | QDoD _ _ i => fun s => mkDod 0 0 root_node (clone_state3 i (dd_in s))
  | QMerge i ch => fun s => mkMerge LI_none (clone_state3 i (m_in s)) (clone_state3 ch (m_ch s))
  end.

(* Clone() *)
Definition clone3 (st : qstate3) : qstate3 :=
  existT _ (clone_cfg3 (projT1 st)) (clone_state3 (projT1 st) (projT2 st)).
