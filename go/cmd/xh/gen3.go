package main

import (
	"fmt"
	"strings"

	"verif/internal/doc"
	"verif/internal/gen"
)

// Families of expressions aimed at mechanisms that random generation reaches
// too rarely (found by running seeded defects against the checks):
//
//   ctxrestore   an operand whose evaluation moves the shared context cursor
//                (a path ending in a positional / function predicate -> merge
//                query, following/preceding steps, an absolute path) followed
//                by an operand that depends on the context node;
//   statefularg  a function argument with iteration state that Evaluate does
//                not rewind ((P)[n], P[n] ...), evaluated more than once through
//                one compiled expression (several context nodes, several
//                candidates of a predicate, histories, goroutines).

func ctxDocs(o *cw) []*dref {
	srcs := []string{
		`r(@v=2,k("1"),k("2"),s(@v=2,a(@k=1,b("1"),b("2")),a(b("3"),a(b("4"),b("5"))),c("1"),c("2")),s(@v=3,a(b("9")),c("9"),b("2")),b(@v=2,"2"),b(@v=3,"3"))`,
		`a(@x=1,b(@x=1,c(@n=x,"1"),c("2")),b(@x=2,c("3")),@k=1,c("1"),a(@k=2,b(c(@n=x,"7")),c("7")),a(b(c("8"))))`,
		`r(a("1"),a("2"),a("3"),b("9"),b("3"),c("n/a"),c("7"),d("7"),d("n/a"),m(n("2"),n("5")),m(n("1")))`,
	}
	var ds []*dref
	for _, s := range srcs {
		ds = append(ds, o.doc(doc.Parse(s), false))
	}
	return ds
}

var ctxNames = []string{"a", "b", "c", "k", "s", "*"}

// mover: a node-set operand that moves the shared cursor while it is evaluated
func (g *G) mover() gen.Ex {
	n1, n2 := g.r.Pick(ctxNames), g.r.Pick(ctxNames)
	var pred gen.Ex
	switch g.r.Intn(6) {
	case 0:
		pred = num(1 + g.r.Intn(2))
	case 1:
		pred = gen.Call{Name: "last"}
	case 2:
		pred = gen.Call{Name: "contains", Args: []gen.Ex{gen.Path{Steps: []gen.Step{{Axis: "attribute", Test: g.r.Pick([]string{"n", "x", "k", "v"})}}}, gen.Lit{S: g.r.Pick([]string{"x", "1", ""})}}}
	case 3:
		pred = gen.Call{Name: "true"}
	case 4:
		pred = gen.Bin{Op: "=", L: gen.Call{Name: "position"}, R: num(1 + g.r.Intn(2))}
	default:
		pred = gen.Call{Name: "starts-with", Args: []gen.Ex{gen.Path{Steps: []gen.Step{{Axis: "self", Test: "node()"}}}, gen.Lit{S: g.r.Pick([]string{"1", "2", ""})}}}
	}
	if g.r.Chance(25) {
		// positional predicates that keep MORE than one node per parent
		switch g.r.Intn(4) {
		case 0:
			pred = gen.Bin{Op: ">", L: gen.Call{Name: "position"}, R: num(1)}
		case 1:
			pred = gen.Bin{Op: "!=", L: gen.Call{Name: "position"}, R: num(1)}
		case 2:
			pred = gen.Bin{Op: "<", L: gen.Call{Name: "position"}, R: gen.Call{Name: "last"}}
		default:
			pred = gen.Bin{Op: ">=", L: gen.Call{Name: "position"}, R: num(2)}
		}
	}
	switch g.r.Intn(8) {
	case 0, 1, 2:
		// multi-step path whose last step carries a possibly-numeric predicate: merge query
		return gen.Path{Steps: []gen.Step{{Axis: "child", Test: n1}, {Axis: "child", Test: n2, Preds: []gen.Ex{pred}}}}
	case 3:
		return gen.Path{Steps: []gen.Step{{Axis: "child", Test: n1, DSlash: false}, {Axis: "child", Test: n2, DSlash: true, Preds: []gen.Ex{pred}}}}
	case 4:
		return gen.Path{Steps: []gen.Step{{Axis: g.r.Pick([]string{"following", "preceding"}), Test: n1}}}
	case 5:
		// absolute operand
		return gen.Path{Abs: true, Steps: []gen.Step{{Axis: "child", Test: "*"}, {Axis: g.r.Pick([]string{"child", "attribute"}), Test: g.r.Pick([]string{"k", "v", "*", "a"})}}}
	case 6:
		return gen.Path{Abs: true, Steps: []gen.Step{{Axis: "child", Test: "*", Preds: []gen.Ex{pred}}, {Axis: "child", Test: n2}}}
	default:
		return gen.Filter{E: gen.Paren{E: gen.Path{Steps: []gen.Step{{Axis: "child", Test: n1}, {Axis: "child", Test: n2}}}}, Preds: []gen.Ex{num(1 + g.r.Intn(2))}}
	}
}

// ctxDep: an operand whose value depends on the context node
func (g *G) ctxDep() gen.Ex {
	switch g.r.Intn(7) {
	case 0:
		return gen.Path{Steps: []gen.Step{{Axis: "attribute", Test: g.r.Pick([]string{"k", "v", "x", "*"})}}}
	case 1:
		return gen.Path{Steps: []gen.Step{{Axis: "child", Test: g.r.Pick(ctxNames)}}}
	case 2:
		return gen.Call{Name: "not", Args: []gen.Ex{gen.Path{Steps: []gen.Step{{Axis: "attribute", Test: g.r.Pick([]string{"k", "v", "x"})}}}}}
	case 3:
		return gen.Bin{Op: "=", L: gen.Call{Name: "count", Args: []gen.Ex{gen.Path{Steps: []gen.Step{{Axis: "child", Test: g.r.Pick(ctxNames)}}}}}, R: num(g.r.Intn(3))}
	case 4:
		return gen.Path{Steps: []gen.Step{{Axis: "self", Test: "node()"}}}
	case 5:
		return gen.Path{Steps: []gen.Step{{Axis: "parent", Test: "node()"}, {Axis: "attribute", Test: "v"}}}
	default:
		return gen.Path{Steps: []gen.Step{{Axis: "child", Test: g.r.Pick(ctxNames)}, {Axis: "child", Test: g.r.Pick(ctxNames)}}}
	}
}

func cnt(e gen.Ex) gen.Ex { return gen.Call{Name: "count", Args: []gen.Ex{e}} }

// ctxRestoreExprs: (tag, expression) pairs; which = "bool" | "cmp" | "arith" | "union" | "string"
func (g *G) ctxRestore(which string) gen.Ex {
	l, r := g.mover(), g.ctxDep()
	if g.r.Chance(25) {
		r = g.mover() // both operands move the cursor
	}
	switch which {
	case "bool":
		op := g.r.Pick([]string{"and", "or"})
		if g.r.Chance(20) {
			return gen.Bin{Op: op, L: r, R: l}
		}
		return gen.Bin{Op: op, L: l, R: r}
	case "cmp":
		op := g.r.Pick([]string{"=", "!=", "=", "<", ">"})
		if op == "<" || op == ">" {
			return gen.Bin{Op: op, L: cnt(l), R: cnt(r)}
		}
		return gen.Bin{Op: op, L: l, R: r}
	case "arith":
		return gen.Bin{Op: g.r.Pick([]string{"+", "-", "*"}), L: gen.Bin{Op: "*", L: cnt(l), R: num(10)}, R: cnt(r)}
	case "union":
		if g.r.Chance(30) {
			return gen.Bin{Op: "|", L: l, R: l}
		}
		if _, isPath := r.(gen.Path); !isPath {
			r = gen.Path{Steps: []gen.Step{{Axis: "child", Test: g.r.Pick(ctxNames)}}}
		}
		return gen.Bin{Op: "|", L: l, R: r}
	default: // string
		return gen.Call{Name: "concat", Args: []gen.Ex{l, gen.Lit{S: "|"}, gen.Call{Name: "string", Args: []gen.Ex{r}}}}
	}
}

func (o *cw) emitCtxRestore(g *G, ds []*dref, which string, n int, selKind bool) {
	for i := 0; i < n; i++ {
		e := g.ctxRestore(which)
		o.features(e)
		s := gen.Str(e, both[i%2])
		d := ds[i%len(ds)]
		if selKind {
			o.c("selall", d, "/", "-", s, "", "ctxrestore-"+which)
		} else {
			o.c("evalall", d, "/", "-", s, "", "ctxrestore-"+which)
		}
		if which == "bool" || which == "cmp" {
			// the same as a predicate over many candidates
			o.c("selall", d, "/", "-", "descendant-or-self::*["+s+"]", "", "ctxrestore-"+which+"-pred")
		}
	}
}

// statefulArg: node-set arguments whose iteration state is not rewound by Evaluate
func (g *G) statefulArg() gen.Ex {
	n1, n2 := g.r.Pick(ctxNames), g.r.Pick(ctxNames)
	k := num(1 + g.r.Intn(3))
	var last gen.Ex = k
	if g.r.Chance(25) {
		last = gen.Call{Name: "last"}
	}
	abs := g.r.Chance(40)
	switch g.r.Intn(6) {
	case 0, 1:
		return gen.Filter{E: gen.Paren{E: gen.Path{Abs: abs, Steps: []gen.Step{{Axis: "child", Test: n1, DSlash: abs}}}}, Preds: []gen.Ex{last}}
	case 2:
		return gen.Filter{E: gen.Paren{E: gen.Path{Abs: abs, Steps: []gen.Step{{Axis: "child", Test: "*", DSlash: abs}, {Axis: "child", Test: n2}}}}, Preds: []gen.Ex{last}}
	case 3:
		return gen.Path{Abs: abs, Steps: []gen.Step{{Axis: "child", Test: "*", DSlash: abs}, {Axis: "child", Test: n2, Preds: []gen.Ex{last}}}}
	case 4:
		return gen.Path{Steps: []gen.Step{{Axis: "child", Test: n1, Preds: []gen.Ex{last}}}}
	default:
		return gen.Path{Abs: abs, Steps: []gen.Step{{Axis: "child", Test: "*", DSlash: abs}, {Axis: "child", Test: n2}, {Axis: "child", Test: n1, Preds: []gen.Ex{k}}}}
	}
}

// funcsOverArg wraps a node-set argument in every function that accepts one
func (g *G) funcsOverArg(a gen.Ex, set string) []gen.Ex {
	c := func(name string, args ...gen.Ex) gen.Ex { return gen.Call{Name: name, Args: args} }
	switch set {
	case "numeric":
		return []gen.Ex{c("count", a), c("sum", a), c("number", a), c("floor", a), c("ceiling", a), c("string-length", a),
			gen.Bin{Op: "+", L: c("count", a), R: num(1)}, gen.Bin{Op: "*", L: a, R: num(2)}}
	case "string":
		return []gen.Ex{c("string", a), c("concat", a, gen.Lit{S: "|"}, a), c("contains", a, gen.Lit{S: "1"}), c("starts-with", a, gen.Lit{S: "1"}),
			c("substring-before", a, gen.Lit{S: "1"}), c("substring-after", a, gen.Lit{S: "1"}), c("substring", a, num(1), num(2)), c("normalize-space", a),
			c("translate", c("string", a), gen.Lit{S: "12"}, gen.Lit{S: "ab"}), c("string-join", a, gen.Lit{S: ","}), c("lower-case", c("string", a)), c("ends-with", a, gen.Lit{S: "1"})}
	case "name":
		return []gen.Ex{c("name", a), c("local-name", a), c("namespace-uri", a)}
	case "bool":
		return []gen.Ex{c("boolean", a), c("not", a), gen.Bin{Op: "=", L: a, R: gen.Lit{S: "1"}}, gen.Bin{Op: ">", L: a, R: num(1)}, gen.Bin{Op: "=", L: a, R: a}}
	case "seq":
		return []gen.Ex{c("count", a), c("reverse", a), a}
	}
	return nil
}

func (o *cw) emitStatefulArgs(g *G, ds []*dref, set string, n int) {
	for i := 0; i < n; i++ {
		a := g.statefulArg()
		for _, e := range g.funcsOverArg(a, set) {
			o.features(e)
			s := gen.Str(e, both[i%2])
			d := ds[i%len(ds)]
			if _, isCall := e.(gen.Call); isCall && e.(gen.Call).Name == "reverse" {
				o.c("selall", d, "/", "-", s, "", "statefularg-"+set)
				continue
			}
			o.c("evalall", d, "/", "-", s, "", "statefularg-"+set)
			if set != "seq" && i%2 == 0 {
				// inside a predicate over several candidates
				cmp := s + " = " + s
				if set == "bool" {
					cmp = s
				}
				o.c("selall", d, "/", "-", "descendant-or-self::*["+cmp+"]", "", "statefularg-"+set+"-pred")
			}
		}
	}
}

// histCases: the same compiled expression on other documents first, then observed
func (o *cw) emitHist(ds []*dref, s string, tag string) {
	var hist []string
	for j := 0; j < 1+o.r.Intn(3); j++ {
		d := ds[o.r.Intn(len(ds))]
		r := d.all[o.r.Intn(len(d.all))]
		hist = append(hist, fmt.Sprintf("%s:%s:%s:%d", []string{"S", "E"}[o.r.Intn(2)], d.id, r.Addr(), o.r.Intn(4)))
	}
	d := ds[o.r.Intn(len(ds))]
	r := d.all[o.r.Intn(len(d.all))]
	for _, final := range []string{"sel", "eval"} {
		o.c("hist", d, r.Addr(), "-", s, "", tag, final, strings.Join(hist, ","))
	}
}
