(* Proofs/EndToEndAbs.v — property C13, end to end, at the level of TEXTS.

   (A) An absolute predicate-free location path  /P  or  //P : the compiled
       query is context free (Absolute.ctx_free); Select from ANY start node
       c -- valid or not -- returns the very same list as from the root; and
       (C01) that list holds exactly the nodes of the denotation from the root.

   (B) A relative composition  P/Q  (P any predicate-free path, Q a relative
       one): Select(P/Q) from c has exactly the members of the union, over
       the nodes m of Select(P) from c, of Select(Q) from m.  When all steps
       are child / attribute / self steps the list is in document order
       without duplicates, i.e. it IS the document-ordered de-duplicated union
       (DocOrder.sorted_doc_unique). *)
From XP Require Import Base F64 Doc Ast Scan Parse Build Hash Eval Api.
From XP.Spec Require Import Axes Paths.
From XP.Proofs Require Import ParseTerm ScanTokens RoundTripOps RoundTripPaths
                              DocOrder HashInj AxesSound PathSem BuildPath BuildFacts Absolute
                              BuildOps EndToEndPaths EndToEndPred EndToEndPos EndToEndUnion.
Require Import Lia.
Open Scope string_scope.
Open Scope nat_scope.
Open Scope list_scope.

(* ------------------------------------------------------------------ *)
(** * 1. Builder: an absolute path tree builds to a context-free query  *)
(* ------------------------------------------------------------------ *)

Definition is_axis_node (oa : option anode) : Prop :=
  match oa with Some (AAxis _ _ _ _ _ _ _ _) => True | _ => False end.

Lemma mk_axis_name_ctx_free : forall a t fl qi pr q pr',
  mk_axis (axis_name a) t fl qi pr = Ok (q, pr') -> ctx_free qi -> ctx_free q.
Proof.
  intros a t fl qi pr q pr' H Hq.
  destruct a; cbn in H; inversion H; subst;
    try match goal with |- context [if ?c then _ else _] => destruct c end;
    constructor; exact Hq.
Qed.

Section Build.
Variable re_ok : string -> bool.

Lemma abs_out_both : forall rs oa, rpath_ast true rs oa ->
  (forall depth fl q pr, proc_opt re_ok depth oa fl = Ok (q, pr) -> ctx_free q) /\
  (is_axis_node oa ->
   forall depth fl q pr, proc_opt re_ok depth (ginput_of oa) fl = Ok (q, pr) -> ctx_free q).
Proof.
  intros rs oa H. induction H as [Ha|sl Ha|s r inp prop HA [IH1 IH2]].
  - discriminate Ha.
  - split; [|intros []]. intros depth fl q pr E. cbn [proc_opt process] in E.
    destruct (Nat.ltb max_build_depth (S depth)); [discriminate|]. cbn [cbind] in E.
    inversion E. constructor.
  - split; [|intros _; unfold step_ast; cbn [ginput_of]; exact IH1].
    intros depth fl q pr E. cbn [proc_opt] in E. unfold step_ast in E.
    rewrite process_axis_eq in E.
    destruct (Nat.ltb max_build_depth (S depth)); [discriminate|]. cbv zeta in E.
    destruct (fused_cond fl (axis_name (s_axis s)) inp) eqn:Ef.
    + assert (Hax : is_axis_node inp).
      { destruct inp as [[]|]; try discriminate Ef. exact I. }
      destruct (proc_opt re_ok (S depth) (ginput_of inp) fl_smart) as [[qg prg]| |] eqn:Eg;
        cbn [cbind] in E; try discriminate.
      unfold finish in E. cbn [cbind] in E. inversion E; subst.
      constructor. apply (IH2 Hax _ _ _ _ Eg).
    + match type of E with context [proc_opt re_ok (S depth) inp ?f] =>
        destruct (proc_opt re_ok (S depth) inp f) as [[qi pri]| |] eqn:Ei end;
        cbn [cbind] in E; try discriminate.
      unfold finish in E.
      match type of E with context [mk_axis ?a ?t ?f ?i ?p] =>
        destruct (mk_axis a t f i p) as [[q' pr']| |] eqn:Em end;
        cbn [cbind] in E; try discriminate.
      inversion E; subst. apply (mk_axis_name_ctx_free _ _ _ _ _ _ _ Em). apply (IH1 _ _ _ _ Ei).
Qed.

Lemma abs_tree_ctx_free : forall rs a d fi q pr fo,
  rpath_ast true rs (Some a) -> rs <> [] ->
  process re_ok d a fl_none fi = Ok (q, pr, fo) -> ctx_free q.
Proof.
  intros rs a d fi q pr fo HA Hne E.
  destruct (rpath_ast_some_inv true rs a HA Hne) as (s & r & prop & inp & -> & -> & _).
  apply (proj1 (abs_out_both _ _ HA) d fl_none q pr). cbn [proc_opt].
  rewrite <- (process_step_fi re_ok d s prop inp fl_none fi), E. reflexivity.
Qed.

(* Compile succeeded on a text whose parse is known: the builder equation *)
Lemma compile_inv_parse : forall text ns a q,
  parse text ns = Ok a -> compile re_ok text ns = Ok q ->
  exists pr fo, process re_ok 0 a fl_none fi_nil = Ok (q, pr, fo).
Proof.
  intros text ns a q Hp Hc. unfold compile, compile_fuel, build_fuel in Hc.
  destruct (String.eqb text ""); [discriminate|].
  unfold parse in Hp. rewrite Hp in Hc. cbn [cbind] in Hc.
  destruct (process re_ok 0 a fl_none fi_nil) as [[[q0 pr] fo]| |]; cbn [cbind] in Hc; try discriminate.
  exists pr, fo. destruct q0; inversion Hc; reflexivity.
Qed.

End Build.

(* ------------------------------------------------------------------ *)
(** * 2. A document-independent Compile                                 *)
(* ------------------------------------------------------------------ *)

(* Compile does not look at any document: success for a path text, stated
   without the identity-code hypothesis *)
Definition tree0 : tree := T KRoot "" "" "" "" [] [].
Lemma hash_ok_tree0 : forall hc, hash_ok hc (all_nodes tree0).
Proof.
  intros hc a b Ha Hb _. change (all_nodes tree0) with [root_node] in Ha, Hb.
  destruct Ha as [<-|[]]. destruct Hb as [<-|[]]. reflexivity.
Qed.

Theorem path_text_compiles : forall re_ok ns p abs steps,
  path_syntax p -> steps_of p = (abs, steps) -> xok p -> List.length steps < max_build_depth ->
  exists q pr fo, compile re_ok (print_min p) ns = Ok q /\
                  parse (print_min p) ns = Ok (xast p) /\
                  process re_ok 0 (xast p) fl_none fi_nil = Ok (q, pr, fo).
Proof.
  intros re_ok ns p abs steps Hp Hs Hok Hl.
  destruct (C01_end_to_end tree0 false (fun _ => 0%N) (fun _ _ => None) (fun _ => 0) (fun _ s _ => s)
              re_ok ns p abs steps Hp Hs Hok Hl (hash_ok_tree0 _)) as (q & Ec & _).
  destruct (path_syntax_wf p Hp) as [Hwf Hd].
  assert (Hparse : parse (print_min p) ns = Ok (xast p)).
  { apply roundtrip_print_min; [exact Hwf|exact Hok|rewrite Hd; unfold max_depth; lia]. }
  destruct (compile_inv_parse re_ok _ ns _ q Hparse Ec) as (pr & fo & E).
  exists q, pr, fo. auto.
Qed.

(* ------------------------------------------------------------------ *)
(** * 3. (A) absolute paths ignore the start node                        *)
(* ------------------------------------------------------------------ *)

Theorem C13_absolute_end_to_end : forall re_ok ns p steps,
  path_syntax p -> steps_of p = (true, steps) -> xok p -> List.length steps < max_build_depth ->
  exists q, compile re_ok (print_min p) ns = Ok q /\ ctx_free q /\
    (* every document, every two start nodes (valid or not), any identity code *)
    (forall rm rn rr (hc : tree -> node -> N) D has_ns c1 c2,
       select rm rn rr hc D has_ns q c1 = select rm rn rr hc D has_ns q c2 /\
       evaluate rm rn rr hc D has_ns q c1 = evaluate rm rn rr hc D has_ns q c2) /\
    (* and what the list is (C01) *)
    (forall rm rn rr (hc : tree -> node -> N) D has_ns c,
       hash_ok (hc D) (all_nodes D) ->
       exists l, select rm rn rr hc D has_ns q c = Val l /\
                 forall n, In n l <-> path_den D has_ns steps root_node n).
Proof.
  intros re_ok ns p steps Hp Hs Hok Hl.
  destruct (path_text_compiles re_ok ns p true steps Hp Hs Hok Hl) as (q & pr & fo & Ec & Hparse & E).
  assert (Hne : rev steps <> []).
  { pose proof (steps_of_ne p true steps Hp Hs) as Hn. intros Er. apply Hn.
    rewrite <- (rev_involutive steps), Er. reflexivity. }
  pose proof (abs_tree_ctx_free re_ok (rev steps) (xast p) 0 fi_nil q pr fo
                (xast_path_shape p true steps Hp Hs) Hne E) as Hcf.
  exists q. split; [exact Ec|]. split; [exact Hcf|]. split.
  - intros rm rn rr hc D has_ns c1 c2. split.
    + apply select_ignores_context. exact Hcf.
    + apply evaluate_ignores_context. exact Hcf.
  - intros rm rn rr hc D has_ns c Hh.
    destruct (C01_select D has_ns hc rm rn rr re_ok ns p true steps Hp Hs Hok Hl Hh) as (q' & Ec' & Hsel).
    rewrite Ec in Ec'. inversion Ec'; subst q'.
    destruct (Hsel root_node eq_refl) as (l & El & Hin). exists l. split; [|exact Hin].
    rewrite (select_ignores_context rm rn rr hc D has_ns q c root_node Hcf). exact El.
Qed.
Print Assumptions C13_absolute_end_to_end.

(* ------------------------------------------------------------------ *)
(** * 4. (B) relative composition  P/Q                                   *)
(* ------------------------------------------------------------------ *)

Fixpoint rcat (r1 : rpath) (r2 : rpath) : rpath :=
  match r1 with
  | ROne s => RCons s false r2
  | RCons s d r => RCons s d (rcat r r2)
  end.

(* P/Q  for a relative Q *)
Definition path_cat (p1 p2 : px) : px :=
  match p1, p2 with
  | XPath s r1, XPath PRel r2 => XPath s (rcat r1 r2)
  | _, _ => p1
  end.

Lemma rsteps_of_rcat : forall r1 r2 l1 l2,
  rsteps_of r1 = Some l1 -> rsteps_of r2 = Some l2 -> rsteps_of (rcat r1 r2) = Some (l1 ++ l2).
Proof.
  induction r1 as [s|s d r IH]; intros r2 l1 l2 H1 H2; cbn [rsteps_of rcat] in *.
  - destruct (step_of s); [|discriminate]. inversion H1; subst. rewrite H2. reflexivity.
  - destruct (step_of s); [|discriminate]. destruct (rsteps_of r) as [l|] eqn:Er; [|discriminate].
    inversion H1; subst. rewrite (IH r2 l l2 eq_refl H2). cbn [app]. rewrite app_assoc. reflexivity.
Qed.

Theorem path_cat_syntax : forall p1 p2 abs s1 s2,
  path_syntax p1 -> steps_of p1 = (abs, s1) -> path_syntax p2 -> steps_of p2 = (false, s2) ->
  path_syntax (path_cat p1 p2) /\ steps_of (path_cat p1 p2) = (abs, s1 ++ s2).
Proof.
  intros p1 p2 abs s1 s2 Hp1 Hs1 Hp2 Hs2.
  pose proof (steps_of_spec p1 abs s1 Hp1 Hs1) as E1. pose proof (steps_of_spec p2 false s2 Hp2 Hs2) as E2.
  destruct p1 as [| | | | |st1 r1| | | | |]; try discriminate.
  destruct p2 as [| | | | |st2 r2| | | | |]; try discriminate.
  cbn [steps_of_opt] in E1, E2.
  destruct (rsteps_of r1) as [l1|] eqn:R1; [|discriminate].
  destruct (rsteps_of r2) as [l2|] eqn:R2; [|discriminate].
  inversion E1; subst. inversion E2 as [[Ea El]].
  destruct st2; try discriminate Ea. cbn [start_steps app] in *. subst.
  assert (E : steps_of_opt (path_cat (XPath st1 r1) (XPath PRel r2))
              = Some (start_abs st1, (start_steps st1 ++ l1) ++ s2)).
  { cbn [path_cat steps_of_opt]. rewrite (rsteps_of_rcat r1 r2 l1 s2 R1 R2), app_assoc. reflexivity. }
  split; [eexists; exact E|]. unfold steps_of. rewrite E. reflexivity.
Qed.

Lemma path_den_app : forall D has_ns s1 s2 start n,
  path_den D has_ns (s1 ++ s2) start n <->
  exists m, path_den D has_ns s1 start m /\ path_den D has_ns s2 m n.
Proof.
  intros D has_ns s1 s2. induction s1 as [|s s1 IH]; intros start n; cbn [app path_den].
  - split; [intros H; exists start; auto|intros (m & -> & H); exact H].
  - split.
    + intros (k & Hk & H). apply IH in H. destruct H as (m & H1 & H2). exists m. split; [exists k; auto|exact H2].
    + intros (m & (k & Hk & H1) & H2). exists k. split; [exact Hk|]. apply IH. exists m. auto.
Qed.

Section Compose.
Variable D : tree.
Variable has_ns : bool.
Variable hc : tree -> node -> N.
Variable rm : string -> string -> option bool.
Variable rn : string -> nat.
Variable rr : string -> string -> string -> string.
Variable re_ok : string -> bool.
Variable ns : nsmap.

Notation SELECT := (select rm rn rr hc D has_ns).

Theorem C13_compose_end_to_end : forall p1 p2 abs s1 s2,
  path_syntax p1 -> steps_of p1 = (abs, s1) -> path_syntax p2 -> steps_of p2 = (false, s2) ->
  xok p1 -> xok p2 -> xok (path_cat p1 p2) ->
  List.length (s1 ++ s2) < max_build_depth ->
  hash_ok (hc D) (all_nodes D) ->
  exists q q1 q2,
    compile re_ok (print_min (path_cat p1 p2)) ns = Ok q /\
    compile re_ok (print_min p1) ns = Ok q1 /\
    compile re_ok (print_min p2) ns = Ok q2 /\
    forall c, valid D c = true ->
    exists l l1,
      SELECT q c = Val l /\ SELECT q1 c = Val l1 /\
      (* members: the union over m in Select(P) of Select(Q) from m *)
      (forall n, In n l <-> exists m l2, In m l1 /\ SELECT q2 m = Val l2 /\ In n l2) /\
      (* child / attribute / self steps only: document order, no duplicates *)
      (Forall flat_step (s1 ++ s2) -> sorted_doc l /\ sorted_doc l1).
Proof.
  intros p1 p2 abs s1 s2 Hp1 Hs1 Hp2 Hs2 Hok1 Hok2 Hok Hl Hh.
  destruct (path_cat_syntax p1 p2 abs s1 s2 Hp1 Hs1 Hp2 Hs2) as [Hp Hs].
  rewrite app_length in Hl.
  destruct (C01_select D has_ns hc rm rn rr re_ok ns _ abs (s1 ++ s2) Hp Hs Hok
              ltac:(rewrite app_length; lia) Hh) as (q & Ec & Hsel).
  destruct (C01_select D has_ns hc rm rn rr re_ok ns p1 abs s1 Hp1 Hs1 Hok1 ltac:(lia) Hh) as (q1 & Ec1 & Hsel1).
  destruct (C01_select D has_ns hc rm rn rr re_ok ns p2 false s2 Hp2 Hs2 Hok2 ltac:(lia) Hh) as (q2 & Ec2 & Hsel2).
  exists q, q1, q2. split; [exact Ec|]. split; [exact Ec1|]. split; [exact Ec2|].
  intros c Hc. destruct (Hsel c Hc) as (l & El & Hin). destruct (Hsel1 c Hc) as (l1 & El1 & Hin1).
  exists l, l1. split; [exact El|]. split; [exact El1|]. split.
  - intros n. rewrite (Hin n), path_den_app. split.
    + intros (m & Hm & Hn).
      assert (Hvm : valid D m = true).
      { apply (path_den_valid D has_ns s1 (if abs then root_node else c) m); [destruct abs; [reflexivity|exact Hc]|exact Hm]. }
      destruct (Hsel2 m Hvm) as (l2 & El2 & Hin2).
      exists m, l2. split; [apply Hin1; exact Hm|]. split; [exact El2|]. apply Hin2. exact Hn.
    + intros (m & l2 & Hm & El2 & Hn). exists m. apply Hin1 in Hm. split; [exact Hm|].
      assert (Hvm : valid D m = true).
      { apply (path_den_valid D has_ns s1 (if abs then root_node else c) m); [destruct abs; [reflexivity|exact Hc]|exact Hm]. }
      destruct (Hsel2 m Hvm) as (l2' & El2' & Hin2). rewrite El2 in El2'. inversion El2'; subst l2'.
      apply Hin2. exact Hn.
  - intros HF.
    assert (HF1 : Forall flat_step s1) by (apply Forall_app in HF; tauto).
    (* the two compiled queries are flat *)
    destruct (path_syntax_wf _ Hp) as [Hwf Hd]. destruct (path_syntax_wf p1 Hp1) as [Hwf1 Hd1].
    assert (P : parse (print_min (path_cat p1 p2)) ns = Ok (xast (path_cat p1 p2)))
      by (apply roundtrip_print_min; [exact Hwf|exact Hok|rewrite Hd; unfold max_depth; lia]).
    assert (P1 : parse (print_min p1) ns = Ok (xast p1))
      by (apply roundtrip_print_min; [exact Hwf1|exact Hok1|rewrite Hd1; unfold max_depth; lia]).
    destruct (compile_inv_parse re_ok _ ns _ q P Ec) as (pr & fo & E).
    destruct (compile_inv_parse re_ok _ ns _ q1 P1 Ec1) as (pr1 & fo1 & E1).
    assert (Hne : forall st : list sstep, st <> [] -> rev st <> [])
      by (intros st Hn Er; apply Hn; rewrite <- (rev_involutive st), Er; reflexivity).
    pose proof (path_tree_flat re_ok abs (rev (s1 ++ s2)) _ 0 fi_nil q pr fo
                  (xast_path_shape _ abs _ Hp Hs) (Hne _ (steps_of_ne _ abs _ Hp Hs)) E
                  (Forall_rev HF)) as Fq.
    pose proof (path_tree_flat re_ok abs (rev s1) _ 0 fi_nil q1 pr1 fo1
                  (xast_path_shape p1 abs s1 Hp1 Hs1) (Hne _ (steps_of_ne p1 abs s1 Hp1 Hs1)) E1
                  (Forall_rev HF1)) as Fq1.
    unfold select in El, El1.
    destruct (sel D has_ns (hc D) rm rn rr q c) as [u| |] eqn:Eu; cbn [obind] in El; try discriminate.
    destruct (sel D has_ns (hc D) rm rn rr q1 c) as [u1| |] eqn:Eu1; cbn [obind] in El1; try discriminate.
    inversion El; subst l. inversion El1; subst l1. split.
    + apply (flat_sorted_any D has_ns (hc D) rm rn rr q c u Fq Eu).
    + apply (flat_sorted_any D has_ns (hc D) rm rn rr q1 c u1 Fq1 Eu1).
Qed.

End Compose.
Print Assumptions C13_compose_end_to_end.

(* ------------------------------------------------------------------ *)
(** * 5. Examples                                                       *)
(* ------------------------------------------------------------------ *)
Module Examples.
Import AxesSound.Examples EndToEndPaths.Examples.

Notation SELECTx := (select lit_match lit_numsubexp lit_replace_all hash_code exD true).

(*  /a/*  on  <a x="1" y="2"> <b>t</b> <c z="3"><d/><!--k--></c> <e/> </a>  *)
Definition pa : px := XPath PAbs (RCons (st_child "a") false (ROne (SAxis AxChild NStar PNil))).
Example pa_text : print_min pa = "/a/*". Proof. vm_compute. reflexivity. Qed.

Example abs_example :
  exists q, compile Api.lit_ok "/a/*" None = Ok q /\
    (* from the comment node k, from the attribute z, from a non-existent node: as from the root *)
    SELECTx q n_k = SELECTx q root_node /\ SELECTx q n_cz = SELECTx q root_node /\
    SELECTx q (elem_at [7;7]) = SELECTx q root_node /\
    SELECTx q root_node = Val [n_b; n_c; n_e].
Proof.
  destruct (C13_absolute_end_to_end Api.lit_ok None pa (snd (steps_of pa))) as (q & Ec & _ & Hany & _).
  - apply path_syntax_b_ok. vm_compute. reflexivity.
  - vm_compute. reflexivity.
  - vm_compute. reflexivity.
  - vm_compute. lia.
  - rewrite pa_text in Ec. exists q. split; [exact Ec|].
    split; [apply Hany|]. split; [apply Hany|]. split; [apply Hany|].
    vm_compute in Ec. inversion Ec; subst q. vm_compute. reflexivity.
Qed.

(* a relative path is NOT independent of the start node *)
Example rel_depends_on_context :
  exists q, compile Api.lit_ok "*" None = Ok q /\ SELECTx q n_c <> SELECTx q root_node.
Proof. eexists. split; [vm_compute; reflexivity|]. vm_compute. discriminate. Qed.

(*  a/*  composed with  @*  *)
Definition pr1 : px := XPath PRel (RCons (st_child "a") false (ROne (SAxis AxChild NStar PNil))).
Definition pr2 : px := XPath PRel (ROne (SAxis AxAt NStar PNil)).
Example cat_text : print_min (path_cat pr1 pr2) = "a/*/@*". Proof. vm_compute. reflexivity. Qed.

Example compose_example :
  exists q q1 q2,
    compile Api.lit_ok "a/*/@*" None = Ok q /\ compile Api.lit_ok "a/*" None = Ok q1 /\
    compile Api.lit_ok "@*" None = Ok q2 /\
    SELECTx q root_node = Val [n_cz] /\ SELECTx q1 root_node = Val [n_b; n_c; n_e] /\
    (forall n, In n [n_cz] <-> exists m l2, In m [n_b; n_c; n_e] /\ SELECTx q2 m = Val l2 /\ In n l2) /\
    sorted_doc [n_cz].
Proof.
  destruct (C13_compose_end_to_end exD true hash_code lit_match lit_numsubexp lit_replace_all Api.lit_ok None
              pr1 pr2 false (snd (steps_of pr1)) (snd (steps_of pr2))) as (q & q1 & q2 & Ec & Ec1 & Ec2 & H).
  - apply path_syntax_b_ok. vm_compute. reflexivity.
  - vm_compute. reflexivity.
  - apply path_syntax_b_ok. vm_compute. reflexivity.
  - vm_compute. reflexivity.
  - vm_compute. reflexivity.
  - vm_compute. reflexivity.
  - vm_compute. reflexivity.
  - vm_compute. lia.
  - exact EndToEndPred.Examples.hash_ok_exD.
  - rewrite cat_text in Ec.
    assert (T1 : print_min pr1 = "a/*") by (vm_compute; reflexivity).
    assert (T2 : print_min pr2 = "@*") by (vm_compute; reflexivity).
    rewrite T1 in Ec1. rewrite T2 in Ec2.
    exists q, q1, q2. split; [exact Ec|]. split; [exact Ec1|]. split; [exact Ec2|].
    destruct (H root_node eq_refl) as (l & l1 & El & El1 & Hin & Hsort).
    vm_compute in Ec. inversion Ec; subst q. vm_compute in Ec1. inversion Ec1; subst q1.
    vm_compute in El. inversion El; subst l. vm_compute in El1. inversion El1; subst l1.
    split; [vm_compute; reflexivity|]. split; [vm_compute; reflexivity|]. split; [exact Hin|].
    apply Hsort. vm_compute. repeat constructor.
Qed.

End Examples.
