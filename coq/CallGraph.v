(* CallGraph.v -- definitions for the stack clause of C06:
   "Nesting beyond the engine's limits is reported as an error, not by exhausting
   the stack."

   The compile-time call graph of the Go engine is translated to plain data by
   go/cmd/gencallgraph (Generated/CallGraph.v): nodes (function names), edges
   (caller, callee, structural) and guards (function, limit).

   - a GUARDED function increments a depth counter on entry, stops (panic / error)
     when the counter exceeds its limit and decrements it on exit: at any time at
     most limit+1 of its frames are on the stack;
   - a STRUCTURAL edge is a call whose receiver is a field of the caller's own
     receiver: the recursion descends a tree that has already been built (bounded
     by the builder's guard), it does not follow the input text.

   What is checked (decidably, on every run): the graph that remains when guarded
   functions and structural edges are deleted has no cycle.  What is proved
   (Proofs/CallGraphProofs.v): under that check every call stack that respects the
   guards is bounded in LENGTH.  Stack BYTES per frame are not modelled; the
   translator is name based and trusted. *)
From Coq Require Import List String Bool Arith.
Import ListNotations.

Definition edge := (string * string * bool)%type.

(* membership in a list of names *)
Definition memb (x : string) (l : list string) : bool := existsb (String.eqb x) l.

(* n carries a depth guard *)
Definition guarded (guards : list (string * nat)) (n : string) : bool :=
  existsb (fun g => String.eqb (fst g) n) guards.

(* the nodes of the residual graph: the functions without a guard *)
Definition free_nodes (nodes : list string) (guards : list (string * nat)) : list string :=
  filter (fun n => negb (guarded guards n)) nodes.

(* n has a non structural edge into the set W *)
Definition has_succ (edges : list edge) (W : list string) (n : string) : bool :=
  existsb (fun e => match e with
                    | (a, b, s) => negb s && String.eqb a n && memb b W
                    end) edges.

(* one round of elimination: keep the nodes that still have a successor in W *)
Definition elim_step (edges : list edge) (W : list string) : list string :=
  filter (has_succ edges W) W.

(* W_k: after k rounds only the nodes from which a residual walk of k edges starts
   can remain *)
Fixpoint elim (edges : list edge) (k : nat) (W0 : list string) : list string :=
  match k with
  | 0 => W0
  | S k' => elim_step edges (elim edges k' W0)
  end.

(* the decidable obligation: topological elimination (Kahn, from the sinks) of the
   graph without guarded nodes and structural edges removes every node within
   |nodes| rounds, i.e. that graph is acyclic *)
Definition unguarded_acyclic (nodes : list string) (edges : list edge)
           (guards : list (string * nat)) : bool :=
  match elim edges (List.length nodes) (free_nodes nodes guards) with
  | [] => true
  | _ :: _ => false
  end.

(* ---- call stacks ---- *)

(* a frame: the function, and whether it was entered through a structural edge
   (the flag of the bottom frame is irrelevant; take false) *)
Definition frame := (string * bool)%type.

(* a call stack, outermost frame first: every function is a node of the graph and
   each frame was entered from the previous one through an edge of the graph whose
   structural flag is the flag of the frame *)
Fixpoint call_path (nodes : list string) (edges : list edge) (p : list frame) : Prop :=
  match p with
  | [] => True
  | f :: q =>
      In (fst f) nodes /\
      match q with
      | [] => True
      | f' :: _ => In (fst f, fst f', snd f') edges
      end /\
      call_path nodes edges q
  end.

(* number of frames of function g on the stack *)
Definition count_frames (g : string) (p : list frame) : nat :=
  List.length (filter (fun f => String.eqb g (fst f)) p).

(* number of frames entered through a structural edge *)
Definition count_struct (p : list frame) : nat :=
  List.length (filter (fun f : frame => snd f) p).

(* the stack respects the guards: a guarded function with limit l has at most l+1
   frames on the stack (the frame in which the counter reaches l+1 stops the
   descent).  This is what the guards enforce dynamically. *)
Definition respects_guards (guards : list (string * nat)) (p : list frame) : Prop :=
  forall g l, In (g, l) guards -> count_frames g p <= l + 1.

(* the total number of guarded frames a stack may hold *)
Fixpoint budget (guards : list (string * nat)) : nat :=
  match guards with
  | [] => 0
  | (_, l) :: r => (l + 1) + budget r
  end.

(* the bound proved in Proofs/CallGraphProofs.v: B guarded frames and sd structural
   entries cut the stack into at most B+sd+1 segments that are walks of an acyclic
   graph with N nodes *)
Definition stack_bound (nodes : list string) (guards : list (string * nat)) (sd : nat) : nat :=
  (budget guards + sd + 1) * List.length nodes + (budget guards + sd).
