(* Ast.v — token types, parse tree, query tree, run-time values.
   Mirrors parse.go (itemType, node types) and query.go (query types). *)
From XP Require Import Base F64 Doc.

Inductive itype :=
| IComma | ISlash | IAt | IDot | ILParens | IRParens | ILBracket | IRBracket
| IStar | IPlus | IMinus | IEq | ILt | IGt | IBang | IDollar | IApos | IQuote
| IUnion | INe | ILe | IGe | IAnd | IOr | IDotDot | ISlashSlash
| IName | IString | INumber | IAxe | IEOF.

Definition itype_eqb (a b : itype) : bool :=
  match a, b with
  | IComma, IComma | ISlash, ISlash | IAt, IAt | IDot, IDot | ILParens, ILParens
  | IRParens, IRParens | ILBracket, ILBracket | IRBracket, IRBracket | IStar, IStar
  | IPlus, IPlus | IMinus, IMinus | IEq, IEq | ILt, ILt | IGt, IGt | IBang, IBang
  | IDollar, IDollar | IApos, IApos | IQuote, IQuote | IUnion, IUnion | INe, INe
  | ILe, ILe | IGe, IGe | IAnd, IAnd | IOr, IOr | IDotDot, IDotDot
  | ISlashSlash, ISlashSlash | IName, IName | IString, IString | INumber, INumber
  | IAxe, IAxe | IEOF, IEOF => true
  | _, _ => false
  end.

(* parse tree (parse.go: rootNode, axisNode, filterNode, functionNode,
   operatorNode, operandNode, variableNode, groupNode) *)
Inductive anode :=
| ARoot (slash : string)
| AAxis (axis : string) (tt : ntype) (pre loc prop : string) (hasns : bool) (ns : string)
        (input : option anode)
| AFilter (input cond : anode)
| AFunc (pre name : string) (args : list anode)
| AOp (op : string) (l r : anode)
| ANum (v : f64)
| AStr (s : string)
| AVar (pre name : string)
| AGroup (input : anode).

(* the closure returned by axisPredicate: what it captured from the axisNode *)
Record ntest := mkTest {
  nt_type : ntype; nt_pre : string; nt_loc : string; nt_hasns : bool; nt_ns : string }.

Inductive cmpop := CEq | CNe | CLt | CLe | CGt | CGe.
Inductive arith := OAdd | OSub | OMul | ODiv | OMod.

Inductive fn0 := FTrue | FFalse.
Inductive fn1 := FCount | FSum | FCeiling | FFloor | FRound | FBoolean | FNumber | FString
               | FNot | FNormalizeSpace | FStringLength | FLowerCase
               | FName | FLocalName | FNamespaceURI.
Inductive fn2 := FStartsWith | FEndsWith | FContains | FMatches
               | FSubstringBefore | FSubstringAfter | FStringJoin.
Inductive fn3 := FSubstring | FTranslate | FReplace.

(* query tree.  QNil is Go's nil query (absent optional argument);
   QArg chains hold the arguments of concat(). *)
Inductive query :=
| QNil
| QNop
| QContext
| QAbsolute
| QAncestor (self : bool) (t : ntest) (i : query)
| QAttribute (t : ntest) (i : query)
| QChild (t : ntest) (i : query)
| QCachedChild (t : ntest) (i : query)
| QDescendant (self : bool) (t : ntest) (i : query)
| QFollowing (sibling : bool) (t : ntest) (i : query)
| QPreceding (sibling : bool) (t : ntest) (i : query)
| QParent (t : ntest) (i : query)
| QSelf (t : ntest) (i : query)
| QFilter (nopos : bool) (i p : query)
| QFn0 (f : fn0)
| QFn1 (f : fn1) (a : query)
| QFn2 (f : fn2) (a b : query)
| QFn3 (f : fn3) (a b c : query)
| QConcat (args : query)
| QArg (a rest : query)
| QPosition (i : query)          (* functionQuery{Input: firstInput, Func: positionFunc()} *)
| QLast (i : query)              (* functionQuery{Input: firstInput, Func: lastFunc()} *)
| QReverse (i : query)           (* transformFunctionQuery{Func: reverseFunc} *)
| QNum (v : f64)
| QStr (s : string)
| QGroup (i : query)
| QLogical (op : cmpop) (l r : query)
| QNumeric (op : arith) (l r : query)
| QBoolean (isor : bool) (l r : query)
| QUnion (l r : query)
| QLastFunc (i : query)          (* lastFuncQuery *)
| QDoD (matchself : bool) (t : ntest) (i : query)
| QMerge (i child : query).

(* what a query's Select hands out: the node and the query's position() /
   depth() at the moment the node was returned *)
Record item := mkItem { it_node : node; it_pos : nat; it_lvl : nat }.

Inductive value :=
| VBool (b : bool)
| VNum (f : f64)
| VStr (s : string)
| VNodes (l : list item)
| VInt (z : Z)       (* round() returns a Go int *)
| VNil.              (* nopQuery.Evaluate *)

(* results of compile-time functions: Go's (value, error) with panics *)
Inductive cres (A : Type) :=
| Ok (a : A)
| Err (msg : string)       (* error return, or a panic recovered by build *)
| OutOfFuel.
Arguments Ok {A} a.
Arguments Err {A} msg.
Arguments OutOfFuel {A}.

Definition cbind {A B} (x : cres A) (f : A -> cres B) : cres B :=
  match x with Ok a => f a | Err m => Err m | OutOfFuel => OutOfFuel end.
Notation "'let*' x := e 'in' f" := (cbind e (fun x => f))
  (at level 200, x pattern, e at level 100, f at level 200, right associativity).
