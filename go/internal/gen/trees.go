package gen

import (
	"fmt"

	"github.com/antchfx/xpath"
	"verif/internal/doc"
)

// HandTrees is the corpus of hand-made documents (compact notation of doc.Parse).
var HandTrees = []string{
	`a`,
	`a(b)`,
	`a(a)`,
	`a(a(a))`,
	`a(b,b)`,
	`a(b(a),b)`,
	`a(b(c),b(c(b)),"t")`,
	`a(@x=1,b(@x=2,"u"),"t",a(b(a,"v"),a))`,
	`a(b(a(b),b),a(b),b(a,a))`,
	`b(a("1"),a("2"),b(a("3"),b(a("4"))),a(@y=5))`,
	`a(a(a(a),a),a(a))`,
	`a("t",b,"u",b(@x=1,@y=2),#c)`,
	`a(@x=1,@y=2,b(@x=1),b(@x=3,b(@y=2)),c("1"),c("2"),c(" 3 "),c("x"))`,
	`#top,a(b("1"),#c,b("2"),"t"),#end`,
	`a-1(a,a-1(@x=1-1,a(@x=1)),b-2-3("1-1"),b("a=1"))`,
}

// SmallShapes enumerates every ordered tree with exactly n element nodes
// (names given by the digits of code in base len(names)), optionally
// decorated.  Shapes are enumerated as balanced-parenthesis words.
func SmallShapes(n int) [][]int {
	// a shape is the parent vector of nodes 1..n-1 in pre-order
	var out [][]int
	var rec func(par []int, stack []int)
	rec = func(par []int, stack []int) {
		if len(par) == n {
			out = append(out, append([]int{}, par...))
			return
		}
		// the next node is a child of any node on the rightmost path
		for i := len(stack) - 1; i >= 0; i-- {
			p := stack[i]
			id := len(par)
			ns := append(append([]int{}, stack[:i+1]...), id)
			rec(append(par, p), ns)
		}
	}
	rec([]int{-1}, []int{0})
	return out
}

// BuildShape materialises a parent vector with element names chosen by name(i).
func BuildShape(par []int, name func(i int) string) *doc.Node {
	root := &doc.Node{Type: xpath.RootNode}
	nodes := make([]*doc.Node, len(par))
	for i, p := range par {
		n := &doc.Node{Type: xpath.ElementNode, Name: name(i)}
		nodes[i] = n
		if p < 0 {
			root.Add(n)
		} else {
			nodes[p].Add(n)
		}
	}
	return root
}

// Decorate adds attributes, text and comment nodes deterministically from r.
func Decorate(root *doc.Node, r *Rand, pct int) {
	var els []*doc.Node
	var walk func(n *doc.Node)
	walk = func(n *doc.Node) {
		if n.Type == xpath.ElementNode {
			els = append(els, n)
		}
		for _, c := range n.Children {
			walk(c)
		}
	}
	walk(root)
	vals := []string{"1", "2", "3", "u", "", " 2 ", "x1", "-1", "1.5"}
	for _, e := range els {
		if r.Chance(pct) {
			e.Attrs = append(e.Attrs, &doc.Attr{Name: "x", Value: r.Pick(vals)})
		}
		if r.Chance(pct / 2) {
			e.Attrs = append(e.Attrs, &doc.Attr{Name: "y", Value: r.Pick(vals)})
		}
		if r.Chance(pct) {
			// insert a text or comment child at a random position
			c := &doc.Node{Type: xpath.TextNode, Data: r.Pick(vals)}
			if r.Chance(25) {
				c = &doc.Node{Type: xpath.CommentNode, Data: r.Pick(vals)}
			}
			pos := r.Intn(len(e.Children) + 1)
			kids := append([]*doc.Node{}, e.Children[:pos]...)
			kids = append(kids, c)
			kids = append(kids, e.Children[pos:]...)
			e.Children = nil
			for _, k := range kids {
				e.Add(k)
			}
		}
	}
}

// RandomTree builds a random document with about size nodes.
func RandomTree(r *Rand, size int, names []string, decoPct int) *doc.Node {
	root := &doc.Node{Type: xpath.RootNode}
	top := &doc.Node{Type: xpath.ElementNode, Name: r.Pick(names)}
	root.Add(top)
	els := []*doc.Node{top}
	for i := 1; i < size; i++ {
		// bias towards recent nodes for depth
		var p *doc.Node
		if r.Chance(50) {
			p = els[len(els)-1-r.Intn(min(3, len(els)))]
		} else {
			p = els[r.Intn(len(els))]
		}
		n := &doc.Node{Type: xpath.ElementNode, Name: r.Pick(names)}
		p.Add(n)
		els = append(els, n)
	}
	Decorate(root, r, decoPct)
	return root
}

func min(a, b int) int {
	if a < b {
		return a
	}
	return b
}

// Docs is a numbered collection of documents written to a case file.
type Docs struct {
	Roots []*doc.Node
	HasNS []bool
}

func (d *Docs) Add(root *doc.Node, hasNS bool) int {
	d.Roots = append(d.Roots, root)
	d.HasNS = append(d.HasNS, hasNS)
	return len(d.Roots) - 1
}

func DocID(i int) string { return fmt.Sprintf("d%d", i) }

// RegularTree: a complete tree, every inner element named name with `branch` children, `depth`
// levels below the top element (the leaves are named name as well)
func RegularTree(branch, depth int, name string) *doc.Node {
	root := &doc.Node{Type: xpath.RootNode}
	var build func(level int) *doc.Node
	build = func(level int) *doc.Node {
		n := &doc.Node{Type: xpath.ElementNode, Name: name}
		if level < depth {
			for i := 0; i < branch; i++ {
				n.Add(build(level + 1))
			}
		}
		return n
	}
	root.Add(build(0))
	return root
}
