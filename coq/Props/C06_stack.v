(* C06, the stack clause -- "Nesting beyond the engine's limits is reported as an
   error, not by exhausting the stack."

   Property theorems only; definitions in CallGraph.v, proofs in
   Proofs/CallGraphProofs.v, data in Generated/CallGraph.v (rewritten from the Go
   sources on every run by go/cmd/gencallgraph) and Generated/CallGraph_ok.v.

   Reading.  A call stack during Compile / CompileWithNS / MustCompile is a
   call_path of the generated graph: a list of frames (function, entered through a
   structural edge?), outermost first, consecutive frames joined by an edge.
     - respects_guards: a guarded function with limit l (parser.parseExpression and
       parser.parseSequence: 200, builder.processNode: 1024) has at most l+1 frames
       on the stack.  This is what the guards enforce DYNAMICALLY (counter
       incremented on entry, panic / error beyond the limit, decremented on exit);
       it is validated by the deep-nesting tests on the Go side, not proved here.
     - count_struct p <= sd: at most sd frames were entered through a structural
       edge, i.e. by descending a field of the caller's receiver
       (filterQuery.Properties -> f.Input.Properties(), groupQuery.ValueType ->
       g.Input.ValueType(), and the String methods of the parse tree that fmt may
       call).  These recursions descend an already built tree: the query tree has
       depth at most 2 * 1024 (every level of builder.processNode adds at most two
       query levels, mergeQuery over filterQuery) and the only parse-tree node that
       is ever printed during Compile is a variableNode, a leaf.  sd = 2048 is
       therefore a safe value; the theorem is stated for every sd.

   Limits of the statement: stack BYTES per frame are not modelled (the bound is on
   the NUMBER of frames of engine functions; calls into the standard library --
   fmt, strconv, unicode, regexp.Compile -- are leaves of the graph); the translator
   is name based, over-approximating and trusted; function literals are inlined in
   the function that creates them when they are called there, and skipped when they
   escape (they run at evaluation time). *)
From Coq Require Import List String Arith NArith Lia.
Import ListNotations.
From XP Require Import CallGraph.
From XP.Generated Require Import CallGraph CallGraph_ok.
From XP.Proofs Require Import CallGraphProofs.

(* the obligation re-checked on every run: without the guarded functions and the
   structural edges the compile-time call graph has no cycle (every recursion that
   follows the nesting of the input passes through a depth guard) *)
Theorem C06_callgraph_ok : unguarded_acyclic cg_nodes cg_edges cg_guards = true.
Proof. exact callgraph_ok. Qed.
Print Assumptions C06_callgraph_ok.

(* the three guards and their limits, as read from the sources *)
Theorem C06_guards_present :
  In ("parser.parseExpression"%string, 200) cg_guards /\
  In ("parser.parseSequence"%string, 200) cg_guards /\
  In ("builder.processNode"%string, 1024) cg_guards.
Proof. vm_compute. intuition. Qed.
Print Assumptions C06_guards_present.

(* any guard-respecting call stack of Compile with at most sd structural entries
   has at most (B + sd + 1) * N + B + sd frames, N = number of functions of the
   graph, B = sum of (limit + 1) over the guards *)
Theorem C06_stack_bounded :
  forall (sd : nat) (p : list frame),
    call_path cg_nodes cg_edges p ->
    respects_guards cg_guards p ->
    count_struct p <= sd ->
    List.length p <= stack_bound cg_nodes cg_guards sd.
Proof.
  intros sd p Hpath Hresp Hs.
  exact (stack_bounded cg_nodes cg_edges cg_guards sd p callgraph_ok Hpath Hresp Hs).
Qed.
Print Assumptions C06_stack_bounded.

(* the constants of the current graph (printed at compile time) *)
Eval vm_compute in (List.length cg_nodes, budget cg_guards).
Eval vm_compute in (N.of_nat (budget cg_guards + 2048 + 1) * N.of_nat (List.length cg_nodes)
                    + N.of_nat (budget cg_guards + 2048))%N.

(* the explicit number: with sd = 2048 the stack never holds more than 500543
   frames of engine functions (N = 143, B = 201 + 201 + 1025 = 1427:
   (1427 + 2048 + 1) * 143 + 1427 + 2048 = 500543).  The statement uses the round
   ceiling 600000 so that it survives small changes of the sources; the exact value
   for the current sources is the one printed above. *)
Theorem C06_stack_bounded_explicit :
  forall p : list frame,
    call_path cg_nodes cg_edges p ->
    respects_guards cg_guards p ->
    count_struct p <= 2048 ->
    (N.of_nat (List.length p) <= 600000)%N.
Proof.
  intros p Hpath Hresp Hs.
  pose proof (C06_stack_bounded 2048 p Hpath Hresp Hs) as Hb.
  assert (Hc : (N.of_nat (stack_bound cg_nodes cg_guards 2048) <= 600000)%N).
  { unfold stack_bound. rewrite Nat2N.inj_add, Nat2N.inj_mul.
    vm_compute. discriminate. }
  lia.
Qed.
Print Assumptions C06_stack_bounded_explicit.

(* The non-vacuity examples (concrete call paths of the generated graph that meet the hypotheses)
   are in Proofs/CallGraphExamples.v: they name functions of the current sources, so a renaming in
   /repo can break THEM without touching the theorems above. *)
