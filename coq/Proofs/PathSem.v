(* Proofs/PathSem.v — query level: the node set selected by the engine's
   query for a predicate-free location path is the XPath 1.0 denotation of
   the path (Spec/Paths.v). *)
From XP Require Import Base Doc Ast Hash Eval Api.
From XP.Spec Require Import Axes Paths.
From XP.Proofs Require Import HashInj AxesSound.
Open Scope nat_scope.
Open Scope list_scope.

(* ------------------------------------------------------------------ *)
(* the engine's query constructor of each axis *)

Definition axis_query (a : axis) (t : ntest) (i : query) : query :=
  match a with
  | Child => QChild t i
  | Descendant => QDescendant false t i
  | DescendantOrSelf => QDescendant true t i
  | Parent => QParent t i
  | Ancestor => QAncestor false t i
  | AncestorOrSelf => QAncestor true t i
  | FollowingSibling => QFollowing true t i
  | PrecedingSibling => QPreceding true t i
  | Attribute => QAttribute t i
  | Self => QSelf t i
  | Following => QFollowing false t i
  | Preceding => QPreceding false t i
  end.

(* step1/step2/... over a base query (QContext: relative, QAbsolute: absolute) *)
Definition chain (base : query) (steps : list sstep) : query :=
  fold_left (fun q s => axis_query (s_axis s) (s_test s) q) steps base.

Lemma chain_snoc : forall base steps s,
  chain base (steps ++ [s]) = axis_query (s_axis s) (s_test s) (chain base steps).
Proof. intros. unfold chain. rewrite fold_left_app. reflexivity. Qed.

(* ------------------------------------------------------------------ *)
(* relations on nodes *)

Definition rel := node -> node -> Prop.
Definition comp (R S : rel) : rel := fun c n => exists k, R c k /\ S k n.
Definition req (R S : rel) : Prop := forall c n, R c n <-> S c n.

Lemma path_den_snoc : forall D has_ns steps s start n,
  path_den D has_ns (steps ++ [s]) start n <->
  exists k, path_den D has_ns steps start k /\ step_rel D has_ns s k n.
Proof.
  intros D has_ns steps s. induction steps as [|s0 steps IH]; intros start n; cbn [app path_den].
  - split.
    + intros (k & Hk & ->). eauto.
    + intros (k & -> & Hk). eauto.
  - split.
    + intros (k & Hk & H). apply IH in H. destruct H as (k' & H1 & H2). eauto.
    + intros (k' & (k & Hk & H1) & H2). exists k. split; [assumption|]. apply IH. eauto.
Qed.

Lemma axis_rel_valid : forall D a n m, axis_rel D a n m -> valid D m = true.
Proof. intros D a n m H. destruct a; apply H. Qed.

Lemma step_rel_valid : forall D has_ns s n m, step_rel D has_ns s n m -> valid D m = true.
Proof. intros D has_ns s n m [H _]. eapply axis_rel_valid; eassumption. Qed.

Lemma path_den_valid : forall D has_ns steps start n,
  valid D start = true -> path_den D has_ns steps start n -> valid D n = true.
Proof.
  intros D has_ns steps. induction steps as [|s steps IH]; intros start n Hs H; cbn [path_den] in H.
  - subst. assumption.
  - destruct H as (k & Hk & H). apply (IH k); [|assumption]. eapply step_rel_valid; eassumption.
Qed.

(* every valid node address is listed by [all_nodes] *)
Lemma valid_root : forall D, valid D root_node = true.
Proof. reflexivity. Qed.

Lemma valid_in_all_nodes : forall D n, valid D n = true -> In n (all_nodes D).
Proof.
  intros D [p a] Hn. unfold all_nodes. apply in_flat_map.
  assert (Ho : valid D (mkNode p None) = true).
  { apply (valid_prefix D p [] a). rewrite app_nil_r. assumption. }
  exists (mkNode p None). split.
  - apply in_desc_or_self; [apply valid_root|].
    destruct p as [|i p]; [left; reflexivity|]. right.
    repeat split; auto. exists (i :: p). split; [discriminate|reflexivity].
  - destruct a as [i|]; [|left; reflexivity]. right.
    apply in_attributes_after_elem; [assumption|reflexivity|].
    repeat split; auto. exists i. reflexivity.
Qed.

(* ------------------------------------------------------------------ *)
Section Sem.
Variable D : tree.
Variable has_ns : bool.
Variable hcode : node -> N.
Variable rm : string -> string -> option bool.
Variable rn : string -> nat.
Variable rr : string -> string -> string -> string.
Hypothesis Hhash : hash_ok hcode (all_nodes D).

Notation SEL := (sel D has_ns hcode rm rn rr).

(* [q] never fails from a valid context node, yields valid nodes only, and
   the SET of nodes it yields from c is { n | R c n } *)
Definition qden (q : query) (R : rel) : Prop :=
  forall c, valid D c = true ->
  exists l, SEL q c = Val l /\
            (forall n, In n (nodes_of l) -> valid D n = true) /\
            (forall n, In n (nodes_of l) <-> R c n).

Lemma qden_ext : forall q R R', req R R' -> qden q R -> qden q R'.
Proof.
  intros q R R' E H c Hc. destruct (H c Hc) as (l & E1 & Hv & Hin).
  exists l. repeat split; auto; intros Hn; [apply E, Hin|apply Hin, E]; assumption.
Qed.

Lemma qden_context : qden QContext (fun c n => n = c).
Proof.
  intros c Hc. exists [mkItem c 1 0]. split; [reflexivity|]. cbn [nodes_of map it_node In]. split.
  - intros n [<-|[]]. assumption.
  - intros n. split; [intros [<-|[]]; reflexivity|intros ->; left; reflexivity].
Qed.

Lemma qden_absolute : qden QAbsolute (fun _ n => n = root_node).
Proof.
  intros c Hc. exists [mkItem root_node 1 0]. split; [reflexivity|]. cbn [nodes_of map it_node In]. split.
  - intros n [<-|[]]. apply valid_root.
  - intros n. split; [intros [<-|[]]; reflexivity|intros ->; left; reflexivity].
Qed.

Lemma in_nodes_of_flat_map : forall (f : node -> list item) l m,
  In m (nodes_of (flat_map (fun it => f (it_node it)) l)) <->
  exists k, In k (nodes_of l) /\ In m (nodes_of (f k)).
Proof.
  intros f l m. rewrite nodes_of_flat_map, in_flat_map. split.
  - intros (it & Hit & Hm). exists (it_node it). split; [|assumption].
    apply in_map. assumption.
  - intros (k & Hk & Hm). apply in_map_iff in Hk. destruct Hk as (it & <- & Hit). eauto.
Qed.

(* a query that maps a per-node step function over its input *)
Lemma qden_step : forall q i (f : node -> list item) (R S : rel),
  (forall c, SEL q c = do l <- SEL i c; Val (flat_map (fun it => f (it_node it)) l)) ->
  (forall k m, valid D k = true -> (In m (nodes_of (f k)) <-> S k m)) ->
  (forall k m, S k m -> valid D m = true) ->
  qden i R -> qden q (comp R S).
Proof.
  intros q i f R S Hsel Hf HS Hi c Hc.
  destruct (Hi c Hc) as (l & E & Hv & Hin).
  exists (flat_map (fun it => f (it_node it)) l). split.
  - rewrite Hsel, E. reflexivity.
  - split.
    + intros n Hn. apply in_nodes_of_flat_map in Hn. destruct Hn as (k & Hk & Hn).
      apply (HS k). apply Hf; auto.
    + intros n. rewrite in_nodes_of_flat_map. unfold comp. split.
      * intros (k & Hk & Hn). exists k. split; [apply Hin; assumption|apply Hf; auto].
      * intros (k & Hk & Hn). exists k. apply Hin in Hk. split; [assumption|apply Hf; auto].
Qed.

(* ---- ancestorQuery: one hash table across all input nodes ---- *)

Lemma hash_valid_inj : forall a b,
  valid D a = true -> valid D b = true -> hcode a = hcode b -> a = b.
Proof. intros a b Ha Hb. apply Hhash; apply valid_in_all_nodes; assumption. Qed.

Lemma ancestor_raw_valid : forall self t k x,
  valid D k = true -> In x (step_ancestor_raw D has_ns self t k) -> valid D x = true.
Proof.
  intros self t k x Hk Hx. destruct self.
  - apply step_ancestor_or_self_raw_spec in Hx; [|assumption]. apply Hx.
  - apply step_ancestor_raw_spec in Hx; [|assumption]. apply Hx.
Qed.

Lemma ancestors_all_In : forall self t inputs seen x,
  (forall k, In k inputs -> valid D k = true) ->
  (In x (ancestors_all D has_ns hcode self t seen inputs) <->
   (exists k, In k inputs /\ In x (step_ancestor_raw D has_ns self t k)) /\ ~ In (hcode x) seen).
Proof.
  intros self t. induction inputs as [|n r IH]; intros seen x Hv.
  - cbn [ancestors_all In]. split; [intros []|intros ((k & [] & _) & _)].
  - cbn [ancestors_all].
    destruct (dedup_hash hcode seen (step_ancestor_raw D has_ns self t n)) as [l seen'] eqn:Ed.
    destruct (dedup_hash_inv hcode _ _ _ _ Ed) as (I1 & _ & I3 & I4).
    assert (Hvr : forall k, In k r -> valid D k = true) by (intros; apply Hv; right; assumption).
    assert (Hvn : valid D n = true) by (apply Hv; left; reflexivity).
    rewrite in_app_iff, (IH seen' x Hvr). split.
    + intros [Hx|((k & Hk & Hx) & Hns)].
      * apply I1 in Hx. destruct Hx as [Hx Hns]. split; [|assumption].
        exists n. split; [left; reflexivity|assumption].
      * split; [exists k; split; [right|]; assumption|].
        intros Hs. apply Hns. apply I4. left. assumption.
    + intros ((k & Hk & Hx) & Hns).
      assert (Hvx : valid D x = true).
      { apply (ancestor_raw_valid self t k); [apply Hv|]; assumption. }
      destruct (in_dec N.eq_dec (hcode x) (map hcode l)) as [Hl|Hnl].
      * left. apply in_map_iff in Hl. destruct Hl as (y & Ey & Hy).
        assert (Hvy : valid D y = true).
        { apply I1 in Hy. destruct Hy as [Hy _]. apply (ancestor_raw_valid self t n); assumption. }
        rewrite <- (hash_valid_inj y x Hvy Hvx Ey). assumption.
      * right. destruct Hk as [<-|Hk].
        -- destruct (I3 x Hx) as [H|H]; contradiction.
        -- split; [eauto|]. intros Hs. apply I4 in Hs. destruct Hs; contradiction.
Qed.

Lemma qden_ancestor : forall self t i (R S : rel),
  (forall k m, valid D k = true -> (In m (step_ancestor_raw D has_ns self t k) <-> S k m)) ->
  qden i R -> qden (QAncestor self t i) (comp R S).
Proof.
  intros self t i R S HS Hi c Hc. destruct (Hi c Hc) as (l & E & Hv & Hin).
  exists (unnumbered (ancestors_all D has_ns hcode self t [] (nodes_of l))). split.
  - change (SEL (QAncestor self t i) c)
      with (do l <- SEL i c; Val (unnumbered (ancestors_all D has_ns hcode self t [] (nodes_of l)))).
    rewrite E. reflexivity.
  - rewrite AxesSound.nodes_of_unnumbered. split.
    + intros n Hn. apply ancestors_all_In in Hn; [|assumption].
      destruct Hn as ((k & Hk & Hn) & _). apply (ancestor_raw_valid self t k); auto.
    + intros n. rewrite ancestors_all_In by assumption. unfold comp. split.
      * intros ((k & Hk & Hn) & _). exists k. split; [apply Hin; assumption|apply HS; auto].
      * intros (k & Hk & Hn). split; [|intros []]. exists k. apply Hin in Hk.
        split; [assumption|apply HS; auto].
Qed.

(* ---- one step of each of the twelve axes ---- *)

Theorem qden_axis : forall a t i R,
  qden i R -> qden (axis_query a t i) (comp R (step_rel D has_ns (mkStep a t))).
Proof.
  intros a t i R Hi.
  assert (HS : forall k m, step_rel D has_ns (mkStep a t) k m -> valid D m = true).
  { intros k m. apply step_rel_valid. }
  unfold step_rel in *. cbn [s_axis s_test] in *.
  destruct a; cbn [axis_query axis_rel] in *.
  - apply (qden_step _ i (step_child D has_ns t)); auto. intros; apply step_child_spec; assumption.
  - apply (qden_step _ i (step_descendant D has_ns false t)); auto.
    intros; apply step_descendant_spec; assumption.
  - apply (qden_step _ i (step_descendant D has_ns true t)); auto.
    intros; apply step_descendant_or_self_spec; assumption.
  - apply (qden_step _ i (step_parent D has_ns t)); auto. intros; apply step_parent_spec; assumption.
  - apply qden_ancestor; auto. intros; apply step_ancestor_raw_spec; assumption.
  - apply qden_ancestor; auto. intros; apply step_ancestor_or_self_raw_spec; assumption.
  - apply (qden_step _ i (step_following_sibling D has_ns t)); auto.
    intros; apply step_following_sibling_spec; assumption.
  - apply (qden_step _ i (step_preceding_sibling D has_ns t)); auto.
    intros; apply step_preceding_sibling_spec; assumption.
  - apply (qden_step _ i (step_attribute D has_ns t)); auto.
    intros; apply step_attribute_spec; assumption.
  - apply (qden_step _ i (step_self D has_ns t)); auto. intros; apply step_self_spec; assumption.
  - apply (qden_step _ i (step_following D has_ns t)); auto.
    intros; apply step_following_spec; assumption.
  - apply (qden_step _ i (step_preceding D has_ns t)); auto.
    intros; apply step_preceding_spec; assumption.
Qed.

(* cachedChildQuery selects what childQuery selects *)
Theorem qden_cached_child : forall t i R,
  qden i R -> qden (QCachedChild t i) (comp R (step_rel D has_ns (mkStep Child t))).
Proof.
  intros t i R Hi.
  apply (qden_step _ i (step_child D has_ns t)); auto.
  - intros; apply step_child_spec; assumption.
  - intros k m. apply step_rel_valid.
Qed.

(* descendant-over-descendant: the top-most matches only *)
Definition dod_rel (matchself : bool) (t : ntest) : rel :=
  fun k m => if matchself && match_test D has_ns t k then m = k /\ valid D k = true
             else top_match D has_ns t k m.

Theorem qden_dod : forall matchself t i R,
  qden i R -> qden (QDoD matchself t i) (comp R (dod_rel matchself t)).
Proof.
  intros matchself t i R Hi.
  apply (qden_step _ i (step_dod D has_ns matchself t)); auto.
  - intros k m Hk. unfold dod_rel. destruct matchself.
    + rewrite step_dod_matchself_spec by assumption. cbn [andb].
      destruct (match_test D has_ns t k); [|reflexivity]. split; [intros ->; auto|intros [-> _]; auto].
    + apply step_dod_spec. assumption.
  - intros k m. unfold dod_rel.
    destruct (matchself && match_test D has_ns t k).
    + intros [-> H]. assumption.
    + intros (H & _). apply H.
Qed.

(* ---- whole paths ---- *)

Theorem chain_qden : forall base B steps,
  qden base B ->
  qden (chain base steps) (fun c n => exists s0, B c s0 /\ path_den D has_ns steps s0 n).
Proof.
  intros base B steps Hb. induction steps as [|s steps IH] using rev_ind.
  - eapply qden_ext; [|exact Hb]. intros c n. cbn [path_den]. split.
    + intros H. eauto.
    + intros (s0 & H & ->). assumption.
  - rewrite chain_snoc. eapply qden_ext; [|apply qden_axis; exact IH].
    intros c n. unfold comp. destruct s as [a t]. cbn [s_axis s_test]. split.
    + intros (k & (s0 & Hs0 & Hk) & Hn). exists s0. split; [assumption|].
      apply path_den_snoc. eauto.
    + intros (s0 & Hs0 & H). apply path_den_snoc in H. destruct H as (k & Hk & Hn). eauto.
Qed.

End Sem.

(* ------------------------------------------------------------------ *)
(* the headline statements *)

Theorem chain_den : forall D has_ns hcode rm rn rr steps c,
  hash_ok hcode (all_nodes D) -> valid D c = true ->
  exists l, sel D has_ns hcode rm rn rr (chain QContext steps) c = Val l /\
            (forall n, In n (nodes_of l) -> valid D n = true) /\
            (forall n, In n (nodes_of l) <-> path_den D has_ns steps c n).
Proof.
  intros D has_ns hcode rm rn rr steps c Hh Hc.
  destruct (chain_qden D has_ns hcode rm rn rr Hh QContext _ steps
              (qden_context D has_ns hcode rm rn rr) c Hc) as (l & E & Hv & Hin).
  exists l. repeat split; auto.
  - intros H. apply Hin in H. destruct H as (s0 & -> & H). assumption.
  - intros H. apply Hin. eauto.
Qed.
Print Assumptions chain_den.

Theorem chain_den_abs : forall D has_ns hcode rm rn rr steps c,
  hash_ok hcode (all_nodes D) -> valid D c = true ->
  exists l, sel D has_ns hcode rm rn rr (chain QAbsolute steps) c = Val l /\
            (forall n, In n (nodes_of l) -> valid D n = true) /\
            (forall n, In n (nodes_of l) <-> abs_path_den D has_ns steps n).
Proof.
  intros D has_ns hcode rm rn rr steps c Hh Hc.
  destruct (chain_qden D has_ns hcode rm rn rr Hh QAbsolute _ steps
              (qden_absolute D has_ns hcode rm rn rr) c Hc) as (l & E & Hv & Hin).
  exists l. repeat split; auto.
  - intros H. apply Hin in H. destruct H as (s0 & -> & H). assumption.
  - intros H. apply Hin. exists root_node. auto.
Qed.
Print Assumptions chain_den_abs.

(* Expr.Select (Api.v) *)
Corollary select_chain_den : forall rm rn rr (hcode : tree -> node -> N) D has_ns steps c,
  hash_ok (hcode D) (all_nodes D) -> valid D c = true ->
  exists ns, select rm rn rr hcode D has_ns (chain QContext steps) c = Val ns /\
             (forall n, In n ns <-> path_den D has_ns steps c n).
Proof.
  intros rm rn rr hcode D has_ns steps c Hh Hc.
  destruct (chain_den D has_ns (hcode D) rm rn rr steps c Hh Hc) as (l & E & _ & Hin).
  exists (nodes_of l). split; [|assumption]. unfold select. rewrite E. reflexivity.
Qed.

Corollary select_chain_den_abs : forall rm rn rr (hcode : tree -> node -> N) D has_ns steps c,
  hash_ok (hcode D) (all_nodes D) -> valid D c = true ->
  exists ns, select rm rn rr hcode D has_ns (chain QAbsolute steps) c = Val ns /\
             (forall n, In n ns <-> abs_path_den D has_ns steps n).
Proof.
  intros rm rn rr hcode D has_ns steps c Hh Hc.
  destruct (chain_den_abs D has_ns (hcode D) rm rn rr steps c Hh Hc) as (l & E & _ & Hin).
  exists (nodes_of l). split; [|assumption]. unfold select. rewrite E. reflexivity.
Qed.
Print Assumptions select_chain_den.

(* ------------------------------------------------------------------ *)
(* Examples: the hypotheses hold and the theorem applies on HashInj's
   sample document
     <a x p:x y>t<p:b x>t</p:b>t<!--t--></a><!--t-->                  *)
Module Examples.
Open Scope string_scope.

Definition named (s : string) : ntest := mkTest NTElem "" s false "".
Definition SELs := sel sample_doc false (hash_code sample_doc) (fun _ _ => None) (fun _ => 0) (fun _ s _ => s).

(*  a/descendant-or-self::node()/ancestor-or-self::*/@*  from the root:
    the ancestor step meets the element a from three inputs and yields it once *)
Definition p1 : list sstep :=
  [ mkStep Child (named "a"); mkStep DescendantOrSelf any_test;
    mkStep AncestorOrSelf elem_test; mkStep Attribute any_test ].

Example ex_p1_query :
  chain QContext p1 =
  QAttribute any_test (QAncestor true elem_test (QDescendant true any_test (QChild (named "a") QContext))).
Proof. reflexivity. Qed.

Example ex_p1_run :
  exists l, SELs (chain QContext p1) root_node = Val l /\
            nodes_of l = [mkNode [0] (Some 0); mkNode [0] (Some 1); mkNode [0] (Some 2);
                          mkNode [0;1] (Some 0)].
Proof. eexists. split; vm_compute; reflexivity. Qed.

(* hence, by the theorem, a statement about the XPath denotation *)
Example ex_p1_den : path_den sample_doc false p1 root_node (mkNode [0;1] (Some 0)).
Proof.
  destruct (chain_den sample_doc false (hash_code sample_doc) (fun _ _ => None) (fun _ => 0)
                      (fun _ s _ => s) p1 root_node hash_ok_sample eq_refl) as (l & E & _ & Hin).
  apply Hin. destruct ex_p1_run as (l' & E' & Hl'). unfold SELs in E'.
  rewrite E in E'. inversion E'; subst l'. rewrite Hl'. cbn [In]. auto.
Qed.

Example ex_p1_not_den : ~ path_den sample_doc false p1 root_node (mkNode [0;1] None).
Proof.
  destruct (chain_den sample_doc false (hash_code sample_doc) (fun _ _ => None) (fun _ => 0)
                      (fun _ s _ => s) p1 root_node hash_ok_sample eq_refl) as (l & E & _ & Hin).
  intros H. apply Hin in H. destruct ex_p1_run as (l' & E' & Hl'). unfold SELs in E'.
  rewrite E in E'. inversion E'; subst l'. rewrite Hl' in H. cbn [In] in H.
  intuition discriminate.
Qed.

(*  /descendant::text()/preceding::node()  (absolute, context node irrelevant) *)
Definition text_t : ntest := mkTest NTText "" "" false "".
Definition p2 : list sstep := [ mkStep Descendant text_t; mkStep Preceding any_test ].

Example ex_p2_run :
  exists l, SELs (chain QAbsolute p2) (mkNode [0;1] (Some 0)) = Val l /\
            nodes_of l = [mkNode [0;0] None;
                          mkNode [0;1] None; mkNode [0;1;0] None; mkNode [0;0] None].
Proof. eexists. split; vm_compute; reflexivity. Qed.

End Examples.
