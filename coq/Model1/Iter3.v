(* Model1/Iter3.v — M1 completed: the cursor-level model of EVERY query type of
   query.go, Select AND Evaluate, over the query tree Ast.query itself.

   New here (the node-set iterators of Iter.v / Iter2.v are reused unchanged):
     descendantOverDescendantQuery, cachedChildQuery (the code of childQuery),
     filterQuery with a real predicate query (filterQuery.do), logicalQuery,
     numericQuery, booleanQuery, functionQuery (every function of func.go, with
     functionArgs), transformFunctionQuery (reverse), lastFuncQuery,
     constantQuery, nopQuery, and the operators of operator.go.

   Values.  Evaluate returns bool / float64 / string / int / nil, or a query:
   [CVQuery h], where the handle h says how to Select from, and how to
   re-Evaluate, the query object that was returned -- it operates on the state
   of the query that was evaluated (groupQuery.Evaluate returns what its INPUT
   returns, so its handle works on the g_in field).

   Shared state and clones.  logicalQuery, numericQuery, booleanQuery,
   filterQuery (its predicate), mergeQuery (its child) evaluate their operands IN
   PLACE; the functions of func.go evaluate  functionArgs(arg): the argument
   itself when it is a *functionQuery, a Clone otherwise.  A Clone is modelled
   by the zero state [init3] of the same query; the two things Clone changes in
   the configuration (cachedChildQuery -> childQuery, NoPosition dropped)
   select the same code.  The clone is a temporary: the state kept in the tree
   is the old one.

   t.Current() is threaded through every call; a Go panic is [Panic3] in
   Evaluate results and unwinds through Select frames as [Stuck] does (the
   result type of Select in Iter.v has no third constructor).

   Evaluate of a node-set query is the pure reset [reset3]: Input.Evaluate of
   the node-set inputs below it.  (For an ill-typed tree such as child::a over
   sum('x') Go would run, and panic in, the input's Evaluate; IterRefine3.v
   covers well-typed trees.)

   Fuel: the loops that drain an operand (count, sum, comparisons, reverse,
   last) take the fuel parameter F like the loops of Iter2.v; position() walks
   MoveToPrevious (fuel 1 + sibling index), last() MoveToNext (dfuel).

   Definitions only. *)
From XP Require Import Base F64 Doc Ast Hash Eval.
From XP.Model1 Require Import Iter Iter2.
Open Scope nat_scope.
Open Scope list_scope.

(* result of a cursor-level computation: value, new state, new t.Current() *)
Inductive cres3 (A W : Type) : Type :=
| OK3 (a : A) (w : W) (cur : node)
| Stuck3
| Panic3 (msg : string).
Arguments OK3 {A W} a w cur.
Arguments Stuck3 {A W}.
Arguments Panic3 {A W} msg.

Definition of_res {W} (r : res W) : cres3 (option node) W :=
  match r with R o w cur => OK3 o w cur | Stuck => Stuck3 end.
Definition to_res {W} (r : cres3 (option node) W) : res W :=
  match r with OK3 o w cur => R o w cur | _ => Stuck end.

(* a query object handed out by Evaluate *)
Record handle (W : Type) := mkHandle { h_sel : W -> node -> res W; h_reset : W -> W }.
Arguments mkHandle {W}. Arguments h_sel {W}. Arguments h_reset {W}.

Inductive sval := SBool (b : bool) | SNum (f : f64) | SStr (s : string) | SInt (z : Z) | SNil.
Inductive cval (W : Type) : Type :=
| CVS (v : sval)
| CVQuery (h : handle W).
Arguments CVS {W} v.
Arguments CVQuery {W} h.
Definition eres (W : Type) : Type := cres3 (cval W) W.

(* ---- state records of the new query types ---- *)
(* descendantOverDescendantQuery{level; posit; currentNode} *)
Record dod_st (St : Type) := mkDod { dd_level : nat; dd_posit : nat; dd_node : node; dd_in : St }.
Arguments mkDod {St}. Arguments dd_level {St}. Arguments dd_posit {St}. Arguments dd_node {St}. Arguments dd_in {St}.
(* filterQuery{posit; positmap} with its Predicate query *)
Record filter3_st (St P : Type) := mkFilter3 { f3_posit : nat; f3_pm : option (list (nat * nat)); f3_in : St; f3_pred : P }.
Arguments mkFilter3 {St P}. Arguments f3_posit {St P}. Arguments f3_pm {St P}. Arguments f3_in {St P}. Arguments f3_pred {St P}.
(* logicalQuery{done} *)
Record logic_st (L R' : Type) := mkLogic { lg_done : bool; lg_l : L; lg_r : R' }.
Arguments mkLogic {L R'}. Arguments lg_done {L R'}. Arguments lg_l {L R'}. Arguments lg_r {L R'}.
(* booleanQuery{iterator} *)
Record bool_st (L R' : Type) := mkBoolSt { bo_it : list_it; bo_l : L; bo_r : R' }.
Arguments mkBoolSt {L R'}. Arguments bo_it {L R'}. Arguments bo_l {L R'}. Arguments bo_r {L R'}.
(* transformFunctionQuery{iterator}: the closure of reverseFunc captures list and i *)
Record rev_st (St : Type) := mkRev { rv_it : list_it; rv_in : St }.
Arguments mkRev {St}. Arguments rv_it {St}. Arguments rv_in {St}.
(* lastFuncQuery{buffer; counted} *)
Record lastf_st (St : Type) := mkLastF { lf_buffer : list node; lf_counted : bool; lf_in : St }.
Arguments mkLastF {St}. Arguments lf_buffer {St}. Arguments lf_counted {St}. Arguments lf_in {St}.

Fixpoint state3 (q : query) : Type :=
  match q with
  | QNil | QNop | QNum _ | QStr _ | QFn0 _ => unit
  | QContext | QAbsolute => nat
  | QAncestor _ _ i => anc_st (state3 i)
  | QAttribute _ i => attr_st (state3 i)
  | QChild _ i | QCachedChild _ i => child_st (state3 i)
  | QDescendant _ _ i => desc_st (state3 i)
  | QFollowing _ _ i => fol_st (state3 i)
  | QPreceding _ _ i => pre_st (state3 i)
  | QParent _ i | QSelf _ i => state3 i
  | QFilter _ i p => filter3_st (state3 i) (state3 p)
  | QFn1 _ a => state3 a
  | QFn2 _ a b => (state3 a * state3 b)%type
  | QFn3 _ a b c => (state3 a * state3 b * state3 c)%type
  | QConcat args => state3 args
  | QArg a rest => (state3 a * state3 rest)%type
  | QPosition i | QLast i => state3 i              (* functionQuery{Input: firstInput} *)
  | QReverse i => rev_st (state3 i)
  | QGroup i => group_st (state3 i)
  | QLogical _ l r => logic_st (state3 l) (state3 r)
  | QNumeric _ l r => (state3 l * state3 r)%type
  | QBoolean _ l r => bool_st (state3 l) (state3 r)
  | QUnion l r => union_st (state3 l) (state3 r)
  | QLastFunc i => lastf_st (state3 i)
  | QDoD _ _ i => dod_st (state3 i)
  | QMerge i ch => merge_st (state3 i) (state3 ch)
  end.

(* the zero value of the struct (build.go, Clone) *)
Fixpoint init3 (q : query) : state3 q :=
  match q return state3 q with
  | QNil | QNop | QNum _ | QStr _ | QFn0 _ => tt
  | QContext | QAbsolute => 0
  | QAncestor _ _ i => mkAnc NI_none None (init3 i)
  | QAttribute _ i => mkAttrSt AI_none (init3 i)
  | QChild _ i | QCachedChild _ i => mkChild 0 CI_none (init3 i)
  | QDescendant _ _ i => mkDesc DI_none 0 0 (init3 i)
  | QFollowing _ _ i => mkFol 0 FI_none (init3 i)
  | QPreceding _ _ i => mkPre 0 PI_none (init3 i)
  | QParent _ i | QSelf _ i => init3 i
  | QFilter _ i p => mkFilter3 0 None (init3 i) (init3 p)
  | QFn1 _ a => init3 a
  | QFn2 _ a b => (init3 a, init3 b)
  | QFn3 _ a b c => (init3 a, init3 b, init3 c)
  | QConcat args => init3 args
  | QArg a rest => (init3 a, init3 rest)
  | QPosition i | QLast i => init3 i
  | QReverse i => mkRev LI_none (init3 i)
  | QGroup i => mkGroup 0 (init3 i)
  | QLogical _ l r => mkLogic false (init3 l) (init3 r)
  | QNumeric _ l r => (init3 l, init3 r)
  | QBoolean _ l r => mkBoolSt LI_none (init3 l) (init3 r)
  | QUnion l r => mkUnion LI_none (init3 l) (init3 r)
  | QLastFunc i => mkLastF [] false (init3 i)
  | QDoD _ _ i => mkDod 0 0 root_node (init3 i)
  | QMerge i ch => mkMerge LI_none (init3 i) (init3 ch)
  end.

(* Evaluate of the node-set query types, as far as it only resets:
     axes: Input.Evaluate(t); iterator = nil            ancestor: also table = nil
     filterQuery: Input.Evaluate(t); posit = 0; positmap = nil   (the Predicate is not touched)
     groupQuery: posit = 0; Input.Evaluate(t)
     unionQuery: iterator = nil; Left.Evaluate; Right.Evaluate
     mergeQuery: Input.Evaluate(t); iterator = nil      (the Child is not touched)
     transformFunctionQuery: Input.Evaluate(t); iterator = nil
     descendantOverDescendantQuery: Input.Evaluate(t); level = 0 *)
Fixpoint reset3 (q : query) : state3 q -> state3 q :=
  match q return state3 q -> state3 q with
  | QContext | QAbsolute => fun _ => 0
  | QAncestor _ _ i => fun s => mkAnc NI_none None (reset3 i (n_in s))
  | QAttribute _ i => fun s => mkAttrSt AI_none (reset3 i (a_in s))
  | QChild _ i | QCachedChild _ i => fun s => mkChild (c_posit s) CI_none (reset3 i (c_in s))
  | QDescendant _ _ i => fun s => mkDesc DI_none (d_posit s) (d_level s) (reset3 i (d_in s))
  | QFollowing _ _ i => fun s => mkFol (fo_posit s) FI_none (reset3 i (fo_in s))
  | QPreceding _ _ i => fun s => mkPre (pr_posit s) PI_none (reset3 i (pr_in s))
  | QParent _ i | QSelf _ i => reset3 i
  | QFilter _ i p => fun s => mkFilter3 0 None (reset3 i (f3_in s)) (f3_pred s)
  | QReverse i => fun s => mkRev LI_none (reset3 i (rv_in s))
  | QGroup i => fun s => mkGroup 0 (reset3 i (g_in s))
  | QUnion l r => fun s => mkUnion LI_none (reset3 l (u_l s)) (reset3 r (u_r s))
  | QDoD _ _ i => fun s => mkDod 0 (dd_posit s) (dd_node s) (reset3 i (dd_in s))
  | QMerge i ch => fun s => mkMerge LI_none (reset3 i (m_in s)) (m_ch s)
  | _ => fun s => s
  end.

(* is the query a *functionQuery (functionArgs does not clone those) *)
Definition is_fn (q : query) : bool :=
  match q with
  | QFn0 _ | QFn1 _ _ | QFn2 _ _ _ | QFn3 _ _ _ _ | QConcat _ | QPosition _ | QLast _ => true
  | _ => false
  end.
Definition is_nil (q : query) : bool := match q with QNil => true | _ => false end.

Definition is_some {A} (o : option A) : bool := match o with Some _ => true | None => false end.

Section M3.
Variable D : tree.
Variable has_ns : bool.
Variable hcode : node -> N.
Variable re_match : string -> string -> option bool.
Variable re_numsubexp : string -> nat.
Variable re_replace_all : string -> string -> string -> string.
Notation MT := (match_test D has_ns).

(* ------------------------------------------------------------------ *)
(* draining an operand:  for { node := q.Select(t); if node == nil { break }; ... }
   step gives the new accumulator and whether the loop is left early (return) *)
Fixpoint sel_loop {A W} (asel : W -> node -> res W) (step : A -> node -> A * bool)
         (fuel : nat) (acc : A) (w : W) (cur : node) : cres3 A W :=
  match fuel with
  | 0 => Stuck3
  | S k =>
    match asel w cur with
    | Stuck => Stuck3
    | R None w' cur' => OK3 acc w' cur'
    | R (Some n) w' cur' =>
      let '(acc', stop) := step acc n in
      if stop then OK3 acc' w' cur' else sel_loop asel step k acc' w' cur'
    end
  end.

(* ---- conversions of an evaluated operand (func.go: asString, asNumber, asBool) ---- *)
Section Conv.
Context {W : Type}.

(* node := v.Select(t); node == nil ? ... : node.Value() *)
Definition first_value_c (h : handle W) (w : W) (cur : node) : cres3 (option string) W :=
  match h_sel h w cur with
  | Stuck => Stuck3
  | R None w' cur' => OK3 None w' cur'
  | R (Some n) w' cur' => OK3 (Some (node_value D n)) w' cur'
  end.

(* case string: m = typ;  case query: if node := typ.Select(t); node != nil { m = node.Value() }
   (anything else: "") *)
Definition str_or_first_c (v : cval W) (w : W) (cur : node) : cres3 string W :=
  match v with
  | CVS (SStr s) => OK3 s w cur
  | CVQuery h =>
    match first_value_c h w cur with
    | OK3 o w' cur' => OK3 (opt_default "" o) w' cur'
    | Stuck3 => Stuck3
    | Panic3 m => Panic3 m
    end
  | _ => OK3 "" w cur
  end.

Definition as_string_c (v : cval W) (w : W) (cur : node) : cres3 string W :=
  match v with
  | CVS SNil => OK3 "" w cur
  | CVS (SBool b) => OK3 (if b then "true" else "false") w cur
  | CVS (SNum f) => OK3 (xpath_number_string f) w cur
  | CVS (SStr s) => OK3 s w cur
  | CVS (SInt _) => Panic3 "unexpected type: int"
  | CVQuery h =>
    match first_value_c h w cur with
    | OK3 o w' cur' => OK3 (opt_default "" o) w' cur'
    | Stuck3 => Stuck3
    | Panic3 m => Panic3 m
    end
  end.

Definition as_number_c (v : cval W) (w : W) (cur : node) : cres3 f64 W :=
  match v with
  | CVS (SNum f) => OK3 f w cur
  | CVS (SStr s) => OK3 (string_to_number s) w cur
  | CVQuery h =>
    match first_value_c h w cur with
    | OK3 (Some s) w' cur' => OK3 (string_to_number s) w' cur'
    | OK3 None w' cur' => OK3 fnan w' cur'
    | Stuck3 => Stuck3
    | Panic3 m => Panic3 m
    end
  | _ => OK3 fnan w cur
  end.

Definition as_bool_c (v : cval W) (w : W) (cur : node) : cres3 bool W :=
  match v with
  | CVS SNil => OK3 false w cur
  | CVS (SBool b) => OK3 b w cur
  | CVS (SNum f) => OK3 (negb (orb (is_zero f) (is_nan f))) w cur
  | CVS (SStr s) => OK3 (negb (String.eqb s "")) w cur
  | CVS (SInt _) => Panic3 "unexpected type: int"
  | CVQuery h =>
    match h_sel h w cur with
    | Stuck => Stuck3
    | R o w' cur' => OK3 (is_some o) w' cur'
    end
  end.
End Conv.

(* functionArgs(arg).Evaluate(t) followed by the code [k] that consumes the value:
   [isfn]: arg is a *functionQuery and is used in place; otherwise a Clone (zero
   state w0) is used and thrown away *)
Definition fargs {A W} (isfn : bool) (w0 : W) (aev : W -> node -> eres W)
           (k : cval W -> W -> node -> cres3 A W) (s : W) (cur : node) : cres3 A W :=
  match aev (if isfn then s else w0) cur with
  | Stuck3 => Stuck3
  | Panic3 m => Panic3 m
  | OK3 v w1 cur1 =>
    match k v w1 cur1 with
    | OK3 x w2 cur2 => OK3 x (if isfn then w2 else s) cur2
    | Stuck3 => Stuck3
    | Panic3 m => Panic3 m
    end
  end.

(* ------------------------------------------------------------------ *)
(* position() / last():  functionQuery{Input: firstInput}; test = predicate(Input) *)

(*  count = 1; node = t.Current().Copy(); for node.MoveToPrevious() { if test(node) { count++ } }  *)
Fixpoint count_prev (test : node -> bool) (fuel : nat) (nd : node) (count : nat) : option nat :=
  match fuel with
  | 0 => None
  | S k =>
    match move_prev nd with
    | None => Some count
    | Some nd' => count_prev test k nd' (if test nd' then S count else count)
    end
  end.
Definition position_c (test : node -> bool) (cur : node) : option nat :=
  count_prev test (prev_fuel cur) cur 1.

(*  count = 0; node.MoveToFirst(); for { if test(node) { count++ }; if !node.MoveToNext() { break } }  *)
Fixpoint count_next (test : node -> bool) (fuel : nat) (nd : node) (count : nat) : option nat :=
  match fuel with
  | 0 => None
  | S k =>
    let count' := if test nd then S count else count in
    match move_next D nd with
    | None => Some count'
    | Some nd' => count_next test k nd' count'
    end
  end.
Definition last_c (test : node -> bool) (cur : node) : option nat :=
  count_next test (dfuel D) (match move_first cur with Some f => f | None => cur end) 0.

Definition num_of_nat (n : nat) : f64 := of_Z (Z.of_nat n).

(* ------------------------------------------------------------------ *)
(* the functions of one argument (func.go) *)
Definition fn1_consume {W} (F : nat) (f : fn1) (test : node -> bool)
           (v : cval W) (w : W) (cur : node) : cres3 sval W :=
  match f with
  | FCount =>          (* switch typ := q.Evaluate(t).(type) { case query: for ... { if test(node) { count++ } } } *)
    match v with
    | CVQuery h =>
      match sel_loop (h_sel h) (fun acc n => (if test n then S acc else acc, false)) F 0 w cur with
      | OK3 n w' cur' => OK3 (SNum (num_of_nat n)) w' cur'
      | Stuck3 => Stuck3
      | Panic3 m => Panic3 m
      end
    | _ => OK3 (SNum fzero) w cur
    end
  | FSum =>
    match v with
    | CVQuery h =>
      match sel_loop (h_sel h)
                     (fun acc n => let x := string_to_number (node_value D n) in
                                   (if is_nan x then acc else fadd acc x, false)) F fzero w cur with
      | OK3 x w' cur' => OK3 (SNum x) w' cur'
      | Stuck3 => Stuck3
      | Panic3 m => Panic3 m
      end
    | CVS (SNum f) => OK3 (SNum f) w cur
    | CVS (SStr s) =>
      let x := string_to_number s in
      if is_nan x then Panic3 "sum() function argument type must be a node-set or number"
      else OK3 (SNum x) w cur
    | _ => OK3 (SNum fzero) w cur
    end
  | FCeiling =>
    match as_number_c v w cur with
    | OK3 x w' cur' => OK3 (SNum (fceil x)) w' cur' | Stuck3 => Stuck3 | Panic3 m => Panic3 m end
  | FFloor =>
    match as_number_c v w cur with
    | OK3 x w' cur' => OK3 (SNum (ffloor x)) w' cur' | Stuck3 => Stuck3 | Panic3 m => Panic3 m end
  | FRound =>
    match as_number_c v w cur with
    | OK3 x w' cur' => OK3 (SInt (go_int (fround_away x))) w' cur' | Stuck3 => Stuck3 | Panic3 m => Panic3 m end
  | FBoolean =>
    match as_bool_c v w cur with
    | OK3 b w' cur' => OK3 (SBool b) w' cur' | Stuck3 => Stuck3 | Panic3 m => Panic3 m end
  | FNumber =>
    match as_number_c v w cur with
    | OK3 x w' cur' => OK3 (SNum x) w' cur' | Stuck3 => Stuck3 | Panic3 m => Panic3 m end
  | FString =>
    match as_string_c v w cur with
    | OK3 s w' cur' => OK3 (SStr s) w' cur' | Stuck3 => Stuck3 | Panic3 m => Panic3 m end
  | FNot =>            (* case bool: !v;  case query: v.Select(t) == nil;  default: false *)
    match v with
    | CVS (SBool b) => OK3 (SBool (negb b)) w cur
    | CVQuery h =>
      match h_sel h w cur with
      | Stuck => Stuck3
      | R o w' cur' => OK3 (SBool (negb (is_some o))) w' cur'
      end
    | _ => OK3 (SBool false) w cur
    end
  | FNormalizeSpace => (* case query: node == nil -> return "" *)
    match v with
    | CVS (SStr s) => OK3 (SStr (normalize_space s)) w cur
    | CVQuery h =>
      match first_value_c h w cur with
      | OK3 (Some s) w' cur' => OK3 (SStr (normalize_space s)) w' cur'
      | OK3 None w' cur' => OK3 (SStr "") w' cur'
      | Stuck3 => Stuck3
      | Panic3 m => Panic3 m
      end
    | _ => OK3 (SStr (normalize_space "")) w cur
    end
  | FStringLength =>
    match v with
    | CVS (SStr s) => OK3 (SNum (num_of_nat (String.length s))) w cur
    | CVQuery h =>
      match first_value_c h w cur with
      | OK3 (Some s) w' cur' => OK3 (SNum (num_of_nat (String.length s))) w' cur'
      | OK3 None w' cur' => OK3 (SNum (num_of_nat 0)) w' cur'
      | Stuck3 => Stuck3
      | Panic3 m => Panic3 m
      end
    | _ => OK3 (SNum (num_of_nat 0)) w cur
    end
  | FLowerCase =>
    match as_string_c v w cur with
    | OK3 s w' cur' => OK3 (SStr (to_lower s)) w' cur' | Stuck3 => Stuck3 | Panic3 m => Panic3 m end
  | FName | FLocalName | FNamespaceURI => OK3 SNil w cur      (* not reached: see name_ev *)
  end.

(* name(), local-name(), namespace-uri():
     if arg == nil { v = t.Current() } else { v = arg.Clone().Select(t); if v == nil { return "" } } *)
Definition name_of (f : fn1) (n : node) : string :=
  match f with
  | FName => let p := node_prefix D n in
             if String.eqb p "" then local_name D n else (p ++ ":" ++ local_name D n)%string
  | FLocalName => local_name D n
  | _ => if has_ns then node_ns D n else node_prefix D n
  end.
Definition name_ev {W} (f : fn1) (argnil : bool) (w0 : W) (asel : W -> node -> res W)
           (s : W) (cur : node) : cres3 sval W :=
  if argnil then OK3 (SStr (name_of f cur)) s cur
  else match asel w0 cur with
       | Stuck => Stuck3
       | R None _ cur' => OK3 (SStr "") s cur'
       | R (Some n) _ cur' => OK3 (SStr (name_of f n)) s cur'
       end.

(* ------------------------------------------------------------------ *)
(* operator.go: the comparison of two evaluated operands; each operand has its own state *)
Definition cmp_loop {W} (F : nat) (h : handle W) (p : string -> bool) (w : W) (cur : node)
  : cres3 bool W :=
  sel_loop (h_sel h) (fun (_ : bool) n => let b := p (node_value D n) in (b, b)) F false w cur.

(* cmpNodeSetNodeSet:
     for { x := a.Select(t); if x == nil { return false }
           y := b.Select(t); if y == nil { return false }
           for { if cmp(x.Value(), y.Value()) { return true }; if y = b.Select(t); y == nil { break } }
           b.Evaluate(t) }                                                *)
Fixpoint cmp_sets {WA WB} (F : nat) (op : cmpop) (ha : handle WA) (hb : handle WB)
         (fuel : nat) (wa : WA) (wb : WB) (cur : node) : cres3 bool (WA * WB) :=
  match fuel with
  | 0 => Stuck3
  | S k =>
    match h_sel ha wa cur with
    | Stuck => Stuck3
    | R None wa' cur' => OK3 false (wa', wb) cur'
    | R (Some x) wa' cur1 =>
      match h_sel hb wb cur1 with
      | Stuck => Stuck3
      | R None wb' cur2 => OK3 false (wa', wb') cur2
      | R (Some y) wb' cur2 =>
        if cmp_str op (node_value D x) (node_value D y) then OK3 true (wa', wb') cur2
        else
          match cmp_loop F hb (fun s => cmp_str op (node_value D x) s) wb' cur2 with
          | Stuck3 => Stuck3
          | Panic3 m => Panic3 m
          | OK3 true wb'' cur3 => OK3 true (wa', wb'') cur3
          | OK3 false wb'' cur3 => cmp_sets F op ha hb k wa' (h_reset hb wb'') cur3   (* b.Evaluate(t) *)
          end
      end
    end
  end.

Definition xtype := nat.   (* getXPathType: 0 Boolean, 1 Number, 2 String, 3 NodeSet *)
Definition xtype_of {W} (v : cval W) : option xtype :=
  match v with
  | CVS (SBool _) => Some 0
  | CVS (SNum _) => Some 1
  | CVS (SStr _) => Some 2
  | CVQuery _ => Some 3
  | CVS (SInt _) | CVS SNil => None          (* panic: xpath unknown value type *)
  end.

(* cmpBooleanAny: = and != convert both to booleans, the others to numbers *)
Definition bool_num_c {W} (v : cval W) (w : W) (cur : node) : cres3 f64 W :=
  match v with
  | CVS (SStr _) | CVS (SNum _) => as_number_c v w cur
  | _ => match as_bool_c v w cur with
         | OK3 b w' cur' => OK3 (if b then fone else fzero) w' cur'
         | Stuck3 => Stuck3
         | Panic3 m => Panic3 m
         end
  end.

Definition cmp_boolean_any_c {WA WB} (op : cmpop) (va : cval WA) (wa : WA) (vb : cval WB) (wb : WB)
           (cur : node) : cres3 bool (WA * WB) :=
  match op with
  | CEq | CNe =>
    match as_bool_c va wa cur with
    | Stuck3 => Stuck3 | Panic3 m => Panic3 m
    | OK3 a wa' cur1 =>
      match as_bool_c vb wb cur1 with
      | Stuck3 => Stuck3 | Panic3 m => Panic3 m
      | OK3 b wb' cur2 =>
        OK3 (match op with CEq => Bool.eqb a b | _ => negb (Bool.eqb a b) end) (wa', wb') cur2
      end
    end
  | _ =>
    match bool_num_c va wa cur with
    | Stuck3 => Stuck3 | Panic3 m => Panic3 m
    | OK3 a wa' cur1 =>
      match bool_num_c vb wb cur1 with
      | Stuck3 => Stuck3 | Panic3 m => Panic3 m
      | OK3 b wb' cur2 => OK3 (cmp_num op a b) (wa', wb') cur2
      end
    end
  end.

Definition logical_do {WA WB} (F : nat) (op : cmpop) (va : cval WA) (wa : WA) (vb : cval WB) (wb : WB)
           (cur : node) : cres3 bool (WA * WB) :=
  match xtype_of va, xtype_of vb with
  | None, _ | _, None => Panic3 "xpath unknown value type"
  | Some _, Some _ =>
    match va, vb with
    | CVS (SBool _), _ | _, CVS (SBool _) => cmp_boolean_any_c op va wa vb wb cur
    | CVS (SNum a), CVS (SNum b) => OK3 (cmp_num op a b) (wa, wb) cur
    | CVS (SNum a), CVS (SStr b) => OK3 (cmp_num op a (string_to_number b)) (wa, wb) cur
    | CVS (SNum a), CVQuery h =>
      match cmp_loop F h (fun s => cmp_num op a (string_to_number s)) wb cur with
      | OK3 r wb' cur' => OK3 r (wa, wb') cur' | Stuck3 => Stuck3 | Panic3 m => Panic3 m end
    | CVS (SStr a), CVS (SNum b) => OK3 (cmp_num op (string_to_number a) b) (wa, wb) cur
    | CVS (SStr a), CVS (SStr b) => OK3 (cmp_str op a b) (wa, wb) cur
    | CVS (SStr a), CVQuery h =>
      match cmp_loop F h (fun s => cmp_str op a s) wb cur with
      | OK3 r wb' cur' => OK3 r (wa, wb') cur' | Stuck3 => Stuck3 | Panic3 m => Panic3 m end
    | CVQuery h, CVS (SNum b) =>
      match cmp_loop F h (fun s => cmp_num op (string_to_number s) b) wa cur with
      | OK3 r wa' cur' => OK3 r (wa', wb) cur' | Stuck3 => Stuck3 | Panic3 m => Panic3 m end
    | CVQuery h, CVS (SStr b) =>
      match cmp_loop F h (fun s => cmp_str op b s) wa cur with
      | OK3 r wa' cur' => OK3 r (wa', wb) cur' | Stuck3 => Stuck3 | Panic3 m => Panic3 m end
    | CVQuery ha, CVQuery hb => cmp_sets F op ha hb F wa wb cur
    | _, _ => Panic3 "xpath unknown value type"
    end
  end.

(* ------------------------------------------------------------------ *)
(* descendantOverDescendantQuery *)

(*  moveUpUntilNext, called with level = S l:
      for !d.currentNode.MoveToNext() { d.level--; if d.level == 0 { return false }
                                        d.currentNode.MoveToParent() }; return true   *)
Fixpoint dod_up (l : nat) (nd : node) : bool * node * nat :=
  match move_next D nd with
  | Some nd' => (true, nd', S l)
  | None =>
    match l with
    | 0 => (false, nd, 0)
    | S l' => dod_up l' (match move_parent nd with Some p => p | None => nd end)
    end
  end.

(*  for ok := true; ok; ok = d.moveToFirstChild() { if d.Predicate(d.currentNode) { d.posit++; return } }  *)
Fixpoint dod_descend (test : node -> bool) (fuel : nat) (nd : node) (level : nat)
  : option (option node * node * nat) :=
  match fuel with
  | 0 => None
  | S k =>
    if test nd then Some (Some nd, nd, level)
    else match move_child D nd with
         | Some nd' => dod_descend test k nd' (S level)
         | None => Some (None, nd, level)
         end
  end.

(* the iterations of the Select loop with level <> 0 (no input is fetched):
     else if !d.moveUpUntilNext() { continue }   -- level is 0 now: leave to the fetch
     for ok := true; ... *)
Fixpoint dod_walk (test : node -> bool) (fuel : nat) (nd : node) (level : nat)
  : option (option node * node * nat) :=
  match fuel with
  | 0 => None
  | S k =>
    match level with
    | 0 => Some (None, nd, 0)
    | S l =>
      let '(ok, nd1, l1) := dod_up l nd in
      if ok then
        match dod_descend test (dfuel D) nd1 l1 with
        | None => None
        | Some (Some x, nd2, l2) => Some (Some x, nd2, l2)
        | Some (None, nd2, l2) => dod_walk test k nd2 l2
        end
      else Some (None, nd1, 0)
    end
  end.

Definition dod_pump {St} (test : node -> bool)
           (again : dod_st St -> node -> res (dod_st St))
           (posit : nat) (nd : node) (level : nat) (s : St) (cur1 : node) : res (dod_st St) :=
  match dod_walk test (S (dfuel D)) nd level with
  | None => Stuck
  | Some (Some x, nd', l') => R (Some x) (mkDod l' (S posit) nd' s) cur1
  | Some (None, nd', _) => again (mkDod 0 posit nd' s) cur1
  end.

(*  for {
      if d.level == 0 {
        node := d.Input.Select(t); if node == nil { return nil }
        d.currentNode = node.Copy(); d.posit = 0
        if d.MatchSelf && d.Predicate(d.currentNode) { d.posit = 1; return d.currentNode }
        if !d.moveToFirstChild() { continue }
      } else if !d.moveUpUntilNext() { continue }
      for ok := true; ok; ok = d.moveToFirstChild() { ... }
    }                                                                     *)
Definition dod_body {St} (isel : St -> node -> res St) (matchself : bool) (test : node -> bool)
           (again : dod_st St -> node -> res (dod_st St))
           (st : dod_st St) (cur : node) : res (dod_st St) :=
  match dd_level st with
  | 0 =>
    match isel (dd_in st) cur with
    | Stuck => Stuck
    | R None s' cur' => R None (mkDod 0 (dd_posit st) (dd_node st) s') cur'
    | R (Some n) s' cur' =>
      if andb matchself (test n) then R (Some n) (mkDod 0 1 n s') cur'
      else match move_child D n with
           | None => again (mkDod 0 0 n s') cur'
           | Some n1 =>
             match dod_descend test (dfuel D) n1 1 with
             | None => Stuck
             | Some (Some x, nd2, l2) => R (Some x) (mkDod l2 1 nd2 s') cur'
             | Some (None, nd2, l2) => dod_pump test again 0 nd2 l2 s' cur'
             end
           end
    end
  | S _ => dod_pump test again (dd_posit st) (dd_node st) (dd_level st) (dd_in st) cur
  end.
Definition dod_select {St} isel matchself test (F : nat) : dod_st St -> node -> res (dod_st St) :=
  iter_loop (dod_body isel matchself test) F.

(* ------------------------------------------------------------------ *)
(* filterQuery with its Predicate query *)

(*  val := f.Predicate.Evaluate(t)
    Bool: val;  String: len > 0;  Float64: int(val) == getNodePosition(f.Input)
    default: f.Predicate.Select(t) != nil                                  *)
Definition filter_do {P} (pev : P -> node -> eres P) (psel : P -> node -> res P)
           (pos : nat) (ps : P) (cur : node) : cres3 bool P :=
  match pev ps cur with
  | Stuck3 => Stuck3
  | Panic3 m => Panic3 m
  | OK3 v ps' cur' =>
    match v with
    | CVS (SBool b) => OK3 b ps' cur'
    | CVS (SStr s) => OK3 (negb (String.eqb s "")) ps' cur'
    | CVS (SNum f) => OK3 (Z.eqb (go_int f) (Z.of_nat pos)) ps' cur'
    | _ => match psel ps' cur' with
           | Stuck => Stuck3
           | R o ps'' cur'' => OK3 (is_some o) ps'' cur''
           end
    end
  end.

(*  for { node := f.Input.Select(t); if node == nil { return nil }
          root := t.Current().Copy(); t.Current().MoveTo(node)
          ok := f.do(t); t.Current().MoveTo(root)
          if ok { level := getNodeDepth(f.Input); f.positmap[level]++; f.posit = ...; return node } } *)
Definition filter3_body {St P} (isel : St -> node -> res St) (ipos ilvl : St -> nat)
           (pev : P -> node -> eres P) (psel : P -> node -> res P)
           (again : filter3_st St P -> node -> res (filter3_st St P))
           (st : filter3_st St P) (cur : node) : res (filter3_st St P) :=
  match isel (f3_in st) cur with
  | Stuck => Stuck
  | R None s' cur' => R None (mkFilter3 (f3_posit st) (f3_pm st) s' (f3_pred st)) cur'
  | R (Some n) s' cur' =>
    let root := cur' in
    match filter_do pev psel (ipos s') (f3_pred st) n with    (* t.Current() = node *)
    | Stuck3 => Stuck
    | Panic3 _ => Stuck                                        (* a panic unwinds *)
    | OK3 ok ps' _ =>
      let cur2 := root in                                      (* t.Current().MoveTo(root) *)
      if ok then
        let pm := match f3_pm st with Some m => m | None => [] end in
        let level := ilvl s' in
        let v := S (pm_get pm level) in
        R (Some n) (mkFilter3 v (Some (pm_set pm level v)) s' ps') cur2
      else again (mkFilter3 (f3_posit st) (f3_pm st) s' ps') cur2
    end
  end.
Definition filter3_select {St P} isel ipos ilvl pev psel (F : nat) (st : filter3_st St P) (cur : node)
  : res (filter3_st St P) :=
  let st0 := mkFilter3 (f3_posit st) (Some (match f3_pm st with Some m => m | None => [] end))
                       (f3_in st) (f3_pred st) in
  iter_loop (filter3_body isel ipos ilvl pev psel) F st0 cur.

(* ------------------------------------------------------------------ *)
(* transformFunctionQuery with Func = reverseFunc:
     if f.iterator == nil { f.iterator = f.Func(f.Input, t) }; return f.iterator()
   reverseFunc: list := all nodes of q;  i := len(list)
                func: if i <= 0 { return nil }; i--; return list[i]        *)
Definition rev_next (lst : list node) (i : nat) : option node * nat :=
  match i with
  | 0 => (None, 0)
  | S j => (nth_error lst j, j)
  end.
Definition rev_select {St} (isel : St -> node -> res St) (F : nat) (st : rev_st St) (cur : node)
  : res (rev_st St) :=
  match rv_it st with
  | LI_none =>
    match mcollect isel F (rv_in st) cur [] with
    | None => Stuck
    | Some (lst, s', cur') =>
      let '(o, i') := rev_next lst (List.length lst) in
      R o (mkRev (LI_iter lst i') s') cur'
    end
  | LI_iter lst i =>
    let '(o, i') := rev_next lst i in
    R o (mkRev (LI_iter lst i') (rv_in st)) cur
  end.

(* ------------------------------------------------------------------ *)
(* booleanQuery.Select
     IsOr:  list = all of Left ++ (MoveTo(root)) all of Right
     else:  `list = append(m, node)` with m, n never assigned: list ends up as the
            one-element list of the last node delivered (Right's last, else Left's last);
            the intersection loops run over the empty m and n                *)
Definition bool_select {L R'} (lsel : L -> node -> res L) (rsel : R' -> node -> res R')
           (isor : bool) (F : nat) (st : bool_st L R') (cur : node) : res (bool_st L R') :=
  match bo_it st with
  | LI_none =>
    let root := cur in
    match mcollect lsel F (bo_l st) cur [] with
    | None => Stuck
    | Some (la, l', _) =>
      let cur2 := root in
      match mcollect rsel F (bo_r st) cur2 [] with
      | None => Stuck
      | Some (lb, r', cur3) =>
        let lst := if isor then la ++ lb
                   else match rev lb with
                        | x :: _ => [x]
                        | [] => match rev la with x :: _ => [x] | [] => [] end
                        end in
        let '(o, i') := list_next lst 0 in
        R o (mkBoolSt (LI_iter lst i') l' r') cur3
      end
    end
  | LI_iter lst i =>
    let '(o, i') := list_next lst i in
    R o (mkBoolSt (LI_iter lst i') (bo_l st) (bo_r st)) cur
  end.

(* ================================================================== *)
(* Select and Evaluate of the whole query tree *)

Definition sv {W} (r : cres3 sval W) : eres W :=
  match r with OK3 x w cur => OK3 (CVS x) w cur | Stuck3 => Stuck3 | Panic3 m => Panic3 m end.

(* getNodePosition / getNodeDepth *)
Definition position_of3 (q : query) : state3 q -> nat :=
  match q return state3 q -> nat with
  | QChild _ _ | QCachedChild _ _ => fun s => c_posit s
  | QDescendant _ _ _ => fun s => d_posit s
  | QFollowing _ _ _ => fun s => fo_posit s
  | QPreceding _ _ _ => fun s => pr_posit s
  | QFilter _ _ _ => fun s => f3_posit s
  | QGroup _ => fun s => g_posit s
  | QDoD _ _ _ => fun s => dd_posit s
  | _ => fun _ => 1
  end.
Definition depth_of3 (q : query) : state3 q -> nat :=
  match q return state3 q -> nat with
  | QDescendant _ _ _ => fun s => d_level s
  | _ => fun _ => 0
  end.

(* Evaluate of a node-set query type: reset and return the query itself *)
Definition ev_self (q : query) (qsel : state3 q -> node -> res (state3 q)) (s : state3 q) (cur : node)
  : eres (state3 q) :=
  OK3 (CVQuery (mkHandle qsel (reset3 q))) (reset3 q s) cur.

(* groupQuery.Evaluate returns Input.Evaluate(t): a query result is the INPUT *)
Definition lift_group {St} (v : cval St) : cval (group_st St) :=
  match v with
  | CVS x => CVS x
  | CVQuery h =>
    CVQuery (mkHandle (fun st cur => match h_sel h (g_in st) cur with
                                     | R o s' cur' => R o (mkGroup (g_posit st) s') cur'
                                     | Stuck => Stuck
                                     end)
                      (fun st => mkGroup (g_posit st) (h_reset h (g_in st))))
  end.

(* the functions of two arguments *)
Definition fn2_ev {WA WB} (F : nat) (f : fn2)
           (fna : bool) (a0 : WA) (aev : WA -> node -> eres WA) (atest : node -> bool)
           (fnb : bool) (b0 : WB) (bev : WB -> node -> eres WB)
           (st : WA * WB) (cur : node) : eres (WA * WB) :=
      match f with
      | FStartsWith | FEndsWith | FContains =>
        let nm := match f with FStartsWith => "starts-with" | FEndsWith => "ends-with" | _ => "contains" end in
        match fargs fna a0 aev
                    (fun v w c => match v with
                                  | CVS (SStr _) | CVQuery _ => str_or_first_c v w c
                                  | _ => Panic3 (nm ++ "() function argument type must be string")%string
                                  end) (fst st) cur with
        | Stuck3 => Stuck3 | Panic3 m => Panic3 m
        | OK3 m sa cur1 =>
          match fargs fnb b0 bev
                      (fun v w c => match v with
                                    | CVS (SStr n) => OK3 n w c
                                    | _ => Panic3 (nm ++ "() function argument type must be string")%string
                                    end) (snd st) cur1 with
          | Stuck3 => Stuck3 | Panic3 m' => Panic3 m'
          | OK3 n sb cur2 =>
            OK3 (CVS (SBool (match f with
                             | FStartsWith => prefix n m
                             | FEndsWith => has_suffix m n
                             | _ => contains m n end))) (sa, sb) cur2
          end
        end
      | FMatches =>
        match fargs fna a0 aev str_or_first_c (fst st) cur with
        | Stuck3 => Stuck3 | Panic3 m => Panic3 m
        | OK3 s sa cur1 =>
          match fargs fnb b0 bev
                      (fun v w c => match v with
                                    | CVS (SStr p) => OK3 p w c
                                    | _ => Panic3 "matches() function second argument type must be string"
                                    end) (snd st) cur1 with
          | Stuck3 => Stuck3 | Panic3 m' => Panic3 m'
          | OK3 p sb cur2 =>
            match re_match p s with
            | Some r => OK3 (CVS (SBool r)) (sa, sb) cur2
            | None => Panic3 "matches() function second argument is not a valid regexp pattern"
            end
          end
        end
      | FSubstringBefore | FSubstringAfter =>
        (* case query: node := v.Select(t); if node == nil { return "" } *)
        match fargs fna a0 aev
                    (fun v w c => match v with
                                  | CVS (SStr s) => OK3 (Some s) w c
                                  | CVQuery h => first_value_c h w c
                                  | _ => OK3 (Some "") w c
                                  end) (fst st) cur with
        | Stuck3 => Stuck3 | Panic3 m => Panic3 m
        | OK3 None sa cur1 => OK3 (CVS (SStr "")) (sa, snd st) cur1
        | OK3 (Some s) sa cur1 =>
          match fargs fnb b0 bev str_or_first_c (snd st) cur1 with
          | Stuck3 => Stuck3 | Panic3 m' => Panic3 m'
          | OK3 w sb cur2 =>
            OK3 (CVS (SStr (match index_of w s with
                            | None => ""
                            | Some i => match f with
                                        | FSubstringAfter => skipn_s (i + String.length w) s
                                        | _ => firstn_s i s end
                            end))) (sa, sb) cur2
          end
        end
      | FStringJoin =>
        (* separator first, then q := functionArgs(q); string -> return it; query -> join the values *)
        match fargs fnb b0 bev str_or_first_c (snd st) cur with
        | Stuck3 => Stuck3 | Panic3 m => Panic3 m
        | OK3 sep sb cur1 =>
          match fargs fna a0 aev
                      (fun v w c =>
                         match v with
                         | CVS (SStr s) => OK3 s w c
                         | CVQuery h =>
                           match sel_loop (h_sel h)
                                          (fun acc n => (if atest n
                                                         then acc ++ [node_value D n] else acc, false))
                                          F [] w c with
                           | OK3 parts w' c' => OK3 (join sep parts) w' c'
                           | Stuck3 => Stuck3
                           | Panic3 m => Panic3 m
                           end
                         | _ => OK3 "" w c
                         end) (fst st) cur1 with
          | Stuck3 => Stuck3 | Panic3 m' => Panic3 m'
          | OK3 r sa cur2 => OK3 (CVS (SStr r)) (sa, sb) cur2
          end
        end
      end.

(* the functions of three arguments *)
Definition fn3_ev {WA WB WX} (f : fn3)
           (fna : bool) (a0 : WA) (aev : WA -> node -> eres WA)
           (fnb : bool) (b0 : WB) (bev : WB -> node -> eres WB)
           (xnil fnx : bool) (x0 : WX) (xev : WX -> node -> eres WX)
           (st : WA * WB * WX) (cur : node) : eres (WA * WB * WX) :=
      let sa0 := fst (fst st) in let sb0 := snd (fst st) in let sx0 := snd st in
      match f with
      | FSubstring =>
        match fargs fna a0 aev
                    (fun v w c => match v with
                                  | CVS (SStr s) => OK3 (Some s) w c
                                  | CVQuery h => first_value_c h w c
                                  | _ => OK3 (Some "") w c
                                  end) sa0 cur with
        | Stuck3 => Stuck3 | Panic3 m => Panic3 m
        | OK3 None sa cur1 => OK3 (CVS (SStr "")) (sa, sb0, sx0) cur1
        | OK3 (Some m) sa cur1 =>
          match fargs fnb b0 bev
                      (fun v w c => match v with
                                    | CVS (SNum start) => OK3 start w c
                                    | _ => Panic3 "substring() function first argument type must be number"
                                    end) sb0 cur1 with
          | Stuck3 => Stuck3 | Panic3 m' => Panic3 m'
          | OK3 start sb cur2 =>
            if xnil then OK3 (CVS (SStr (substring_go m start None))) (sa, sb, sx0) cur2
            else
              match fargs fnx x0 xev
                          (fun v w c => match v with
                                        | CVS (SNum len) => OK3 len w c
                                        | _ => Panic3 "substring() function second argument type must be number"
                                        end) sx0 cur2 with
              | Stuck3 => Stuck3 | Panic3 m' => Panic3 m'
              | OK3 len sx cur3 => OK3 (CVS (SStr (substring_go m start (Some len)))) (sa, sb, sx) cur3
              end
          end
        end
      | FTranslate | FReplace =>
        match fargs fna a0 aev as_string_c sa0 cur with
        | Stuck3 => Stuck3 | Panic3 m => Panic3 m
        | OK3 s sa cur1 =>
          match fargs fnb b0 bev as_string_c sb0 cur1 with
          | Stuck3 => Stuck3 | Panic3 m => Panic3 m
          | OK3 src sb cur2 =>
            match fargs fnx x0 xev as_string_c sx0 cur2 with
            | Stuck3 => Stuck3 | Panic3 m => Panic3 m
            | OK3 dst sx cur3 =>
              match f with
              | FTranslate => OK3 (CVS (SStr (translate s src dst))) (sa, sb, sx) cur3
              | _ =>
                match re_match src "" with
                | None => Panic3 "replace() function second argument is not a valid regexp pattern"
                | Some _ =>
                  OK3 (CVS (SStr (re_replace_all src s (rewrite_refs (re_numsubexp src) dst)))) (sa, sb, sx) cur3
                end
              end
            end
          end
        end
      end.

(* logicalQuery.Evaluate:  l.done = false; m := Left.Evaluate(t); n := Right.Evaluate(t); Do(t, m, n) *)
Definition logical_ev {L R'} (F : nat) (op : cmpop) (lev : L -> node -> eres L) (rev' : R' -> node -> eres R')
           (st : logic_st L R') (cur : node) : cres3 bool (logic_st L R') :=
  match lev (lg_l st) cur with
  | Stuck3 => Stuck3 | Panic3 m => Panic3 m
  | OK3 va wa cur1 =>
    match rev' (lg_r st) cur1 with
    | Stuck3 => Stuck3 | Panic3 m => Panic3 m
    | OK3 vb wb cur2 =>
      match logical_do F op va wa vb wb cur2 with
      | Stuck3 => Stuck3 | Panic3 m => Panic3 m
      | OK3 b (wa', wb') cur3 => OK3 b (mkLogic false wa' wb') cur3
      end
    end
  end.

(* logicalQuery.Select:
     if l.done { return nil }; node := t.Current().Copy(); val := l.Evaluate(t); l.done = true
     if val == true { return node }; return nil *)
Definition logical_select {L R'} (F : nat) (op : cmpop) (lev : L -> node -> eres L) (rev' : R' -> node -> eres R')
           (st : logic_st L R') (cur : node) : res (logic_st L R') :=
  if lg_done st then R None st cur
  else match logical_ev F op lev rev' st cur with
       | OK3 b st' cur' => R (if b then Some cur else None) (mkLogic true (lg_l st') (lg_r st')) cur'
       | _ => Stuck
       end.

Definition SelT := forall q : query, state3 q -> node -> res (state3 q).
Definition EvT := forall q : query, state3 q -> node -> eres (state3 q).

(* Select, with the Select / Evaluate of the sub-queries as parameters *)
Definition sel3_body (F : nat) (S3 : SelT) (E3 : EvT) (q : query) : state3 q -> node -> res (state3 q) :=
  match q return state3 q -> node -> res (state3 q) with
  | QContext => ctx_select
  | QAbsolute => abs_select
  | QAncestor self t i => anc_select hcode (S3 i) self (MT t) F
  | QAttribute t i => attr_select D (S3 i) (MT t) F
  | QChild t i | QCachedChild t i => child_select D (S3 i) (MT t) F
  | QDescendant self t i => desc_select D (S3 i) self (MT t) F
  | QFollowing sb t i => fol_select D (S3 i) sb (MT t) F
  | QPreceding sb t i => pre_select D (S3 i) sb (MT t) F
  | QParent t i => parent_select (S3 i) (MT t) F
  | QSelf t i => self_select (S3 i) (MT t) F
  | QFilter _ i p => filter3_select (S3 i) (position_of3 i) (depth_of3 i) (E3 p) (S3 p) F
  | QReverse i => rev_select (S3 i) F
  | QGroup i => group_select (S3 i)
  | QUnion l r => union_select hcode (S3 l) (S3 r) F
  | QDoD ms t i => dod_select (S3 i) ms (MT t) F
  | QMerge i ch => merge_select (S3 i) (S3 ch) (reset3 ch) F
  | QBoolean isor l r => bool_select (S3 l) (S3 r) isor F
  | QLogical op l r => logical_select F op (E3 l) (E3 r)
  (* functionQuery, constantQuery, numericQuery, lastFuncQuery, nopQuery: return nil *)
  | _ => fun st cur => R None st cur
  end.

Fixpoint sel3 (F : nat) (q : query) {struct q} : state3 q -> node -> res (state3 q) :=
  sel3_body F (sel3 F) (ev3 F) q
with ev3 (F : nat) (q : query) {struct q} : state3 q -> node -> eres (state3 q) :=
  match q return state3 q -> node -> eres (state3 q) with
  | QNil => fun s cur => OK3 (CVS (SStr "")) s cur
  | QNop => fun s cur => OK3 (CVS SNil) s cur
  | QNum v => fun s cur => OK3 (CVS (SNum v)) s cur
  | QStr x => fun s cur => OK3 (CVS (SStr x)) s cur
  | QFn0 FTrue => fun s cur => OK3 (CVS (SBool true)) s cur
  | QFn0 FFalse => fun s cur => OK3 (CVS (SBool false)) s cur
  | QGroup i =>         (* g.posit = 0; return g.Input.Evaluate(t) *)
    fun st cur =>
      match ev3 F i (g_in st) cur with
      | OK3 v s' cur' => OK3 (lift_group v) (mkGroup 0 s') cur'
      | Stuck3 => Stuck3
      | Panic3 m => Panic3 m
      end
  | QPosition i =>
    fun s cur => match position_c (query_test D has_ns i) cur with
                 | Some n => OK3 (CVS (SNum (num_of_nat n))) s cur
                 | None => Stuck3
                 end
  | QLast i =>
    fun s cur => match last_c (query_test D has_ns i) cur with
                 | Some n => OK3 (CVS (SNum (num_of_nat n))) s cur
                 | None => Stuck3
                 end
  | QLastFunc i =>      (* if !q.counted { buffer = all of Input; counted = true }; float64(len(buffer)) *)
    fun st cur =>
      if lf_counted st then OK3 (CVS (SNum (num_of_nat (List.length (lf_buffer st))))) st cur
      else match mcollect (sel3 F i) F (lf_in st) cur (lf_buffer st) with
           | None => Stuck3
           | Some (buf, s', cur') =>
             OK3 (CVS (SNum (num_of_nat (List.length buf)))) (mkLastF buf true s') cur'
           end
  | QLogical op l r =>
    fun st cur => match logical_ev F op (ev3 F l) (ev3 F r) st cur with
                  | OK3 b st' cur' => OK3 (CVS (SBool b)) st' cur'
                  | Stuck3 => Stuck3
                  | Panic3 m => Panic3 m
                  end
  | QNumeric op l r =>  (* m := Left.Evaluate(t); k := Right.Evaluate(t); asNumber(m) op asNumber(k) *)
    fun st cur =>
      match ev3 F l (fst st) cur with
      | Stuck3 => Stuck3 | Panic3 m => Panic3 m
      | OK3 va wa cur1 =>
        match ev3 F r (snd st) cur1 with
        | Stuck3 => Stuck3 | Panic3 m => Panic3 m
        | OK3 vb wb cur2 =>
          match as_number_c va wa cur2 with
          | Stuck3 => Stuck3 | Panic3 m => Panic3 m
          | OK3 a wa' cur3 =>
            match as_number_c vb wb cur3 with
            | Stuck3 => Stuck3 | Panic3 m => Panic3 m
            | OK3 b wb' cur4 => OK3 (CVS (SNum (arith_op op a b))) (wa', wb') cur4
            end
          end
        end
      end
  | QBoolean isor l r =>
    (* n := t.Current().Copy(); left := asBool(Left.Evaluate(t)); short cut;
       t.Current().MoveTo(n); asBool(Right.Evaluate(t)) *)
    fun st cur =>
      let n := cur in
      match ev3 F l (bo_l st) cur with
      | Stuck3 => Stuck3 | Panic3 m => Panic3 m
      | OK3 va wa cur1 =>
        match as_bool_c va wa cur1 with
        | Stuck3 => Stuck3 | Panic3 m => Panic3 m
        | OK3 a wa' cur2 =>
          if Bool.eqb isor a then OK3 (CVS (SBool a)) (mkBoolSt (bo_it st) wa' (bo_r st)) cur2
          else
            let cur3 := n in
            match ev3 F r (bo_r st) cur3 with
            | Stuck3 => Stuck3 | Panic3 m => Panic3 m
            | OK3 vb wb cur4 =>
              match as_bool_c vb wb cur4 with
              | Stuck3 => Stuck3 | Panic3 m => Panic3 m
              | OK3 b wb' cur5 => OK3 (CVS (SBool b)) (mkBoolSt (bo_it st) wa' wb') cur5
              end
            end
        end
      end
  | QConcat args => ev3 F args
  | QArg a rest =>      (* for _, v := range args { v = functionArgs(v); string -> write; query -> first node } *)
    fun st cur =>
      match fargs (is_fn a) (init3 a) (ev3 F a) str_or_first_c (fst st) cur with
      | Stuck3 => Stuck3 | Panic3 m => Panic3 m
      | OK3 x sa cur1 =>
        match ev3 F rest (snd st) cur1 with
        | Stuck3 => Stuck3 | Panic3 m => Panic3 m
        | OK3 vr sr cur2 =>
          OK3 (CVS (SStr (x ++ match vr with CVS (SStr y) => y | _ => "" end))) (sa, sr) cur2
        end
      end
  | QFn1 f a =>
    match f with
    | FName | FLocalName | FNamespaceURI =>
      fun s cur => sv (name_ev f (is_nil a) (init3 a) (sel3 F a) s cur)
    | _ =>
      fun s cur => sv (fargs (is_fn a) (init3 a) (ev3 F a)
                             (fn1_consume F f (query_test D has_ns a)) s cur)
    end
  | QFn2 f a b => fn2_ev F f (is_fn a) (init3 a) (ev3 F a) (query_test D has_ns a) (is_fn b) (init3 b) (ev3 F b)
  | QFn3 f a b x => fn3_ev f (is_fn a) (init3 a) (ev3 F a) (is_fn b) (init3 b) (ev3 F b)
                           (is_nil x) (is_fn x) (init3 x) (ev3 F x)
  (* the node-set query types: reset, return the query itself *)
  | QContext => ev_self QContext (sel3_body F (sel3 F) (ev3 F) QContext)
  | QAbsolute => ev_self QAbsolute (sel3_body F (sel3 F) (ev3 F) QAbsolute)
  | QAncestor self t i => ev_self (QAncestor self t i) (sel3_body F (sel3 F) (ev3 F) (QAncestor self t i))
  | QAttribute t i => ev_self (QAttribute t i) (sel3_body F (sel3 F) (ev3 F) (QAttribute t i))
  | QChild t i => ev_self (QChild t i) (sel3_body F (sel3 F) (ev3 F) (QChild t i))
  | QCachedChild t i => ev_self (QCachedChild t i) (sel3_body F (sel3 F) (ev3 F) (QCachedChild t i))
  | QDescendant self t i => ev_self (QDescendant self t i) (sel3_body F (sel3 F) (ev3 F) (QDescendant self t i))
  | QFollowing sb t i => ev_self (QFollowing sb t i) (sel3_body F (sel3 F) (ev3 F) (QFollowing sb t i))
  | QPreceding sb t i => ev_self (QPreceding sb t i) (sel3_body F (sel3 F) (ev3 F) (QPreceding sb t i))
  | QParent t i => ev_self (QParent t i) (sel3_body F (sel3 F) (ev3 F) (QParent t i))
  | QSelf t i => ev_self (QSelf t i) (sel3_body F (sel3 F) (ev3 F) (QSelf t i))
  | QFilter np i p => ev_self (QFilter np i p) (sel3_body F (sel3 F) (ev3 F) (QFilter np i p))
  | QReverse i => ev_self (QReverse i) (sel3_body F (sel3 F) (ev3 F) (QReverse i))
  | QUnion l r => ev_self (QUnion l r) (sel3_body F (sel3 F) (ev3 F) (QUnion l r))
  | QDoD ms t i => ev_self (QDoD ms t i) (sel3_body F (sel3 F) (ev3 F) (QDoD ms t i))
  | QMerge i ch => ev_self (QMerge i ch) (sel3_body F (sel3 F) (ev3 F) (QMerge i ch))
  end.

(* ---- a query value: the query with its state ---- *)
Definition qstate3 : Type := { q : query & state3 q }.
Definition fresh3 (q : query) : qstate3 := existT _ q (init3 q).
Definition select3 (F : nat) (st : qstate3) (cur : node) : res qstate3 :=
  match sel3 F (projT1 st) (projT2 st) cur with
  | Stuck => Stuck
  | R o s' cur' => R o (existT _ (projT1 st) s') cur'
  end.
Definition position3 (st : qstate3) : nat := position_of3 (projT1 st) (projT2 st).
Definition depth3 (st : qstate3) : nat := depth_of3 (projT1 st) (projT2 st).

Fixpoint run3 (F : nat) (n : nat) (st : qstate3) (cur : node) : list item * ending * qstate3 * node :=
  match n with
  | 0 => ([], E_more, st, cur)
  | S k =>
    match select3 F st cur with
    | Stuck => ([], E_stuck, st, cur)
    | R None st' cur' => ([], E_nil, st', cur')
    | R (Some x) st' cur' =>
      let '(l, e, st'', cur'') := run3 F k st' cur' in
      (mkItem x (position3 st') (depth3 st') :: l, e, st'', cur'')
    end
  end.
Definition drain_items3 (F n : nat) (st : qstate3) (cur : node) : list item :=
  fst (fst (fst (run3 F n st cur))).
Definition drain3 (F n : nat) (st : qstate3) (cur : node) : list node :=
  map it_node (drain_items3 F n st cur).

(* Expr.Evaluate's core: q.Evaluate(t) on a fresh (cloned) query; a node-set result is
   handed to the caller as the list of nodes the returned query then delivers *)
Inductive eval_out := EO_val (v : sval) | EO_nodes (l : list node) | EO_stuck | EO_panic (msg : string).
Definition evaluate3 (F n : nat) (q : query) (cur : node) : eval_out :=
  match ev3 F q (init3 q) cur with
  | Stuck3 => EO_stuck
  | Panic3 m => EO_panic m
  | OK3 (CVS v) _ _ => EO_val v
  | OK3 (CVQuery h) w cur' =>
    match mcollect (h_sel h) n w cur' [] with
    | Some (l, _, _) => EO_nodes l
    | None => EO_stuck
    end
  end.

End M3.
