"""Per-property configuration of bin/check."""
import os, re, json, subprocess

ROOT = os.path.dirname(os.path.dirname(os.path.abspath(__file__)))

# translators: regenerate Coq fact tables from /repo's sources on every run
# (name, command, properties whose obligations depend on the output; None = all)
TRANSLATORS = [
    ('tables', './build/gentables /repo/parse.go work/Tables.v.new && (cmp -s work/Tables.v.new coq/Generated/Tables.v || cp work/Tables.v.new coq/Generated/Tables.v)', None),
    ('effects', './build/geneffects /repo work/Effects.v.new work/Effects_ok.v.new > work/geneffects.log && (cmp -s work/Effects.v.new coq/Generated/Effects.v || cp work/Effects.v.new coq/Generated/Effects.v)', ['C05', 'C04']),
    ('callgraph', './build/gencallgraph /repo work/CallGraph.v.new > work/gencallgraph.log && (cmp -s work/CallGraph.v.new coq/Generated/CallGraph.v || cp work/CallGraph.v.new coq/Generated/CallGraph.v)', ['C06']),
]

# axioms of the standard library that a theorem may depend on (none is needed so far)
ALLOWED_AXIOMS = {
    'functional_extensionality_dep', 'proof_irrelevance', 'classic', 'JMeq_eq', 'eq_rect_eq',
    'sig_forall_dec', 'sig_not_dec', 'constructive_indefinite_description', 'propositional_extensionality',
}

# theorems outside Props/<id>.v that count as obligations of a property: (module, name)
FACT_THEOREMS = {
    # the effect table (every use of expr.q is .Clone(); every Clone deep-copies) is an obligation of C04 as well
    'C04': [('XP.Props.C05', 'C05_effects_table_ok')],
}

TRUSTED_BASE = [
    'Coq 8.16.1 kernel (coqc, full .vo build); vm_compute is used in the finite fact proofs; no native_compute',
    'axioms: none declared in the development; Print Assumptions of every property theorem is reported in coverage.axioms_reported',
    'the hand-written model coq/*.v is tied to /repo by the correspondence check only (sampling on the generators\' domains)',
    'extraction: ExtrOcamlBasic (bool, option, unit, list, prod, sumbool, sumor -> OCaml types; andb/orb inlined) and ExtrOcamlString (ascii -> char, string -> char list); nat, positive, N, Z, spec_float stay extracted inductive types',
    'OCaml 4.13.1, ocaml/main.ml (case-file decoding only), bin/check + bin/props.py (projection, triage), the Go harness go/ (navigator, generators, canonical printing)',
    'translator go/cmd/gentables (reads the scanner range tables from /repo/parse.go with go/parser; dumps unicode.Nd and unicode.White_Space of the Go standard library)',
    'modelled, not verified: Go compiler/runtime, strconv.ParseFloat/FormatFloat (re-implemented on SpecFloat and compared), regexp (a parameter of the model), hash/fnv (re-implemented, compared through the hook)',
    'SpecFloat (prec 53, emax 1024) is taken as the definition of IEEE 754 binary64',
]
TRUSTED_EXTRA = {}
ASSUMPTIONS = {}
RULES = {}


def corr(gen, mode, **spec):
    return (gen, mode, spec)


import struct


def guard_c08(a, g, m, go, text):
    """string(x) is compared only when x (the guarding numeric case) is finite and |x| < 10^6"""
    gid = [x[6:] for x in a[7:] if x.startswith('guard=')]
    if not gid:
        return True
    v = go.get(gid[0], '')
    if not v.startswith('F:') or v == 'F:nan':
        return False
    try:
        x = struct.unpack('>d', bytes.fromhex(v[2:18]))[0]
    except Exception:
        return False
    return abs(x) < 1e6


def percase_expect(a, g):
    for x in a[7:]:
        if x == 'expect=err' and not g.startswith('E:compile'):
            return 'a damaged expression was accepted by Compile'
        if x == 'expect=ok' and g != 'ok':
            return 'a valid expression of the generator was rejected (generator or engine changed)'
    return None


CRASHY = ['E:crash', 'E:budget', 'E:contract', 'E:compile-panicked', 'X:', 'E:protocol', 'E:eval-select-differ']

PROPS = {
    'NAV': dict(corr=[corr('NAV', 'exact')], note='navigator contract: harness navigator = Doc.v'),
    'C01': dict(corr=[corr('NAV', 'exact'), corr('C01', 'set')]),
    'C02': dict(corr=[corr('C02', 'set')]),
    'C03': dict(corr=[corr('C03', 'set')]),
    'C11': dict(corr=[corr('C11', 'multiset')]),
    'C12': dict(corr=[corr('C12', 'exact', forbid=['E:protocol', 'E:eval-select-differ'])]),
    'C13': dict(corr=[corr('C13', 'set')]),
    'C04': dict(corr=[corr('C04', 'set', forbid=['E:history', 'E:mismatch', 'E:crash'], model_kinds=['hist'])]),
    'C06': dict(corr=[corr('C06', 'exact', forbid=['E:contract', 'E:compile-panicked'], mismatch_is_correspondence=True)]),
    'C07': dict(corr=[corr('C07', 'set', forbid=['E:crash', 'E:complaint'])]),
    'C08': dict(corr=[corr('C08', 'exact', guard=guard_c08)]),
    'C09': dict(corr=[corr('C09', 'exact', forbid=['E:crash'])]),
    'C10': dict(corr=[corr('C10', 'exact')]),
    'C14': dict(corr=[corr('C14', 'set')]),
    'C15': dict(corr=[corr('C15', 'class', forbid=['E:crash', 'E:budget', 'X:', 'I:', 'Z:'], mismatch_is_correspondence=True)]),
    'C16': dict(corr=[corr('C16', 'exact', forbid=['E:mismatch', 'E:crash', 'E:complaint'], model_kinds=['cache'])]),
    'C17': dict(corr=[corr('C17', 'exact', percase=percase_expect, mismatch_is_correspondence=True)]),
}

# ---------------------------------------------------------------- known findings

def load_known():
    out = []
    p = os.path.join(ROOT, 'known_findings.txt')
    if os.path.exists(p):
        for line in open(p):
            line = line.strip()
            m = re.match(r'finding: property=(\S+) id=(\S+) match=(\S+) :: (.*)', line)
            if m:
                out.append(m.groups())
    return out


def m_round_int(info):
    c = info.get('case') or {}
    expr = c.get('expr', '') if isinstance(c, dict) else ''
    go = info.get('go', '')
    if 'round(' not in expr.replace(' ', ''):
        return False
    parts = go.split(';')
    bad = [p for p in parts if p.startswith('I:') or 'unknown%20value%20type' in p or 'unexpected%20type%3A%20int' in p]
    other = [p for p in parts if p.startswith('E:crash') or p.startswith('E:budget') or p.startswith('X:')]
    return bool(bad) and not other and info.get('model', go) == go


MATCHERS = {'round-int': m_round_int}


def match_known(prop, info):
    for p, fid, matcher, text in load_known():
        if p == prop and MATCHERS.get(matcher, lambda i: False)(info):
            return '%s: %s' % (fid, text)
    return None


# ---------------------------------------------------------------- replay

def replay(prop, info, sh):
    """re-run the recorded case(s) on the implementation and on the model"""
    cases = []
    if info.get('case'):
        cases = [info['case']]
    elif info.get('group'):
        cases = info['group']
    if not cases or not all(isinstance(c, dict) and c.get('raw') for c in cases):
        print('replay: this record names a broken obligation / correspondence or an implementation-only run, not a single input:')
        print(json.dumps({k: info[k] for k in info if k in ('broken', 'why', 'schedule', 'detail')}, indent=1)[:3000])
        print('re-run: VERIF_SEED=%s ./bin/check %s --tier %s' % (info.get('seed'), prop, info.get('tier')))
        return 1
    work = os.path.join(ROOT, 'work', 'replay')
    os.makedirs(work, exist_ok=True)
    path = os.path.join(work, 'case.txt')
    with open(path, 'w') as f:
        seen = set()
        for c in cases:
            for did, d in (c.get('docs') or {}).items():
                if did not in seen:
                    seen.add(did)
                    f.write('\t'.join(d) + '\n')
        for c in cases:
            f.write('\t'.join(c['raw']) + '\n')
    sh('./bin/build_go.sh')
    g = sh('./build/xh run %s' % path).stdout
    m = sh('./ocaml/model %s' % path).stdout
    print('implementation:\n' + g + 'model:\n' + m)
    mode = info.get('observable', 'exact')
    import importlib.machinery, importlib.util
    loader = importlib.machinery.SourceFileLoader('chk', os.path.join(ROOT, 'bin', 'check'))
    spec = importlib.util.spec_from_loader('chk', loader)
    chk = importlib.util.module_from_spec(spec)
    loader.exec_module(chk)
    gl = dict(l.split('\t', 1) for l in g.splitlines() if '\t' in l)
    ml = dict(l.split('\t', 1) for l in m.splitlines() if '\t' in l)
    bad = False
    for c in cases:
        cid = c['id']
        if cid in gl and cid in ml and chk.project(mode, gl[cid]) != chk.project(mode, ml[cid]) and not ml[cid].startswith('?') and not ml[cid].startswith('U:'):
            bad = True
    if info.get('group'):
        vals = set(chk.project('set', gl.get(c['id'], '')) for c in cases)
        bad = bad or len(vals) > 1
    for w in CRASHY:
        if any(x.startswith(w) for v in gl.values() for x in v.split(';')):
            bad = True
    print('replay: the violation %s' % ('REPRODUCES' if bad else 'does not reproduce on the current tree'))
    return 1 if bad else 0


# ---------------------------------------------------------------- coqchk (thorough tier)

def coqchk(cx, sh):
    mods = ['XP.Props.%s' % cx.prop] if os.path.exists(os.path.join(ROOT, 'coq/Props/%s.v' % cx.prop)) else []
    if not mods:
        return
    r = sh('cd coq && timeout 3000 coqchk -silent -o -Q . XP %s 2>&1 | tail -40' % ' '.join(mods), timeout=3100)
    cx.cov['coqchk'] = r.stdout[-3000:]
    if r.returncode != 0 or 'Fatal' in r.stdout or 'Error' in r.stdout:
        cx.broken.append('coqchk:' + cx.prop)


# ---------------------------------------------------------------- extra (implementation-only) explorations

def extra_race(which):
    def run(cx, sh):
        r = sh('cd go && go build -race -tags verif -o ../build/xh_race ./cmd/xh', timeout=1200)
        if r.returncode != 0:
            cx.broken.append('correspondence:race-build')
            cx.violation({'broken': 'race-enabled harness build failed', 'output': r.stdout[-2000:]}, nofail=True)
            return
        rounds = 4 if cx.tier == 'quick' else 120
        for cmd in which:
            rr = rounds * (5 if cmd == 'cacherace' else 1)
            r = sh('ulimit -v 16000000; timeout %d ./build/xh_race %s %d %d' % (600 if cx.tier == 'quick' else 7000, cmd, cx.seed, rr), timeout=7200)
            out = r.stdout
            m = re.search(r'(?:evaluations|gets)=(\d+)', out)
            if m:
                cx.evaluations += int(m.group(1))
                cx.nontrivial.add('race-run-%s-%s' % (cmd, m.group(1)))
            me = re.search(r'exprs=(\d+)', out)
            if me:
                # every expression of the corpus was evaluated by all goroutines from every context
                # node and compared with its sequential result: one distinct case per expression
                for i in range(int(me.group(1))):
                    cx.nontrivial.add('race-expr-%d' % i)
            cx.cov.setdefault('race_runs', []).append(dict(cmd=cmd, rounds=rr, goroutines=8, summary=[l for l in out.splitlines() if 'RUN' in l][:2]))
            if 'DATA RACE' in out:
                i = out.find('WARNING: DATA RACE')
                cx.violation({'why': 'the Go race detector reported a data race', 'schedule': dict(cmd=cmd, seed=cx.seed, rounds=rr, goroutines=8),
                              'report': out[i:i + 3000]})
            elif 'MISMATCH' in out:
                cx.violation({'why': 'a concurrent call returned something else than the sequential call', 'schedule': dict(cmd=cmd, seed=cx.seed, rounds=rr),
                              'report': [l for l in out.splitlines() if l.startswith('MISMATCH')][:5]})
            elif r.returncode != 0:
                cx.violation({'why': 'concurrent run aborted (exit %d)' % r.returncode, 'schedule': dict(cmd=cmd, seed=cx.seed, rounds=rr), 'report': out[-3000:]})
            if len(cx.samples) < 8:
                cx.samples.append(dict(race_run=cmd, output=out[-300:]))
    return run


def extra_deep(cx, sh):
    """every recursive construct nested 10^k deep, each in its own process"""
    depths = [1000, 1025, 100000, 1000000] if cx.tier == 'quick' else [1000, 1023, 1024, 1025, 100000, 1000000, 10000000]
    kinds = ['paren', 'seq', 'pred', 'func', 'minus', 'path', 'plus', 'union', 'filter', 'parenopen', 'predopen', 'dots', 'concat']
    import subprocess
    procs = []
    for k in kinds:
        for n in depths:
            p = subprocess.Popen('ulimit -v 12000000; timeout 300 ./build/xh deep %s %d' % (k, n), shell=True, stdout=subprocess.PIPE,
                                 stderr=subprocess.STDOUT, text=True, cwd=ROOT)
            procs.append((k, n, p))
            if len(procs) % 16 == 0:
                for _, _, q in procs[-16:]:
                    q.wait()
    res = collections_counter()
    for k, n, p in procs:
        out, _ = p.communicate()
        cx.evaluations += 1
        line = [l for l in out.splitlines() if l.startswith('DEEP')]
        if p.returncode != 0 or not line:
            cx.violation({'why': 'Compile of a deeply nested expression did not return (exit status %s)' % p.returncode,
                          'case': {'expr': '%s nested %d deep (xh deep %s %d)' % (k, n, k, n), 'kind': 'deep'}, 'go': out[-600:]})
        else:
            res[line[0].split('\t')[3]] += 1
            cx.nontrivial.add('deep-%s-%d' % (k, n))
            if n >= 100000 and len(cx.samples) < 10:
                cx.samples.append(dict(deep=line[0]))
    cx.cov['deep_nesting'] = dict(kinds=kinds, depths=depths, verdicts=dict(res))


def collections_counter():
    import collections
    return collections.Counter()


PROPS['C05'] = dict(corr=[], extra=[extra_race(['race', 'cacherace'])])
PROPS['C06']['extra'] = [extra_deep]
PROPS['C16']['extra'] = [extra_race(['cacherace'])]
