(* Proofs/EndToEndBool.v — property C07, the boolean clause, end to end at the
   level of TEXTS.

   Operands E: a number literal, a string literal, or a predicate-free
   location path (EndToEndValues.is_operand_px); [opval E c m] is what E is
   worth at c, [Compare.truth m] its XPath truth value (= xboolean of the
   abstraction of m).
     E1 or E2 , E1 and E2     VBool of the disjunction / conjunction of the truth values
     boolean(E)               VBool (truth value of E)
     not(E)                   VBool (negation of the truth value) for a path; for
                              a number or string literal the model returns FALSE,
                              always (the known notFunc "default" finding)
   Short circuit: in  E1 or E2 / E1 and E2  with E1 an operand as above and E2
   ANY expression of the round-trip grammar whose tree the builder accepts
   (its evaluation may be a complaint): when E1 decides, the value is decided
   without E2; when it does not, the value is boolean(E2), or E2's failure. *)
From XP Require Import Base F64 Doc Ast Scan Parse Build Hash Eval Api.
From XP.Spec Require Import Axes Paths Values.
From XP.Proofs Require Import ParseTerm ScanTokens RoundTripOps RoundTripPaths
                              HashInj AxesSound PathSem BuildPath BuildFacts Compare
                              BuildOps EndToEndPaths EndToEndPred EndToEndPos EndToEndValues.
Require Import Lia ZArith.
Open Scope string_scope.
Open Scope nat_scope.
Open Scope list_scope.

(* ------------------------------------------------------------------ *)
(** * 1. The builder on the one-argument boolean / number functions     *)
(* ------------------------------------------------------------------ *)

Definition fn1_table2 : list (string * fn1) :=
  [("not", FNot); ("boolean", FBoolean); ("number", FNumber); ("count", FCount);
   ("sum", FSum); ("floor", FFloor); ("ceiling", FCeiling); ("round", FRound)].

Section BuildCalls.
Variable re_ok : string -> bool.

Lemma process_fn1_shape2 : forall fn F d pre a0 fl fi q0 pr0 fi0,
  In (fn, F) fn1_table2 -> d < max_build_depth ->
  process re_ok (S d) a0 fl_none fi = Ok (q0, pr0, fi0) ->
  process re_ok d (AFunc pre fn [a0]) fl fi = Ok (QFn1 F q0, pr0, mkFi (fi_q fi0) false).
Proof.
  intros fn F d pre a0 fl fi q0 pr0 fi0 Hin Hd H0.
  cbn [fn1_table2 In] in Hin.
  repeat (destruct Hin as [Hin|Hin];
    [inversion Hin; subst fn F; cbn [process]; rewrite (depth_ok d Hd);
     cbn [String.eqb Ascii.eqb Bool.eqb andb orb negb List.length Nat.eqb Nat.ltb Nat.leb];
     rewrite H0; reflexivity|]).
  contradiction.
Qed.

End BuildCalls.

Section Bool.
Variable D : tree.
Variable has_ns : bool.
Variable hc : tree -> node -> N.
Variable rm : string -> string -> option bool.
Variable rn : string -> nat.
Variable rr : string -> string -> string -> string.
Hypothesis Hhash : hash_ok (hc D) (all_nodes D).
Variable re_ok : string -> bool.
Variable ns : nsmap.

Notation EVALUATE := (evaluate rm rn rr hc D has_ns).
Notation EVAL := (eval D has_ns (hc D) rm rn rr).
Notation OPVAL := (opval D has_ns).

Lemma typed_not_int : forall v, xpath_typed v -> not_int v.
Proof. destruct v; cbn; auto. Qed.

Lemma typed_abs : forall v, xpath_typed v -> exists x, abs D v = Some x.
Proof. destruct v; cbn; intros H; try contradiction; eauto. Qed.

(* an outcome that is not a node list is returned as it is *)
Lemma evaluate_other : forall q c, (forall l, EVAL q c <> Val (VNodes l)) -> EVALUATE q c = EVAL q c.
Proof.
  intros q c H. unfold evaluate. destruct (EVAL q c) as [v| |]; try reflexivity.
  destruct v; try reflexivity. exfalso. apply (H l). reflexivity.
Qed.

(* fn(E), E an operand: what Compile returns and how the argument evaluates *)
Lemma call1_text2 : forall fn F l,
  In (fn, F) fn1_table2 -> is_operand_px l ->
  xok (XCall fn (AOne l)) -> 1 + osize l <= max_build_depth ->
  exists q1,
    compile re_ok (print_min (XCall fn (AOne l))) ns = Ok (QFn1 F q1) /\
    compile re_ok (print_sp (XCall fn (AOne l))) ns = Ok (QFn1 F q1) /\
    forall c, valid D c = true -> exists m, EVAL q1 c = Val m /\ OPVAL l c m.
Proof.
  intros fn F l Hin Hl Hok Hsl.
  destruct (operand_depth l Hl) as (Wl & Dl).
  destruct (operand_builds D has_ns (hc D) rm rn rr Hhash re_ok l 1 fi_nil Hl Hsl)
    as (q1 & pr1 & fi1 & E1 & V1).
  assert (Hd0 : 0 < max_build_depth) by (unfold max_build_depth; lia).
  pose proof (process_fn1_shape2 re_ok fn F 0 "" (xast l) fl_none fi_nil _ _ _ Hin Hd0 E1) as E.
  assert (Hnt : node_type_name fn = false).
  { cbn [fn1_table2 In] in Hin. repeat (destruct Hin as [Hin|Hin]; [inversion Hin; reflexivity|]). contradiction. }
  destruct (call_compiles re_ok ns fn (AOne l) _ _ _ Hnt Wl Hok
              ltac:(cbn [RoundTripPaths.adepth]; rewrite Dl; unfold max_depth; lia) E ltac:(discriminate))
    as [C1 C2].
  exists q1. split; [exact C1|]. split; [exact C2|]. exact V1.
Qed.

Definition bop (isor : bool) : binop := if isor then BOr else BAnd.
Definition bcomb (isor : bool) (a b : bool) : bool := if isor then orb a b else andb a b.

(** E1 or E2 , E1 and E2 : the disjunction / conjunction of the truth values *)
Theorem C07_text_and_or : forall (isor : bool) l r,
  is_operand_px l -> is_operand_px r ->
  xok (XBin (bop isor) l r) -> 1 + osize l <= max_build_depth -> 1 + osize r <= max_build_depth ->
  exists q,
    compile re_ok (print_min (XBin (bop isor) l r)) ns = Ok q /\
    compile re_ok (print_sp (XBin (bop isor) l r)) ns = Ok q /\
    forall c, valid D c = true ->
    exists m n x y, OPVAL l c m /\ OPVAL r c n /\ abs D m = Some x /\ abs D n = Some y /\
      EVALUATE q c = Val (VBool (bcomb isor (truth m) (truth n))) /\
      EVALUATE q c = Val (VBool (bcomb isor (xboolean x) (xboolean y))).
Proof.
  intros isor l r Hl Hr Hok Hsl Hsr.
  assert (HQ : op_class (opname (bop isor)) (QBoolean isor)) by (destruct isor; constructor).
  destruct (binop_text D has_ns hc rm rn rr Hhash re_ok ns (bop isor) (QBoolean isor) l r Hl Hr
              ltac:(destruct isor; cbn; lia) HQ Hok Hsl Hsr) as (q1 & q2 & C1 & C2 & HV).
  exists (QBoolean isor q1 q2). split; [exact C1|]. split; [exact C2|].
  intros c Hc. destruct (HV c Hc) as (m & n & Em & En & Hm & Hn).
  pose proof (opval_typed D has_ns l c m Hl Hm) as Tm. pose proof (opval_typed D has_ns r c n Hr Hn) as Tn.
  destruct (typed_abs m Tm) as [x Hx]. destruct (typed_abs n Tn) as [y Hy].
  exists m, n, x, y. split; [exact Hm|]. split; [exact Hn|]. split; [exact Hx|]. split; [exact Hy|].
  assert (HE : EVALUATE (QBoolean isor q1 q2) c = Val (VBool (bcomb isor (truth m) (truth n)))).
  { apply (evaluate_scalar D has_ns hc rm rn rr); [|discriminate].
    rewrite eval_QBoolean_eq, Em. cbn [obind]. rewrite (as_bool_truth m (typed_not_int m Tm)). cbn [obind].
    rewrite En. cbn [obind]. rewrite (as_bool_truth n (typed_not_int n Tn)). cbn [obind].
    destruct isor, (truth m), (truth n); reflexivity. }
  split; [exact HE|].
  rewrite <- (truth_spec D m x Hx), <- (truth_spec D n y Hy). exact HE.
Qed.

(** the short circuit: the right operand is ANY expression the builder accepts *)
Theorem C07_text_short_circuit : forall (isor : bool) l r,
  is_operand_px l -> 1 + osize l <= max_build_depth ->
  xwf (XBin (bop isor) l r) -> xok (XBin (bop isor) l r) -> xdepth (XBin (bop isor) l r) < max_depth ->
  (forall fi, exists q2 pr2 fi2, process re_ok 1 (xast r) fl_none fi = Ok (q2, pr2, fi2)) ->
  exists q1 q2,
    compile re_ok (print_min (XBin (bop isor) l r)) ns = Ok (QBoolean isor q1 q2) /\
    compile re_ok (print_sp (XBin (bop isor) l r)) ns = Ok (QBoolean isor q1 q2) /\
    (exists fi pr2 fi2, process re_ok 1 (xast r) fl_none fi = Ok (q2, pr2, fi2)) /\
    forall c, valid D c = true ->
    exists m, OPVAL l c m /\
      (* E1 decides: E2 is not looked at *)
      (truth m = isor -> EVALUATE (QBoolean isor q1 q2) c = Val (VBool isor)) /\
      (* E1 does not decide: boolean(E2) ... *)
      (truth m = negb isor -> forall n, EVAL q2 c = Val n -> not_int n ->
         EVALUATE (QBoolean isor q1 q2) c = Val (VBool (truth n))) /\
      (* ... or the failure of E2 *)
      (truth m = negb isor -> (forall v, EVAL q2 c <> Val v) ->
         EVALUATE (QBoolean isor q1 q2) c = EVAL q2 c).
Proof.
  intros isor l r Hl Hsl Hwf Hok Hd Hr.
  destruct (operand_builds D has_ns (hc D) rm rn rr Hhash re_ok l 1 fi_nil Hl Hsl)
    as (q1 & pr1 & fi1 & E1 & V1).
  destruct (Hr fi1) as (q2 & pr2 & fi2 & E2).
  assert (HQ : op_class (opname (bop isor)) (QBoolean isor)) by (destruct isor; constructor).
  destruct (compiled_binop_text re_ok ns (bop isor) (QBoolean isor) l r q1 q2 Hwf Hok Hd HQ) as [C1 C2].
  { exists pr1, fi1, pr2, fi2. split; assumption. }
  exists q1, q2. split; [exact C1|]. split; [exact C2|]. split; [eauto|].
  intros c Hc. destruct (V1 c Hc) as (m & Em & Hm).
  pose proof (typed_not_int m (opval_typed D has_ns l c m Hl Hm)) as Nm.
  exists m. split; [exact Hm|]. split; [|split].
  - intros Ht. apply (evaluate_scalar D has_ns hc rm rn rr); [|discriminate].
    destruct isor.
    + apply (eval_or_left_true D has_ns (hc D) rm rn rr q1 q2 c m Em Nm Ht).
    + apply (eval_and_left_false D has_ns (hc D) rm rn rr q1 q2 c m Em Nm Ht).
  - intros Ht n En Nn. apply (evaluate_scalar D has_ns hc rm rn rr); [|discriminate].
    destruct isor.
    + apply (eval_or_left_false D has_ns (hc D) rm rn rr q1 q2 c m n Em Nm Ht En Nn).
    + apply (eval_and_left_true D has_ns (hc D) rm rn rr q1 q2 c m n Em Nm Ht En Nn).
  - intros Ht Hf.
    pose proof (eval_bool_right_fails D has_ns (hc D) rm rn rr isor q1 q2 c m Em Nm Ht Hf) as HE.
    rewrite <- HE. apply evaluate_other. intros l0 Hl0. rewrite HE in Hl0. exact (Hf _ Hl0).
Qed.

(** boolean(E) *)
Theorem C07_text_boolean : forall l,
  is_operand_px l -> xok (XCall "boolean" (AOne l)) -> 1 + osize l <= max_build_depth ->
  exists q,
    compile re_ok (print_min (XCall "boolean" (AOne l))) ns = Ok q /\
    compile re_ok (print_sp (XCall "boolean" (AOne l))) ns = Ok q /\
    forall c, valid D c = true ->
    exists m x, OPVAL l c m /\ abs D m = Some x /\
      EVALUATE q c = Val (VBool (truth m)) /\ EVALUATE q c = Val (VBool (xboolean x)).
Proof.
  intros l Hl Hok Hsl.
  destruct (call1_text2 "boolean" FBoolean l ltac:(cbn; tauto) Hl Hok Hsl) as (q1 & C1 & C2 & HV).
  exists (QFn1 FBoolean q1). split; [exact C1|]. split; [exact C2|].
  intros c Hc. destruct (HV c Hc) as (m & Em & Hm).
  pose proof (opval_typed D has_ns l c m Hl Hm) as Tm. destruct (typed_abs m Tm) as [x Hx].
  exists m, x. split; [exact Hm|]. split; [exact Hx|].
  assert (HE : EVALUATE (QFn1 FBoolean q1) c = Val (VBool (truth m))).
  { apply (evaluate_scalar D has_ns hc rm rn rr); [|discriminate].
    rewrite eval_FBoolean_eq, Em. cbn [obind]. rewrite (as_bool_truth m (typed_not_int m Tm)). reflexivity. }
  split; [exact HE|]. rewrite <- (truth_spec D m x Hx). exact HE.
Qed.

(** not(E): the negation for a path; FALSE for a literal, whatever it is *)
Theorem C07_text_not : forall l,
  is_operand_px l -> xok (XCall "not" (AOne l)) -> 1 + osize l <= max_build_depth ->
  exists q,
    compile re_ok (print_min (XCall "not" (AOne l))) ns = Ok q /\
    compile re_ok (print_sp (XCall "not" (AOne l))) ns = Ok q /\
    forall c, valid D c = true ->
    exists m x, OPVAL l c m /\ abs D m = Some x /\
      EVALUATE q c = Val (VBool (match l with
                                 | XNum _ | RoundTripPaths.XStr _ => false
                                 | _ => negb (xboolean x)
                                 end)).
Proof.
  intros l Hl Hok Hsl.
  destruct (call1_text2 "not" FNot l ltac:(cbn; tauto) Hl Hok Hsl) as (q1 & C1 & C2 & HV).
  exists (QFn1 FNot q1). split; [exact C1|]. split; [exact C2|].
  intros c Hc. destruct (HV c Hc) as (m & Em & Hm).
  pose proof (opval_typed D has_ns l c m Hl Hm) as Tm. destruct (typed_abs m Tm) as [x Hx].
  exists m, x. split; [exact Hm|]. split; [exact Hx|].
  apply (evaluate_scalar D has_ns hc rm rn rr); [|discriminate].
  rewrite eval_FNot_eq, Em. cbn [obind].
  destruct l; cbn [opval] in Hm; try (subst m; reflexivity);
    destruct Hm as (l0 & -> & _); cbn in Hx; inversion Hx; subst x; cbn [xboolean];
    unfold values_of; destruct l0; reflexivity.
Qed.

End Bool.

Print Assumptions C07_text_and_or.
Print Assumptions C07_text_short_circuit.
Print Assumptions C07_text_boolean.
Print Assumptions C07_text_not.

(* ------------------------------------------------------------------ *)
(** * 2. Examples                                                       *)
(* ------------------------------------------------------------------ *)
Module Examples.
Import AxesSound.Examples EndToEndPaths.Examples EndToEndValues.Examples.

(*   <a x="1" y="2"> <b>t</b> <c z="3"><d/><!--k--></c> <e/> </a>   *)
Definition n0 : px := XNum (list_of_string "0").
Definition p_az : px := XPath PRel (RCons (st_child "a") false (ROne (st_child "zz"))).

(*  a/b and 0 : a non-empty node-set and the number 0 *)
Example and_example :
  print_min (XBin BAnd p_ab n0) = "a/b and 0" /\
  exists q, compile Api.lit_ok "a/b and 0" None = Ok q /\ EVx q root_node = Val (VBool false).
Proof.
  split; [vm_compute; reflexivity|].
  destruct (C07_text_and_or exD true hash_code lit_match lit_numsubexp lit_replace_all hx Api.lit_ok None
              false p_ab n0 (op_path p_ab eq_refl) I ltac:(vm_compute; reflexivity)
              ltac:(vm_compute; lia) ltac:(vm_compute; lia)) as (q & C & _ & HV).
  replace (print_min (XBin (bop false) p_ab n0)) with "a/b and 0" in C by (vm_compute; reflexivity).
  exists q. split; [exact C|]. vm_compute in C. inversion C; subst q. vm_compute. reflexivity.
Qed.

(*  a/zz or 'x' : an empty node-set or a non-empty string *)
Example or_example :
  print_min (XBin BOr p_az (RoundTripPaths.XStr "x")) = "a/zz or'x'" /\
  exists q, compile Api.lit_ok "a/zz or'x'" None = Ok q /\ EVx q root_node = Val (VBool true).
Proof.
  split; [vm_compute; reflexivity|].
  destruct (C07_text_and_or exD true hash_code lit_match lit_numsubexp lit_replace_all hx Api.lit_ok None
              true p_az (RoundTripPaths.XStr "x") (op_path p_az eq_refl) I ltac:(vm_compute; reflexivity)
              ltac:(vm_compute; lia) ltac:(vm_compute; lia)) as (q & C & _ & HV).
  replace (print_min (XBin (bop true) p_az (RoundTripPaths.XStr "x"))) with "a/zz or'x'" in C
    by (vm_compute; reflexivity).
  exists q. split; [exact C|]. vm_compute in C. inversion C; subst q. vm_compute. reflexivity.
Qed.

(* the short circuit with a right operand whose evaluation is a complaint:
   contains(12,'1') complains (a number where a string is expected), yet
   1 or contains(12,'1')  is true;  0 or contains(12,'1')  is the complaint *)
Definition r_bad : px := XCall "contains" (args2 (XNum (list_of_string "12")) (RoundTripPaths.XStr "1")).

Example short_circuit_example :
  print_min (XBin BOr n1 r_bad) = "1or contains(12,'1')" /\
  (exists q, compile Api.lit_ok "1or contains(12,'1')" None = Ok q /\ EVx q root_node = Val (VBool true)) /\
  (exists q msg, compile Api.lit_ok "contains(12,'1')" None = Ok q /\ EVx q root_node = Complaint msg) /\
  (exists q msg, compile Api.lit_ok "0 or contains(12,'1')" None = Ok q /\ EVx q root_node = Complaint msg) /\
  (exists q, compile Api.lit_ok "0 and contains(12,'1')" None = Ok q /\ EVx q root_node = Val (VBool false)).
Proof.
  split; [vm_compute; reflexivity|]. split; [|split; [|split]].
  - destruct (C07_text_short_circuit exD true hash_code lit_match lit_numsubexp lit_replace_all hx Api.lit_ok None
                true n1 r_bad I ltac:(vm_compute; lia)) as (q1 & q2 & C & _ & _ & HV).
    + cbn [xwf awf bop xlvl level r_bad n1 args2 node_type_name]. repeat split; try lia; try (vm_compute; reflexivity).
    + vm_compute. reflexivity.
    + vm_compute. lia.
    + intros fi. exists (QFn2 FContains (QNum (of_Z 12)) (QStr "1")), pr_none, (mkFi (fi_q fi) false).
      vm_compute. reflexivity.
    + replace (print_min (XBin (bop true) n1 r_bad)) with "1or contains(12,'1')" in C by (vm_compute; reflexivity).
      eexists. split; [exact C|].
      destruct (HV root_node eq_refl) as (m & Hm & Hdec & _). cbn [opval n1] in Hm. subst m.
      apply Hdec. vm_compute. reflexivity.
  - eexists. eexists. split; [vm_compute; reflexivity|]. vm_compute. reflexivity.
  - eexists. eexists. split; [vm_compute; reflexivity|]. vm_compute. reflexivity.
  - eexists. split; [vm_compute; reflexivity|]. vm_compute. reflexivity.
Qed.

(* boolean() and not() *)
Example boolean_not_examples :
  (exists q, compile Api.lit_ok "boolean(a/b)" None = Ok q /\ EVx q root_node = Val (VBool true)) /\
  (exists q, compile Api.lit_ok "boolean('')" None = Ok q /\ EVx q root_node = Val (VBool false)) /\
  (exists q, compile Api.lit_ok "not(a/zz)" None = Ok q /\ EVx q root_node = Val (VBool true)) /\
  (exists q, compile Api.lit_ok "not(a/b)" None = Ok q /\ EVx q root_node = Val (VBool false)) /\
  (* the model's not() of a literal: false, where XPath 1.0 says true *)
  (exists q, compile Api.lit_ok "not(0)" None = Ok q /\ EVx q root_node = Val (VBool false)).
Proof.
  repeat split.
  - destruct (C07_text_boolean exD true hash_code lit_match lit_numsubexp lit_replace_all hx Api.lit_ok None
                p_ab (op_path p_ab eq_refl) ltac:(vm_compute; reflexivity) ltac:(vm_compute; lia))
      as (q & C & _ & HV).
    replace (print_min (XCall "boolean" (AOne p_ab))) with "boolean(a/b)" in C by (vm_compute; reflexivity).
    exists q. split; [exact C|]. vm_compute in C. inversion C; subst q. vm_compute. reflexivity.
  - eexists. split; [vm_compute; reflexivity|]. vm_compute. reflexivity.
  - destruct (C07_text_not exD true hash_code lit_match lit_numsubexp lit_replace_all hx Api.lit_ok None
                p_az (op_path p_az eq_refl) ltac:(vm_compute; reflexivity) ltac:(vm_compute; lia))
      as (q & C & _ & HV).
    replace (print_min (XCall "not" (AOne p_az))) with "not(a/zz)" in C by (vm_compute; reflexivity).
    exists q. split; [exact C|]. vm_compute in C. inversion C; subst q. vm_compute. reflexivity.
  - eexists. split; [vm_compute; reflexivity|]. vm_compute. reflexivity.
  - eexists. split; [vm_compute; reflexivity|]. vm_compute. reflexivity.
Qed.

End Examples.
