(* Proofs/EndToEndPos.v — property C03, end to end: positional predicates on a
   child step, at the level of TEXTS.

   For a predicate-free location path P (EndToEndPaths.path_syntax) whose last
   step is a child step  child::t  (written  t  or  child::t ), and

       P[k]               k a literal integer
       P[last()]
       P[position() op k] op one of  = != < <= > >=

   Compile of the printed text succeeds and Select, from every valid context
   node c, returns

       flat_map (fun m => pick (cands t m)) ps

   where  ps  is the node list selected by the PREFIX of P (all steps but the
   last; exactly the nodes of its XPath denotation; in document order without
   duplicates when the prefix only uses child / attribute / self steps),
   cands t m  are the children of m that pass the node test t, in document
   order, and  pick  keeps the k-th of them (1-based) / the last one / those
   whose 1-based index satisfies the comparison.

   Chain: round trip (RoundTripPaths) -> parse tree shape (EndToEndPaths) ->
   processFilter, whatever it decides: plain filter or the merge rewrite
   (BuildFilter.process_step_filter_sound) -> Position.v. *)
From XP Require Import Base F64 Doc Ast Scan Parse Build Hash Eval Api.
From XP.Spec Require Import Axes Paths.
From XP.Proofs Require Import ParseTerm ScanTokens RoundTripOps RoundTripPaths
                              DocOrder HashInj AxesSound PathSem BuildPath BuildFacts Filter Position
                              BuildFilter Compose BuildOps EndToEndPaths EndToEndPred.
Require Import Lia ZArith.
Open Scope string_scope.
Open Scope nat_scope.
Open Scope list_scope.

(* ------------------------------------------------------------------ *)
(** * 1. The three predicates, as syntax                                *)
(* ------------------------------------------------------------------ *)

Definition pred_index (ds : list ascii) : px := XNum ds.
Definition pred_last : px := XCall0 "last".
Definition pred_position (b : binop) (ds : list ascii) : px :=
  XBin b (XCall0 "position") (XNum ds).

(* the value of a literal integer *)
Definition lit_Z (ds : list ascii) : Z := digits_val ds 0.
Definition lit_f (ds : list ascii) : f64 := of_decimal false ds [].

Lemma lit_f_of_Z : forall ds, lit_f ds = of_Z (lit_Z ds).
Proof.
  intros ds. unfold lit_f, lit_Z, of_decimal. cbn [List.length digits_val Z.of_nat Z.eqb].
  destruct (digits_val ds 0); reflexivity.
Qed.

Lemma go_int_lit : forall ds, (Z.abs (lit_Z ds) <= 2 ^ 53)%Z -> go_int (lit_f ds) = lit_Z ds.
Proof. intros ds H. rewrite lit_f_of_Z. apply go_int_of_Z_small. exact H. Qed.

(* steps that keep a node list flat (DocOrder.flat_query) *)
Definition flat_step (s : sstep) : Prop :=
  match s_axis s with Child | Attribute | Self => True | _ => False end.

(* the query of a child step, as processAxis chooses it *)
Definition cq (nonflat : bool) (t : ntest) (i : query) : query :=
  if nonflat then QCachedChild t i else QChild t i.

(* ------------------------------------------------------------------ *)
(** * 2. Builder                                                        *)
(* ------------------------------------------------------------------ *)

Section Build.
Variable re_ok : string -> bool.

Lemma flat_out : forall abs rs oa, rpath_ast abs rs oa -> Forall flat_step rs ->
  forall depth fl q pr, proc_opt re_ok depth oa fl = Ok (q, pr) -> flat_query q.
Proof.
  intros abs rs oa H. induction H as [Ha|sl Ha|s r inp prop HA IH]; intros HF depth fl q pr E.
  - cbn [proc_opt] in E. inversion E. constructor.
  - cbn [proc_opt process] in E. destruct (Nat.ltb max_build_depth (S depth)); [discriminate|].
    cbn [cbind] in E. inversion E. constructor.
  - inversion HF as [|? ? Hs Hr]; subst. cbn [proc_opt] in E. unfold step_ast in E.
    rewrite process_axis_eq in E. destruct (Nat.ltb max_build_depth (S depth)); [discriminate|].
    cbv zeta in E.
    destruct (fused_cond fl (axis_name (s_axis s)) inp) eqn:Ef.
    + exfalso. inversion HA as [Hb|sl Hb|s2 r2 inp2 prop2 HA2]; subst; try discriminate Ef.
      unfold step_ast in Ef. cbn [fused_cond] in Ef.
      repeat rewrite andb_true_iff in Ef. destruct Ef as (_ & ((Ed & _) & _)).
      apply axis_name_dos in Ed. inversion Hr as [|? ? Hs2 _]; subst.
      unfold flat_step in Hs2. rewrite Ed in Hs2. exact Hs2.
    + match type of E with context [proc_opt re_ok (S depth) inp ?f] =>
        destruct (proc_opt re_ok (S depth) inp f) as [[qi pri]| |] eqn:Ei end;
        cbn [cbind] in E; try discriminate.
      pose proof (IH Hr _ _ _ _ Ei) as Hq.
      destruct s as [a t]. unfold flat_step in Hs. cbn [s_axis s_test] in *.
      destruct a; try contradiction; cbn in E; inversion E; subst;
        try match goal with |- context [if ?c then _ else _] => destruct c end;
        constructor; exact Hq.
Qed.

Lemma filter_result_ok : forall isfirst qi c' pr' prc' fi1,
  exists q, filter_result isfirst qi c' pr' prc' fi1 = Ok (q, pr', mkFi (Some q) true) /\ q <> QNil.
Proof.
  intros isfirst qi c' pr' prc' fi1. unfold filter_result, ret.
  destruct isfirst; [|eexists; split; [reflexivity|discriminate]].
  destruct (fi_q fi1) as [fq|]; [|eexists; split; [reflexivity|discriminate]].
  destruct (andb (q_merge qi) (pr_posfilter pr')); [|eexists; split; [reflexivity|discriminate]].
  destruct (reroot fq) as [[parent fq']|]; eexists; (split; [reflexivity|discriminate]).
Qed.

End Build.

Section Sem.
Variable D : tree.
Variable has_ns : bool.
Variable hcode : node -> N.
Variable rm : string -> string -> option bool.
Variable rn : string -> nat.
Variable rr : string -> string -> string -> string.
Hypothesis Hhash : hash_ok hcode (all_nodes D).
Variable re_ok : string -> bool.

Notation QDEN := (qden D has_ns hcode rm rn rr).
Notation SEL := (sel D has_ns hcode rm rn rr).
Notation EVAL := (eval D has_ns hcode rm rn rr).
Notation CANDS := (cands D has_ns).

(* the last (child) step as the input of the filter node *)
Lemma filter_input_child : forall abs t rpre prop inp d fi,
  rpath_ast abs rpre inp ->
  d + S (List.length rpre) + (if abs then 1 else 0) <= max_build_depth ->
  exists qpre pr T,
    process re_ok d (step_ast (mkStep Child t) prop inp) (mkF false false true) fi
      = Ok (cq (pr_nonflat pr) t qpre, pr, mkFi (Some (cq (pr_nonflat pr) t qpre)) true) /\
    QDEN qpre T /\ req_v D T (P_of D has_ns abs rpre) /\
    (Forall flat_step rpre -> flat_query qpre).
Proof.
  intros abs t rpre prop inp d fi HA Hd.
  unfold step_ast. cbn [s_axis s_test axis_name]. rewrite process_axis_eq.
  replace (Nat.ltb max_build_depth (S d)) with false
    by (symmetry; apply Nat.ltb_ge; destruct abs; lia).
  cbv zeta.
  assert (Ef : fused_cond (mkF false false true) "child" inp = false)
    by (destruct inp as [[]|]; reflexivity).
  rewrite Ef. cbn [f_filter negb andb].
  destruct (good_all D has_ns hcode rm rn rr Hhash re_ok abs (List.length rpre) rpre inp (le_n _) HA (S d) false)
    as (qi & pr & Ei & _ & T & HqT & HI); [lia|].
  rewrite Ei. cbn [cbind].
  replace (axis_test (nt_type t) (nt_pre t) (nt_loc t) (nt_hasns t) (nt_ns t)) with t
    by (destruct t; reflexivity).
  replace (mk_axis "child" t (mkF false false true) qi pr) with (Ok (cq (pr_nonflat pr) t qi, pr))
    by reflexivity.
  unfold finish. cbn [cbind].
  exists qi, pr, T. split; [reflexivity|]. split; [exact HqT|]. split; [exact HI|].
  intros HF. apply (flat_out re_ok abs rpre inp HA HF _ _ _ _ Ei).
Qed.

Lemma filter_cached_eq : forall np nonflat t i p c,
  SEL (QFilter np (cq nonflat t i) p) c = SEL (QFilter true (QChild t i) p) c.
Proof. intros np nonflat t i p c. destruct nonflat; reflexivity. Qed.

(** the filter node over a child step: whatever processFilter decides, the
    built query selects the nodes of the plain filter of the child step *)
Theorem build_child_pred : forall abs t rpre prop inp cond (C : query -> query),
  rpath_ast abs rpre inp ->
  List.length rpre + 2 < max_build_depth ->
  (forall nonflat qpre, exists prc fi2,
     process re_ok 1 cond fl_none (mkFi (Some (cq nonflat t qpre)) true)
       = Ok (C (cq nonflat t qpre), prc, fi2) /\
     adj_cond (C (cq nonflat t qpre)) (adj_prc (C (cq nonflat t qpre)) prc) = C (cq nonflat t qpre)) ->
  exists q pr fo,
    process re_ok 0 (AFilter (step_ast (mkStep Child t) prop inp) cond) fl_none fi_nil = Ok (q, pr, fo) /\
    q <> QNil /\
    exists qpre nonflat T,
      QDEN qpre T /\ req_v D T (P_of D has_ns abs rpre) /\
      (Forall flat_step rpre -> flat_query qpre) /\
      forall ctx, omap nodes_of (SEL q ctx) =
                  omap nodes_of (SEL (QFilter true (QChild t qpre) (C (cq nonflat t qpre))) ctx).
Proof.
  intros abs t rpre prop inp cond C HA Hd HC.
  destruct (filter_input_child abs t rpre prop inp 1 fi_nil HA) as (qpre & pr & T & Ei & HqT & HT & Hflat).
  { destruct abs; lia. }
  destruct (HC (pr_nonflat pr) qpre) as (prc & fi2 & Ec & Eadj).
  set (qi := cq (pr_nonflat pr) t qpre) in *.
  assert (Hd0 : 0 < max_build_depth) by (unfold max_build_depth; lia).
  pose proof (process_filter_intro re_ok 0 _ cond fl_none fi_nil qi pr _ (C qi) prc fi2 Hd0 Ei Ec) as E.
  rewrite Eadj in E.
  destruct (filter_result_ok (negb (f_filter fl_none)) qi (C qi)
              (adj_pr (step_ast (mkStep Child t) prop inp) pr (adj_prc (C qi) prc)) (adj_prc (C qi) prc)
              (mkFi (Some qi) true)) as (q & Eq & Hn).
  rewrite Eq in E.
  exists q. eexists. eexists. split; [exact E|]. split; [exact Hn|].
  exists qpre, (pr_nonflat pr), T. split; [exact HqT|]. split; [exact HT|]. split; [exact Hflat|].
  intros ctx. unfold step_ast in E, Ei.
  destruct (process_step_filter_sound D has_ns hcode rm rn rr re_ok 0 _ _ _ _ _ _ _ _ cond fl_none fi_nil q _ _ E)
    as (qi' & pr' & fi1' & c' & prc' & fi2' & Hi' & Hc' & HS).
  change (input_flags fl_none) with (mkF false false true) in Hi'.
  rewrite Ei in Hi'. inversion Hi'; subst qi' pr' fi1'.
  change (cond_flags fl_none) with fl_none in Hc'.
  fold qi in Hc'. rewrite Ec in Hc'. inversion Hc'; subst c' prc' fi2'.
  rewrite Eadj in HS.
  rewrite (HS ltac:(unfold qi, cq; destruct (pr_nonflat pr); reflexivity) true ctx).
  unfold qi. rewrite filter_cached_eq. reflexivity.
Qed.

(* ---- what "per parent" means ---- *)

Definition per_parent (q : query) (abs : bool) (pre : list sstep) (t : ntest)
    (pick : list node -> list node) : Prop :=
  forall c, valid D c = true ->
  exists ps l,
    SEL q c = Val l /\
    (* ps: the nodes of the prefix *)
    (forall m, In m ps <-> path_den D has_ns pre (if abs then root_node else c) m) /\
    (forall m, In m ps -> valid D m = true) /\
    (Forall flat_step pre -> sorted_doc ps) /\
    (* the result: per parent, in the order of ps, the picked matching children *)
    nodes_of l = flat_map (fun m => pick (CANDS t m)) ps.

Lemma flat_map_nodes_of : forall (f : node -> list node) (l : list item),
  flat_map (fun it => f (it_node it)) l = flat_map f (nodes_of l).
Proof.
  intros f l. induction l as [|it l IH]; [reflexivity|]. cbn [flat_map nodes_of map]. rewrite IH. reflexivity.
Qed.

Lemma per_parent_intro : forall q abs pre t pick qpre T Cq,
  QDEN qpre T -> req_v D T (P_of D has_ns abs (rev pre)) ->
  (Forall flat_step (rev pre) -> flat_query qpre) ->
  (forall ctx, omap nodes_of (SEL q ctx) = omap nodes_of (SEL (QFilter true (QChild t qpre) Cq) ctx)) ->
  (forall ctx parents, SEL qpre ctx = Val parents ->
     SEL (QFilter true (QChild t qpre) Cq) ctx =
     Val (numbered (flat_map (fun par => pick (CANDS t (it_node par))) parents))) ->
  per_parent q abs pre t pick.
Proof.
  intros q abs pre t pick qpre T Cq HqT HT Hflat Hsame Hpos c Hc.
  destruct (HqT c Hc) as (parents & Ep & Hv & Hin).
  pose proof (Hsame c) as E. rewrite (Hpos c parents Ep) in E. unfold omap in E. cbn [obind] in E.
  destruct (SEL q c) as [l|m|k]; cbn [obind] in E; try discriminate.
  exists (nodes_of parents), l. split; [reflexivity|]. split; [|split; [exact Hv|split]].
  - intros m. rewrite (Hin m). rewrite (HT c Hc m). apply (P_of_rev D has_ns).
  - intros HF. apply (flat_sorted_any D has_ns hcode rm rn rr qpre c parents); [|exact Ep].
    apply Hflat. apply Forall_rev. exact HF.
  - inversion E as [E']. rewrite E'. rewrite DocOrder.nodes_of_numbered.
    apply (flat_map_nodes_of (fun m => pick (CANDS t m)) parents).
Qed.

(* ---- the three predicates at the builder level ---- *)

Lemma depth2_ok : Nat.ltb max_build_depth 2 = false.
Proof. reflexivity. Qed.
Lemma depth3_ok : Nat.ltb max_build_depth 3 = false.
Proof. reflexivity. Qed.

Lemma adj_cond_num : forall v prc, adj_cond (QNum v) prc = QNum v.
Proof. intros. unfold adj_cond. destruct (andb _ _); reflexivity. Qed.

Lemma adj_cond_logical : forall o a b prc, adj_cond (QLogical o a b) prc = QLogical o a b.
Proof. intros. unfold adj_cond. destruct (andb _ _); reflexivity. Qed.

Lemma adj_cond_last_cq : forall nonflat t i prc, adj_cond (QLast (cq nonflat t i)) prc = QLast (cq nonflat t i).
Proof. intros. unfold adj_cond. destruct (andb _ _); [|reflexivity]. destruct nonflat; reflexivity. Qed.

Lemma filter_pred_ext : forall np i p p' c,
  (forall x, EVAL p x = EVAL p' x) -> SEL (QFilter np i p) c = SEL (QFilter np i p') c.
Proof.
  intros np i p p' c H. rewrite !sel_filter. destruct (SEL i c) as [l| |]; cbn [obind]; try reflexivity.
  apply (filter_go_ext D has_ns hcode rm rn rr p p' H).
Qed.

Theorem build_child_index : forall abs pre t prop inp v,
  rpath_ast abs (rev pre) inp -> List.length pre + 2 < max_build_depth ->
  exists q pr fo,
    process re_ok 0 (AFilter (step_ast (mkStep Child t) prop inp) (ANum v)) fl_none fi_nil = Ok (q, pr, fo) /\
    q <> QNil /\ per_parent q abs pre t (pick_nth (go_int v)).
Proof.
  intros abs pre t prop inp v HA Hd.
  destruct (build_child_pred abs t (rev pre) prop inp (ANum v) (fun _ => QNum v) HA) as
    (q & pr & fo & E & Hn & qpre & nonflat & T & HqT & HT & Hflat & Hsame).
  - rewrite rev_length. exact Hd.
  - intros nonflat qpre. eexists. eexists. split.
    + cbn [process]. rewrite depth2_ok. reflexivity.
    + apply adj_cond_num.
  - exists q, pr, fo. split; [exact E|]. split; [exact Hn|].
    apply (per_parent_intro q abs pre t _ qpre T (QNum v) HqT HT Hflat Hsame).
    intros ctx parents Ep. apply (child_index_filter D has_ns hcode rm rn rr true t qpre v ctx parents Ep).
Qed.

Theorem build_child_last : forall abs pre t prop inp,
  rpath_ast abs (rev pre) inp -> List.length pre + 2 < max_build_depth ->
  exists q pr fo,
    process re_ok 0 (AFilter (step_ast (mkStep Child t) prop inp) (AFunc "" "last" [])) fl_none fi_nil
      = Ok (q, pr, fo) /\
    q <> QNil /\
    per_parent q abs pre t (fun l => pick_nth (go_int (of_Z (Z.of_nat (List.length l)))) l).
Proof.
  intros abs pre t prop inp HA Hd.
  destruct (build_child_pred abs t (rev pre) prop inp (AFunc "" "last" []) (fun qi => QLast qi) HA) as
    (q & pr & fo & E & Hn & qpre & nonflat & T & HqT & HT & Hflat & Hsame).
  - rewrite rev_length. exact Hd.
  - intros nonflat qpre. eexists. eexists. split.
    + cbn [process]. rewrite depth2_ok. reflexivity.
    + apply adj_cond_last_cq.
  - exists q, pr, fo. split; [exact E|]. split; [exact Hn|].
    apply (per_parent_intro q abs pre t _ qpre T (QLast (cq nonflat t qpre)) HqT HT Hflat Hsame).
    intros ctx parents Ep.
    rewrite (filter_pred_ext true (QChild t qpre) (QLast (cq nonflat t qpre)) (QLast (QChild t qpre)) ctx)
      by (intros x; destruct nonflat; reflexivity).
    apply (child_last_filter D has_ns hcode rm rn rr true t qpre qpre ctx parents Ep).
Qed.

Theorem build_child_position : forall abs pre t prop inp op o v,
  cmp_of op = Some o ->
  rpath_ast abs (rev pre) inp -> List.length pre + 2 < max_build_depth ->
  exists q pr fo,
    process re_ok 0 (AFilter (step_ast (mkStep Child t) prop inp)
                             (AOp op (AFunc "" "position" []) (ANum v))) fl_none fi_nil
      = Ok (q, pr, fo) /\
    q <> QNil /\
    per_parent q abs pre t (select_pos (fun pos => cmp_num o (of_Z (Z.of_nat pos)) v) 1).
Proof.
  intros abs pre t prop inp op o v Ho HA Hd.
  destruct (build_child_pred abs t (rev pre) prop inp (AOp op (AFunc "" "position" []) (ANum v))
              (fun qi => QLogical o (QPosition qi) (QNum v)) HA) as
    (q & pr & fo & E & Hn & qpre & nonflat & T & HqT & HT & Hflat & Hsame).
  - rewrite rev_length. exact Hd.
  - intros nonflat qpre. eexists. eexists. split.
    + apply (process_cmp re_ok 1 op o (AFunc "" "position" []) (ANum v) fl_none _
               (QPosition (cq nonflat t qpre)) (set_haspos pr_none) (mkFi (Some (cq nonflat t qpre)) false)
               (QNum v) pr_none (mkFi (Some (cq nonflat t qpre)) false) Ho).
      * cbn [process]. rewrite depth3_ok. reflexivity.
      * cbn [process]. rewrite depth3_ok. reflexivity.
    + apply adj_cond_logical.
  - exists q, pr, fo. split; [exact E|]. split; [exact Hn|].
    apply (per_parent_intro q abs pre t _ qpre T _ HqT HT Hflat Hsame).
    intros ctx parents Ep.
    rewrite (filter_pred_ext true (QChild t qpre) _ (QLogical o (QPosition (QChild t qpre)) (QNum v)) ctx)
      by (intros x; destruct nonflat; reflexivity).
    apply (child_position_filter D has_ns hcode rm rn rr true t qpre qpre o v ctx parents Ep).
Qed.

End Sem.

(* ------------------------------------------------------------------ *)
(** * 3. End to end                                                     *)
(* ------------------------------------------------------------------ *)

(* the parse tree of P when its last step is child::t *)
Lemma last_child_shape : forall p abs pre t,
  path_syntax p -> steps_of p = (abs, pre ++ [mkStep Child t]) ->
  exists prop inp, xast p = step_ast (mkStep Child t) prop inp /\ rpath_ast abs (rev pre) inp.
Proof.
  intros p abs pre t Hp Hs.
  pose proof (xast_path_shape p abs _ Hp Hs) as HA. rewrite rev_app_distr in HA. cbn [rev app] in HA.
  destruct (rpath_ast_some_inv abs _ _ HA ltac:(discriminate)) as (s & r & prop & inp & E & Ea & HA').
  inversion E; subst. eauto.
Qed.

Section E2E.
Variable D : tree.
Variable has_ns : bool.
Variable hcode : node -> N.
Variable rm : string -> string -> option bool.
Variable rn : string -> nat.
Variable rr : string -> string -> string -> string.
Variable re_ok : string -> bool.
Variable ns : nsmap.

Notation PER := (per_parent D has_ns hcode rm rn rr).

(** P[k] *)
Theorem C03_index_end_to_end : forall p abs pre t ds,
  path_syntax p -> steps_of p = (abs, pre ++ [mkStep Child t]) ->
  xok (with_pred p (pred_index ds)) ->
  List.length pre + 2 < max_build_depth -> hash_ok hcode (all_nodes D) ->
  (Z.abs (lit_Z ds) <= 2 ^ 53)%Z ->
  exists q, compile re_ok (print_min (with_pred p (pred_index ds))) ns = Ok q /\
            PER q abs pre t (pick_nth (lit_Z ds)).
Proof.
  intros p abs pre t ds Hp Hs Hok Hl Hh Hk.
  destruct (with_pred_ast p (pred_index ds) Hp I) as (Hast & Hwf & Hd).
  destruct (last_child_shape p abs pre t Hp Hs) as (prop & inp & Ea & HA).
  assert (Hparse : parse (print_min (with_pred p (pred_index ds))) ns
                   = Ok (AFilter (step_ast (mkStep Child t) prop inp) (ANum (lit_f ds)))).
  { rewrite <- Ea. change (ANum (lit_f ds)) with (xast (pred_index ds)). rewrite <- Hast.
    apply roundtrip_print_min; [exact Hwf|exact Hok|]. rewrite Hd. cbn [xdepth pred_index].
    unfold max_depth. lia. }
  destruct (build_child_index D has_ns hcode rm rn rr Hh re_ok abs pre t prop inp (lit_f ds) HA Hl)
    as (q & pr & fo & E & Hn & Hper).
  exists q. split; [apply (compile_of_parse re_ok _ ns _ q pr fo Hparse E Hn)|].
  rewrite <- (go_int_lit ds Hk). exact Hper.
Qed.

(** P[last()] *)
Theorem C03_last_end_to_end : forall p abs pre t,
  path_syntax p -> steps_of p = (abs, pre ++ [mkStep Child t]) ->
  xok (with_pred p pred_last) ->
  List.length pre + 2 < max_build_depth -> hash_ok hcode (all_nodes D) ->
  exists q, compile re_ok (print_min (with_pred p pred_last)) ns = Ok q /\
            PER q abs pre t (fun l => pick_nth (go_int (of_Z (Z.of_nat (List.length l)))) l).
Proof.
  intros p abs pre t Hp Hs Hok Hl Hh.
  destruct (with_pred_ast p pred_last Hp eq_refl) as (Hast & Hwf & Hd).
  destruct (last_child_shape p abs pre t Hp Hs) as (prop & inp & Ea & HA).
  assert (Hparse : parse (print_min (with_pred p pred_last)) ns
                   = Ok (AFilter (step_ast (mkStep Child t) prop inp) (AFunc "" "last" []))).
  { rewrite <- Ea. change (AFunc "" "last" []) with (xast pred_last). rewrite <- Hast.
    apply roundtrip_print_min; [exact Hwf|exact Hok|]. rewrite Hd. cbn [xdepth pred_last].
    unfold max_depth. lia. }
  destruct (build_child_last D has_ns hcode rm rn rr Hh re_ok abs pre t prop inp HA Hl)
    as (q & pr & fo & E & Hn & Hper).
  exists q. split; [apply (compile_of_parse re_ok _ ns _ q pr fo Hparse E Hn)|exact Hper].
Qed.

(** P[position() op k] *)
Theorem C03_position_end_to_end : forall p abs pre t b o ds,
  path_syntax p -> steps_of p = (abs, pre ++ [mkStep Child t]) ->
  cmp_of (opname b) = Some o ->
  xok (with_pred p (pred_position b ds)) ->
  List.length pre + 2 < max_build_depth -> hash_ok hcode (all_nodes D) ->
  exists q, compile re_ok (print_min (with_pred p (pred_position b ds))) ns = Ok q /\
            PER q abs pre t (select_pos (fun pos => cmp_num o (of_Z (Z.of_nat pos)) (lit_f ds)) 1).
Proof.
  intros p abs pre t b o ds Hp Hs Ho Hok Hl Hh.
  assert (Hwp : xwf (pred_position b ds)).
  { unfold pred_position. cbn [xwf xlvl node_type_name].
    destruct b; try discriminate Ho; cbn [level]; repeat split; try lia; reflexivity. }
  destruct (with_pred_ast p (pred_position b ds) Hp Hwp) as (Hast & Hwf & Hd).
  destruct (last_child_shape p abs pre t Hp Hs) as (prop & inp & Ea & HA).
  assert (Hparse : parse (print_min (with_pred p (pred_position b ds))) ns
                   = Ok (AFilter (step_ast (mkStep Child t) prop inp)
                                 (AOp (opname b) (AFunc "" "position" []) (ANum (lit_f ds))))).
  { rewrite <- Ea.
    change (AOp (opname b) (AFunc "" "position" []) (ANum (lit_f ds))) with (xast (pred_position b ds)).
    rewrite <- Hast.
    apply roundtrip_print_min; [exact Hwf|exact Hok|]. rewrite Hd. cbn [xdepth pred_position Nat.max].
    unfold max_depth. lia. }
  destruct (build_child_position D has_ns hcode rm rn rr Hh re_ok abs pre t prop inp (opname b) o (lit_f ds)
              Ho HA Hl) as (q & pr & fo & E & Hn & Hper).
  exists q. split; [apply (compile_of_parse re_ok _ ns _ q pr fo Hparse E Hn)|exact Hper].
Qed.

(** membership form of P[k]: n is selected iff it is the k-th (1-based, document
    order) child passing the node test of some node m of the prefix *)
Corollary C03_index_members : forall p abs pre t ds,
  path_syntax p -> steps_of p = (abs, pre ++ [mkStep Child t]) ->
  xok (with_pred p (pred_index ds)) ->
  List.length pre + 2 < max_build_depth -> hash_ok hcode (all_nodes D) ->
  (Z.abs (lit_Z ds) <= 2 ^ 53)%Z ->
  exists q, compile re_ok (print_min (with_pred p (pred_index ds))) ns = Ok q /\
    forall c, valid D c = true ->
    exists l, sel D has_ns hcode rm rn rr q c = Val l /\
      forall n, In n (nodes_of l) <->
        exists m, path_den D has_ns pre (if abs then root_node else c) m /\
                  (1 <= lit_Z ds)%Z /\
                  nth_error (cands D has_ns t m) (Z.to_nat (lit_Z ds - 1)) = Some n.
Proof.
  intros p abs pre t ds Hp Hs Hok Hl Hh Hk.
  destruct (C03_index_end_to_end p abs pre t ds Hp Hs Hok Hl Hh Hk) as (q & Eq & Hper).
  exists q. split; [exact Eq|]. intros c Hc.
  destruct (Hper c Hc) as (ps & l & El & Hps & _ & _ & Hl').
  exists l. split; [exact El|]. intros n. rewrite Hl', in_flat_map. split.
  - intros (m & Hm & Hn). exists m. split; [apply Hps; exact Hm|].
    apply pick_nth_spec. unfold pick_nth in *. destruct (1 <=? lit_Z ds)%Z; [|contradiction].
    destruct (nth_error _ _) as [y|]; [|contradiction]. destruct Hn as [->|[]]. reflexivity.
  - intros (m & Hm & H1 & Hn). exists m. split; [apply Hps; exact Hm|].
    rewrite (proj2 (pick_nth_spec (lit_Z ds) _ n) (conj H1 Hn)). left. reflexivity.
Qed.

End E2E.

Print Assumptions C03_index_end_to_end.
Print Assumptions C03_last_end_to_end.
Print Assumptions C03_position_end_to_end.
Print Assumptions C03_index_members.

(* ------------------------------------------------------------------ *)
(** * 4. Examples                                                       *)
(* ------------------------------------------------------------------ *)
Module Examples.
Import AxesSound.Examples EndToEndPaths.Examples Position.PositionExamples.

(*   <r><p><x/><y/><x/></p><p><x/><x/><x/></p></r>   *)
Example hash_ok_d2 : hash_ok (hash_code d2) (all_nodes d2).
Proof.
  apply NoDup_codes_hash_ok; vm_compute;
    repeat (constructor; [cbn [In]; intuition discriminate|]); constructor.
Qed.

(*  /r/p/x  *)
Definition pth : px :=
  XPath PAbs (RCons (st_child "r") false (RCons (st_child "p") false (ROne (st_child "x")))).
Definition pre : list sstep := [mkStep Child (name_t "r"); mkStep Child (name_t "p")].
Definition two : list ascii := ["2"%char].

Example texts :
  print_min (with_pred pth (pred_index two)) = "/r/p/x[2]" /\
  print_min (with_pred pth pred_last) = "/r/p/x[last()]" /\
  print_min (with_pred pth (pred_position BLt two)) = "/r/p/x[position()<2]".
Proof. repeat split; vm_compute; reflexivity. Qed.

Example hyps :
  path_syntax pth /\ steps_of pth = (true, (pre ++ [mkStep Child (name_t "x")])%list) /\
  xok (with_pred pth (pred_index two)) /\ xok (with_pred pth pred_last) /\
  xok (with_pred pth (pred_position BLt two)) /\
  Forall flat_step pre /\ lit_Z two = 2%Z.
Proof.
  split; [apply path_syntax_b_ok; vm_compute; reflexivity|].
  split; [vm_compute; reflexivity|]. split; [vm_compute; reflexivity|].
  split; [vm_compute; reflexivity|]. split; [vm_compute; reflexivity|].
  split; [repeat constructor|reflexivity].
Qed.

Notation SELd := (sel d2 true (hash_code d2) lit_match lit_numsubexp lit_replace_all).

(* /r/p/x[2] : the query is the merge form; the theorem says what it selects *)
Example index_query : compile Api.lit_ok "/r/p/x[2]" None =
  Ok (QMerge (QChild (name_t "p") (QChild (name_t "r") QAbsolute))
             (QFilter false (QChild (name_t "x") QContext) (QNum (of_Z 2)))).
Proof. vm_compute. reflexivity. Qed.

Example index_result :
  exists q, compile Api.lit_ok "/r/p/x[2]" None = Ok q /\
    omap nodes_of (SELd q root_node) = Val [elem_at [0;0;2]; elem_at [0;1;1]] /\
    (* through the theorem: each selected node is the 2nd x child of a node of /r/p *)
    forall n, In n [elem_at [0;0;2]; elem_at [0;1;1]] <->
      exists m, path_den d2 true pre root_node m /\
                nth_error (cands d2 true (name_t "x") m) 1 = Some n.
Proof.
  destruct hyps as (Hp & Hs & Hok & _ & _ & _ & Hz).
  destruct (C03_index_members d2 true (hash_code d2) lit_match lit_numsubexp lit_replace_all Api.lit_ok None
              pth true pre (name_t "x") two Hp Hs Hok ltac:(vm_compute; lia) hash_ok_d2
              ltac:(rewrite Hz; vm_compute; discriminate)) as (q & Eq & Hsel).
  destruct texts as (T1 & _). rewrite T1 in Eq.
  exists q. split; [exact Eq|].
  destruct (Hsel root_node eq_refl) as (l & El & Hin).
  rewrite index_query in Eq. inversion Eq; subst q.
  assert (Hl : nodes_of l = [elem_at [0;0;2]; elem_at [0;1;1]]).
  { vm_compute in El. inversion El. reflexivity. }
  split; [rewrite El; cbn [omap obind]; rewrite Hl; reflexivity|].
  intros n. rewrite <- Hl, (Hin n). rewrite Hz.
  split; intros (m & Hm & H); exists m; (split; [exact Hm|]).
  - destruct H as [_ H]. exact H.
  - split; [lia|exact H].
Qed.

(* /r/p/x[last()] and /r/p/x[position()<2] : the theorems apply; the results *)
Example last_result :
  exists q, compile Api.lit_ok "/r/p/x[last()]" None = Ok q /\
            omap nodes_of (SELd q root_node) = Val [elem_at [0;0;2]; elem_at [0;1;2]].
Proof.
  destruct hyps as (Hp & Hs & _ & Hok & _ & _ & _).
  destruct (C03_last_end_to_end d2 true (hash_code d2) lit_match lit_numsubexp lit_replace_all Api.lit_ok None
              pth true pre (name_t "x") Hp Hs Hok ltac:(vm_compute; lia) hash_ok_d2) as (q & Eq & Hper).
  destruct texts as (_ & T2 & _). rewrite T2 in Eq. exists q. split; [exact Eq|].
  vm_compute in Eq. inversion Eq; subst q. vm_compute. reflexivity.
Qed.

Example position_result :
  exists q, compile Api.lit_ok "/r/p/x[position()<2]" None = Ok q /\
            omap nodes_of (SELd q root_node) = Val [elem_at [0;0;0]; elem_at [0;1;0]].
Proof.
  destruct hyps as (Hp & Hs & _ & _ & Hok & _ & _).
  destruct (C03_position_end_to_end d2 true (hash_code d2) lit_match lit_numsubexp lit_replace_all Api.lit_ok None
              pth true pre (name_t "x") BLt CLt two Hp Hs eq_refl Hok ltac:(vm_compute; lia) hash_ok_d2)
    as (q & Eq & Hper).
  destruct texts as (_ & _ & T3). rewrite T3 in Eq. exists q. split; [exact Eq|].
  vm_compute in Eq. inversion Eq; subst q. vm_compute. reflexivity.
Qed.

(* one step from the context node:  x[2]  at the first p  (plain filter, no merge) *)
Definition pth1 : px := XPath PRel (ROne (st_child "x")).
Example one_step :
  print_min (with_pred pth1 (pred_index two)) = "x[2]" /\
  compile Api.lit_ok "x[2]" None = Ok (QFilter false (QChild (name_t "x") QContext) (QNum (of_Z 2))) /\
  steps_of pth1 = (false, ([] ++ [mkStep Child (name_t "x")])%list).
Proof. repeat split; vm_compute; reflexivity. Qed.

(* REMARK (prefix with two descendant steps): the prefix node list [ps] of the
   theorems has the right MEMBERS, but the engine returns a node once per
   matching ancestor there, so the result of  //a//*/b[1]  repeats nodes.
   <a><a><c><b/><b/></c></a></a> *)
Definition dN : tree :=
  T KRoot "" "" "" "" [] [ el "a" [] [ el "a" [] [ el "c" [] [ el "b" [] []; el "b" [] [] ] ] ] ].
Example nested_descendants_repeat :
  exists q, compile Api.lit_ok "//a//*/b[1]" None = Ok q /\
    select lit_match lit_numsubexp lit_replace_all hash_code dN true q root_node
    = Val [elem_at [0;0;0;0]; elem_at [0;0;0;0]].
Proof. eexists. split; [vm_compute; reflexivity|]. vm_compute. reflexivity. Qed.

End Examples.
