(* Proofs/BuildFilter.v -- builder level for predicates: what [process] (Build.v,
   build.go: processFilter) produces for the parse tree  AFilter input cond,
   and what the produced query selects.

   Part 1  process_filter_eq / _inv / _intro   processFilter unfolded once
   Part 2  boolean predicates (C02)
           process_boolean_filter              plain filter over the built input (PosFilter clear)
           process_boolean_filter_step/_chain  when PosFilter is clear
           process_fi_self                     fi_self = true  ->  firstInput is the returned query
           process_boolean_filter_never_merged a boolean predicate is never merged
           process_any_filter_shape            the exhaustive list of outputs (filter_output)
           can_be_number_false_iff/_shapes     which predicates are "boolean" for the builder
           can_be_number_false_non_numeric     ... and they never evaluate to a number
           boolean_filter_selects/_members     what the built query selects
   Part 3  the merge rewrite (C03)
           merge_step_same_nodes               QMerge parent (step . [p]) = (step parent)[p], any p
           merge_rewrite_sound                 for everything [reroot] handles but ancestor (and group)
           merge_same_nodes_general            child step, explicit per-parent form
           process_filter_sound                builder level: built query = plain filter of built input
           process_step_filter_sound, process_filter_filter_shape, process_group_filter_shape,
           process_filter_boolean_valued
   Part 4  BuildFilterExamples                 a[b], a[@x='1'], a[1], a/b[2], a/b[last()], (a/b)[2],
                                               a[position() < 3][@x], a/b[not(c)], ancestor, reverse() *)
From XP Require Import Base F64 Doc Ast Scan Parse Build Hash Eval Api.
From XP.Proofs Require Import BuildFacts DocOrder HashInj Filter Position.
Open Scope string_scope.
Open Scope nat_scope.
Open Scope list_scope.

(* ================================================================== *)
(** * Part 1.  processFilter, unfolded once *)

(* flags with which the two sub-trees are processed *)
Definition input_flags (fl : flags) : flags := mkF false (f_pos fl) true.
Definition cond_flags (fl : flags) : flags := mkF false (f_pos fl) (f_filter fl).

(* propsCond: a predicate that may be a number, or mentions position()/last(),
   gets HasPosition *)
Definition adj_prc (c : query) (prc : props) : props :=
  if orb (can_be_number c) (orb (pr_haspos prc) (pr_haslast prc)) then set_haspos prc else prc.

(* props: PosFilter is cleared unless the input is itself a filter node, and
   set when the predicate has HasPosition *)
Definition base_pr (input : anode) (pr : props) : props :=
  if is_filter_node input then pr else set_posfilter pr false.
Definition adj_pr (input : anode) (pr prc' : props) : props :=
  if pr_haspos prc' then set_posfilter (base_pr input pr) true else base_pr input pr.

(* last() / position() over a filter become lastFuncQuery *)
Definition lastfunc_subst (c : query) : query :=
  match c with
  | QLast (QFilter np i p) => QLastFunc (QFilter np i p)
  | QPosition (QFilter np i p) => QLastFunc (QFilter np i p)
  | _ => c
  end.
Definition adj_cond (c : query) (prc' : props) : query :=
  if andb (pr_haspos prc') (pr_haslast prc') then lastfunc_subst c else c.

(* every exit of processFilter sets firstInput to the query it returns *)
Definition ret (q : query) (pr : props) : BR := Ok (q, pr, mkFi (Some q) true).

(* the three-way result: merge / plain with nopos = false / plain *)
Definition filter_result (isfirst : bool) (qi c' : query) (pr' prc' : props) (fi1 : first) : BR :=
  let plain := QFilter (negb (pr_haspos prc')) qi c' in
  match isfirst, fi_q fi1 with
  | true, Some fq =>
    if andb (q_merge qi) (pr_posfilter pr') then
      match reroot fq with
      | Some (parent, fq') =>
        ret (QMerge parent (QFilter false (if fi_self fi1 then fq' else qi) c')) pr'
      | None => ret (QFilter false qi c') pr'
      end
    else ret plain pr'
  | _, _ => ret plain pr'
  end.

Section Build.
Variable re_ok : string -> bool.
Notation process := (Build.process re_ok).

Lemma process_filter_eq : forall d input cond fl fi,
  process d (AFilter input cond) fl fi =
  if Nat.ltb max_build_depth (S d) then Err "the xpath expressions is too complex"
  else
    let isfirst := negb (f_filter fl) in
    let* (qi, pr, fi1) := process (S d) input (input_flags fl) fi in
    let* (c, prc, _) := process (S d) cond (cond_flags fl) fi1 in
    let prc' := adj_prc c prc in
    let pr' := adj_pr input pr prc' in
    let c' := adj_cond c prc' in
    filter_result isfirst qi c' pr' prc' fi1.
Proof.
  intros. cbn [Build.process]. destruct (Nat.ltb max_build_depth (S d)); reflexivity.
Qed.

(* the same as an inversion principle *)
Lemma process_filter_inv : forall d input cond fl fi q pr' fo,
  process d (AFilter input cond) fl fi = Ok (q, pr', fo) ->
  d < max_build_depth /\
  exists qi pr fi1 c prc fi2,
    process (S d) input (input_flags fl) fi = Ok (qi, pr, fi1) /\
    process (S d) cond (cond_flags fl) fi1 = Ok (c, prc, fi2) /\
    filter_result (negb (f_filter fl)) qi (adj_cond c (adj_prc c prc))
                  (adj_pr input pr (adj_prc c prc)) (adj_prc c prc) fi1 = Ok (q, pr', fo).
Proof.
  intros d input cond fl fi q pr' fo H. rewrite process_filter_eq in H.
  destruct (Nat.ltb max_build_depth (S d)) eqn:Hd; [discriminate H|].
  apply Nat.ltb_ge in Hd. split; [lia|]. cbv zeta in H.
  destruct (process (S d) input (input_flags fl) fi) as [[[qi pr] fi1]| |]; try discriminate H.
  cbn [cbind] in H.
  destruct (process (S d) cond (cond_flags fl) fi1) as [[[c prc] fi2]| |] eqn:Ec; try discriminate H.
  cbn [cbind] in H.
  exists qi, pr, fi1, c, prc, fi2. auto.
Qed.

(* and as an introduction rule *)
Lemma process_filter_intro : forall d input cond fl fi qi pr fi1 c prc fi2,
  d < max_build_depth ->
  process (S d) input (input_flags fl) fi = Ok (qi, pr, fi1) ->
  process (S d) cond (cond_flags fl) fi1 = Ok (c, prc, fi2) ->
  process d (AFilter input cond) fl fi =
  filter_result (negb (f_filter fl)) qi (adj_cond c (adj_prc c prc))
                (adj_pr input pr (adj_prc c prc)) (adj_prc c prc) fi1.
Proof.
  intros d input cond fl fi qi pr fi1 c prc fi2 Hd Hi Hc.
  rewrite process_filter_eq, (depth_ok d Hd). cbv zeta. rewrite Hi. cbn [cbind]. rewrite Hc.
  reflexivity.
Qed.

(* ================================================================== *)
(** * Part 2.  Boolean predicates *)

Definition boolean_cond (c : query) (prc : props) : Prop :=
  can_be_number c = false /\ pr_haspos prc = false /\ pr_haslast prc = false.

Lemma boolean_cond_adj : forall c prc,
  boolean_cond c prc -> adj_prc c prc = prc /\ adj_cond c prc = c.
Proof.
  intros c prc (H1 & H2 & H3). unfold adj_prc, adj_cond. rewrite H1, H2, H3. auto.
Qed.

Lemma boolean_cond_adj_pr : forall input pr c prc,
  boolean_cond c prc -> adj_pr input pr (adj_prc c prc) = base_pr input pr.
Proof.
  intros input pr c prc B. destruct (boolean_cond_adj c prc B) as [-> _].
  destruct B as (_ & H2 & _). unfold adj_pr. rewrite H2. reflexivity.
Qed.

Lemma base_pr_not_filter : forall input pr,
  is_filter_node input = false -> pr_posfilter (base_pr input pr) = false.
Proof. intros input pr H. unfold base_pr. rewrite H. reflexivity. Qed.

Lemma base_pr_filter : forall input pr,
  pr_posfilter pr = false -> pr_posfilter (base_pr input pr) = false.
Proof. intros input pr H. unfold base_pr. destruct (is_filter_node input); [exact H|reflexivity]. Qed.

(* the plain filter is produced whenever one of the conditions of the rewrite fails *)
Lemma filter_result_plain : forall isfirst qi c' pr' prc' fi1,
  isfirst = false \/ fi_q fi1 = None \/ q_merge qi = false \/ pr_posfilter pr' = false ->
  filter_result isfirst qi c' pr' prc' fi1 = ret (QFilter (negb (pr_haspos prc')) qi c') pr'.
Proof.
  intros isfirst qi c' pr' prc' fi1 H. unfold filter_result.
  destruct isfirst; [|reflexivity]. destruct (fi_q fi1) as [fq|]; [|reflexivity].
  destruct H as [H|[H|[H|H]]]; try discriminate H; rewrite H; [reflexivity|].
  rewrite andb_false_r. reflexivity.
Qed.

(* MAIN (C02, builder level): a boolean predicate on an input whose PosFilter
   property is clear is compiled to a plain filter over the compiled input *)
Theorem process_boolean_filter : forall d input cond fl fi qi pr fi1 c prc fi2,
  d < max_build_depth ->
  process (S d) input (input_flags fl) fi = Ok (qi, pr, fi1) ->
  process (S d) cond (cond_flags fl) fi1 = Ok (c, prc, fi2) ->
  boolean_cond c prc ->
  pr_posfilter (base_pr input pr) = false ->
  process d (AFilter input cond) fl fi =
  Ok (QFilter true qi c, base_pr input pr, mkFi (Some (QFilter true qi c)) true).
Proof.
  intros d input cond fl fi qi pr fi1 c prc fi2 Hd Hi Hc B Hp.
  rewrite (process_filter_intro d input cond fl fi qi pr fi1 c prc fi2 Hd Hi Hc).
  rewrite (boolean_cond_adj_pr input pr c prc B).
  destruct (boolean_cond_adj c prc B) as [-> ->].
  rewrite filter_result_plain by auto.
  destruct B as (_ & -> & _). reflexivity.
Qed.

(* when the hypothesis on PosFilter holds: the input is not a filter node ... *)
Corollary process_boolean_filter_step : forall d input cond fl fi qi pr fi1 c prc fi2,
  d < max_build_depth ->
  process (S d) input (input_flags fl) fi = Ok (qi, pr, fi1) ->
  process (S d) cond (cond_flags fl) fi1 = Ok (c, prc, fi2) ->
  boolean_cond c prc ->
  is_filter_node input = false ->
  process d (AFilter input cond) fl fi =
  Ok (QFilter true qi c, set_posfilter pr false, mkFi (Some (QFilter true qi c)) true).
Proof.
  intros d input cond fl fi qi pr fi1 c prc fi2 Hd Hi Hc B Hn.
  rewrite (process_boolean_filter d input cond fl fi qi pr fi1 c prc fi2 Hd Hi Hc B
             (base_pr_not_filter input pr Hn)).
  unfold base_pr. rewrite Hn. reflexivity.
Qed.

(* ... or the input's own PosFilter is clear (the inner filters were boolean too);
   and then the PosFilter of the result is clear again, so this chains *)
Corollary process_boolean_filter_chain : forall d input cond fl fi qi pr fi1 c prc fi2,
  d < max_build_depth ->
  process (S d) input (input_flags fl) fi = Ok (qi, pr, fi1) ->
  process (S d) cond (cond_flags fl) fi1 = Ok (c, prc, fi2) ->
  boolean_cond c prc ->
  pr_posfilter pr = false ->
  exists pr', process d (AFilter input cond) fl fi =
              Ok (QFilter true qi c, pr', mkFi (Some (QFilter true qi c)) true) /\
              pr_posfilter pr' = false.
Proof.
  intros d input cond fl fi qi pr fi1 c prc fi2 Hd Hi Hc B Hp.
  exists (base_pr input pr). split; [|apply base_pr_filter; exact Hp].
  apply (process_boolean_filter d input cond fl fi qi pr fi1 c prc fi2 Hd Hi Hc B).
  apply base_pr_filter. exact Hp.
Qed.


(* ------------------------------------------------------------------ *)
(** ** firstInput bookkeeping: when [fi_self] is set, firstInput IS the
       query just returned *)

Ltac inv_bind H :=
  let x := fresh "x" in let Hx := fresh "Hx" in
  apply cbind_Ok_inv in H; destruct H as [x [Hx H]];
  repeat match goal with y : (_ * _)%type |- _ => destruct y end;
  cbv beta iota in H.
Ltac inv_binds := repeat match goal with H : cbind _ _ = Ok _ |- _ => inv_bind H end.

Definition fo_ok (q : query) (fo : first) : Prop :=
  fi_self fo = false \/ fo = mkFi (Some q) true.

Ltac fo_done H :=
  inversion H; subst; first [left; reflexivity | right; reflexivity].

Lemma filter_result_fo : forall isfirst qi c' pr' prc' fi1 q pr fo,
  filter_result isfirst qi c' pr' prc' fi1 = Ok (q, pr, fo) -> fo = mkFi (Some q) true /\ pr = pr'.
Proof.
  intros isfirst qi c' pr' prc' fi1 q pr fo H. unfold filter_result, ret in H.
  destruct isfirst; [destruct (fi_q fi1) as [fq|]|];
    [destruct (andb _ _); [destruct (reroot fq) as [[parent fq']|]|]|..];
    inversion H; subst; auto.
Qed.

Lemma process_fo_ok : forall a d fl fi q pr fo,
  process d a fl fi = Ok (q, pr, fo) -> fo_ok q fo.
Proof.
  intros a d fl fi q pr fo H. unfold fo_ok.
  destruct a as [s|axis nty pre loc prop hasns ns input|input cond|pre name args|op l r|v|s|p n|input].
  - cbn [Build.process] in H. destruct (Nat.ltb max_build_depth (S d)); [discriminate H|]. fo_done H.
  - cbn [Build.process] in H. destruct (Nat.ltb max_build_depth (S d)); [discriminate H|].
    cbv zeta in H.
    assert (F : forall r : cres (query * props),
              (let* (q0, pr0) := r in Ok (q0, pr0, mkFi (Some q0) true)) = Ok (q, pr, fo) ->
              fi_self fo = false \/ fo = mkFi (Some q) true).
    { intros r Hr. inv_binds. fo_done Hr. }
    destruct input as [inp|]; [|apply (F _ H)].
    assert (N : forall fl0,
              (let* (qi, pr0, _) := process (S d) inp fl0 fi_nil in
               let* (q0, pr1) := mk_axis axis (axis_test nty pre loc hasns ns) fl qi pr0 in
               Ok (q0, pr1, mkFi (Some q0) true)) = Ok (q, pr, fo) ->
              fi_self fo = false \/ fo = mkFi (Some q) true).
    { intros fl0 Hr. inv_binds. fo_done Hr. }
    destruct inp as [|iax itt ipre iloc iprop ihasns ins ginput| | | | | | |]; try (apply (N _ H)).
    match type of H with (if ?c then _ else _) = _ => destruct c end; [|apply (N _ H)].
    destruct ginput as [g|]; [|apply (F _ H)].
    inv_binds. fo_done H.
  - apply process_filter_inv in H. destruct H as (_ & qi & pr0 & fi1 & c & prc & fi2 & _ & _ & H).
    apply filter_result_fo in H. right. apply H.
  - cbn [Build.process] in H. destruct (Nat.ltb max_build_depth (S d)); [discriminate H|].
    repeat match type of H with
     | (if String.eqb name ?s then _ else _) = _ => destruct (String.eqb name s)
     | (if orb (String.eqb name ?s) _ then _ else _) = _ => destruct (String.eqb name s); cbn [orb] in H
     end.
    all: try discriminate H.
    all: try (destruct args as [|a0 [|a1 [|a2 [|a3 r]]]];
              cbn [List.length Nat.eqb Nat.ltb Nat.leb negb] in H; try discriminate H;
              inv_binds; try discriminate H; fo_done H).
  - cbn [Build.process] in H. destruct (Nat.ltb max_build_depth (S d)); [discriminate H|].
    inv_binds. destruct (arith_of op); [fo_done H|]. destruct (cmp_of op); [fo_done H|].
    repeat match type of H with (if ?c then _ else _) = _ => destruct c end; fo_done H.
  - cbn [Build.process] in H. destruct (Nat.ltb max_build_depth (S d)); [discriminate H|]. fo_done H.
  - cbn [Build.process] in H. destruct (Nat.ltb max_build_depth (S d)); [discriminate H|]. fo_done H.
  - cbn [Build.process] in H. destruct (Nat.ltb max_build_depth (S d)); discriminate H.
  - cbn [Build.process] in H. destruct (Nat.ltb max_build_depth (S d)); [discriminate H|].
    inv_binds. destruct (fi_q f); fo_done H.
Qed.

Corollary process_fi_self : forall a d fl fi q pr fo,
  process d a fl fi = Ok (q, pr, fo) -> fi_self fo = true -> fi_q fo = Some q.
Proof.
  intros a d fl fi q pr fo H Hs. destruct (process_fo_ok a d fl fi q pr fo H) as [E| ->].
  - congruence.
  - reflexivity.
Qed.

(* a filter that is not the first (outermost) one is always a plain filter *)
Lemma process_filter_not_first : forall d input cond fl fi q pr fo,
  process d (AFilter input cond) fl fi = Ok (q, pr, fo) -> f_filter fl = true ->
  exists np qi c', q = QFilter np qi c' /\ fo = mkFi (Some q) true.
Proof.
  intros d input cond fl fi q pr fo H Hf. apply process_filter_inv in H.
  destruct H as (_ & qi & pr0 & fi1 & c & prc & fi2 & _ & _ & H).
  rewrite Hf in H. cbn [negb filter_result ret] in H. inversion H; subst. eauto.
Qed.

(* MAIN (C02): a boolean predicate is NEVER subject to the merge rewrite: the
   built query is always a filter over the compiled input with the compiled
   predicate (only the nopos flag, which has no semantics, may vary) *)
Theorem process_boolean_filter_never_merged : forall d input cond fl fi qi pr fi1 c prc fi2,
  d < max_build_depth ->
  process (S d) input (input_flags fl) fi = Ok (qi, pr, fi1) ->
  process (S d) cond (cond_flags fl) fi1 = Ok (c, prc, fi2) ->
  boolean_cond c prc ->
  exists np, process d (AFilter input cond) fl fi =
             Ok (QFilter np qi c, base_pr input pr, mkFi (Some (QFilter np qi c)) true).
Proof.
  intros d input cond fl fi qi pr fi1 c prc fi2 Hd Hi Hc B.
  destruct (is_filter_node input) eqn:En.
  - destruct input as [| |i0 c0| | | | | |]; try discriminate En.
    destruct (process_filter_not_first _ _ _ _ _ _ _ _ Hi eq_refl) as (np0 & qi0 & c0' & -> & ->).
    rewrite (process_filter_intro d _ cond fl fi _ pr _ c prc fi2 Hd Hi Hc).
    rewrite (boolean_cond_adj_pr _ pr c prc B).
    destruct (boolean_cond_adj c prc B) as [-> ->].
    unfold filter_result, ret. cbn [fi_q reroot].
    destruct (negb (f_filter fl)); [|eexists; reflexivity].
    destruct (andb _ _); eexists; reflexivity.
  - exists true. rewrite (process_boolean_filter_step d input cond fl fi qi pr fi1 c prc fi2 Hd Hi Hc B En).
    unfold base_pr. rewrite En. reflexivity.
Qed.

(* ------------------------------------------------------------------ *)
(** ** All possible outputs of processFilter *)

Lemma adj_prc_haspos : forall c prc,
  pr_haspos (adj_prc c prc) = orb (can_be_number c) (orb (pr_haspos prc) (pr_haslast prc)).
Proof.
  intros c prc. unfold adj_prc.
  destruct (can_be_number c); [reflexivity|]. destruct (pr_haspos prc) eqn:E; [reflexivity|].
  destruct (pr_haslast prc); cbn [orb]; [reflexivity|exact E].
Qed.

Lemma adj_prc_haslast : forall c prc, pr_haslast (adj_prc c prc) = pr_haslast prc.
Proof. intros c prc. unfold adj_prc. destruct (orb _ _); reflexivity. Qed.

Lemma adj_cond_cases : forall c prc,
  adj_cond c (adj_prc c prc) = c \/
  (adj_cond c (adj_prc c prc) = lastfunc_subst c /\ pr_haslast prc = true).
Proof.
  intros c prc. unfold adj_cond. rewrite adj_prc_haslast.
  destruct (pr_haslast prc); [|rewrite andb_false_r; left; reflexivity].
  destruct (pr_haspos _); [right; auto|left; reflexivity].
Qed.

(* the substitution only changes last()/position() whose firstInput is a filter *)
Lemma lastfunc_subst_cases : forall c,
  lastfunc_subst c = c \/
  exists np i p, (c = QLast (QFilter np i p) \/ c = QPosition (QFilter np i p)) /\
                 lastfunc_subst c = QLastFunc (QFilter np i p).
Proof.
  intros c. destruct c; try (left; reflexivity);
    (match goal with |- context [lastfunc_subst (_ ?i)] => destruct i end);
    try (left; reflexivity); right; eauto 8.
Qed.

Inductive filter_output (fl : flags) (qi c' : query) (pr' prc' : props) (fi1 : first) : query -> Prop :=
| FO_plain :
    filter_output fl qi c' pr' prc' fi1 (QFilter (negb (pr_haspos prc')) qi c')
| FO_nopos_false : forall fq,
    f_filter fl = false -> q_merge qi = true -> pr_posfilter pr' = true ->
    fi_q fi1 = Some fq -> reroot fq = None ->
    filter_output fl qi c' pr' prc' fi1 (QFilter false qi c')
| FO_merge_self : forall parent qi',
    f_filter fl = false -> q_merge qi = true -> pr_posfilter pr' = true ->
    fi_q fi1 = Some qi -> fi_self fi1 = true -> reroot qi = Some (parent, qi') ->
    filter_output fl qi c' pr' prc' fi1 (QMerge parent (QFilter false qi' c'))
| FO_merge_other : forall fq parent fq',
    f_filter fl = false -> q_merge qi = true -> pr_posfilter pr' = true ->
    fi_q fi1 = Some fq -> fi_self fi1 = false -> reroot fq = Some (parent, fq') ->
    filter_output fl qi c' pr' prc' fi1 (QMerge parent (QFilter false qi c')).

(* MAIN: exhaustive characterisation of what processFilter returns *)
Theorem process_any_filter_shape : forall d input cond fl fi q pr' fo,
  process d (AFilter input cond) fl fi = Ok (q, pr', fo) ->
  exists qi pr fi1 c prc fi2,
    process (S d) input (input_flags fl) fi = Ok (qi, pr, fi1) /\
    process (S d) cond (cond_flags fl) fi1 = Ok (c, prc, fi2) /\
    fo = mkFi (Some q) true /\
    pr' = adj_pr input pr (adj_prc c prc) /\
    filter_output fl qi (adj_cond c (adj_prc c prc)) pr' (adj_prc c prc) fi1 q.
Proof.
  intros d input cond fl fi q pr' fo H. apply process_filter_inv in H.
  destruct H as (_ & qi & pr & fi1 & c & prc & fi2 & Hi & Hc & H).
  exists qi, pr, fi1, c, prc, fi2. split; [exact Hi|]. split; [exact Hc|].
  destruct (filter_result_fo _ _ _ _ _ _ _ _ _ H) as [-> ->]. split; [reflexivity|]. split; [reflexivity|].
  unfold filter_result, ret in H.
  destruct (f_filter fl) eqn:Ef; cbn [negb] in H; [inversion H; constructor|].
  destruct (fi_q fi1) as [fq|] eqn:Efq; [|inversion H; constructor].
  destruct (q_merge qi) eqn:Em; cbn [andb] in H; [|inversion H; constructor].
  destruct (pr_posfilter _) eqn:Ep; [|inversion H; constructor].
  destruct (reroot fq) as [[parent fq']|] eqn:Er.
  - destruct (fi_self fi1) eqn:Es; inversion H.
    + pose proof (process_fi_self _ _ _ _ _ _ _ Hi Es) as Eq. rewrite Efq in Eq. inversion Eq; subst fq.
      eapply FO_merge_self; eauto.
    + eapply FO_merge_other; eauto.
  - inversion H. eapply FO_nopos_false; eauto.
Qed.

End Build.

Print Assumptions process_filter_eq.
Print Assumptions process_boolean_filter.
Print Assumptions process_fi_self.
Print Assumptions process_boolean_filter_never_merged.
Print Assumptions process_any_filter_shape.


(* ------------------------------------------------------------------ *)
(** ** Which predicates are "boolean" for the builder *)

(* can_be_number is decided by the static resultType of the built predicate *)
Lemma can_be_number_false_iff : forall c,
  can_be_number c = false <->
  (value_type c = RBoolean \/ value_type c = RString \/ value_type c = RNodeSet).
Proof.
  intros c. unfold can_be_number. destruct (value_type c); split; intro H; auto;
    try discriminate H; destruct H as [H|[H|H]]; discriminate H.
Qed.

(* comparisons, and/or, string literals, every path/step/filter/union query:
   NOT possibly numeric *)
Lemma can_be_number_false_shapes : forall op isor t s m sib np l r i,
  can_be_number (QLogical op l r) = false /\ can_be_number (QBoolean isor l r) = false /\
  can_be_number (QStr s) = false /\ can_be_number QContext = false /\ can_be_number QAbsolute = false /\
  can_be_number (QChild t i) = false /\ can_be_number (QCachedChild t i) = false /\
  can_be_number (QAttribute t i) = false /\ can_be_number (QSelf t i) = false /\
  can_be_number (QParent t i) = false /\ can_be_number (QDescendant m t i) = false /\
  can_be_number (QDoD m t i) = false /\ can_be_number (QAncestor m t i) = false /\
  can_be_number (QFollowing sib t i) = false /\ can_be_number (QPreceding sib t i) = false /\
  can_be_number (QFilter np i l) = false /\ can_be_number (QUnion l r) = false /\
  can_be_number (QMerge l r) = false /\
  can_be_number (QGroup i) = can_be_number i.
Proof. intros. repeat split. Qed.

(* every function call (not(), contains(), boolean(), true() ... included),
   numbers, arithmetic, position(), last(): possibly numeric -- the builder
   gives them HasPosition, hence PosFilter and nopos = false *)
Lemma can_be_number_true_shapes : forall f0 f1 f2 f3 o v a b c,
  can_be_number (QFn0 f0) = true /\ can_be_number (QFn1 f1 a) = true /\
  can_be_number (QFn2 f2 a b) = true /\ can_be_number (QFn3 f3 a b c) = true /\
  can_be_number (QConcat a) = true /\ can_be_number (QReverse a) = true /\
  can_be_number (QNum v) = true /\ can_be_number (QNumeric o a b) = true /\
  can_be_number (QPosition a) = true /\ can_be_number (QLast a) = true /\
  can_be_number (QLastFunc a) = true.
Proof. intros. repeat split. Qed.

(* ================================================================== *)
(** * Part 2, semantics: what the built boolean filter selects *)

Section Sem.
Variable D : tree.
Variable has_ns : bool.
Variable hc : node -> N.
Variable rm : string -> string -> option bool.
Variable rn : string -> nat.
Variable rr : string -> string -> string -> string.
Variable re_ok : string -> bool.

Notation SEL := (sel D has_ns hc rm rn rr).
Notation EVAL := (eval D has_ns hc rm rn rr).
Notation process := (Build.process re_ok).

Lemma obind_vnodes_ne : forall (x : outcome (list item)) f,
  (do l <- x; Val (VNodes l)) <> Val (VNum f).
Proof. intros [l|m|k] f; cbn [obind]; discriminate. Qed.

(* the builder's static test is sound: a query whose resultType is Boolean,
   String or NodeSet never evaluates to a number *)
Theorem can_be_number_false_non_numeric : forall c,
  can_be_number c = false -> forall n f, EVAL c n <> Val (VNum f).
Proof.
  induction c; intros Hc n fv; unfold can_be_number in Hc; cbn [value_type] in Hc;
    try discriminate Hc.
  all: match goal with
       | |- eval _ _ _ _ _ _ QNil _ <> _ =>
         change (Val (VStr "") <> Val (VNum fv)); discriminate
       | |- eval _ _ _ _ _ _ QNop _ <> _ =>
         change (Val VNil <> Val (VNum fv)); discriminate
       | |- eval _ _ _ _ _ _ (QStr ?s) _ <> _ =>
         change (Val (VStr s) <> Val (VNum fv)); discriminate
       | |- eval _ _ _ _ _ _ (QArg ?c1 ?c2) _ <> _ =>
         intro H;
         change (EVAL (QArg c1 c2) n) with
           (do v <- EVAL c1 n; do r <- EVAL c2 n;
            Val (VStr ((match v with VStr s => s | VNodes l => opt_default "" (first_value D l) | _ => "" end)
                       ++ (match r with VStr s => s | _ => "" end)))) in H;
         destruct (EVAL c1 n); cbn [obind] in H; try discriminate H;
         destruct (EVAL c2 n); cbn [obind] in H; discriminate H
       | |- eval _ _ _ _ _ _ (QGroup _) _ <> _ => apply IHc; exact Hc
       | |- eval _ _ _ _ _ _ (QLogical _ _ _) _ <> _ => apply eval_logical_non_numeric
       | |- eval _ _ _ _ _ _ (QBoolean _ _ _) _ <> _ => apply eval_andor_non_numeric
       | |- eval _ _ _ _ _ _ ?q _ <> _ => exact (obind_vnodes_ne (SEL q n) fv)
       end.
Qed.

Corollary boolean_cond_boolean_valued : forall c prc ns,
  boolean_cond c prc -> boolean_valued_on D has_ns hc rm rn rr c ns.
Proof.
  intros c prc ns (H & _) n _ f. apply can_be_number_false_non_numeric. exact H.
Qed.

(* MAIN (C02, end to end at the builder level): the query built for
   input[cond], cond a boolean predicate, selects exactly the candidates of the
   built input for which the built predicate, evaluated at the candidate, is
   true -- in the order (and with the duplicates) of the candidates *)
Theorem boolean_filter_selects : forall d input cond fl fi qi pr fi1 c prc fi2,
  d < max_build_depth ->
  process (S d) input (input_flags fl) fi = Ok (qi, pr, fi1) ->
  process (S d) cond (cond_flags fl) fi1 = Ok (c, prc, fi2) ->
  boolean_cond c prc ->
  exists q pr' fo,
    process d (AFilter input cond) fl fi = Ok (q, pr', fo) /\
    forall ctx l r,
      SEL qi ctx = Val l -> SEL q ctx = Val r ->
      nodes_of r = filter (node_verdict D has_ns hc rm rn rr c) (nodes_of l) /\
      (forall n, In n (nodes_of r) <->
                 In n (nodes_of l) /\ exists v, EVAL c n = Val v /\ xboolean_value v = true).
Proof.
  intros d input cond fl fi qi pr fi1 c prc fi2 Hd Hi Hc B.
  destruct (process_boolean_filter_never_merged re_ok d input cond fl fi qi pr fi1 c prc fi2 Hd Hi Hc B)
    as (np & E).
  eexists. eexists. eexists. split; [exact E|].
  intros ctx l r Hl Hr.
  pose proof (boolean_cond_boolean_valued c prc (nodes_of l) B) as BV.
  pose proof (filter_is_filter D has_ns hc rm rn rr np qi c ctx r l Hr Hl BV) as EQ.
  split; [exact EQ|].
  intros n. rewrite EQ, filter_In. unfold node_verdict.
  split; intros [Hin Hv]; (split; [exact Hin|]).
  - destruct (EVAL c n) as [v| |]; try discriminate Hv. exists v. auto.
  - destruct Hv as (v & -> & Hv). exact Hv.
Qed.

(* the same, in the vocabulary of Filter.filter_members (value and position) *)
Corollary boolean_filter_members : forall d input cond fl fi qi pr fi1 c prc fi2,
  d < max_build_depth ->
  process (S d) input (input_flags fl) fi = Ok (qi, pr, fi1) ->
  process (S d) cond (cond_flags fl) fi1 = Ok (c, prc, fi2) ->
  boolean_cond c prc ->
  exists q pr' fo,
    process d (AFilter input cond) fl fi = Ok (q, pr', fo) /\
    forall ctx l r,
      SEL qi ctx = Val l -> SEL q ctx = Val r ->
      forall n, In n (nodes_of r) <->
                exists it v, In it l /\ it_node it = n /\ EVAL c n = Val v /\
                             truth_of_filter v (it_pos it) = true.
Proof.
  intros d input cond fl fi qi pr fi1 c prc fi2 Hd Hi Hc B.
  destruct (process_boolean_filter_never_merged re_ok d input cond fl fi qi pr fi1 c prc fi2 Hd Hi Hc B)
    as (np & E).
  eexists. eexists. eexists. split; [exact E|].
  intros ctx l r Hl Hr. apply (filter_members D has_ns hc rm rn rr np qi c ctx r l Hr Hl).
Qed.

End Sem.

Print Assumptions can_be_number_false_non_numeric.
Print Assumptions boolean_filter_selects.
Print Assumptions boolean_filter_members.

(* ================================================================== *)
(** * Part 3.  The merge rewrite preserves the selected node sequence *)

Section Merge.
Variable D : tree.
Variable has_ns : bool.
Variable hc : node -> N.
Variable rm : string -> string -> option bool.
Variable rn : string -> nat.
Variable rr : string -> string -> string -> string.

Notation SEL := (sel D has_ns hc rm rn rr).
Notation EVAL := (eval D has_ns hc rm rn rr).
Notation FGO := (filter_go D has_ns hc rm rn rr).

(* the nodes kept by the loop of filterQuery.Select -- without the position
   map, which only determines the counters handed out *)
Fixpoint filter_nodes_go (p : query) (l : list item) : outcome (list node) :=
  match l with
  | [] => Val []
  | it :: r =>
    do v <- EVAL p (it_node it);
    do rest <- filter_nodes_go p r;
    Val (if truth_of_filter v (it_pos it) then it_node it :: rest else rest)
  end.

Lemma filter_go_nodes : forall p l pm, omap nodes_of (FGO p l pm) = filter_nodes_go p l.
Proof.
  intros p l. induction l as [|it r IH]; intros pm; [reflexivity|].
  rewrite filter_go_cons. cbn [filter_nodes_go]. unfold omap in *.
  destruct (EVAL p (it_node it)) as [v|m|k]; cbn [obind]; try reflexivity.
  destruct (truth_of_filter v (it_pos it)).
  - rewrite <- (IH (pm_set pm (it_lvl it) (S (pm_get pm (it_lvl it))))).
    destruct (FGO p r _) as [rest|m|k]; reflexivity.
  - rewrite <- (IH pm). destruct (FGO p r pm) as [rest|m|k]; reflexivity.
Qed.

Lemma filter_nodes_go_app : forall p l1 l2,
  filter_nodes_go p (l1 ++ l2) =
  do a <- filter_nodes_go p l1; do b <- filter_nodes_go p l2; Val (a ++ b).
Proof.
  intros p l1 l2. induction l1 as [|it r IH]; cbn [app filter_nodes_go obind].
  - destruct (filter_nodes_go p l2); reflexivity.
  - destruct (EVAL p (it_node it)) as [v|m|k]; cbn [obind]; try reflexivity.
    rewrite IH. destruct (filter_nodes_go p r) as [a|m|k]; cbn [obind]; try reflexivity.
    destruct (filter_nodes_go p l2) as [b|m|k]; cbn [obind]; try reflexivity.
    destruct (truth_of_filter v (it_pos it)); reflexivity.
Qed.

(* the node sequence of any filter query *)
Lemma filter_sel_nodes : forall np i p c,
  omap nodes_of (SEL (QFilter np i p) c) = do l <- SEL i c; filter_nodes_go p l.
Proof.
  intros np i p c. rewrite sel_filter. unfold omap.
  destruct (SEL i c) as [l|m|k]; cbn [obind]; try reflexivity.
  apply (filter_go_nodes p l []).
Qed.

(* a step query: its candidates are produced input node by input node, the
   counters (position(), depth) restarting for every input node *)
Definition per_node_step (mk : query -> query) (f : node -> list item) : Prop :=
  forall i c, SEL (mk i) c = do l <- SEL i c; Val (flat_map (fun it => f (it_node it)) l).

Lemma per_node_step_context : forall mk f x,
  per_node_step mk f -> SEL (mk QContext) x = Val (f x).
Proof.
  intros mk f x H. rewrite H. rewrite sel_context. cbn [obind flat_map it_node].
  now rewrite app_nil_r.
Qed.

Lemma merge_loop_nodes : forall mk f np p (ps : list item),
  per_node_step mk f ->
  omap nodes_of (oflat_map (fun it => SEL (QFilter np (mk QContext) p) (it_node it)) ps) =
  filter_nodes_go p (flat_map (fun it => f (it_node it)) ps).
Proof.
  intros mk f np p ps H. induction ps as [|a r IH]; [reflexivity|].
  cbn [oflat_map flat_map]. rewrite filter_nodes_go_app. rewrite <- IH.
  pose proof (filter_sel_nodes np (mk QContext) p (it_node a)) as E.
  rewrite (per_node_step_context mk f _ H) in E. cbn [obind] in E. rewrite <- E.
  unfold omap.
  destruct (SEL (QFilter np (mk QContext) p) (it_node a)) as [x|m|k]; cbn [obind]; try reflexivity.
  destruct (oflat_map _ r) as [y|m|k]; cbn [obind]; try reflexivity.
  now rewrite nodes_of_app.
Qed.

(* both forms, explicitly: the filter loop over the concatenation of the
   per-parent candidate lists *)
Theorem filter_step_nodes : forall mk f np parent p c,
  per_node_step mk f ->
  omap nodes_of (SEL (QFilter np (mk parent) p) c) =
  do ps <- SEL parent c; filter_nodes_go p (flat_map (fun it => f (it_node it)) ps).
Proof.
  intros mk f np parent p c H. rewrite filter_sel_nodes, H.
  destruct (SEL parent c); reflexivity.
Qed.

Theorem merge_step_nodes : forall mk f np parent p c,
  per_node_step mk f ->
  omap nodes_of (SEL (QMerge parent (QFilter np (mk QContext) p)) c) =
  do ps <- SEL parent c; filter_nodes_go p (flat_map (fun it => f (it_node it)) ps).
Proof.
  intros mk f np parent p c H. rewrite sel_merge. unfold omap.
  destruct (SEL parent c) as [ps|m|k]; cbn [obind]; try reflexivity.
  rewrite <- (merge_loop_nodes mk f np p ps H). unfold omap.
  destruct (oflat_map _ ps) as [l|m|k]; cbn [obind]; try reflexivity.
  now rewrite nodes_of_unnumbered.
Qed.

(* MAIN (C03, query level): for ANY predicate p -- numeric, position(),
   last(), boolean, failing -- the merged form and the plain form have the
   same outcome: the same nodes in the same order, or the same error *)
Theorem merge_step_same_nodes : forall mk f np1 np2 parent p c,
  per_node_step mk f ->
  omap nodes_of (SEL (QMerge parent (QFilter np1 (mk QContext) p)) c) =
  omap nodes_of (SEL (QFilter np2 (mk parent) p) c).
Proof.
  intros mk f np1 np2 parent p c H.
  rewrite (merge_step_nodes mk f np1 parent p c H), (filter_step_nodes mk f np2 parent p c H).
  reflexivity.
Qed.

(* the step queries of the model *)
Lemma per_node_child : forall t, per_node_step (QChild t) (step_child D has_ns t).
Proof. intros t i c. reflexivity. Qed.
Lemma per_node_cached_child : forall t, per_node_step (QCachedChild t) (step_child D has_ns t).
Proof. intros t i c. reflexivity. Qed.
Lemma per_node_attribute : forall t, per_node_step (QAttribute t) (step_attribute D has_ns t).
Proof. intros t i c. reflexivity. Qed.
Lemma per_node_descendant : forall s t, per_node_step (QDescendant s t) (step_descendant D has_ns s t).
Proof. intros s t i c. reflexivity. Qed.
Lemma per_node_following : forall s t,
  per_node_step (QFollowing s t)
    (if s then step_following_sibling D has_ns t else step_following D has_ns t).
Proof. intros s t i c. destruct s; reflexivity. Qed.
Lemma per_node_preceding : forall s t,
  per_node_step (QPreceding s t)
    (if s then step_preceding_sibling D has_ns t else step_preceding D has_ns t).
Proof. intros s t i c. destruct s; reflexivity. Qed.
Lemma per_node_parent : forall t, per_node_step (QParent t) (step_parent D has_ns t).
Proof. intros t i c. reflexivity. Qed.
Lemma per_node_self : forall t, per_node_step (QSelf t) (step_self D has_ns t).
Proof. intros t i c. reflexivity. Qed.
Lemma per_node_dod : forall m t, per_node_step (QDoD m t) (step_dod D has_ns m t).
Proof. intros m t i c. reflexivity. Qed.

Definition is_ancestor_q (q : query) : bool := match q with QAncestor _ _ _ => true | _ => false end.
Definition is_group_q (q : query) : bool := match q with QGroup _ => true | _ => false end.

(* what the type switch of processFilter re-roots, the ancestor axis and the
   group aside, is a step query *)
Lemma reroot_per_node_step : forall fq parent fq',
  reroot fq = Some (parent, fq') -> is_ancestor_q fq = false -> is_group_q fq = false ->
  exists mk f, per_node_step mk f /\ fq = mk parent /\ fq' = mk QContext.
Proof.
  intros fq parent fq' H Ha Hg.
  destruct fq; cbn [reroot] in H; try discriminate H; try discriminate Ha; try discriminate Hg;
    (destruct (is_context _); [discriminate H|]); inversion H; subst.
  - exists (QAttribute t). eexists. split; [apply per_node_attribute|auto].
  - exists (QChild t). eexists. split; [apply per_node_child|auto].
  - exists (QCachedChild t). eexists. split; [apply per_node_cached_child|auto].
  - exists (QDescendant self t). eexists. split; [apply per_node_descendant|auto].
  - exists (QFollowing sibling t). eexists. split; [apply per_node_following|auto].
  - exists (QPreceding sibling t). eexists. split; [apply per_node_preceding|auto].
  - exists (QParent t). eexists. split; [apply per_node_parent|auto].
  - exists (QSelf t). eexists. split; [apply per_node_self|auto].
  - exists (QDoD matchself t). eexists. split; [apply per_node_dod|auto].
Qed.

(* MAIN: the rewrite of processFilter, as a whole *)
Theorem merge_rewrite_sound : forall fq parent fq' np p c,
  reroot fq = Some (parent, fq') -> is_ancestor_q fq = false -> is_group_q fq = false ->
  omap nodes_of (SEL (QMerge parent (QFilter false fq' p)) c) =
  omap nodes_of (SEL (QFilter np fq p) c).
Proof.
  intros fq parent fq' np p c H Ha Hg.
  destruct (reroot_per_node_step fq parent fq' H Ha Hg) as (mk & f & Hs & -> & ->).
  apply (merge_step_same_nodes mk f false np parent p c Hs).
Qed.

(* the child step (C03): explicit per-parent form.  Each parent's matching
   children are numbered 1, 2, ... (Position.step_child_positions) and run
   through the predicate; the results are concatenated in the order of the
   parents -- for the merged and for the plain form alike *)
Theorem merge_same_nodes_general : forall np1 np2 t parent p c,
  omap nodes_of (SEL (QMerge parent (QFilter np1 (QChild t QContext) p)) c) =
  omap nodes_of (SEL (QFilter np2 (QChild t parent) p) c) /\
  omap nodes_of (SEL (QFilter np2 (QChild t parent) p) c) =
  do ps <- SEL parent c;
  oflat_map (fun par => filter_nodes_go p (step_child D has_ns t (it_node par))) ps.
Proof.
  intros np1 np2 t parent p c. split.
  - apply (merge_step_same_nodes (QChild t) _ np1 np2 parent p c (per_node_child t)).
  - rewrite (filter_step_nodes (QChild t) _ np2 parent p c (per_node_child t)).
    destruct (SEL parent c) as [ps|m|k]; cbn [obind]; try reflexivity.
    induction ps as [|a r IH]; [reflexivity|].
    cbn [flat_map oflat_map]. rewrite filter_nodes_go_app, IH. reflexivity.
Qed.

(* a predicate whose verdict on a candidate is a function of the parent and
   of the candidate's position among the parent's matching children: both
   forms select, per parent, the children at the positions where it holds *)
Corollary merge_child_positional_nodes : forall np t parent p c ps (f : node -> nat -> bool),
  SEL parent c = Val ps ->
  (forall par it, In par (nodes_of ps) -> In it (step_child D has_ns t par) ->
     exists v, EVAL p (it_node it) = Val v /\ truth_of_filter v (it_pos it) = f par (it_pos it)) ->
  omap nodes_of (SEL (QMerge parent (QFilter np (QChild t QContext) p)) c) =
  Val (flat_map (fun par => select_pos (f par) 1 (cands D has_ns t par)) (nodes_of ps)).
Proof.
  intros np t parent p c ps f Hp Hv.
  rewrite (merge_child_positional_filter D has_ns hc rm rn rr np t parent p c ps f Hp Hv).
  unfold omap. cbn [obind]. now rewrite nodes_of_unnumbered.
Qed.

End Merge.

Print Assumptions merge_step_same_nodes.
Print Assumptions merge_rewrite_sound.
Print Assumptions merge_same_nodes_general.

(* ================================================================== *)
(** * Part 3, builder level *)

Section BuildMerge.
Variable D : tree.
Variable has_ns : bool.
Variable hc : node -> N.
Variable rm : string -> string -> option bool.
Variable rn : string -> nat.
Variable rr : string -> string -> string -> string.
Variable re_ok : string -> bool.

Notation SEL := (sel D has_ns hc rm rn rr).
Notation EVAL := (eval D has_ns hc rm rn rr).
Notation process := (Build.process re_ok).

(* processAxis always leaves firstInput = the step it returns *)
Lemma process_axis_fo : forall d axis nty pre loc prop hasns ns input fl fi q pr fo,
  process d (AAxis axis nty pre loc prop hasns ns input) fl fi = Ok (q, pr, fo) ->
  fo = mkFi (Some q) true.
Proof.
  intros d axis nty pre loc prop hasns ns input fl fi q pr fo H.
  cbn [Build.process] in H. destruct (Nat.ltb max_build_depth (S d)); [discriminate H|].
  cbv zeta in H.
  assert (F : forall r : cres (query * props),
            (let* (q0, pr0) := r in Ok (q0, pr0, mkFi (Some q0) true)) = Ok (q, pr, fo) ->
            fo = mkFi (Some q) true).
  { intros r Hr. apply cbind_Ok_inv in Hr. destruct Hr as [[q0 pr0] [_ Hr]].
    inversion Hr; subst; reflexivity. }
  destruct input as [inp|]; [|apply (F _ H)].
  assert (N : forall fl0,
            (let* (qi, pr0, _) := process (S d) inp fl0 fi_nil in
             let* (q0, pr1) := mk_axis axis (axis_test nty pre loc hasns ns) fl qi pr0 in
             Ok (q0, pr1, mkFi (Some q0) true)) = Ok (q, pr, fo) ->
            fo = mkFi (Some q) true).
  { intros fl0 Hr. apply cbind_Ok_inv in Hr. destruct Hr as [[[qi pr0] fi0] [_ Hr]].
    apply (F _ Hr). }
  destruct inp as [|iax itt ipre iloc iprop ihasns ins ginput| | | | | | |]; try (apply (N _ H)).
  match type of H with (if ?c then _ else _) = _ => destruct c end; [|apply (N _ H)].
  destruct ginput as [g|]; [|apply (F _ H)].
  apply cbind_Ok_inv in H. destruct H as [[[qg pr0] fi0] [_ H]]. apply (F _ H).
Qed.

Lemma q_merge_not_group : forall q, q_merge q = true -> is_group_q q = false.
Proof. intros q H. destruct q; try reflexivity. discriminate H. Qed.

(* MAIN (C03, builder level): whatever processFilter decides -- plain filter,
   nopos = false, or the merge rewrite of the first input -- the built query
   has the same outcome (same nodes, same order, or same error), from every
   context node of every document, as the plain filter of the built input by
   the built predicate.  Side conditions: firstInput is the built input
   itself (always so when the input is a step or a filter, see below) and the
   built input is not an ancestor step (see the counterexample below). *)
Theorem process_filter_sound : forall d input cond fl fi q pr' fo,
  process d (AFilter input cond) fl fi = Ok (q, pr', fo) ->
  exists qi pr fi1 c prc fi2,
    process (S d) input (input_flags fl) fi = Ok (qi, pr, fi1) /\
    process (S d) cond (cond_flags fl) fi1 = Ok (c, prc, fi2) /\
    (fi_self fi1 = true -> is_ancestor_q qi = false ->
     forall np ctx,
       omap nodes_of (SEL q ctx) =
       omap nodes_of (SEL (QFilter np qi (adj_cond c (adj_prc c prc))) ctx)).
Proof.
  intros d input cond fl fi q pr' fo H.
  destruct (process_any_filter_shape re_ok d input cond fl fi q pr' fo H)
    as (qi & pr & fi1 & c & prc & fi2 & Hi & Hc & _ & _ & HO).
  exists qi, pr, fi1, c, prc, fi2. split; [exact Hi|]. split; [exact Hc|].
  intros Hs Ha np ctx.
  destruct HO as [|fq _ _ _ _ _|parent qi' _ Hm _ _ _ Hr|fq parent fq' _ _ _ _ Hs' _].
  - now rewrite (sel_filter_nopos_irrelevant D has_ns hc rm rn rr _ np).
  - now rewrite (sel_filter_nopos_irrelevant D has_ns hc rm rn rr _ np).
  - apply (merge_rewrite_sound D has_ns hc rm rn rr qi parent qi' np _ ctx Hr Ha).
    apply q_merge_not_group. exact Hm.
  - congruence.
Qed.

(* a step with a predicate *)
Corollary process_step_filter_sound :
  forall d axis nty pre loc prop hasns ns inp cond fl fi q pr' fo,
  process d (AFilter (AAxis axis nty pre loc prop hasns ns inp) cond) fl fi = Ok (q, pr', fo) ->
  exists qi pr fi1 c prc fi2,
    process (S d) (AAxis axis nty pre loc prop hasns ns inp) (input_flags fl) fi = Ok (qi, pr, fi1) /\
    process (S d) cond (cond_flags fl) fi1 = Ok (c, prc, fi2) /\
    (is_ancestor_q qi = false ->
     forall np ctx,
       omap nodes_of (SEL q ctx) =
       omap nodes_of (SEL (QFilter np qi (adj_cond c (adj_prc c prc))) ctx)).
Proof.
  intros d axis nty pre loc prop hasns ns inp cond fl fi q pr' fo H.
  destruct (process_filter_sound _ _ _ _ _ _ _ _ H) as (qi & pr & fi1 & c & prc & fi2 & Hi & Hc & HS).
  exists qi, pr, fi1, c, prc, fi2. split; [exact Hi|]. split; [exact Hc|].
  apply HS. rewrite (process_axis_fo _ _ _ _ _ _ _ _ _ _ _ _ _ _ Hi). reflexivity.
Qed.

(* a filter with a further predicate:  input[p1][p2] -- never rewritten *)
Corollary process_filter_filter_shape : forall d i0 c0 cond fl fi q pr' fo,
  process d (AFilter (AFilter i0 c0) cond) fl fi = Ok (q, pr', fo) ->
  exists qi pr fi1 c prc fi2 np,
    process (S d) (AFilter i0 c0) (input_flags fl) fi = Ok (qi, pr, fi1) /\
    process (S d) cond (cond_flags fl) fi1 = Ok (c, prc, fi2) /\
    q = QFilter np qi (adj_cond c (adj_prc c prc)).
Proof.
  intros d i0 c0 cond fl fi q pr' fo H.
  destruct (process_any_filter_shape re_ok d _ cond fl fi q pr' fo H)
    as (qi & pr & fi1 & c & prc & fi2 & Hi & Hc & _ & _ & HO).
  destruct (process_filter_not_first re_ok _ _ _ _ _ _ _ _ Hi eq_refl) as (np0 & qi0 & c0' & Eq & Ef).
  subst fi1.
  destruct HO as [|fq _ _ _ _ _|parent qi' _ _ _ _ _ Hr|fq parent fq' _ _ _ Hq Hs' Hr];
    try (eexists qi, pr, _, c, prc, fi2, _; split; [exact Hi|split; [exact Hc|reflexivity]]).
  - subst qi. discriminate Hr.
  - discriminate Hs'.
Qed.

(* (P)[...] : a parenthesised input is never rewritten *)
Corollary process_group_filter_shape : forall d inner cond fl fi q pr' fo,
  process d (AFilter (AGroup inner) cond) fl fi = Ok (q, pr', fo) ->
  exists qin pr fi0 fi1 c prc fi2,
    process (S (S d)) inner fl_none fi = Ok (qin, pr, fi0) /\
    process (S d) cond (cond_flags fl) fi1 = Ok (c, prc, fi2) /\
    q = QFilter (negb (pr_haspos (adj_prc c prc))) (QGroup qin) (adj_cond c (adj_prc c prc)).
Proof.
  intros d inner cond fl fi q pr' fo H.
  destruct (process_any_filter_shape re_ok d _ cond fl fi q pr' fo H)
    as (qi & pr & fi1 & c & prc & fi2 & Hi & Hc & _ & _ & HO).
  cbn [Build.process] in Hi. destruct (Nat.ltb max_build_depth (S (S d))); [discriminate Hi|].
  apply cbind_Ok_inv in Hi. destruct Hi as [[[qin pr0] fi0] [Hin Hi]].
  assert (Eq : qi = QGroup qin /\ pr = pr0) by (destruct (fi_q fi0); inversion Hi; auto).
  destruct Eq as [-> ->].
  exists qin, pr0, fi0, fi1, c, prc, fi2. split; [exact Hin|]. split; [exact Hc|].
  destruct HO as [|fq _ Hm _ _ _|parent qi' _ Hm _ _ _ _|fq parent fq' _ Hm _ _ _ _];
    try discriminate Hm. reflexivity.
Qed.


(* a predicate that the builder treats as possibly numeric (not(), contains(),
   ...: HasPosition, PosFilter, nopos = false, possibly the merge rewrite) but
   that never yields a number at run time on the candidates: the built query
   still selects exactly the candidates for which the predicate is true *)
Theorem process_filter_boolean_valued : forall d input cond fl fi q pr' fo,
  process d (AFilter input cond) fl fi = Ok (q, pr', fo) ->
  exists qi pr fi1 c prc fi2,
    process (S d) input (input_flags fl) fi = Ok (qi, pr, fi1) /\
    process (S d) cond (cond_flags fl) fi1 = Ok (c, prc, fi2) /\
    (fi_self fi1 = true -> is_ancestor_q qi = false ->
     forall ctx l r,
       SEL qi ctx = Val l -> SEL q ctx = Val r ->
       boolean_valued_on D has_ns hc rm rn rr (adj_cond c (adj_prc c prc)) (nodes_of l) ->
       nodes_of r =
       filter (node_verdict D has_ns hc rm rn rr (adj_cond c (adj_prc c prc))) (nodes_of l)).
Proof.
  intros d input cond fl fi q pr' fo H.
  destruct (process_filter_sound _ _ _ _ _ _ _ _ H) as (qi & pr & fi1 & c & prc & fi2 & Hi & Hc & HS).
  exists qi, pr, fi1, c, prc, fi2. split; [exact Hi|]. split; [exact Hc|].
  intros Hs Ha ctx l r Hl Hr BV.
  pose proof (HS Hs Ha true ctx) as E. rewrite Hr in E. unfold omap in E. cbn [obind] in E.
  destruct (SEL (QFilter true qi (adj_cond c (adj_prc c prc))) ctx) as [r'|m|k] eqn:Er;
    cbn [obind] in E; try discriminate E.
  inversion E as [E']. rewrite E'.
  apply (filter_is_filter D has_ns hc rm rn rr true qi _ ctx r' l Er Hl BV).
Qed.

End BuildMerge.

Print Assumptions process_filter_sound.
Print Assumptions process_step_filter_sound.
Print Assumptions process_filter_boolean_valued.
Print Assumptions process_filter_filter_shape.
Print Assumptions process_group_filter_shape.

(* ================================================================== *)
(** * Part 4.  End-to-end instances *)

Module BuildFilterExamples.
Import DocOrder.Examples.

Definition attr_t (s : string) : ntest := mkTest NTAttr "" s false "".
Definition qa : query := QChild (named "a") QContext.
Definition qab : query := QChild (named "b") qa.
Definition one : f64 := of_Z 1.
Definition two : f64 := of_Z 2.
Definition three : f64 := of_Z 3.

Example go_int_lits : go_int one = 1%Z /\ go_int two = 2%Z.
Proof. split; vm_compute; reflexivity. Qed.

(* <r><a x="1"><b/><b/></a><a><b/></a><a x="2"/></r>, context node: r *)
Definition dF : tree :=
  T KRoot "" "" "" "" []
    [ el "r" []
        [ el "a" [at_ "x" "1"] [el "b" [] []; el "b" [] []];
          el "a" [] [el "b" [] []];
          el "a" [at_ "x" "2"] [] ] ].
Definition r0 : node := e [0].
Definition runF (q : query) : outcome (list node) :=
  select lit_match lit_numsubexp lit_replace_all hash_code dF true q r0.

Notation PROC := (Build.process lit_ok).

(* ---- 1.  a[b] : boolean predicate on a step ---- *)
Example ex1_compile : compile lit_ok "a[b]" None = Ok (QFilter true qa (QChild (named "b") QContext)).
Proof. vm_compute. reflexivity. Qed.

(* the hypotheses of process_boolean_filter_step hold, and the theorem gives the result *)
Example ex1_theorem :
  exists input cond pr fi1 prc fi2,
    parse "a[b]" None = Ok (AFilter input cond) /\
    PROC 1 input (input_flags fl_none) fi_nil = Ok (qa, pr, fi1) /\
    PROC 1 cond (cond_flags fl_none) fi1 = Ok (QChild (named "b") QContext, prc, fi2) /\
    boolean_cond (QChild (named "b") QContext) prc /\ is_filter_node input = false /\
    PROC 0 (AFilter input cond) fl_none fi_nil =
    Ok (QFilter true qa (QChild (named "b") QContext), set_posfilter pr false,
        mkFi (Some (QFilter true qa (QChild (named "b") QContext))) true).
Proof.
  do 6 eexists. split; [vm_compute; reflexivity|].
  assert (Hi : PROC 1 (AAxis "child" NTElem "" "a" "" false "" None) (input_flags fl_none) fi_nil
               = Ok (qa, pr_none, mkFi (Some qa) true)) by (vm_compute; reflexivity).
  assert (Hc : PROC 1 (AAxis "child" NTElem "" "b" "" false "" None) (cond_flags fl_none) (mkFi (Some qa) true)
               = Ok (QChild (named "b") QContext, pr_none, mkFi (Some (QChild (named "b") QContext)) true))
    by (vm_compute; reflexivity).
  assert (B : boolean_cond (QChild (named "b") QContext) pr_none)
    by (unfold boolean_cond; split; [|split]; reflexivity).
  split; [exact Hi|]. split; [exact Hc|]. split; [exact B|]. split; [reflexivity|].
  apply (process_boolean_filter_step lit_ok 0 _ _ fl_none fi_nil _ _ _ _ _ _ (ltac:(vm_compute; lia)) Hi Hc B eq_refl).
Qed.

Example ex1_run : runF (QFilter true qa (QChild (named "b") QContext)) = Val [e [0;0]; e [0;1]].
Proof. vm_compute. reflexivity. Qed.

(* for every document: the a-children of the context that have a b-child *)
Theorem ex1_all_documents : forall D has_ns hc rm rn rr ctx l r,
  sel D has_ns hc rm rn rr qa ctx = Val l ->
  sel D has_ns hc rm rn rr (QFilter true qa (QChild (named "b") QContext)) ctx = Val r ->
  nodes_of r = filter (fun n => existsb (match_test D has_ns (named "b")) (children D n)) (nodes_of l).
Proof.
  intros D has_ns hc rm rn rr ctx l r Hl Hr.
  rewrite (filter_is_filter D has_ns hc rm rn rr _ _ _ _ _ _ Hr Hl).
  - apply filter_ext. intros n. apply node_verdict_child_context.
  - intros n _ f. apply eval_child_non_numeric.
Qed.

(* ---- 2.  a[@x='1'] ---- *)
Definition c2 : query := QLogical CEq (QAttribute (attr_t "x") QContext) (QStr "1").
Example ex2_compile : compile lit_ok "a[@x='1']" None = Ok (QFilter true qa c2).
Proof. vm_compute. reflexivity. Qed.

Example ex2_theorem :
  exists input cond pr fi1 prc fi2,
    parse "a[@x='1']" None = Ok (AFilter input cond) /\
    PROC 1 input (input_flags fl_none) fi_nil = Ok (qa, pr, fi1) /\
    PROC 1 cond (cond_flags fl_none) fi1 = Ok (c2, prc, fi2) /\
    boolean_cond c2 prc /\ is_filter_node input = false.
Proof.
  do 6 eexists. do 3 (split; [vm_compute; reflexivity|]).
  split; [|reflexivity]. unfold boolean_cond. do 2 (split; [vm_compute; reflexivity|]). vm_compute; reflexivity.
Qed.

Example ex2_run : runF (QFilter true qa c2) = Val [e [0;0]].
Proof. vm_compute. reflexivity. Qed.

(* ---- 3.  a[1] : positional, the first input is rooted at the context: no merge,
           nopos = false ---- *)
Example ex3_compile : compile lit_ok "a[1]" None = Ok (QFilter false qa (QNum one)).
Proof. vm_compute. reflexivity. Qed.

Example ex3_output :
  filter_output fl_none qa (QNum one) (mkPr true false false false) (mkPr false true false false)
                (mkFi (Some qa) true) (QFilter false qa (QNum one)).
Proof. eapply FO_nopos_false; reflexivity. Qed.

Example ex3_run : runF (QFilter false qa (QNum one)) = Val [e [0;0]].
Proof. vm_compute. reflexivity. Qed.

Theorem ex3_all_documents : forall D has_ns hc rm rn rr ctx,
  omap nodes_of (sel D has_ns hc rm rn rr (QFilter false qa (QNum one)) ctx) =
  Val (pick_nth 1 (cands D has_ns (named "a") ctx)).
Proof.
  intros. unfold qa.
  rewrite (child_index_filter D has_ns hc rm rn rr false (named "a") QContext one ctx
             [mkItem ctx 1 0] eq_refl).
  unfold omap. cbn [obind flat_map it_node]. rewrite nodes_of_numbered, app_nil_r.
  replace (go_int one) with 1%Z by (vm_compute; reflexivity). reflexivity.
Qed.

(* ---- 4.  a/b[2] : the merge rewrite ---- *)
Definition q4 : query := QMerge qa (QFilter false (QChild (named "b") QContext) (QNum two)).
Example ex4_compile : compile lit_ok "a/b[2]" None = Ok q4.
Proof. vm_compute. reflexivity. Qed.

Example ex4_process :
  exists input cond pr fi1 prc fi2,
    parse "a/b[2]" None = Ok (AFilter input cond) /\
    PROC 1 input (input_flags fl_none) fi_nil = Ok (qab, pr, fi1) /\
    PROC 1 cond (cond_flags fl_none) fi1 = Ok (QNum two, prc, fi2) /\
    fi1 = mkFi (Some qab) true /\
    filter_output fl_none qab (adj_cond (QNum two) (adj_prc (QNum two) prc))
                  (adj_pr input pr (adj_prc (QNum two) prc)) (adj_prc (QNum two) prc) fi1 q4.
Proof.
  do 6 eexists. split; [vm_compute; reflexivity|]. split; [vm_compute; reflexivity|].
  split; [vm_compute; reflexivity|]. split; [reflexivity|].
  eapply FO_merge_self; reflexivity.
Qed.

Example ex4_run : runF q4 = Val [e [0;0;1]].
Proof. vm_compute. reflexivity. Qed.

(* for every document: per a-child of the context, in order, its second b-child;
   and the same as the unrewritten  (a/b)-filter  *)
Theorem ex4_all_documents : forall D has_ns hc rm rn rr ctx,
  omap nodes_of (sel D has_ns hc rm rn rr q4 ctx) =
  Val (flat_map (fun par => pick_nth 2 (cands D has_ns (named "b") par)) (cands D has_ns (named "a") ctx))
  /\ forall np, omap nodes_of (sel D has_ns hc rm rn rr q4 ctx) =
                omap nodes_of (sel D has_ns hc rm rn rr (QFilter np qab (QNum two)) ctx).
Proof.
  intros. split.
  - unfold q4.
    assert (Hp : sel D has_ns hc rm rn rr qa ctx = Val (step_child D has_ns (named "a") ctx)).
    { unfold qa. rewrite sel_child, sel_context. cbn [obind flat_map it_node]. now rewrite app_nil_r. }
    rewrite (merge_child_index D has_ns hc rm rn rr false (named "b") qa two ctx _ Hp).
    unfold omap. cbn [obind]. rewrite nodes_of_unnumbered, step_child_nodes.
    replace (go_int two) with 2%Z by (vm_compute; reflexivity). reflexivity.
  - intros np. apply (merge_rewrite_sound D has_ns hc rm rn rr qab qa (QChild (named "b") QContext) np);
      reflexivity.
Qed.

(* ---- 5.  a/b[last()] ---- *)
Definition q5 : query := QMerge qa (QFilter false (QChild (named "b") QContext) (QLast qab)).
Example ex5_compile : compile lit_ok "a/b[last()]" None = Ok q5.
Proof. vm_compute. reflexivity. Qed.

Example ex5_process :
  exists input cond pr fi1 prc fi2,
    parse "a/b[last()]" None = Ok (AFilter input cond) /\
    PROC 1 input (input_flags fl_none) fi_nil = Ok (qab, pr, fi1) /\
    PROC 1 cond (cond_flags fl_none) fi1 = Ok (QLast qab, prc, fi2) /\
    pr_haslast prc = true /\
    filter_output fl_none qab (adj_cond (QLast qab) (adj_prc (QLast qab) prc))
                  (adj_pr input pr (adj_prc (QLast qab) prc)) (adj_prc (QLast qab) prc) fi1 q5.
Proof.
  do 6 eexists. split; [vm_compute; reflexivity|]. split; [vm_compute; reflexivity|].
  split; [vm_compute; reflexivity|]. split; [reflexivity|].
  eapply FO_merge_self; reflexivity.
Qed.

Example ex5_run : runF q5 = Val [e [0;0;1]; e [0;1;0]].
Proof. vm_compute. reflexivity. Qed.

Theorem ex5_all_documents : forall D has_ns hc rm rn rr ctx,
  omap nodes_of (sel D has_ns hc rm rn rr q5 ctx) =
  Val (flat_map (fun par =>
         pick_nth (go_int (of_Z (Z.of_nat (List.length (cands D has_ns (named "b") par)))))
                  (cands D has_ns (named "b") par))
       (cands D has_ns (named "a") ctx)).
Proof.
  intros. unfold q5.
  assert (Hp : sel D has_ns hc rm rn rr qa ctx = Val (step_child D has_ns (named "a") ctx)).
  { unfold qa. rewrite sel_child, sel_context. cbn [obind flat_map it_node]. now rewrite app_nil_r. }
  rewrite (merge_child_positional_nodes D has_ns hc rm rn rr false (named "b") qa (QLast qab) ctx _
            (fun par pos => Z.eqb (go_int (of_Z (Z.of_nat (List.length (cands D has_ns (named "b") par)))))
                                  (Z.of_nat pos)) Hp).
  - rewrite step_child_nodes. f_equal. apply flat_map_ext. intros par. apply select_pos_pick.
  - intros par it _ Hin. eexists. split; [apply (last_is_count D has_ns hc rm rn rr (named "b") qa par it Hin)|].
    reflexivity.
Qed.

(* ---- 6.  (a/b)[2] : a parenthesised input is not rewritten ---- *)
Definition q6 : query := QFilter false (QGroup qab) (QNum two).
Example ex6_compile : compile lit_ok "(a/b)[2]" None = Ok q6.
Proof. vm_compute. reflexivity. Qed.

Example ex6_shape :
  exists inner cond, parse "(a/b)[2]" None = Ok (AFilter (AGroup inner) cond) /\
  exists pr fo, PROC 0 (AFilter (AGroup inner) cond) fl_none fi_nil = Ok (q6, pr, fo).
Proof. do 2 eexists. split; [vm_compute; reflexivity|]. do 2 eexists. vm_compute. reflexivity. Qed.

Example ex6_run : runF q6 = Val [e [0;0;1]].
Proof. vm_compute. reflexivity. Qed.

(* (P)[2] is the second node of P's sequence *)
Theorem ex6_all_documents : forall D has_ns hc rm rn rr ctx l,
  sel D has_ns hc rm rn rr qab ctx = Val l ->
  sel D has_ns hc rm rn rr q6 ctx = Val (numbered (pick_nth 2 (nodes_of l))).
Proof.
  intros D has_ns hc rm rn rr ctx l Hl. unfold q6.
  rewrite (group_index D has_ns hc rm rn rr false qab two ctx l Hl).
  replace (go_int two) with 2%Z by (vm_compute; reflexivity). reflexivity.
Qed.

(* a/b[2] (per parent) and (a/b)[2] (overall) coincide on dF, where only the
   first a has two b's; they differ on Position's d2, see
   PositionExamples.ex_index / ex_merge_index / ex_group_index *)

(* ---- 7.  a[position() < 3][@x] : a boolean predicate after a positional one ---- *)
Definition c7 : query := QLogical CLt (QPosition qa) (QNum three).
Definition q7 : query := QFilter false (QFilter false qa c7) (QAttribute (attr_t "x") QContext).
Example ex7_compile : compile lit_ok "a[position() < 3][@x]" None = Ok q7.
Proof. vm_compute. reflexivity. Qed.

(* matches process_boolean_filter_never_merged: a filter over the built input
   with the built predicate; here nopos = false *)
Example ex7_theorem :
  exists input cond pr fi1 prc fi2,
    parse "a[position() < 3][@x]" None = Ok (AFilter input cond) /\
    is_filter_node input = true /\
    PROC 1 input (input_flags fl_none) fi_nil = Ok (QFilter false qa c7, pr, fi1) /\
    pr_posfilter pr = true /\
    PROC 1 cond (cond_flags fl_none) fi1 = Ok (QAttribute (attr_t "x") QContext, prc, fi2) /\
    boolean_cond (QAttribute (attr_t "x") QContext) prc.
Proof.
  do 6 eexists. do 5 (split; [vm_compute; reflexivity|]).
  unfold boolean_cond. do 2 (split; [vm_compute; reflexivity|]). vm_compute; reflexivity.
Qed.

Example ex7_run : runF q7 = Val [e [0;0]].
Proof. vm_compute. reflexivity. Qed.

Theorem ex7_all_documents : forall D has_ns hc rm rn rr ctx r,
  sel D has_ns hc rm rn rr q7 ctx = Val r ->
  nodes_of r =
  filter (node_verdict D has_ns hc rm rn rr (QAttribute (attr_t "x") QContext))
         (select_pos (fun pos => cmp_num CLt (of_Z (Z.of_nat pos)) three) 1 (cands D has_ns (named "a") ctx)).
Proof.
  intros D has_ns hc rm rn rr ctx r Hr. unfold q7 in Hr.
  pose proof (child_position_filter D has_ns hc rm rn rr false (named "a") QContext QContext CLt three ctx
                [mkItem ctx 1 0] eq_refl) as Hin.
  fold qa in Hin. fold c7 in Hin.
  rewrite (filter_is_filter D has_ns hc rm rn rr _ _ _ _ _ _ Hr Hin).
  - rewrite nodes_of_numbered. cbn [flat_map it_node]. now rewrite app_nil_r.
  - intros n _ f. apply eval_attribute_non_numeric.
Qed.

(* ---- possibly-numeric predicates that are boolean at run time ---- *)
(* contains() / not() have resultType Any: HasPosition, PosFilter, nopos = false,
   and on a longer path even the merge rewrite -- the selected nodes are the same *)
Example ex8_compile :
  compile lit_ok "a/b[not(c)]" None
  = Ok (QMerge qa (QFilter false (QChild (named "b") QContext) (QFn1 FNot (QChild (named "c") QContext)))).
Proof. vm_compute. reflexivity. Qed.

Theorem ex8_all_documents : forall D has_ns hc rm rn rr ctx np,
  omap nodes_of (sel D has_ns hc rm rn rr
     (QMerge qa (QFilter false (QChild (named "b") QContext) (QFn1 FNot (QChild (named "c") QContext)))) ctx) =
  omap nodes_of (sel D has_ns hc rm rn rr
     (QFilter np qab (QFn1 FNot (QChild (named "c") QContext))) ctx).
Proof.
  intros. apply (merge_rewrite_sound D has_ns hc rm rn rr qab qa (QChild (named "b") QContext) np);
    reflexivity.
Qed.

(* ---- the ancestor axis is excluded from merge_rewrite_sound for a reason:
        the rewrite loses ancestorQuery's de-duplication across input nodes ---- *)
Definition qrp : query := QChild (named "a") (QChild (named "r") QContext).
Example ex9_compile :
  compile lit_ok "r/a/ancestor::r[1]" None
  = Ok (QMerge qrp (QFilter false (QAncestor false (named "r") QContext) (QNum one))).
Proof. vm_compute. reflexivity. Qed.

Example ex9_duplicates :
  select lit_match lit_numsubexp lit_replace_all hash_code dF true
         (QMerge qrp (QFilter false (QAncestor false (named "r") QContext) (QNum one))) root_node
  = Val [e [0]; e [0]; e [0]] /\
  select lit_match lit_numsubexp lit_replace_all hash_code dF true
         (QFilter false (QAncestor false (named "r") qrp) (QNum one)) root_node
  = Val [e [0]].
Proof. split; vm_compute; reflexivity. Qed.

(* ---- the FO_merge_other case is reachable from the parser: the input of the
        inner filter is a function call, firstInput is an argument's step ---- *)
Example ex10_compile :
  exists parent inner,
  compile lit_ok "a/b[reverse(c/d)[1]]" None
  = Ok (QFilter true qab (QMerge parent (QFilter false (QReverse inner) (QNum one)))) /\
  reroot inner = Some (parent, QChild (named "d") QContext).
Proof. do 2 eexists. split; vm_compute; reflexivity. Qed.

(* ... and there the rewrite is NOT semantics-preserving in the model: the
   un-rerooted input  reverse(c/d)  is evaluated from every c instead of from
   the candidate b.    <a><b><c><d/></c></b></a>  *)
Definition dR : tree :=
  T KRoot "" "" "" "" [] [ el "a" [] [ el "b" [] [ el "c" [] [ el "d" [] [] ] ] ] ].
Definition qcd : query := QChild (named "d") (QChild (named "c") QContext).
Example ex10_run :
  select lit_match lit_numsubexp lit_replace_all hash_code dR true
    (QFilter true qab (QMerge (QChild (named "c") QContext) (QFilter false (QReverse qcd) (QNum one)))) root_node
  = Val [] /\
  select lit_match lit_numsubexp lit_replace_all hash_code dR true
    (QFilter true qab (QFilter false (QReverse qcd) (QNum one))) root_node
  = Val [e [0;0]].
Proof. split; vm_compute; reflexivity. Qed.

(* ---- a chain of boolean predicates: process_boolean_filter_chain ---- *)
Example ex11_compile :
  compile lit_ok "a[b][@x]" None
  = Ok (QFilter true (QFilter true qa (QChild (named "b") QContext)) (QAttribute (attr_t "x") QContext)).
Proof. vm_compute. reflexivity. Qed.

Example ex11_theorem :
  exists input cond qi pr fi1 c prc fi2,
    parse "a[b][@x]" None = Ok (AFilter input cond) /\
    PROC 1 input (input_flags fl_none) fi_nil = Ok (qi, pr, fi1) /\
    PROC 1 cond (cond_flags fl_none) fi1 = Ok (c, prc, fi2) /\
    boolean_cond c prc /\ is_filter_node input = true /\ pr_posfilter pr = false.
Proof.
  do 8 eexists. do 3 (split; [vm_compute; reflexivity|]).
  split; [|split; reflexivity].
  unfold boolean_cond. do 2 (split; [vm_compute; reflexivity|]). vm_compute; reflexivity.
Qed.

(* ---- process_step_filter_sound instantiated on a/b[2] ---- *)
Example ex12_step_sound : forall D has_ns hc rm rn rr ctx np,
  omap nodes_of (sel D has_ns hc rm rn rr q4 ctx) =
  omap nodes_of (sel D has_ns hc rm rn rr (QFilter np qab (QNum two)) ctx).
Proof.
  intros.
  assert (H : PROC 0 (AFilter (AAxis "child" NTElem "" "b" "" false ""
                                  (Some (AAxis "child" NTElem "" "a" "" false "" None)))
                              (ANum two)) fl_none fi_nil
              = Ok (q4, mkPr true false false false, mkFi (Some q4) true)) by (vm_compute; reflexivity).
  destruct (process_step_filter_sound D has_ns hc rm rn rr lit_ok _ _ _ _ _ _ _ _ _ _ _ _ _ _ _ H)
    as (qi & pr & fi1 & c & prc & fi2 & Hi & Hc & HS).
  vm_compute in Hi. inversion Hi; subst qi pr fi1.
  vm_compute in Hc. inversion Hc; subst c prc fi2.
  apply (HS eq_refl np ctx).
Qed.

End BuildFilterExamples.

Print Assumptions BuildFilterExamples.ex1_all_documents.
Print Assumptions BuildFilterExamples.ex4_all_documents.
Print Assumptions BuildFilterExamples.ex5_all_documents.
Print Assumptions BuildFilterExamples.ex6_all_documents.
Print Assumptions BuildFilterExamples.ex7_all_documents.
