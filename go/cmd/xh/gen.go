package main

import (
	"bufio"
	"fmt"
	"math"
	"os"
	"sort"
	"strconv"
	"strings"

	"github.com/antchfx/xpath"
	"verif/internal/doc"
	"verif/internal/gen"
)

// ---- case writer ----

type cw struct {
	w     *bufio.Writer
	meta  *bufio.Writer
	n     int
	ndocs int
	feat  map[string]int
	seen  map[string]bool
	r     *gen.Rand
	tier  int // multiplier: 1 quick, 20 thorough
}

type dref struct {
	id   string
	root *doc.Node
	all  []doc.Ref
}

func (o *cw) doc(root *doc.Node, hasNS bool) *dref {
	id := fmt.Sprintf("d%d", o.ndocs)
	o.ndocs++
	h := "0"
	if hasNS {
		h = "1"
	}
	fmt.Fprintf(o.w, "D\t%s\t%s\t%s\n", id, h, doc.Tokens(root))
	return &dref{id, root, doc.All(root)}
}

// c writes one case.  grp (may be "") names a metamorphic group: all cases of
// a group must have the same projected observable.  tag is a free label used
// in the evidence's input distribution.
func (o *cw) c(kind string, d *dref, ctx string, ns string, expr string, grp string, tag string, extra ...string) string {
	did := "-"
	if d != nil {
		did = d.id
	}
	key := kind + "\x00" + did + "\x00" + ctx + "\x00" + ns + "\x00" + expr + "\x00" + strings.Join(extra, "\x00")
	if grp == "" && o.seen[key] {
		return ""
	}
	o.seen[key] = true
	id := fmt.Sprintf("c%d", o.n)
	o.n++
	fmt.Fprintf(o.w, "C\t%s\t%s\t%s\t%s\t%s\t%s", id, kind, did, ctx, ns, doc.Esc(expr))
	for _, x := range extra {
		fmt.Fprintf(o.w, "\t%s", x)
	}
	fmt.Fprintln(o.w)
	if grp == "" {
		grp = "-"
	}
	fmt.Fprintf(o.meta, "%s\t%s\t%s\n", id, grp, tag)
	o.feat["kind:"+kind]++
	if tag != "" {
		o.feat["tag:"+tag]++
	}
	return id
}

func (o *cw) features(e gen.Ex) { gen.Features(e, o.feat) }

// ---- documents ----

func handDocs(o *cw, hasNS bool) []*dref {
	var ds []*dref
	for _, t := range gen.HandTrees {
		ds = append(ds, o.doc(doc.Parse(t), hasNS))
	}
	return ds
}

func smallDocs(o *cw, maxN int, every int) []*dref {
	var ds []*dref
	k := 0
	for n := 1; n <= maxN; n++ {
		for _, sh := range gen.SmallShapes(n) {
			// names from the bits of a counter
			for code := 0; code < 1<<uint(n); code++ {
				k++
				if every > 1 && k%every != 0 {
					continue
				}
				root := gen.BuildShape(sh, func(i int) string {
					if code>>uint(i)&1 == 1 {
						return "b"
					}
					return "a"
				})
				gen.Decorate(root, o.r, 35)
				ds = append(ds, o.doc(root, false))
			}
		}
	}
	return ds
}

func randDocs(o *cw, n int, lo, hi int, names []string) []*dref {
	var ds []*dref
	for i := 0; i < n; i++ {
		ds = append(ds, o.doc(gen.RandomTree(o.r, lo+o.r.Intn(hi-lo+1), names, 35), false))
	}
	return ds
}

// ---- expression generators ----

var allAxes = []string{"ancestor", "ancestor-or-self", "attribute", "child", "descendant", "descendant-or-self",
	"following", "following-sibling", "parent", "preceding", "preceding-sibling", "self"}
var flatAxes = []string{"child", "attribute", "self"}
var elemTests = []string{"a", "b", "*", "node()", "text()", "comment()"}
var attrTests = []string{"x", "y", "*"}

type G struct {
	r        *gen.Rand
	predAxes []string
}

func (g *G) test(ax string) string {
	if ax == "attribute" {
		return g.r.Pick(attrTests)
	}
	return g.r.Pick([]string{"a", "b", "*", "*", "node()", "text()", "a", "b"})
}

func (g *G) step(axes []string, depth int, npred int) gen.Step {
	ax := g.r.Pick(axes)
	s := gen.Step{Axis: ax, Test: g.test(ax)}
	for i := 0; i < npred; i++ {
		s.Preds = append(s.Preds, g.boolPred(depth))
	}
	return s
}

func (g *G) relPath(axes []string, depth int, maxSteps int, predProb int) gen.Path {
	n := 1 + g.r.Intn(maxSteps)
	p := gen.Path{}
	for i := 0; i < n; i++ {
		np := 0
		if depth > 0 && g.r.Intn(100) < predProb {
			np = 1
		}
		st := g.step(axes, depth-1, np)
		if i > 0 && g.r.Chance(12) {
			st.DSlash = true
		}
		p.Steps = append(p.Steps, st)
	}
	return p
}

func num(n int) gen.Ex { return gen.Num{Text: strconv.Itoa(n)} }

// boolPred: the boolean predicate fragment of C02
func (g *G) boolPred(depth int) gen.Ex {
	k := g.r.Intn(10)
	if depth <= 0 && (k == 5 || k == 6) {
		k = 0
	}
	switch k {
	case 0, 1, 2:
		return g.relPath(g.predAxes, depth, 2, 40)
	case 3:
		return gen.Bin{Op: g.r.Pick([]string{"=", "!="}), L: g.relPath(g.predAxes, depth, 2, 0), R: gen.Lit{S: g.r.Pick([]string{"", "1", "2", "u", "t"})}}
	case 4:
		return gen.Bin{Op: g.r.Pick([]string{"<", "<=", ">", ">=", "=", "!="}), L: gen.Call{Name: "count", Args: []gen.Ex{g.relPath(flatAxes, depth, 2, 0)}}, R: num(g.r.Intn(3))}
	case 5:
		return gen.Call{Name: "not", Args: []gen.Ex{g.boolPred(depth - 1)}}
	case 6:
		return gen.Bin{Op: g.r.Pick([]string{"and", "or"}), L: g.boolPred(depth - 1), R: g.boolPred(depth - 1)}
	case 7:
		return gen.Call{Name: g.r.Pick([]string{"contains", "starts-with"}), Args: []gen.Ex{g.relPath(flatAxes, depth, 1, 0), gen.Lit{S: g.r.Pick([]string{"1", "u"})}}}
	case 8:
		return gen.Bin{Op: "=", L: gen.Call{Name: "local-name"}, R: gen.Lit{S: g.r.Pick([]string{"a", "b", "x"})}}
	default:
		return gen.Bin{Op: g.r.Pick([]string{"<", ">", ">=", "<="}), L: gen.Path{Steps: []gen.Step{{Axis: "attribute", Test: g.r.Pick(attrTests)}}}, R: num(g.r.Intn(4))}
	}
}

// flatPath: child/attribute/self steps from one context node (C12 fragment);
// attribute only as the last step so that the path stays meaningful
func (g *G) flatPath(maxSteps int, predProb int) gen.Path {
	n := 1 + g.r.Intn(maxSteps)
	p := gen.Path{}
	for i := 0; i < n; i++ {
		ax := "child"
		switch {
		case i == n-1 && g.r.Chance(25):
			ax = "attribute"
		case g.r.Chance(15):
			ax = "self"
		}
		s := gen.Step{Axis: ax, Test: g.test(ax)}
		if predProb > 0 && g.r.Chance(predProb) {
			s.Preds = append(s.Preds, g.boolPred(1))
		}
		p.Steps = append(p.Steps, s)
	}
	return p
}

// ---- entry point ----

func genCases(prop, seedS, tier, out string) error {
	seed, _ := strconv.ParseUint(seedS, 10, 64)
	f, err := os.Create(out)
	if err != nil {
		return err
	}
	defer f.Close()
	mf, err := os.Create(out + ".meta")
	if err != nil {
		return err
	}
	defer mf.Close()
	o := &cw{w: bufio.NewWriterSize(f, 1<<20), meta: bufio.NewWriterSize(mf, 1<<20), feat: map[string]int{}, seen: map[string]bool{}, r: gen.NewRand(seed), tier: 1}
	if tier == "thorough" {
		o.tier = 20
	}
	defer o.w.Flush()
	defer o.meta.Flush()
	fn, ok := generators[prop]
	if !ok {
		return fmt.Errorf("no generator for %s", prop)
	}
	fn(o)
	// input distribution
	df, err := os.Create(out + ".dist")
	if err != nil {
		return err
	}
	defer df.Close()
	var ks []string
	for k := range o.feat {
		ks = append(ks, k)
	}
	sort.Strings(ks)
	for _, k := range ks {
		fmt.Fprintf(df, "%s\t%d\n", k, o.feat[k])
	}
	return nil
}

var generators = map[string]func(o *cw){}

func init() {
	generators["NAV"] = genNAV
	generators["C01"] = genC01
	generators["C02"] = genC02
	generators["C03"] = genC03
	generators["C12"] = genC12
	generators["C11"] = genC11
	generators["C13"] = genC13
}

var both = []gen.Mode{{Abbrev: false}, {Abbrev: true}}

// NAV: the harness navigator against Doc.v
func genNAV(o *cw) {
	ds := append(handDocs(o, false), randDocs(o, 10*o.tier, 5, 25, []string{"a", "b"})...)
	for _, d := range ds {
		o.c("nav", d, "/", "-", "all", "", "all")
		for _, r := range d.all {
			for _, op := range []string{"parent", "child", "next", "prev", "first", "nextattr", "value", "name", "type"} {
				o.c("nav", d, r.Addr(), "-", op, "", op)
			}
		}
	}
}

func (o *cw) pathCases(ds []*dref, p gen.Ex, kinds []string, tag string) {
	o.features(p)
	for _, m := range both {
		s := gen.Str(p, m)
		for _, d := range ds {
			for _, k := range kinds {
				o.c(k, d, "/", "-", s, "", tag)
			}
		}
	}
}

// C01: predicate-free paths over all axes
// emitBigAxes: axes on a document of 2^19-1 elements (implementation only: the expected numbers follow
// from the shape of the complete binary tree), past any 16-/32-bit table the engine may keep
func emitBigAxes(o *cw) {
	big := o.doc(gen.RegularTree(2, 18, "x"), false)
	all, inner := 1<<19-1, 1<<18-1
	for _, c := range []struct {
		e string
		n int
	}{
		{"//x/ancestor::*", inner}, {"//x/ancestor-or-self::*", all}, {"//x/parent::x", inner}, {"//x/ancestor::x[1]", inner},
		{"/descendant::x", all}, {"/x/descendant-or-self::x", all}, {"//x[not(x)]/ancestor::x", inner}, {"//x[not(x)]", all - inner},
		{"//x/following-sibling::x", all / 2}, {"//x/preceding-sibling::x", all / 2}, {"//x[x]", inner}, {"//x/x", all - 1},
	} {
		o.c("distinctgo", big, "/", "-", c.e, "", "big-axes", fmt.Sprintf("expectres=K:%d", c.n))
		if strings.Contains(c.e, "parent::") || strings.Contains(c.e, "[1]") {
			// the engine reports a parent once per child (C01 speaks of the SET of nodes): no count() here
			continue
		}
		o.c("evalgo", big, "/", "-", "count("+c.e+")", "", "big-axes-count", fmt.Sprintf("expectres=F:%016x", math.Float64bits(float64(c.n))))
	}
}

// emitBigUnions: unions of node-sets with 2^19-1 members (implementation only)
func emitBigUnions(o *cw) {
	big := o.doc(gen.RegularTree(2, 18, "x"), false)
	all, inner := 1<<19-1, 1<<18-1
	for _, c := range []struct {
		e string
		n int
	}{
		{"//x | //x", all}, {"//x[x] | //x[not(x)]", all}, {"//x[not(x)] | //x[x]", all}, {"//x/x | /x", all}, {"//x[x] | //x/parent::x", inner},
		{"//x | //x[x] | //x", all}, {"//x/ancestor::x | //x[not(x)]", all},
	} {
		o.c("distinctgo", big, "/", "-", c.e, "", "big-union", fmt.Sprintf("expectres=K:%d", c.n))
		o.c("evalgo", big, "/", "-", "count("+c.e+")", "", "big-union-count", fmt.Sprintf("expectres=F:%016x", math.Float64bits(float64(c.n))))
	}
}

func genC01(o *cw) {
	g := &G{r: o.r, predAxes: allAxes}
	hand := handDocs(o, false)
	small := smallDocs(o, 4, 12/minInt(o.tier, 12))
	rnd := randDocs(o, 6*o.tier, 10, 25, []string{"a", "b"})
	tests := func(ax string) []string {
		if ax == "attribute" {
			return attrTests
		}
		return elemTests
	}
	kinds := []string{"selall", "evalall"}
	emitBigAxes(o)
	// every 1-step path, absolute and relative, every test
	for _, abs := range []bool{false, true} {
		for _, ax := range allAxes {
			for _, t := range tests(ax) {
				p := gen.Path{Abs: abs, Steps: []gen.Step{{Axis: ax, Test: t}}}
				o.pathCases(hand, p, kinds, "1step")
				o.pathCases(small, p, kinds[:1], "1step")
				p.Steps[0].DSlash = true
				o.pathCases(hand, p, kinds[:1], "1step//")
			}
		}
	}
	// every ordered axis pair (tests rotate; all test pairs in the thorough tier)
	rot := 0
	for _, a1 := range allAxes {
		for _, a2 := range allAxes {
			t1s, t2s := tests(a1), tests(a2)
			npairs := 2
			if o.tier > 1 {
				npairs = len(t1s) * len(t2s)
			}
			for k := 0; k < npairs; k++ {
				rot++
				var t1, t2 string
				if o.tier > 1 {
					t1, t2 = t1s[k%len(t1s)], t2s[k/len(t1s)]
				} else {
					t1, t2 = t1s[rot%len(t1s)], t2s[(rot/len(t1s))%len(t2s)]
				}
				for _, ds := range []bool{false, true} {
					p := gen.Path{Abs: rot%3 == 0, Steps: []gen.Step{{Axis: a1, Test: t1}, {Axis: a2, Test: t2, DSlash: ds}}}
					o.pathCases(hand, p, kinds[:1], "2step")
					if !ds {
						o.pathCases(small[:len(small)/2], p, kinds[:1], "2step")
					}
				}
			}
		}
	}
	// every ordered axis pair x every pair of node tests, explicit syntax, on a rotating hand document
	for _, a1 := range allAxes {
		for _, a2 := range allAxes {
			for _, t1 := range tests(a1) {
				for _, t2 := range tests(a2) {
					rot++
					p := gen.Path{Abs: rot%4 == 0, Steps: []gen.Step{{Axis: a1, Test: t1}, {Axis: a2, Test: t2}}}
					o.features(p)
					o.c("selall", hand[6+rot%(len(hand)-6)], "/", "-", gen.Str(p, both[0]), "", "2step-alltests")
				}
			}
		}
	}
	// every axis triple with a test rotation
	for _, a1 := range allAxes {
		for _, a2 := range allAxes {
			for _, a3 := range allAxes {
				rot++
				if o.tier == 1 && rot%3 != 0 {
					continue
				}
				pick := func(ax string, k int) string { ts := tests(ax); return ts[(rot+k)%len(ts)] }
				p := gen.Path{Abs: rot%5 == 0, Steps: []gen.Step{{Axis: a1, Test: pick(a1, 0)}, {Axis: a2, Test: pick(a2, 1), DSlash: rot%7 == 0}, {Axis: a3, Test: pick(a3, 2), DSlash: rot%11 == 0}}}
				o.features(p)
				m := both[rot%2]
				for _, d := range hand[5:] {
					o.c("selall", d, "/", "-", gen.Str(p, m), "", "3step")
				}
			}
		}
	}
	// prefixed and unprefixed name tests in one predicate-free path (no namespace map)
	nsd := nsDocs(o)
	pnames := []string{"book", "b:book", "c:book", "x:book", "other", "b:other", "a", "b", "p:a", "q:a", "p:b", "*", "node()", "q:b"}
	for i := 0; i < 150*o.tier; i++ {
		p := gen.Path{Abs: g.r.Chance(60)}
		n := 2 + g.r.Intn(2)
		for j := 0; j < n; j++ {
			ax := g.r.Pick([]string{"child", "child", "descendant", "parent", "following-sibling", "ancestor-or-self", "self", "descendant-or-self", "preceding-sibling"})
			p.Steps = append(p.Steps, gen.Step{Axis: ax, Test: g.r.Pick(pnames), DSlash: j > 0 && g.r.Chance(20)})
		}
		if g.r.Chance(30) {
			p.Steps = append(p.Steps, gen.Step{Axis: "attribute", Test: g.r.Pick([]string{"id", "b:id", "x:id", "*", "p:x", "x"})})
		}
		o.features(p)
		pr := nsd[g.r.Intn(len(nsd))]
		o.c("selall", pr[i%2], "/", "-", gen.Str(p, both[i%2]), "", "prefixed-names")
	}
	// random 3-5 step paths on random trees
	for i := 0; i < 400*o.tier; i++ {
		p := gen.Path{Abs: g.r.Chance(30)}
		n := 3 + g.r.Intn(3)
		for j := 0; j < n; j++ {
			st := g.step(allAxes, 0, 0)
			st.DSlash = g.r.Chance(20)
			p.Steps = append(p.Steps, st)
		}
		o.features(p)
		s := gen.Str(p, both[i%2])
		for k := 0; k < 3; k++ {
			o.c("selall", rnd[g.r.Intn(len(rnd))], "/", "-", s, "", "rand")
		}
	}
	// rare names, a refusing navigator, sizes past internal thresholds
	rd := rareDoc(o, false)
	for _, e := range rarePaths() {
		o.c("selall", rd, "/", "-", e, "", "rare-names")
	}
	for _, e := range []string{"*", "a", "a/b", "*/*", "//a", "//*", "a/@*", "//@*", "..", "a/..", ".//b", "/*/*", "//b/@x", "self::*/a", "a/self::a/b", "/", "//text()", "descendant::a", "following-sibling::*", "ancestor::*"} {
		for _, d := range hand[3:8] {
			for k := 0; k < 3; k++ {
				o.c("selnm", d, d.all[(k*5+len(e))%len(d.all)].Addr(), "-", e, "", "refusing-navigator")
			}
		}
	}
	for _, od := range oddDocs(o) {
		for _, e := range oddPaths {
			if !strings.Contains(e, "[") && !strings.HasPrefix(e, "string(") && !strings.HasPrefix(e, "name(") {
				o.c("selall", od, "/", "-", e, "", "odd-documents")
			}
		}
	}
	sizeCases(o, "wide", []string{"/r/s/a", "/r/s/*", "//a", "//a/@id", "//b/..", "/r/s/a/following-sibling::b", "//a/preceding-sibling::*", "count(//a)", "count(//@id)"}, wideDoc(o, 300))
	sizeCases(o, "deep", []string{"//x", "//y", "descendant::y", "//y/ancestor::x", "count(//x)", "count(//*)", "//y/ancestor-or-self::*", "/descendant::x/y"}, deepDoc(o, 1100, "y"))
}

func minInt(a, b int) int {
	if a < b {
		return a
	}
	return b
}

// C02: boolean predicates
func genC02(o *cw) {
	g := &G{r: o.r, predAxes: allAxes}
	hand := handDocs(o, false)
	rnd := randDocs(o, 4*o.tier, 10, 22, []string{"a", "b"})
	depth := 2
	if o.tier > 1 {
		depth = 3
	}
	// per predicate-axis family: a main step over each axis with one path predicate over each axis
	for _, a1 := range allAxes {
		for _, a2 := range allAxes {
			gg := &G{r: o.r, predAxes: []string{a2}}
			for k := 0; k < 2; k++ {
				st := gg.step([]string{a1}, 1, 0)
				st.Preds = []gen.Ex{gg.relPath([]string{a2}, 1, 2, 30)}
				p := gen.Path{Steps: []gen.Step{{Axis: "descendant-or-self", Test: "node()"}, st}}
				o.features(p)
				for _, d := range hand[4:] {
					o.c("selall", d, "/", "-", gen.Str(p, both[k%2]), "", "family")
				}
			}
		}
	}
	cds := ctxDocs(o)
	o.emitCtxRestore(g, cds, "bool", 150*o.tier, false)
	o.emitCtxRestore(g, cds, "cmp", 80*o.tier, false)
	o.emitStatefulArgs(g, cds, "numeric", 12*o.tier)
	o.emitStatefulArgs(g, cds, "bool", 12*o.tier)
	// numeric relational tests and =/!= literal tests over MULTI-valued operands
	// (several nodes per candidate, numeric and non-numeric values in either order)
	mv := o.doc(doc.Parse(`r(a(b("n/a"),b("7")),a(b("7"),b("n/a")),a(b("3")),a(b("n/a")),a(b("9"),b("3"),b("x")),a,a(@x=7,b("1")),a(@x=z,b("7"),c("7")))`), false)
	for _, lhs := range []string{"b", "*", "b | c", "@x", "b/text()", "."} {
		for _, op := range []string{"=", "!=", "<", "<=", ">", ">="} {
			for _, rhs := range []string{"5", "7", "3", "'7'", "'n/a'", "0"} {
				if (op != "=" && op != "!=") && rhs[0] == '\'' {
					continue
				}
				o.c("selall", mv, "/", "-", "//a["+lhs+" "+op+" "+rhs+"]", "", "multivalued-cmp")
				// the literal on the LEFT (string literals with = and != only, see the guard above)
				o.c("selall", mv, "/", "-", "//a["+rhs+" "+op+" "+lhs+"]", "", "multivalued-cmp")
				o.c("selall", mv, "/", "-", "//a[not("+rhs+" "+op+" "+lhs+") and true()]", "", "multivalued-cmp")
				o.c("selall", mv, "/", "-", "//a[not("+lhs+" "+op+" "+rhs+")]", "", "multivalued-cmp")
			}
		}
	}
	for _, lhs := range []string{"b", "*", "b | c", "@x", "c"} {
		for _, op := range []string{"=", "!="} {
			for _, lit := range []string{"''", "'x'", "'3'"} {
				o.c("selall", mv, "/", "-", "//a["+lit+" "+op+" "+lhs+"]", "", "multivalued-cmp")
				o.c("selall", mv, "/", "-", "//a["+lhs+" "+op+" "+lit+"]", "", "multivalued-cmp")
			}
		}
	}
	// node-set against node-set inside a predicate: several left nodes, the first without partner
	mv2 := o.doc(doc.Parse(`r(e(a("1"),a("2"),a("3"),b("9"),b("3")),e(a("5"),b("5")),e(a("1"),a("2"),b("7")),e(a("4"),a("7"),b("7"),b("8")),e(b("1")),e(a("1")),e(a("2"),a("2"),b("2"),b("2")))`), false)
	for _, l := range []string{"a", "b", "*", "a | b"} {
		for _, r := range []string{"a", "b", "*", "../e/b"} {
			for _, op := range []string{"=", "!="} {
				o.c("selall", mv2, "/", "-", "//e["+l+" "+op+" "+r+"]", "", "set-set-pred")
				o.c("selall", mv2, "/", "-", "//e[not("+l+" "+op+" "+r+")]", "", "set-set-pred")
				o.c("evalall", mv2, "/", "-", "count(//e["+l+" "+op+" "+r+"])", "", "set-set-pred")
			}
		}
	}
	for i := 0; i < 700*o.tier; i++ {
		var p gen.Ex
		switch g.r.Intn(4) {
		case 0:
			// parenthesised path with one or more predicates
			f := gen.Filter{E: gen.Paren{E: g.relPath(allAxes, 0, 2, 0)}, Preds: []gen.Ex{g.boolPred(depth - 1)}}
			for g.r.Chance(40) && len(f.Preds) < 3 {
				f.Preds = append(f.Preds, g.boolPred(depth-1))
			}
			p = f
		default:
			pp := g.relPath(allAxes, depth, 3, 70)
			// at least one predicate
			if len(pp.Steps[len(pp.Steps)-1].Preds) == 0 {
				pp.Steps[len(pp.Steps)-1].Preds = []gen.Ex{g.boolPred(depth - 1)}
			}
			if g.r.Chance(20) {
				pp.Steps[0].Preds = append(pp.Steps[0].Preds, g.boolPred(depth-1))
			}
			pp.Abs = g.r.Chance(25)
			p = pp
		}
		o.features(p)
		s := gen.Str(p, both[i%2])
		o.c("selall", hand[4+g.r.Intn(len(hand)-4)], "/", "-", s, "", "rand")
		o.c("selall", hand[4+g.r.Intn(len(hand)-4)], "/", "-", s, "", "rand")
		o.c("selall", rnd[g.r.Intn(len(rnd))], "/", "-", s, "", "rand")
	}
	// rare names and keyword names inside predicates; values at the edges of the number format
	rd := rareDoc(o, false)
	for _, e := range rarePreds() {
		if !strings.HasPrefix(e, "count(") && !strings.HasPrefix(e, "sum(") && !strings.HasPrefix(e, "name(") && !strings.HasPrefix(e, "local-name(") && !strings.Contains(e, " + ") && !strings.Contains(e, " * ") && !strings.HasSuffix(e, " 2") {
			o.c("selall", rd, "/", "-", e, "", "rare-names")
		}
	}
	for _, od := range oddDocs(o) {
		for _, e := range oddPaths {
			if strings.Contains(e, "[") {
				o.c("selall", od, "/", "-", e, "", "odd-documents")
			}
		}
	}
	hd := hundredDoc(o)
	for _, e := range longForms() {
		if strings.HasPrefix(e, "//") || strings.HasPrefix(e, "(") {
			o.c("sel", hd, "/", "-", e, "", "long-forms")
		}
	}
	ed := edgeDoc(o)
	// a predicate that IS a string: true iff the string is non-empty, blanks included
	for _, pr := range []string{"string(@v)", "concat(@v, '')", "substring(@v, 1)", "@v", "string(@v) and true()", "not(string(@v))", "translate(@v, 'x', 'x')", "substring-before(concat(@v, '|'), '|')", "string(.)", "concat(., '')"} {
		o.c("sel", ed, "/", "-", "//*["+pr+"]", "", "string-predicates")
		o.c("sel", ed, "/", "-", "//b["+pr+"][@v]", "", "string-predicates")
	}
	cd := ctxDocs(o)
	for _, outer := range []string{"//*", "//s", "//a", "/*/*"} {
		for _, e := range []string{"a[b] = c", "b[c] = c", "a[@k] != c", "*[*] = *", "a[b][1] = c", "b[c[@n]] = c", "a[b = 3] = c", "count(a[b]) = count(c)", "a[b] | c", "a[a[b]] = c", "a[b] = c or @v", "(a[b]) = c", "a[b]/b = c", "c = a[b]"} {
			for _, d := range cd {
				o.c("sel", d, "/", "-", outer+"["+e+"]", "", "nested-predicate-operand")
			}
		}
	}
	for _, op := range []string{"=", "!=", "<", "<=", ">", ">="} {
		for _, k := range []string{"5", "0", "1", "3", "(1 div 0)", "(0 div 0)", "1000000000000002"} {
			for _, l := range []string{"@n", "@id", ".", "string(@n)", "string(.)", "concat(@n, '')", "normalize-space(@n)", "substring-after(concat('x', @n), 'x')", "number(@n)"} {
				o.c("sel", ed, "/", "-", "//*["+l+" "+op+" "+k+"]", "", "edge-values-pred")
				o.c("sel", ed, "/", "-", "//*[not("+l+" "+op+" "+k+")]", "", "edge-values-pred")
				o.c("sel", ed, "/", "-", "//*["+k+" "+op+" "+l+"]", "", "edge-values-pred")
				o.c("sel", ed, "/", "-", "//*["+l+" "+op+" "+k+" or @zz]", "", "edge-values-pred")
			}
		}
	}
}

// fanDocs: parents with different numbers of matching children, interleaved
// with non-matching and text nodes
func fanDocs(o *cw) []*dref {
	srcs := []string{
		`r(p(a,a,a),p(a),p,p(b,a,"t",a,b,a),p(a,b))`,
		`r(p(a(@x=1),"t",a(@x=2),b,a(@x=1),a,a),p(b),p(a(a,a(a)),a(a)),a,a)`,
		`r(a(a(a,a),a),b(a,b,a,b,a,b,a),a(#c,a,"u",a))`,
		`a(b(@x=1,c),b(@x=2,c(b(@x=3))),"t",b,b(@x=1),c(b,b,b))`,
		`r(p(a("1"),a("2"),a("3"),a("4"),a("5"),a("6")),q(p(a("7"),a("8")),p(a("9"))))`,
	}
	var ds []*dref
	for _, s := range srcs {
		ds = append(ds, o.doc(doc.Parse(s), false))
	}
	for i := 0; i < 3*o.tier; i++ {
		ds = append(ds, o.doc(gen.RandomTree(o.r, 14+o.r.Intn(12), []string{"a", "b", "p"}, 30), false))
	}
	return ds
}

func (g *G) posPred() gen.Ex {
	n := num(1 + g.r.Intn(4))
	rel := g.r.Pick([]string{"=", "!=", "<", "<=", ">", ">="})
	switch g.r.Intn(6) {
	case 0, 1:
		return n
	case 2:
		return gen.Bin{Op: rel, L: gen.Call{Name: "position"}, R: n}
	case 3:
		return gen.Bin{Op: rel, L: gen.Call{Name: "position"}, R: gen.Call{Name: "last"}}
	case 4:
		return gen.Call{Name: "last"}
	default:
		return gen.Bin{Op: "-", L: gen.Call{Name: "last"}, R: num(g.r.Intn(3))}
	}
}

func allPosPreds() []gen.Ex {
	var out []gen.Ex
	for n := 1; n <= 4; n++ {
		out = append(out, num(n))
		for _, rel := range []string{"=", "!=", "<", "<=", ">", ">="} {
			out = append(out, gen.Bin{Op: rel, L: gen.Call{Name: "position"}, R: num(n)})
		}
	}
	for _, rel := range []string{"=", "!=", "<", "<=", ">", ">="} {
		out = append(out, gen.Bin{Op: rel, L: gen.Call{Name: "position"}, R: gen.Call{Name: "last"}})
	}
	out = append(out, gen.Call{Name: "last"})
	for n := 0; n <= 2; n++ {
		out = append(out, gen.Bin{Op: "-", L: gen.Call{Name: "last"}, R: num(n)})
	}
	return out
}

// C03: positional predicates on child steps; (P)[n]
func genC03(o *cw) {
	g := &G{r: o.r, predAxes: allAxes}
	ds := fanDocs(o)
	// exhaustive over the predicate forms on a child step reached in several ways
	prefixes := []gen.Path{
		{},
		{Steps: []gen.Step{{Axis: "child", Test: "*"}}},
		{Abs: true, Steps: []gen.Step{{Axis: "descendant-or-self", Test: "node()"}}},
		{Steps: []gen.Step{{Axis: "child", Test: "*"}, {Axis: "child", Test: "p"}}},
		{Abs: true, Steps: []gen.Step{{Axis: "child", Test: "*"}}},
	}
	for _, pp := range allPosPreds() {
		for _, t := range []string{"a", "*", "node()", "b"} {
			for pi, pre := range prefixes {
				p := gen.Path{Abs: pre.Abs, Steps: append(append([]gen.Step{}, pre.Steps...), gen.Step{Axis: "child", Test: t, Preds: []gen.Ex{pp}})}
				o.features(p)
				for _, d := range ds {
					o.c("selall", d, "/", "-", gen.Str(p, both[pi%2]), "", "forms")
				}
			}
		}
	}
	// a positional child step INSIDE another predicate: evaluated once per outer candidate,
	// the outer filter stops at the first hit; parents with different fan-out
	multi := []string{"position()>1", "position()!=1", "position()<last()", "position()>=2", "position()=last()", "2", "last()", "position()<3"}
	for _, t1 := range []string{"a", "*", "p"} {
		for _, t2 := range []string{"a", "b", "*"} {
			for _, pp := range multi {
				for _, outer := range []string{"//*", "/*/*", "//p", "//a"} {
					e := outer + "[" + t1 + "/" + t2 + "[" + pp + "]]"
					for _, d := range ds[:5] {
						o.c("selall", d, "/", "-", e, "", "positional-in-predicate")
					}
					o.c("evalall", ds[0], "/", "-", "count("+e+")", "", "positional-in-predicate")
				}
				// (P)[n] inside a predicate: the n-th node of P, counted afresh for every outer candidate
				for _, outer := range []string{"//*", "/*/*", "//p"} {
					e := outer + "[(" + t1 + "/" + t2 + ")[" + pp + "]]"
					for _, d := range ds[:5] {
						o.c("selall", d, "/", "-", e, "", "group-positional-in-predicate")
					}
					o.c("evalall", ds[1], "/", "-", "count("+e+")", "", "group-positional-in-predicate")
				}
			}
		}
	}
	// siblings with the same local name under different prefixes: position()/last() count
	// with the step's FULL name test
	nsd := nsDocs(o)
	for _, nm := range []string{"book", "b:book", "c:book", "*", "a", "p:a", "b", "q:b", "p:b"} {
		for _, pp := range []string{"1", "2", "last()", "position()=2", "position()=last()", "last()-1", "position()<last()", "last()=1", "position()>1"} {
			for _, pre := range []string{"//*/", "/*/", "//"} {
				for _, pr := range nsd {
					o.c("selall", pr[0], "/", "-", pre+nm+"["+pp+"]", "", "positional-prefixed")
				}
			}
		}
	}
	for i := 0; i < 120*o.tier; i++ {
		st := gen.Step{Axis: "child", Test: g.r.Pick([]string{"a", "*", "p", "node()"}), DSlash: g.r.Chance(50), Preds: []gen.Ex{g.posPred()}}
		p := gen.Path{Abs: true, Steps: []gen.Step{{Axis: "child", Test: "*"}, st}}
		o.features(p)
		o.emitHist(ds, gen.Str(p, both[i%2]), "hist-positional")
	}
	for i := 0; i < 500*o.tier; i++ {
		var p gen.Ex
		if g.r.Chance(25) {
			// (P)[n] with P flat or a single descendant step
			var inner gen.Ex
			if g.r.Chance(50) {
				inner = g.flatPath(3, 20)
			} else {
				inner = gen.Path{Abs: g.r.Chance(50), Steps: []gen.Step{{Axis: "child", Test: g.test("child"), DSlash: true}}}
				if !inner.(gen.Path).Abs {
					inner = gen.Path{Steps: []gen.Step{{Axis: "descendant", Test: g.test("child")}}}
				}
			}
			p = gen.Filter{E: gen.Paren{E: inner}, Preds: []gen.Ex{num(1 + g.r.Intn(5))}}
		} else {
			n := 1 + g.r.Intn(3)
			pp := gen.Path{Abs: g.r.Chance(25)}
			for j := 0; j < n; j++ {
				st := gen.Step{Axis: "child", Test: g.r.Pick([]string{"a", "b", "p", "*", "node()", "*"})}
				st.DSlash = j > 0 && g.r.Chance(20) || (j == 0 && pp.Abs && g.r.Chance(50))
				if j == n-1 || g.r.Chance(40) {
					st.Preds = append(st.Preds, g.posPred())
					for g.r.Chance(30) {
						st.Preds = append(st.Preds, (&G{r: g.r, predAxes: flatAxes}).boolPred(1))
					}
				}
				pp.Steps = append(pp.Steps, st)
			}
			p = pp
		}
		o.features(p)
		s := gen.Str(p, both[i%2])
		for k := 0; k < 3; k++ {
			o.c("selall", ds[g.r.Intn(len(ds))], "/", "-", s, "", "rand")
		}
	}
	rareC03(o, ds)
	hd := hundredDoc(o)
	for _, f := range posForms {
		for _, pre := range []string{"//l/i", "/r/l/i", "//i", "/r/l[1]/i", "/r/l[2]/i", "//l/*", "(//i)", "(//l/i)"} {
			if strings.HasPrefix(pre, "(") && !(f[1] >= '0' && f[1] <= '9' && !strings.Contains(f, "][")) {
				continue
			}
			o.c("sel", hd, "/", "-", pre+f, "", "two-three-digit-positions")
			o.c("sel", hd, "/0", "-", strings.TrimPrefix(pre, "/r/")+f, "", "two-three-digit-positions")
		}
	}
}

// C12: flat paths: exact sequence; count / reverse / Evaluate relations
func genC12(o *cw) {
	g := &G{r: o.r, predAxes: flatAxes}
	ds := append(fanDocs(o), handDocs(o, false)...)
	for i := 0; i < 500*o.tier; i++ {
		var p gen.Ex
		switch g.r.Intn(5) {
		case 0:
			p = gen.Path{Abs: true, Steps: []gen.Step{{Axis: "child", Test: g.test("child"), DSlash: true}}}
		case 1:
			p = gen.Path{Steps: []gen.Step{{Axis: g.r.Pick([]string{"descendant", "descendant-or-self"}), Test: g.test("child")}}}
		default:
			p = g.flatPath(4, 25)
		}
		o.features(p)
		s := gen.Str(p, both[i%2])
		for k := 0; k < 2; k++ {
			d := ds[g.r.Intn(len(ds))]
			o.c("selall", d, "/", "-", s, "", "seq")
			o.c("evalall", d, "/", "-", s, "", "evalseq")
			o.c("evalall", d, "/", "-", "count("+s+")", "", "count")
			o.c("selall", d, "/", "-", "reverse("+s+")", "", "reverse")
		}
	}
	o.emitStatefulArgs(g, ctxDocs(o), "seq", 40*o.tier)
	// Evaluate/Select/count/reverse for node-set expressions in general
	ga := &G{r: o.r, predAxes: allAxes}
	for i := 0; i < 200*o.tier; i++ {
		p := ga.relPath(allAxes, 1, 3, 30)
		o.features(p)
		s := gen.Str(p, both[i%2])
		d := ds[g.r.Intn(len(ds))]
		o.c("evalall", d, "/", "-", s, "", "anyeval")
		o.c("selall", d, "/", "-", "reverse("+s+")", "", "anyreverse")
	}
	// the CURSOR-LEVEL model (Model1/Iter3.v, kinds sel3all / eval3all): the transliterated
	// Select / Evaluate methods against the code, exact sequences, every start node
	cds := ctxDocs(o)
	cur := func(kind, s, tag string) {
		o.c(kind, ds[g.r.Intn(len(ds))], "/", "-", s, "", tag)
		o.c(kind, cds[g.r.Intn(len(cds))], "/", "-", s, "", tag)
	}
	for i := 0; i < 160*o.tier; i++ {
		m := both[i%2]
		cur("sel3all", gen.Str(g.flatPath(4, 40), m), "cursor-flat")
		p := ga.relPath(allAxes, 2, 3, 45)
		o.features(p)
		cur("sel3all", gen.Str(p, m), "cursor-path")
		cur("eval3all", gen.Str(p, m), "cursor-path-eval")
		cur("sel3all", gen.Str(gen.Bin{Op: "|", L: ga.relPath(allAxes, 1, 2, 30), R: ga.relPath(allAxes, 1, 2, 30)}, m), "cursor-union")
		st := gen.Step{Axis: "child", Test: g.r.Pick([]string{"a", "*", "p", "node()"}), DSlash: g.r.Chance(40), Preds: []gen.Ex{g.posPred()}}
		if g.r.Chance(40) {
			st.Preds = append(st.Preds, ga.boolPred(1))
		}
		cur("sel3all", gen.Str(gen.Path{Abs: g.r.Chance(50), Steps: []gen.Step{{Axis: "child", Test: "*"}, st}}, m), "cursor-positional")
		cur("sel3all", gen.Str(gen.Filter{E: gen.Paren{E: ga.relPath(allAxes, 1, 2, 20)}, Preds: []gen.Ex{num(1 + g.r.Intn(3))}}, m), "cursor-group")
		cur("eval3all", gen.Str(ga.aexp(2), m), "cursor-arith")
		cur("eval3all", gen.Str(ga.sExpr(2), m), "cursor-string")
		cur("eval3all", gen.Str(gen.Bin{Op: cmpOps[g.r.Intn(6)], L: ga.anyOperand(), R: ga.anyOperand()}, m), "cursor-compare")
		cur("eval3all", gen.Str(ga.ctxRestore([]string{"bool", "cmp", "arith", "union", "string"}[i%5]), m), "cursor-ctxrestore")
		fs := ga.funcsOverArg(ga.statefulArg(), []string{"numeric", "string", "name", "bool", "seq"}[i%5])
		cur("eval3all", gen.Str(fs[g.r.Intn(len(fs))], m), "cursor-statefularg")
		cur("sel3all", "//*["+gen.Str(ga.boolPred(2), m)+"]", "cursor-pred")
	}
	// last() after another predicate (lastFuncQuery): the list-level model is NOT faithful here
	// (DESIGN 9.3), the cursor-level model is; compared with the cursor-level model only
	for _, e := range []string{"*[true()][last()]", "*/*[true()][last()]", "//*[true()][last()]", "/*/*[true()][last()]", "a[@x][last()]", "//a[b][last()]",
		"*[true()][last() - 1]", "//p/a[@x][position() = last()]", "(//a)[true()][last()]", "//*[*][last()]/*", "count(//*[true()][last()])", "*[node()][last()] | @*"} {
		for _, d := range append(append([]*dref{}, ds[:6]...), cds...) {
			if strings.HasPrefix(e, "count(") {
				o.c("eval3all", d, "/", "-", e, "", "cursor-lastfunc")
			} else {
				o.c("sel3all", d, "/", "-", e, "", "cursor-lastfunc")
			}
		}
	}
	sizeCases(o, "deep", []string{"//x", "//y", "descendant::y", "count(//x)", "count(//*)", "//y/ancestor::x", "descendant-or-self::x", "reverse(//x)"}, deepDoc(o, 1100, "y"))
	sizeCases(o, "deep", deepExprs, deepDoc(o, 40, "y(@x=1)"), deepDoc(o, 300, "y"))
	for _, od := range oddDocs(o) {
		for _, e := range oddPaths {
			o.c("selall", od, "/", "-", e, "", "odd-documents")
			if !strings.HasPrefix(e, "string(") && !strings.HasPrefix(e, "count(") && !strings.HasPrefix(e, "name(") {
				o.c("evalall", od, "/", "-", "count("+e+")", "", "odd-documents")
				o.c("sel3all", od, "/", "-", e, "", "odd-documents-cursor")
			}
		}
	}
	sizeCases(o, "wide", []string{"/r/s/a", "/r/s/*", "//a", "count(//a)", "reverse(//a)", "/r/s/a/@id", "count(/r/s/*/@id)"}, wideDoc(o, 300))
	for _, e := range []string{"*", "a", "a/b", "*/*", "//a", "//*", "a/@*", "//@*", "a/self::a/b", "*/@x", "//b"} {
		for _, d := range ds[:6] {
			for k := 0; k < 3; k++ {
				o.c("selnm", d, d.all[(k*7+len(e))%len(d.all)].Addr(), "-", e, "", "refusing-navigator")
			}
		}
	}
}

func advDocs(o *cw) []*dref {
	srcs := []string{
		`a-1(a,a-1(@x=1-1,a(@x=1)),b-2-3("1-1"),b("a=1"))`,
		`e(@x=1-1,f(@x=1),f(@x=1),e(@x=1-1))`,
		`a(a(a),a(a),"a","a",#a,#a)`,
		`a1(a,a1(a(@a=a)),a-1-1(a-1),a(@a1=1,@a=11))`,
		`p:a(@p:x=1,@q:x=1,q:a(@x=1),a(@x=1),"1","1")`,
		`a(b(@x=1,"u"),b(@x=1,"u"),b(@x=1,"u"),"u","u",#u,#u)`,
		`x(x-1(x-1-1),x-1-1(x-1),x("-1"),x("1-"))`,
	}
	var ds []*dref
	for _, s := range srcs {
		ds = append(ds, o.doc(doc.Parse(s), false))
	}
	for i := 0; i < 3*o.tier; i++ {
		ds = append(ds, o.doc(gen.RandomTree(o.r, 10+o.r.Intn(12), []string{"a", "a-1", "a1", "b"}, 45), false))
	}
	return ds
}

// C11: union; node identity codes
func genC11(o *cw) {
	g := &G{r: o.r, predAxes: allAxes}
	ds := append(advDocs(o), handDocs(o, false)...)
	for _, d := range ds {
		for _, r := range d.all {
			o.c("hash", d, r.Addr(), "-", "", "", "hash")
		}
	}
	o.emitCtxRestore(g, ctxDocs(o), "union", 200*o.tier, true)
	emitBigUnions(o)
	names := []string{"a", "a-1", "a1", "b", "*", "node()", "text()", "*"}
	mk := func() gen.Path {
		p := gen.Path{Abs: g.r.Chance(40)}
		n := 1 + g.r.Intn(3)
		for j := 0; j < n; j++ {
			ax := g.r.Pick(allAxes)
			t := g.r.Pick(names)
			if ax == "attribute" {
				t = g.r.Pick([]string{"x", "*", "a"})
			}
			p.Steps = append(p.Steps, gen.Step{Axis: ax, Test: t, DSlash: (j > 0 || p.Abs) && g.r.Chance(25)})
		}
		return p
	}
	// operands with an axis test in a predicate (read for its first node only, once per candidate):
	// a candidate with several matches directly before a candidate with none
	var nested []*dref
	for _, src := range []string{`r(a(a(b)),c(b),d(b))`, `r(c(b),d(b),a(a(b)))`, `r(b(a,a),b,b(a),a(b(b),b),b)`, `r(a(@x=1,@a=2,b(@x=1)),a,b(@a=1),a(b,b),a)`} {
		nested = append(nested, o.doc(doc.Parse(src), false))
	}
	for _, ax := range allAxes {
		for _, t := range []string{"a", "b", "*"} {
			if ax == "attribute" {
				t = map[string]string{"a": "x", "b": "a", "*": "*"}[t]
			}
			for _, T := range []string{"a", "b", "*"} {
				pr := T + "[" + ax + "::" + t + "]"
				for _, s := range []string{"//" + pr + " | //text()", "//" + pr + " | //" + pr, "//*/(" + pr + ", self::b)", "//a | //" + T + "[" + ax + "::" + t + " = '']"} {
					for k := 0; k < 2; k++ {
						o.c("selall", ds[(k*7+len(s)+len(ax))%len(ds)], "/", "-", s, "", "union-pred-axis")
					}
					for _, d := range nested {
						o.c("sel", d, "/", "-", s, "", "union-pred-axis")
					}
				}
			}
		}
	}
	for i := 0; i < 600*o.tier; i++ {
		a, b := mk(), mk()
		if g.r.Chance(30) {
			// an operand whose last step carries an axis-existence predicate
			st := &a.Steps[len(a.Steps)-1]
			st.Preds = append(st.Preds, gen.Path{Steps: []gen.Step{{Axis: g.r.Pick(allAxes[:11]), Test: g.r.Pick([]string{"a", "*", "b"})}}})
		}
		var e gen.Ex = gen.Bin{Op: "|", L: a, R: b}
		switch g.r.Intn(6) {
		case 0:
			e = gen.Bin{Op: "|", L: a, R: a}
		case 1:
			e = gen.Bin{Op: "|", L: e, R: mk()}
		case 2:
			// sequence form p/(a, b)
			a.Abs, b.Abs = false, false
			base := gen.Path{Abs: true, Steps: []gen.Step{{Axis: "child", Test: "*", DSlash: g.r.Chance(50)}}}
			s := gen.Str(base, both[i%2]) + "/(" + gen.Str(a, both[i%2]) + ", " + gen.Str(b, both[i%2]) + ")"
			o.features(a)
			o.features(b)
			o.feat["seqform"]++
			for k := 0; k < 2; k++ {
				o.c("selall", ds[g.r.Intn(len(ds))], "/", "-", s, "", "seqform")
			}
			continue
		}
		o.features(e)
		s := gen.Str(e, both[i%2])
		for k := 0; k < 3; k++ {
			o.c("selall", ds[g.r.Intn(len(ds))], "/", "-", s, "", "union")
		}
	}
	sizeCases(o, "wide-union", wideExprs, wideDoc(o, 300), wideDoc(o, 90))
}

// addrPath: the absolute path that addresses node r: /child::node()[k]/.../attribute::name
func addrPath(r doc.Ref) gen.Path {
	var idx []int
	for m := r.N; m.Parent != nil; m = m.Parent {
		idx = append([]int{m.Idx}, idx...)
	}
	p := gen.Path{Abs: true}
	for _, i := range idx {
		p.Steps = append(p.Steps, gen.Step{Axis: "child", Test: "node()", Preds: []gen.Ex{num(i + 1)}})
	}
	if r.Attr >= 0 {
		a := r.N.Attrs[r.Attr]
		name := a.Name
		if a.Prefix != "" {
			name = a.Prefix + ":" + a.Name
		}
		p.Steps = append(p.Steps, gen.Step{Axis: "attribute", Test: name})
	}
	return p
}

// C13: absolute paths ignore the start node; composition; wrappers
func genC13(o *cw) {
	g := &G{r: o.r, predAxes: allAxes}
	ds := append(handDocs(o, false), randDocs(o, 3*o.tier, 8, 18, []string{"a", "b"})...)
	gi := 0
	grp := func() string { gi++; return fmt.Sprintf("g%d", gi) }
	cds := ctxDocs(o)
	o.emitCtxRestore(g, cds, "union", 80*o.tier, true)
	o.emitCtxRestore(g, cds, "cmp", 80*o.tier, false)
	o.emitCtxRestore(g, cds, "arith", 60*o.tier, false)
	for i := 0; i < 120*o.tier; i++ {
		// wrappers around operands that move the cursor; absolute operands from every start node
		m := g.mover()
		s := gen.Str(m, both[i%2])
		d := cds[i%len(cds)]
		gid := grp()
		o.c("selall", d, "/", "-", s, gid, "wrap-mover")
		o.c("selall", d, "/", "-", s+" | "+s, gid, "wrap-mover|")
		o.c("selall", d, "/", "-", "("+s+")", gid, "wrap-mover()")
		if p, ok := m.(gen.Path); ok && p.Abs {
			o.c("selall", d, "/", "-", s, "allsame", "absolute-mover")
			o.c("evalall", d, "/", "-", "count("+s+")", "allsame", "absolute-mover")
		}
	}
	for i := 0; i < 220*o.tier; i++ {
		p := g.relPath(allAxes, 1, 3, 35)
		if i%5 == 0 {
			// two consecutive descendant steps (descendant-over-descendant) and a third step
			p = gen.Path{Steps: []gen.Step{{Axis: g.r.Pick([]string{"descendant", "descendant-or-self"}), Test: g.test("child")}, {Axis: g.r.Pick([]string{"descendant", "descendant-or-self"}), Test: g.test("child")}}}
			if g.r.Chance(40) {
				p.Steps = append(p.Steps, g.step(allAxes, 0, 0))
			}
		}
		o.features(p)
		m := both[i%2]
		d := ds[g.r.Intn(len(ds))]
		// absolute: the same from every start node
		ap := p
		ap.Abs = true
		o.c("selall", d, "/", "-", gen.Str(ap, m), "allsame", "absolute")
		// composition: relative at n  vs  addr(n)/p at the root
		for k := 0; k < 4; k++ {
			r := d.all[g.r.Intn(len(d.all))]
			if r.N.Type == xpath.RootNode {
				continue
			}
			ad := addrPath(r)
			cp := gen.Path{Abs: true, Steps: append(append([]gen.Step{}, ad.Steps...), p.Steps...)}
			if p.Steps[0].DSlash {
				continue
			}
			gid := grp()
			o.c("sel", d, r.Addr(), "-", gen.Str(p, m), gid, "compose")
			o.c("sel", d, "/", "-", gen.Str(cp, m), gid, "compose")
		}
		// wrappers
		s := gen.Str(p, m)
		gid := grp()
		o.c("selall", d, "/", "-", s, gid, "wrap")
		o.c("selall", d, "/", "-", s+"[true()]", gid, "wrap[true()]")
		o.c("selall", d, "/", "-", "("+s+")", gid, "wrap()")
		o.c("selall", d, "/", "-", s+" | "+s, gid, "wrap|")
		gid = grp()
		o.c("evalall", d, "/", "-", "boolean("+s+")", gid, "truth")
		o.c("evalall", d, "/", "-", "not(not("+s+"))", gid, "notnot")
	}
	// (P) inside a predicate keeps the truth value of P for EVERY candidate of the outer step
	inner := []string{"a", "b", "*", "a/b", "*/*", "a | b", "b | a/b", ".//a", "..", "@*", "a/@*", "text()", "*[1]", "a[b]"}
	for _, outer := range []string{"//*", "/*/*", "//a", "*", ".//b"} {
		for _, in := range inner {
			for di, d := range append(append([]*dref{}, cds...), ds[:3]...) {
				gid := grp()
				o.c("selall", d, "/", "-", outer+"["+in+"]", gid, "group-in-predicate")
				o.c("selall", d, "/", "-", outer+"[("+in+")]", gid, "group-in-predicate()")
				if di%2 == 0 {
					o.c("selall", d, "/", "-", outer+"[(("+in+"))]", gid, "group-in-predicate(())")
				}
			}
		}
	}
	for _, outer := range []string{"//*", "//s", "//a", "/*/*", "*"} {
		for _, e := range []string{"a[b] = c", "b[c] = c", "a[@k] != c", "*[*] = *", "b[c[@n]] = c", "count(a[b]) = count(c)", "a[b] = c or @v", "c = a[b]", "count(a/b[1]) = count(c)", "count(a/b[1]) + count(c) > 1", "count(b/c[1]) = count(c)"} {
			for _, d := range cds {
				o.c("selall", d, "/", "-", outer+"["+e+"]", "", "nested-predicate-operand")
			}
		}
	}
	// the wrappers on documents past internal thresholds (more than 256 siblings; 10^5 ancestors,
	// implementation side only: kinds selgo / evalgo)
	wd := wideDoc(o, 300)
	for _, s := range []string{"/r/s/a", "/r/s/*", "//a", "s/a", "//a[last()]/preceding-sibling::a", "//@id"} {
		gid := grp()
		o.c("sel", wd, "/", "-", s, gid, "wrap-wide")
		o.c("sel", wd, "/", "-", s+"[true()]", gid, "wrap-wide[true()]")
		o.c("sel", wd, "/", "-", "("+s+")", gid, "wrap-wide()")
		o.c("sel", wd, "/", "-", s+" | "+s, gid, "wrap-wide|")
	}
	big := o.doc(gen.RegularTree(2, 18, "x"), false)
	for _, s := range []string{"//x/ancestor::*"} {
		// distinctgo: the number of DISTINCT nodes selected (P[true()] may repeat nodes, which C13 does not forbid)
		gid := grp()
		o.c("distinctgo", big, "/", "-", s, gid, "wrap-big")
		o.c("distinctgo", big, "/", "-", s+"[true()]", gid, "wrap-big[true()]")
		o.c("distinctgo", big, "/", "-", "("+s+")", gid, "wrap-big()")
	}
}
