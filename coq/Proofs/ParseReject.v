(* ParseReject.v — property C17 at the level of the parser model:
   the parser FAILS (returns [Err _], never [Ok]) whenever it needs an operand
   but the current token cannot start one (in particular when it is the
   end-of-input token), and the corollaries for each truncation class:
   after a binary operator, after '/' '//', after '[' '(' ',' '@' 'axis::',
   missing closers, unclosed string literal, bad first token, trailing garbage. *)
From XP Require Import Base F64 Doc Ast Scan Parse.
From XP.Proofs Require Import ParseTerm ParseAssoc.
Require Import Lia.
Open Scope nat_scope.
Open Scope list_scope.
Open Scope string_scope.

(* ------------------------------------------------------------------ *)
(** * 0. "is an error"                                                  *)
(* ------------------------------------------------------------------ *)

Definition is_err {A} (r : cres A) : Prop := exists msg, r = Err msg.

Lemma is_err_Err : forall A (msg : string), @is_err A (Err msg).
Proof. intros A msg. exists msg. reflexivity. Qed.

Lemma is_err_bind : forall A B (x : cres A) (k : A -> cres B),
  is_err x -> is_err (cbind x k).
Proof. intros A B x k [msg H]. subst x. exists msg. reflexivity. Qed.

Lemma is_err_not_ok : forall A (r : cres A) a, is_err r -> r <> Ok a.
Proof. intros A r a [msg H] E. congruence. Qed.

Lemma is_err_not_fuel : forall A (r : cres A), is_err r -> r <> OutOfFuel.
Proof. intros A r [msg H] E. congruence. Qed.

(* ------------------------------------------------------------------ *)
(** * 1. Tokens that cannot start a step / an expression                *)
(* ------------------------------------------------------------------ *)

(* parseStep accepts:  .  ..  @  axis::  *  name  (   *)
Definition can_start_step (t : itype) : bool :=
  match t with
  | IDot | IDotDot | IAt | IAxe | IStar | IName | ILParens => true
  | _ => false
  end.
Definition cannot_start_step (t : itype) : bool := negb (can_start_step t).

(* parseExpression accepts in addition:  -  string  number  $  /  //   *)
Definition can_start (t : itype) : bool :=
  match t with
  | IMinus | IString | INumber | IDollar | ISlash | ISlashSlash => true
  | _ => can_start_step t
  end.
Definition cannot_start (t : itype) : bool := negb (can_start t).

(* the set, spelled out *)
Lemma cannot_start_iff : forall t,
  cannot_start t = true <->
  In t [IEOF; IRBracket; IRParens; IComma; IUnion; IEq; INe; ILt; ILe; IGt; IGe; IPlus;
        ILBracket; IBang; IApos; IQuote; IAnd; IOr].
Proof.
  intros t. split.
  - destruct t; cbn; intros H; try discriminate H; tauto.
  - cbn. intros H.
    repeat (destruct H as [H|H]; [subst t; reflexivity|]). contradiction.
Qed.

Lemma cannot_start_step_iff : forall t,
  cannot_start_step t = true <->
  In t [IEOF; IRBracket; IRParens; IComma; IUnion; IEq; INe; ILt; ILe; IGt; IGe; IPlus;
        ILBracket; IBang; IApos; IQuote; IAnd; IOr;
        IMinus; IString; INumber; IDollar; ISlash; ISlashSlash].
Proof.
  intros t. split.
  - destruct t; cbn; intros H; try discriminate H; tauto.
  - cbn. intros H.
    repeat (destruct H as [H|H]; [subst t; reflexivity|]). contradiction.
Qed.

Lemma cannot_start_eof : cannot_start IEOF = true.
Proof. reflexivity. Qed.
Lemma cannot_start_step_eof : cannot_start_step IEOF = true.
Proof. reflexivity. Qed.

Lemma cannot_start_is_step : forall t, cannot_start t = true -> cannot_start_step t = true.
Proof. intros t; destruct t; cbn; intros H; try reflexivity; discriminate H. Qed.

Lemma cannot_start_not_minus : forall t, cannot_start t = true -> t <> IMinus.
Proof. intros t H E; subst t; discriminate H. Qed.

(* ------------------------------------------------------------------ *)
(** * 2. Small facts about the primitives                               *)
(* ------------------------------------------------------------------ *)

Lemma is_typ_false : forall st t, typ st <> t -> is_typ st t = false.
Proof.
  intros st t H. unfold is_typ. destruct (itype_eqb (typ st) t) eqn:E; [|reflexivity].
  apply itype_eqb_eq in E. contradiction.
Qed.

Lemma is_typ_refl : forall st t, typ st = t -> is_typ st t = true.
Proof. intros st t H. unfold is_typ. rewrite H. destruct t; reflexivity. Qed.

(* missing token: skipItem on another token is an error *)
Lemma check_item_wrong : forall st t,
  typ st <> t -> check_item st t = Err "has an invalid token".
Proof. intros st t H. unfold check_item. rewrite is_typ_false by exact H. reflexivity. Qed.

Lemma skip_item_wrong : forall st t,
  typ st <> t -> skip_item st t = Err "has an invalid token".
Proof. intros st t H. unfold skip_item. rewrite check_item_wrong by exact H. reflexivity. Qed.

Lemma skip_item_right : forall st t, typ st = t -> skip_item st t = pnext st.
Proof.
  intros st t H. unfold skip_item, check_item. rewrite is_typ_refl by exact H. reflexivity.
Qed.

(* parseNodeTest on anything but a name or '*' *)
Lemma parse_node_test_bad : forall ns n axis mt st,
  typ st <> IName -> typ st <> IStar ->
  parse_node_test ns n axis mt st = Err "expression must evaluate to a node-set".
Proof.
  intros ns n axis mt st H1 H2. unfold parse_node_test.
  destruct (typ st); try reflexivity; congruence.
Qed.

Lemma minus_loop_stop : forall g b st,
  typ st <> IMinus -> minus_loop (S g) b st = Ok (b, st).
Proof. intros g b st H. cbn [minus_loop]. rewrite is_typ_false by exact H. reflexivity. Qed.

Lemma is_primary_bad : forall st, cannot_start (typ st) = true -> is_primary_expr st = false.
Proof.
  intros st H. unfold is_primary_expr. destruct (typ st); try reflexivity; discriminate H.
Qed.

(* a failing first operand fails the whole level *)
Lemma bin_level_sub_err : forall g getop sub st,
  is_err (sub st) -> is_err (bin_level g getop sub st).
Proof. intros g getop sub st H. unfold bin_level. apply is_err_bind. exact H. Qed.

(* ------------------------------------------------------------------ *)
(** * 3. Item 1: a token that cannot start an operand is an error       *)
(* ------------------------------------------------------------------ *)

Section Bad.
Variable ns : nsmap.
Variable g : nat.                       (* the loops run with fuel [S g] *)
Variables pexpr pstep : option anode -> pst -> PR anode.

(* parseStep: needs no hypothesis on the recursive entry points and no fuel *)
Lemma step_b_bad : forall f n st,
  cannot_start_step (typ st) = true ->
  step_b ns f pexpr pstep n st = Err "expression must evaluate to a node-set".
Proof.
  intros f n st Hbad. unfold step_b, is_typ.
  destruct (typ st) eqn:Et; try discriminate Hbad;
    cbn [itype_eqb orb cbind]; cbv zeta;
    (rewrite parse_node_test_bad by (rewrite Et; discriminate)); reflexivity.
Qed.

Hypothesis Hstep : forall n st, cannot_start_step (typ st) = true -> is_err (pstep n st).

Lemma relpath_bad : forall n st,
  cannot_start_step (typ st) = true -> is_err (relpath_loop (S g) pstep n st).
Proof.
  intros n st Hbad. cbn [relpath_loop]. apply is_err_bind. apply Hstep. exact Hbad.
Qed.

Lemma location_path_bad : forall st,
  cannot_start (typ st) = true -> is_err (location_path_b (S g) pstep st).
Proof.
  intros st Hbad. unfold location_path_b.
  pose proof (cannot_start_is_step _ Hbad) as Hs.
  destruct (typ st) eqn:Et; try discriminate Hbad;
    apply relpath_bad; rewrite Et; exact Hs.
Qed.

Lemma path_expr_bad : forall n st,
  cannot_start (typ st) = true -> is_err (path_expr_b (S g) pexpr pstep n st).
Proof.
  intros n st Hbad. unfold path_expr_b. rewrite is_primary_bad by exact Hbad.
  apply location_path_bad. exact Hbad.
Qed.

Lemma union_expr_bad : forall n st,
  cannot_start (typ st) = true -> is_err (union_expr_b (S g) pexpr pstep n st).
Proof. intros n st Hbad. apply bin_level_sub_err. apply path_expr_bad. exact Hbad. Qed.

Lemma unary_expr_bad : forall n st,
  cannot_start (typ st) = true -> is_err (unary_expr_b (S g) pexpr pstep n st).
Proof.
  intros n st Hbad. unfold unary_expr_b.
  rewrite minus_loop_stop by (apply cannot_start_not_minus; exact Hbad).
  cbn [cbind]. apply is_err_bind. apply union_expr_bad. exact Hbad.
Qed.

Lemma mul_expr_bad : forall n st,
  cannot_start (typ st) = true -> is_err (mul_expr_b (S g) pexpr pstep n st).
Proof. intros n st Hbad. apply bin_level_sub_err. apply unary_expr_bad. exact Hbad. Qed.
Lemma add_expr_bad : forall n st,
  cannot_start (typ st) = true -> is_err (add_expr_b (S g) pexpr pstep n st).
Proof. intros n st Hbad. apply bin_level_sub_err. apply mul_expr_bad. exact Hbad. Qed.
Lemma rel_expr_bad : forall n st,
  cannot_start (typ st) = true -> is_err (rel_expr_b (S g) pexpr pstep n st).
Proof. intros n st Hbad. apply bin_level_sub_err. apply add_expr_bad. exact Hbad. Qed.
Lemma eq_expr_bad : forall n st,
  cannot_start (typ st) = true -> is_err (eq_expr_b (S g) pexpr pstep n st).
Proof. intros n st Hbad. apply bin_level_sub_err. apply rel_expr_bad. exact Hbad. Qed.
Lemma and_expr_bad : forall n st,
  cannot_start (typ st) = true -> is_err (and_expr_b (S g) pexpr pstep n st).
Proof. intros n st Hbad. apply bin_level_sub_err. apply eq_expr_bad. exact Hbad. Qed.
Lemma or_expr_bad : forall n st,
  cannot_start (typ st) = true -> is_err (or_expr_b (S g) pexpr pstep n st).
Proof. intros n st Hbad. apply bin_level_sub_err. apply and_expr_bad. exact Hbad. Qed.

Lemma expr_b_bad : forall n st,
  cannot_start (typ st) = true -> is_err (expr_b (S g) pexpr pstep n st).
Proof.
  intros n st Hbad. unfold expr_b. cbv zeta.
  destruct (Nat.ltb max_depth (S (p_d st))); [apply is_err_Err|].
  apply is_err_bind. apply or_expr_bad. exact Hbad.
Qed.

End Bad.

(* parseStep, any fuel >= 1, exact message *)
Theorem pgo_step_bad_start : forall ns f n st,
  1 <= f -> cannot_start_step (typ st) = true ->
  pgo ns f EStep n st = Err "expression must evaluate to a node-set".
Proof.
  intros ns f n st Hf Hbad. destruct f as [|f]; [lia|].
  rewrite pgo_S_step. apply step_b_bad. exact Hbad.
Qed.

Lemma pgo_step_bad_is_err : forall ns f n st,
  1 <= f -> cannot_start_step (typ st) = true -> is_err (pgo ns f EStep n st).
Proof. intros. rewrite pgo_step_bad_start by assumption. apply is_err_Err. Qed.

(* parseExpression, any fuel >= 2 *)
Theorem pgo_expr_bad_start : forall ns f n st,
  2 <= f -> cannot_start (typ st) = true -> is_err (pgo ns f EExpr n st).
Proof.
  intros ns f n st Hf Hbad. destruct f as [|[|g]]; [lia|lia|].
  rewrite pgo_S_expr. apply expr_b_bad; [|exact Hbad].
  intros n0 st0 H0. apply pgo_step_bad_is_err; [lia|exact H0].
Qed.

(* MAIN 1: both entries *)
Theorem pgo_bad_start_is_error : forall ns f what n st,
  2 <= f -> cannot_start (typ st) = true ->
  exists msg, pgo ns f what n st = Err msg.
Proof.
  intros ns f what n st Hf Hbad. destruct what.
  - apply pgo_expr_bad_start; assumption.
  - apply pgo_step_bad_is_err; [lia|]. apply cannot_start_is_step. exact Hbad.
Qed.

Theorem pgo_eof_is_error : forall ns f what n st,
  2 <= f -> typ st = IEOF -> exists msg, pgo ns f what n st = Err msg.
Proof.
  intros ns f what n st Hf Ht. apply pgo_bad_start_is_error; [exact Hf|].
  rewrite Ht. reflexivity.
Qed.

(* in particular it is neither Ok nor OutOfFuel *)
Corollary pgo_eof_not_ok : forall ns f what n st r,
  2 <= f -> typ st = IEOF -> pgo ns f what n st <> Ok r.
Proof. intros. apply is_err_not_ok. apply pgo_eof_is_error; assumption. Qed.

(* with ANY fuel the result is not Ok (fuel 0 / 1 give OutOfFuel) *)
Corollary pgo_bad_start_never_ok : forall ns f what n st r,
  cannot_start (typ st) = true -> pgo ns f what n st <> Ok r.
Proof.
  intros ns f what n st r Hbad.
  destruct f as [|[|g]].
  - cbn. discriminate.
  - destruct what.
    + rewrite pgo_S_expr. unfold expr_b. cbv zeta.
      destruct (Nat.ltb max_depth (S (p_d st))); [discriminate|].
      unfold or_expr_b, and_expr_b, eq_expr_b, rel_expr_b, add_expr_b, mul_expr_b,
        unary_expr_b, bin_level. cbn [minus_loop cbind]. discriminate.
    + rewrite pgo_step_bad_start; [discriminate|lia|].
      apply cannot_start_is_step; exact Hbad.
  - apply is_err_not_ok. apply pgo_bad_start_is_error; [lia|exact Hbad].
Qed.

Print Assumptions pgo_bad_start_is_error.
Print Assumptions pgo_eof_is_error.
Print Assumptions pgo_bad_start_never_ok.

(* ------------------------------------------------------------------ *)
(** * 4. Item 2: truncation after a binary operator                     *)
(* ------------------------------------------------------------------ *)

Section BinTrunc.
Variable getop : pst -> option string.
Variable sub : pst -> PR anode.
Hypothesis Hsub : forall st', cannot_start (typ st') = true -> is_err (sub st').

(* the loop has just recognised an operator; the token after it cannot start an operand *)
Lemma bin_loop_trunc : forall f acc st op st1,
  getop st = Some op -> pnext st = Ok st1 -> cannot_start (typ st1) = true ->
  is_err (bin_loop (S f) getop sub acc st).
Proof.
  intros f acc st op st1 Hop Hnext Hbad. cbn [bin_loop]. rewrite Hop, Hnext. cbn [cbind].
  apply is_err_bind. apply Hsub. exact Hbad.
Qed.

(* ... and if the scanner itself fails on the token after the operator *)
Lemma bin_loop_scan_err : forall f acc st op e,
  getop st = Some op -> pnext st = Err e ->
  bin_loop (S f) getop sub acc st = Err e.
Proof. intros f acc st op e Hop Hnext. cbn [bin_loop]. rewrite Hop, Hnext. reflexivity. Qed.

(* k complete "op operand" rounds of the loop.  (Unlike [bin_run] of ParseAssoc.v
   this prefix relation does NOT require the loop to stop at the end state.) *)
Inductive bin_pre : pst -> list (string * anode) -> pst -> Prop :=
| pre_nil : forall st, bin_pre st [] st
| pre_step : forall st op st1 a st2 ops stf,
    getop st = Some op -> pnext st = Ok st1 -> sub st1 = Ok (a, st2) ->
    bin_pre st2 ops stf -> bin_pre st ((op, a) :: ops) stf.

(* after ANY number of complete "op operand" rounds *)
Lemma bin_loop_run_trunc : forall st ops stm,
  bin_pre st ops stm ->
  forall fuel acc op st1,
  getop stm = Some op -> pnext stm = Ok st1 -> cannot_start (typ st1) = true ->
  List.length ops < fuel ->
  is_err (bin_loop fuel getop sub acc st).
Proof.
  intros st ops stm Hrun.
  induction Hrun as [st | st op0 st1' a st2 ops stf Hop0 Hnext0 Hsub0 Hrun IH];
    intros fuel acc op st1 Hop Hnext Hbad Hfuel.
  - destruct fuel as [|f]; [cbn in Hfuel; lia|].
    eapply bin_loop_trunc; eauto.
  - destruct fuel as [|f]; [cbn in Hfuel; lia|].
    cbn [bin_loop]. rewrite Hop0, Hnext0. cbn [cbind]. rewrite Hsub0. cbn [cbind].
    eapply IH; eauto. cbn [List.length] in Hfuel. lia.
Qed.

(* the whole level: "a0 op1 a1 ... opk ak op <bad>" *)
Theorem bin_level_trunc : forall st0 a0 st ops stm fuel op st1,
  sub st0 = Ok (a0, st) ->
  bin_pre st ops stm ->
  getop stm = Some op -> pnext stm = Ok st1 -> cannot_start (typ st1) = true ->
  List.length ops < fuel ->
  is_err (bin_level fuel getop sub st0).
Proof.
  intros st0 a0 st ops stm fuel op st1 H0 Hrun Hop Hnext Hbad Hfuel.
  unfold bin_level. rewrite H0. cbn [cbind].
  eapply bin_loop_run_trunc; eauto.
Qed.

End BinTrunc.

(* the seven levels of the real parser: each one's sub-parser fails on a bad start *)
Section Levels.
Variable ns : nsmap.
Variable g : nat.
Let pexpr := pgo ns (S g) EExpr.
Let pstep := pgo ns (S g) EStep.

Lemma pstep_bad : forall n st, cannot_start_step (typ st) = true -> is_err (pstep n st).
Proof. intros n st H. apply pgo_step_bad_is_err; [lia|exact H]. Qed.

(* [level_sub k n]: the operand parser of the k-th level *)
Inductive level := LOr | LAnd | LEq | LRel | LAdd | LMul | LUnion.

Definition level_op (l : level) : pst -> option string :=
  match l with
  | LOr => op_or | LAnd => op_and | LEq => op_eq | LRel => op_rel
  | LAdd => op_add | LMul => op_mul | LUnion => op_union
  end.

Definition level_sub (l : level) (n : option anode) : pst -> PR anode :=
  match l with
  | LOr => and_expr_b (S g) pexpr pstep n
  | LAnd => eq_expr_b (S g) pexpr pstep n
  | LEq => rel_expr_b (S g) pexpr pstep n
  | LRel => add_expr_b (S g) pexpr pstep n
  | LAdd => mul_expr_b (S g) pexpr pstep n
  | LMul => unary_expr_b (S g) pexpr pstep n
  | LUnion => path_expr_b (S g) pexpr pstep n
  end.

Definition level_fun (l : level) (n : option anode) : pst -> PR anode :=
  match l with
  | LOr => or_expr_b (S g) pexpr pstep n
  | LAnd => and_expr_b (S g) pexpr pstep n
  | LEq => eq_expr_b (S g) pexpr pstep n
  | LRel => rel_expr_b (S g) pexpr pstep n
  | LAdd => add_expr_b (S g) pexpr pstep n
  | LMul => mul_expr_b (S g) pexpr pstep n
  | LUnion => union_expr_b (S g) pexpr pstep n
  end.

Lemma level_fun_eq : forall l n,
  level_fun l n = bin_level (S g) (level_op l) (level_sub l n).
Proof. intros l n. destruct l; reflexivity. Qed.

Lemma level_sub_bad : forall l n st,
  cannot_start (typ st) = true -> is_err (level_sub l n st).
Proof.
  intros l n st Hbad. destruct l; cbn [level_sub].
  - apply and_expr_bad; [apply pstep_bad|exact Hbad].
  - apply eq_expr_bad; [apply pstep_bad|exact Hbad].
  - apply rel_expr_bad; [apply pstep_bad|exact Hbad].
  - apply add_expr_bad; [apply pstep_bad|exact Hbad].
  - apply mul_expr_bad; [apply pstep_bad|exact Hbad].
  - apply unary_expr_bad; [apply pstep_bad|exact Hbad].
  - apply path_expr_bad; [apply pstep_bad|exact Hbad].
Qed.

(* MAIN 2: at every one of the seven levels of parseExpression (fuel S (S g)),
   "operand (op operand)* op <token that cannot start an expression>" is an error *)
Theorem level_trunc_after_operator : forall l n st0 a0 st ops stm op st1,
  level_sub l n st0 = Ok (a0, st) ->
  bin_pre (level_op l) (level_sub l n) st ops stm ->
  level_op l stm = Some op -> pnext stm = Ok st1 -> cannot_start (typ st1) = true ->
  List.length ops <= g ->
  is_err (level_fun l n st0).
Proof.
  intros l n st0 a0 st ops stm op st1 H0 Hrun Hop Hnext Hbad Hlen.
  rewrite level_fun_eq.
  eapply bin_level_trunc; eauto; [|lia].
  intros st' H'. apply level_sub_bad. exact H'.
Qed.

(* the one-operator special case, as in the task statement *)
Corollary level_loop_trunc : forall l n acc st op st1,
  level_op l st = Some op -> pnext st = Ok st1 -> cannot_start (typ st1) = true ->
  is_err (bin_loop (S g) (level_op l) (level_sub l n) acc st).
Proof.
  intros l n acc st op st1 Hop Hnext Hbad.
  eapply bin_loop_trunc; eauto. intros st' H'. apply level_sub_bad. exact H'.
Qed.

(* ------------------------------------------------------------------ *)
(** * 5. Item 3: truncation after '/' and '//'                          *)
(* ------------------------------------------------------------------ *)

Definition is_slash (t : itype) : bool :=
  match t with ISlash | ISlashSlash => true | _ => false end.

End Levels.

Section Slash.
Variable pstep : option anode -> pst -> PR anode.
Hypothesis Hstep : forall n st, cannot_start_step (typ st) = true -> is_err (pstep n st).

(* "step /" or "step //" followed by a token that cannot start a step *)
Lemma relpath_loop_trunc : forall f n st o st1 st2,
  pstep n st = Ok (o, st1) -> is_slash (typ st1) = true ->
  pnext st1 = Ok st2 -> cannot_start_step (typ st2) = true ->
  is_err (relpath_loop (S (S f)) pstep n st).
Proof.
  intros f n st o st1 st2 H1 Hs Hnext Hbad.
  cbn [relpath_loop]. rewrite H1. cbn [cbind].
  destruct (typ st1) eqn:Et; try discriminate Hs;
    rewrite Hnext; cbn [cbind]; apply is_err_bind; apply Hstep; exact Hbad.
Qed.

(* a relative path is a sequence of complete "step sep" rounds *)
Inductive rel_run : option anode -> pst -> option anode -> pst -> nat -> Prop :=
| rr_nil : forall n st, rel_run n st n st 0
| rr_slash : forall n st o st1 st2 n' st' k,
    pstep n st = Ok (o, st1) -> typ st1 = ISlash -> pnext st1 = Ok st2 ->
    rel_run (Some o) st2 n' st' k -> rel_run n st n' st' (S k)
| rr_slashslash : forall n st o st1 st2 n' st' k,
    pstep n st = Ok (o, st1) -> typ st1 = ISlashSlash -> pnext st1 = Ok st2 ->
    rel_run (Some (dos_node (Some o))) st2 n' st' k -> rel_run n st n' st' (S k).

(* after any number of "step/" rounds, a token that cannot start a step is an error:
   a/  a//  a/b/  a/b// ... *)
Theorem relpath_run_trunc : forall n st n' st' k,
  rel_run n st n' st' k ->
  forall fuel, k < fuel -> cannot_start_step (typ st') = true ->
  is_err (relpath_loop fuel pstep n st).
Proof.
  intros n st n' st' k Hrun.
  induction Hrun as [n st | n st o st1 st2 n' st' k H1 Ht Hnext Hrun IH
                            | n st o st1 st2 n' st' k H1 Ht Hnext Hrun IH];
    intros fuel Hfuel Hbad.
  - destruct fuel as [|f]; [lia|]. cbn [relpath_loop]. apply is_err_bind. apply Hstep. exact Hbad.
  - destruct fuel as [|f]; [lia|]. cbn [relpath_loop]. rewrite H1. cbn [cbind].
    rewrite Ht, Hnext. cbn [cbind]. apply IH; [lia|exact Hbad].
  - destruct fuel as [|f]; [lia|]. cbn [relpath_loop]. rewrite H1. cbn [cbind].
    rewrite Ht, Hnext. cbn [cbind]. apply IH; [lia|exact Hbad].
Qed.

Variable pexpr : option anode -> pst -> PR anode.

(* "//" at the start of a path needs a step ("//" alone is an error) *)
Lemma location_path_slashslash_trunc : forall f st st1,
  typ st = ISlashSlash -> pnext st = Ok st1 -> cannot_start_step (typ st1) = true ->
  is_err (location_path_b (S f) pstep st).
Proof.
  intros f st st1 Ht Hnext Hbad. unfold location_path_b. rewrite Ht, Hnext. cbn [cbind].
  cbn [relpath_loop]. apply is_err_bind. apply Hstep. exact Hbad.
Qed.

(* the documented exception: a lone "/" followed by a non-step token IS accepted (root) *)
Lemma location_path_root_alone : forall f st st1,
  typ st = ISlash -> pnext st = Ok st1 -> is_step (typ st1) = false ->
  location_path_b f pstep st = Ok (ARoot "/", st1).
Proof.
  intros f st st1 Ht Hnext Hs. unfold location_path_b. rewrite Ht, Hnext. cbn [cbind].
  rewrite Hs. reflexivity.
Qed.

(* filter-expression followed by '/' or '//' :  "f(x)/"  "$v//"  "(a)/" *)
Lemma path_expr_primary_slash_trunc : forall f n st o st1 st2,
  is_primary_expr st = true ->
  filter_expr_b (S f) pexpr n st = Ok (o, st1) -> is_slash (typ st1) = true ->
  pnext st1 = Ok st2 -> cannot_start_step (typ st2) = true ->
  is_err (path_expr_b (S f) pexpr pstep n st).
Proof.
  intros f n st o st1 st2 Hp H1 Hs Hnext Hbad. unfold path_expr_b. rewrite Hp, H1.
  cbn [cbind].
  destruct (typ st1) eqn:Et; try discriminate Hs;
    rewrite Hnext; cbn [cbind]; cbn [relpath_loop]; apply is_err_bind; apply Hstep; exact Hbad.
Qed.

End Slash.

(* MAIN 3, for the real parser (pstep = parseStep with fuel >= 1) *)
Theorem pgo_relpath_trunc : forall ns f n st n' st' k fuel,
  rel_run (pgo ns (S f) EStep) n st n' st' k ->
  k < fuel -> cannot_start_step (typ st') = true ->
  is_err (relpath_loop fuel (pgo ns (S f) EStep) n st).
Proof.
  intros ns f n st n' st' k fuel Hrun Hk Hbad.
  eapply relpath_run_trunc; eauto.
  intros n0 st0 H0. apply pgo_step_bad_is_err; [lia|exact H0].
Qed.

Print Assumptions level_trunc_after_operator.
Print Assumptions pgo_relpath_trunc.

(* ------------------------------------------------------------------ *)
(** * 6. Items 4 and 5: after '['  '('  ','  '@'  'axis::' ; missing closers *)
(* ------------------------------------------------------------------ *)

(* p.next() does not look at the depth counter *)
Lemma pnext_depth : forall st st1 d,
  pnext st = Ok st1 -> pnext (mkP (p_s st) d) = Ok (mkP (p_s st1) d).
Proof.
  intros st st1 d H. unfold pnext in *. cbn [p_s p_d].
  destruct (next_item (p_s st)) as [s'|e|]; cbn [cbind] in *; try discriminate.
  inversion H; subst st1. reflexivity.
Qed.

Definition is_nodetest_start (t : itype) : bool :=
  match t with IName | IStar => true | _ => false end.

Section Open.
Variable ns : nsmap.
Variables pexpr pstep : option anode -> pst -> PR anode.
Hypothesis Hexpr : forall n st, cannot_start (typ st) = true -> is_err (pexpr n st).
Hypothesis Hstep : forall n st, cannot_start_step (typ st) = true -> is_err (pstep n st).

(* ---- '[' : predicates ---- *)

(* "x[" followed by a token that cannot start an expression *)
Lemma pred_loop_open_trunc : forall f acc st st1,
  typ st = ILBracket -> pnext st = Ok st1 -> cannot_start (typ st1) = true ->
  is_err (pred_loop (S f) pexpr acc st).
Proof.
  intros f acc st st1 Ht Hnext Hbad. cbn [pred_loop].
  rewrite is_typ_refl by exact Ht. rewrite skip_item_right by exact Ht.
  rewrite Hnext. cbn [cbind]. apply is_err_bind. apply Hexpr. exact Hbad.
Qed.

(* "x[ expr" not followed by ']' *)
Lemma pred_loop_missing_close : forall f acc st st1 c st2,
  typ st = ILBracket -> pnext st = Ok st1 -> pexpr (Some acc) st1 = Ok (c, st2) ->
  typ st2 <> IRBracket ->
  pred_loop (S f) pexpr acc st = Err "has an invalid token".
Proof.
  intros f acc st st1 c st2 Ht Hnext He Hc. cbn [pred_loop].
  rewrite is_typ_refl by exact Ht. rewrite skip_item_right by exact Ht.
  rewrite Hnext. cbn [cbind]. rewrite He. cbn [cbind].
  rewrite skip_item_wrong by exact Hc. reflexivity.
Qed.

(* the same after k complete predicates:  x[p1]...[pk][   and   x[p1]...[pk][e  *)
Inductive pred_run : anode -> pst -> anode -> pst -> nat -> Prop :=
| pr_nil : forall acc st, pred_run acc st acc st 0
| pr_cons : forall acc st st1 c st2 st3 acc' st' k,
    typ st = ILBracket -> pnext st = Ok st1 -> pexpr (Some acc) st1 = Ok (c, st2) ->
    typ st2 = IRBracket -> pnext st2 = Ok st3 ->
    pred_run (AFilter acc c) st3 acc' st' k -> pred_run acc st acc' st' (S k).

Lemma pred_loop_run : forall acc st acc' st' k,
  pred_run acc st acc' st' k ->
  forall fuel, pred_loop (k + fuel) pexpr acc st = pred_loop fuel pexpr acc' st'.
Proof.
  intros acc st acc' st' k Hrun.
  induction Hrun as [acc st | acc st st1 c st2 st3 acc' st' k Ht Hn He Ht2 Hn2 Hrun IH];
    intros fuel; [reflexivity|].
  cbn [plus pred_loop].
  rewrite is_typ_refl by exact Ht. rewrite skip_item_right by exact Ht.
  rewrite Hn. cbn [cbind]. rewrite He. cbn [cbind].
  rewrite skip_item_right by exact Ht2. rewrite Hn2. cbn [cbind]. apply IH.
Qed.

Theorem pred_run_open_trunc : forall acc st acc' st' k f st1,
  pred_run acc st acc' st' k ->
  typ st' = ILBracket -> pnext st' = Ok st1 -> cannot_start (typ st1) = true ->
  is_err (pred_loop (k + S f) pexpr acc st).
Proof.
  intros acc st acc' st' k f st1 Hrun Ht Hn Hbad.
  rewrite (pred_loop_run _ _ _ _ _ Hrun). eapply pred_loop_open_trunc; eauto.
Qed.

Theorem pred_run_missing_close : forall acc st acc' st' k f st1 c st2,
  pred_run acc st acc' st' k ->
  typ st' = ILBracket -> pnext st' = Ok st1 -> pexpr (Some acc') st1 = Ok (c, st2) ->
  typ st2 <> IRBracket ->
  pred_loop (k + S f) pexpr acc st = Err "has an invalid token".
Proof.
  intros acc st acc' st' k f st1 c st2 Hrun Ht Hn He Hc.
  rewrite (pred_loop_run _ _ _ _ _ Hrun). eapply pred_loop_missing_close; eauto.
Qed.

(* parseFilterExpr:  primary, then the predicate loop: after k complete
   predicates,  primary[p1]...[pk][   and   primary[p1]...[pk][e  *)
Lemma filter_expr_open_trunc : forall k f n st o st1 acc' st' st2,
  primary_b (k + S f) pexpr n st = Ok (o, st1) ->
  pred_run o st1 acc' st' k ->
  typ st' = ILBracket -> pnext st' = Ok st2 -> cannot_start (typ st2) = true ->
  is_err (filter_expr_b (k + S f) pexpr n st).
Proof.
  intros k f n st o st1 acc' st' st2 Hp Hrun Ht Hnext Hbad.
  unfold filter_expr_b. rewrite Hp. cbn [cbind].
  eapply pred_run_open_trunc; eauto.
Qed.

Lemma filter_expr_missing_close : forall k f n st o st1 acc' st' st2 c st3,
  primary_b (k + S f) pexpr n st = Ok (o, st1) ->
  pred_run o st1 acc' st' k ->
  typ st' = ILBracket -> pnext st' = Ok st2 -> pexpr (Some acc') st2 = Ok (c, st3) ->
  typ st3 <> IRBracket ->
  filter_expr_b (k + S f) pexpr n st = Err "has an invalid token".
Proof.
  intros k f n st o st1 acc' st' st2 c st3 Hp Hrun Ht Hnext He Hc.
  unfold filter_expr_b. rewrite Hp. cbn [cbind].
  eapply pred_run_missing_close; eauto.
Qed.

(* ---- '(' : parenthesised expression ---- *)

Lemma primary_paren_trunc : forall f n st st1,
  typ st = ILParens -> pnext st = Ok st1 -> cannot_start (typ st1) = true ->
  is_err (primary_b f pexpr n st).
Proof.
  intros f n st st1 Ht Hnext Hbad. unfold primary_b. rewrite Ht, Hnext. cbn [cbind].
  apply is_err_bind. apply Hexpr. exact Hbad.
Qed.

Lemma primary_paren_missing_close : forall f n st st1 o st2,
  typ st = ILParens -> pnext st = Ok st1 -> pexpr n st1 = Ok (o, st2) ->
  typ st2 <> IRParens ->
  primary_b f pexpr n st = Err "has an invalid token".
Proof.
  intros f n st st1 o st2 Ht Hnext He Hc. unfold primary_b. rewrite Ht, Hnext. cbn [cbind].
  rewrite He. cbn [cbind]. cbv zeta. rewrite skip_item_wrong by exact Hc. reflexivity.
Qed.

(* '$' not followed by a name *)
Lemma primary_dollar_trunc : forall f n st st1,
  typ st = IDollar -> pnext st = Ok st1 -> typ st1 <> IName ->
  primary_b f pexpr n st = Err "has an invalid token".
Proof.
  intros f n st st1 Ht Hnext Hc. unfold primary_b. rewrite Ht, Hnext. cbn [cbind].
  rewrite check_item_wrong by exact Hc. reflexivity.
Qed.

(* ---- '(' and ',' : function calls ---- *)

Lemma primary_name_is_method : forall f n st,
  typ st = IName -> primary_b f pexpr n st = method_b f pexpr st.
Proof. intros f n st Ht. unfold primary_b. rewrite Ht. reflexivity. Qed.

(* "f(" followed by a token that is neither ')' nor the start of an expression *)
Lemma method_open_trunc : forall f st st1 st2,
  typ st = IName -> pnext st = Ok st1 -> typ st1 = ILParens -> pnext st1 = Ok st2 ->
  typ st2 <> IRParens -> cannot_start (typ st2) = true ->
  is_err (method_b (S f) pexpr st).
Proof.
  intros f st st1 st2 Ht Hn Ht1 Hn1 Hnr Hbad. unfold method_b. cbv zeta.
  rewrite skip_item_right by exact Ht. rewrite Hn. cbn [cbind].
  rewrite skip_item_right by exact Ht1. rewrite Hn1. cbn [cbind].
  rewrite is_typ_false by exact Hnr. cbn [args_loop].
  apply is_err_bind. apply is_err_bind. apply Hexpr. exact Hbad.
Qed.

(* a function name not followed by '(' (cannot happen after the scanner's
   canBeFunc look-ahead, but the parser checks it) *)
Lemma method_missing_open : forall f st st1,
  typ st = IName -> pnext st = Ok st1 -> typ st1 <> ILParens ->
  method_b f pexpr st = Err "has an invalid token".
Proof.
  intros f st st1 Ht Hn Hc. unfold method_b. cbv zeta.
  rewrite skip_item_right by exact Ht. rewrite Hn. cbn [cbind].
  rewrite skip_item_wrong by exact Hc. reflexivity.
Qed.

(* complete "arg ," rounds of the argument loop *)
Inductive args_run : list anode -> pst -> list anode -> pst -> nat -> Prop :=
| ar_nil : forall acc st, args_run acc st acc st 0
| ar_cons : forall acc st a st1 st2 acc' st' k,
    pexpr None st = Ok (a, st1) -> typ st1 = IComma -> pnext st1 = Ok st2 ->
    args_run (acc ++ [a]) st2 acc' st' k -> args_run acc st acc' st' (S k).

Lemma args_loop_run : forall acc st acc' st' k,
  args_run acc st acc' st' k ->
  forall fuel, args_loop (k + fuel) pexpr acc st = args_loop fuel pexpr acc' st'.
Proof.
  intros acc st acc' st' k Hrun.
  induction Hrun as [acc st | acc st a st1 st2 acc' st' k He Ht Hn Hrun IH];
    intros fuel; [reflexivity|].
  cbn [plus args_loop]. rewrite He. cbn [cbind].
  rewrite is_typ_false by (rewrite Ht; discriminate).
  rewrite skip_item_right by exact Ht. rewrite Hn. cbn [cbind]. apply IH.
Qed.

(* "f(a1, ..., ak," followed by a token that cannot start an expression
   (this includes ')' : "f(a,)" is an error) *)
Theorem args_loop_comma_trunc : forall acc st acc' st' k f,
  args_run acc st acc' st' k -> cannot_start (typ st') = true ->
  is_err (args_loop (k + S f) pexpr acc st).
Proof.
  intros acc st acc' st' k f Hrun Hbad.
  rewrite (args_loop_run _ _ _ _ _ Hrun). cbn [args_loop].
  apply is_err_bind. apply Hexpr. exact Hbad.
Qed.

(* "f(a1, ..., ak, a" followed by neither ')' nor ',' : the missing ')' of a call *)
Theorem args_loop_missing_close : forall acc st acc' st' k f a st1,
  args_run acc st acc' st' k -> pexpr None st' = Ok (a, st1) ->
  typ st1 <> IRParens -> typ st1 <> IComma ->
  args_loop (k + S f) pexpr acc st = Err "has an invalid token".
Proof.
  intros acc st acc' st' k f a st1 Hrun He Hc1 Hc2.
  rewrite (args_loop_run _ _ _ _ _ Hrun). cbn [args_loop]. rewrite He. cbn [cbind].
  rewrite is_typ_false by exact Hc1. rewrite skip_item_wrong by exact Hc2. reflexivity.
Qed.

(* lifted to parseMethod *)
Lemma method_args_err : forall f st st1 st2,
  typ st = IName -> pnext st = Ok st1 -> typ st1 = ILParens -> pnext st1 = Ok st2 ->
  typ st2 <> IRParens -> is_err (args_loop f pexpr [] st2) ->
  is_err (method_b f pexpr st).
Proof.
  intros f st st1 st2 Ht Hn Ht1 Hn1 Hnr Herr. unfold method_b. cbv zeta.
  rewrite skip_item_right by exact Ht. rewrite Hn. cbn [cbind].
  rewrite skip_item_right by exact Ht1. rewrite Hn1. cbn [cbind].
  rewrite is_typ_false by exact Hnr. apply is_err_bind. exact Herr.
Qed.

(* ---- '(' and ',' : parseSequence inside parseStep ---- *)

Lemma seq_loop_comma_trunc : forall f n acc st st1,
  typ st = IComma -> pnext st = Ok st1 -> cannot_start_step (typ st1) = true ->
  is_err (seq_loop (S f) pstep n acc st).
Proof.
  intros f n acc st st1 Ht Hnext Hbad. cbn [seq_loop].
  rewrite is_typ_refl by exact Ht. rewrite Hnext. cbn [cbind].
  apply is_err_bind. apply Hstep. exact Hbad.
Qed.

Inductive seq_run (n : option anode) : anode -> pst -> anode -> pst -> nat -> Prop :=
| sr_nil : forall acc st, seq_run n acc st acc st 0
| sr_cons : forall acc st st1 o2 st2 acc' st' k,
    typ st = IComma -> pnext st = Ok st1 -> pstep n st1 = Ok (o2, st2) ->
    seq_run n (AOp "|" acc o2) st2 acc' st' k -> seq_run n acc st acc' st' (S k).

Lemma seq_loop_run : forall n acc st acc' st' k,
  seq_run n acc st acc' st' k ->
  forall fuel, seq_loop (k + fuel) pstep n acc st = seq_loop fuel pstep n acc' st'.
Proof.
  intros n acc st acc' st' k Hrun.
  induction Hrun as [acc st | acc st st1 o2 st2 acc' st' k Ht Hn He Hrun IH];
    intros fuel; [reflexivity|].
  cbn [plus seq_loop]. rewrite is_typ_refl by exact Ht. rewrite Hn. cbn [cbind].
  rewrite He. cbn [cbind]. apply IH.
Qed.

Theorem seq_run_comma_trunc : forall n acc st acc' st' k f st1,
  seq_run n acc st acc' st' k ->
  typ st' = IComma -> pnext st' = Ok st1 -> cannot_start_step (typ st1) = true ->
  is_err (seq_loop (k + S f) pstep n acc st).
Proof.
  intros n acc st acc' st' k f st1 Hrun Ht Hn Hbad.
  rewrite (seq_loop_run _ _ _ _ _ _ Hrun). eapply seq_loop_comma_trunc; eauto.
Qed.

(* "(" in step position followed by a token that cannot start a step *)
Lemma step_paren_trunc : forall f n st st1,
  typ st = ILParens -> pnext st = Ok st1 -> cannot_start_step (typ st1) = true ->
  is_err (step_b ns f pexpr pstep n st).
Proof.
  intros f n st st1 Ht Hnext Hbad. unfold step_b.
  rewrite (is_typ_false st IDot) by (rewrite Ht; discriminate).
  rewrite (is_typ_false st IDotDot) by (rewrite Ht; discriminate).
  cbn [orb]. rewrite Ht. cbv zeta.
  destruct (Nat.ltb max_depth (S (p_d st))); [apply is_err_Err|].
  rewrite skip_item_right by exact Ht.
  rewrite (pnext_depth _ _ (S (p_d st)) Hnext). cbn [cbind].
  apply is_err_bind. apply Hstep. exact Hbad.
Qed.

(* "( step , step ... " not followed by ')' *)
Lemma step_paren_missing_close : forall f n st st1 o st2 o' st3,
  typ st = ILParens -> pnext st = Ok st1 ->
  pstep n (mkP (p_s st1) (S (p_d st))) = Ok (o, st2) ->
  seq_loop f pstep n o st2 = Ok (o', st3) ->
  typ st3 <> IRParens ->
  is_err (step_b ns f pexpr pstep n st).
Proof.
  intros f n st st1 o st2 o' st3 Ht Hnext H1 H2 Hc. unfold step_b.
  rewrite (is_typ_false st IDot) by (rewrite Ht; discriminate).
  rewrite (is_typ_false st IDotDot) by (rewrite Ht; discriminate).
  cbn [orb]. rewrite Ht. cbv zeta.
  destruct (Nat.ltb max_depth (S (p_d st))); [apply is_err_Err|].
  rewrite skip_item_right by exact Ht.
  rewrite (pnext_depth _ _ (S (p_d st)) Hnext). cbn [cbind].
  rewrite H1. cbn [cbind]. rewrite H2. cbn [cbind].
  rewrite skip_item_wrong by exact Hc. apply is_err_Err.
Qed.

(* ---- '@' and 'axis::' ---- *)

Lemma step_at_trunc : forall f n st st1,
  typ st = IAt -> pnext st = Ok st1 -> is_nodetest_start (typ st1) = false ->
  step_b ns f pexpr pstep n st = Err "expression must evaluate to a node-set".
Proof.
  intros f n st st1 Ht Hnext Hbad. unfold step_b.
  rewrite (is_typ_false st IDot) by (rewrite Ht; discriminate).
  rewrite (is_typ_false st IDotDot) by (rewrite Ht; discriminate).
  cbn [orb]. rewrite Ht, Hnext. cbn [cbind]. cbv zeta.
  rewrite parse_node_test_bad; [reflexivity| |];
    intro E; rewrite E in Hbad; discriminate Hbad.
Qed.

Lemma step_axis_trunc : forall f n st st1,
  typ st = IAxe -> pnext st = Ok st1 -> is_nodetest_start (typ st1) = false ->
  step_b ns f pexpr pstep n st = Err "expression must evaluate to a node-set".
Proof.
  intros f n st st1 Ht Hnext Hbad. unfold step_b.
  rewrite (is_typ_false st IDot) by (rewrite Ht; discriminate).
  rewrite (is_typ_false st IDotDot) by (rewrite Ht; discriminate).
  cbn [orb]. rewrite Ht. cbv zeta. rewrite Hnext. cbn [cbind].
  rewrite parse_node_test_bad; [reflexivity| |];
    intro E; rewrite E in Hbad; discriminate Hbad.
Qed.

(* node-type test "text(" / "node(" ... : the '(' and ')' are compulsory *)
Lemma node_type_test_missing_close : forall n axis mt st st1 st2,
  typ st = IName -> andb (s_canfunc (p_s st)) (is_node_type st) = true ->
  pnext st = Ok st1 -> typ st1 = ILParens -> pnext st1 = Ok st2 ->
  typ st2 <> IRParens -> typ st2 <> IString ->
  parse_node_test ns n axis mt st = Err "has an invalid token".
Proof.
  intros n axis mt st st1 st2 Ht Hc Hn Ht1 Hn1 Hc1 Hc2. unfold parse_node_test.
  rewrite Ht, Hc. cbv zeta. rewrite Hn. cbn [cbind].
  rewrite skip_item_right by exact Ht1. rewrite Hn1. cbn [cbind].
  rewrite (is_typ_false st2 IRParens) by exact Hc1. cbn [negb].
  destruct (String.eqb (s_name (p_s st)) "processing-instruction"); cbn [andb].
  - rewrite check_item_wrong by exact Hc2. reflexivity.
  - cbn [cbind]. rewrite skip_item_wrong by exact Hc1. reflexivity.
Qed.

(* ---- "step [" : the predicate of a step ---- *)

Lemma step_name_eq : forall f n st,
  is_nodetest_start (typ st) = true ->
  step_b ns f pexpr pstep n st =
  (let* (o, st2) := parse_node_test ns n "child" NTElem st in pred_loop f pexpr o st2).
Proof.
  intros f n st Ht. unfold step_b, is_typ.
  destruct (typ st) eqn:Et; try discriminate Ht; reflexivity.
Qed.

(* "name[" / "*[" followed by a token that cannot start an expression *)
Lemma step_name_pred_trunc : forall f n st o st2 st3,
  is_nodetest_start (typ st) = true ->
  parse_node_test ns n "child" NTElem st = Ok (o, st2) ->
  typ st2 = ILBracket -> pnext st2 = Ok st3 -> cannot_start (typ st3) = true ->
  is_err (step_b ns (S f) pexpr pstep n st).
Proof.
  intros f n st o st2 st3 Ht Hp Ht2 Hn Hbad.
  rewrite step_name_eq by exact Ht. rewrite Hp. cbn [cbind].
  eapply pred_loop_open_trunc; eauto.
Qed.

(* "name[ expr" not followed by ']' *)
Lemma step_name_pred_missing_close : forall f n st o st2 st3 c st4,
  is_nodetest_start (typ st) = true ->
  parse_node_test ns n "child" NTElem st = Ok (o, st2) ->
  typ st2 = ILBracket -> pnext st2 = Ok st3 -> pexpr (Some o) st3 = Ok (c, st4) ->
  typ st4 <> IRBracket ->
  step_b ns (S f) pexpr pstep n st = Err "has an invalid token".
Proof.
  intros f n st o st2 st3 c st4 Ht Hp Ht2 Hn He Hc.
  rewrite step_name_eq by exact Ht. rewrite Hp. cbn [cbind].
  eapply pred_loop_missing_close; eauto.
Qed.

End Open.

(* the two hypotheses of the section hold for the real entry points *)
Lemma pgo_Hexpr : forall ns g n st,
  cannot_start (typ st) = true -> is_err (pgo ns (S (S g)) EExpr n st).
Proof. intros. apply pgo_expr_bad_start; [lia|assumption]. Qed.
Lemma pgo_Hstep : forall ns g n st,
  cannot_start_step (typ st) = true -> is_err (pgo ns (S g) EStep n st).
Proof. intros. apply pgo_step_bad_is_err; [lia|assumption]. Qed.

(* MAIN 4 — instances for the real parser [pgo] (entry parseStep) *)

(* "@" / "axis::" followed by anything but a name or '*' *)
Theorem pgo_step_after_at : forall ns f n st st1,
  typ st = IAt \/ typ st = IAxe -> pnext st = Ok st1 -> is_nodetest_start (typ st1) = false ->
  pgo ns (S f) EStep n st = Err "expression must evaluate to a node-set".
Proof.
  intros ns f n st st1 [Ht|Ht] Hn Hbad; rewrite pgo_S_step.
  - eapply step_at_trunc; eauto.
  - eapply step_axis_trunc; eauto.
Qed.

(* "(" in step position followed by a non-step *)
Theorem pgo_step_after_paren : forall ns f n st st1,
  typ st = ILParens -> pnext st = Ok st1 -> cannot_start_step (typ st1) = true ->
  is_err (pgo ns (S (S f)) EStep n st).
Proof.
  intros ns f n st st1 Ht Hn Hbad. rewrite pgo_S_step.
  eapply step_paren_trunc; eauto. intros; apply pgo_Hstep; assumption.
Qed.

(* "name[" followed by a token that cannot start an expression *)
Theorem pgo_step_after_bracket : forall ns f n st o st2 st3,
  is_nodetest_start (typ st) = true ->
  parse_node_test ns n "child" NTElem st = Ok (o, st2) ->
  typ st2 = ILBracket -> pnext st2 = Ok st3 -> cannot_start (typ st3) = true ->
  is_err (pgo ns (S (S (S f))) EStep n st).
Proof.
  intros ns f n st o st2 st3 Ht Hp Ht2 Hn Hbad. rewrite pgo_S_step.
  eapply step_name_pred_trunc; eauto. intros; apply pgo_Hexpr; assumption.
Qed.

(* "name[ expr" with the ']' missing *)
Theorem pgo_step_missing_rbracket : forall ns f n st o st2 st3 c st4,
  is_nodetest_start (typ st) = true ->
  parse_node_test ns n "child" NTElem st = Ok (o, st2) ->
  typ st2 = ILBracket -> pnext st2 = Ok st3 ->
  pgo ns (S f) EExpr (Some o) st3 = Ok (c, st4) -> typ st4 <> IRBracket ->
  pgo ns (S (S f)) EStep n st = Err "has an invalid token".
Proof.
  intros ns f n st o st2 st3 c st4 Ht Hp Ht2 Hn He Hc. rewrite pgo_S_step.
  eapply step_name_pred_missing_close; eauto.
Qed.

Print Assumptions pgo_step_after_at.
Print Assumptions pgo_step_after_paren.
Print Assumptions pgo_step_after_bracket.
Print Assumptions pgo_step_missing_rbracket.
Print Assumptions args_loop_comma_trunc.
Print Assumptions args_loop_missing_close.
Print Assumptions pred_run_open_trunc.
Print Assumptions pred_run_missing_close.

(* ------------------------------------------------------------------ *)
(** * 7. Item 7: the top level                                          *)
(* ------------------------------------------------------------------ *)

(* the first token cannot start an expression *)
Theorem parse_fuel_bad_first_token : forall f text ns s1,
  2 <= f ->
  next_item (init_scanner text) = Ok s1 -> cannot_start (s_typ s1) = true ->
  is_err (parse_fuel f text ns).
Proof.
  intros f text ns s1 Hf Hn Hbad. unfold parse_fuel. cbv zeta. rewrite Hn. cbn [cbind].
  apply is_err_bind. apply pgo_expr_bad_start; [exact Hf|exact Hbad].
Qed.

Theorem parse_bad_first_token : forall text ns s1,
  next_item (init_scanner text) = Ok s1 -> cannot_start (s_typ s1) = true ->
  exists msg, parse text ns = Err msg.
Proof.
  intros text ns s1 Hn Hbad. unfold parse.
  eapply parse_fuel_bad_first_token; eauto. unfold default_fuel. lia.
Qed.

(* the scanner fails on the first token *)
Theorem parse_first_token_scan_error : forall text ns e,
  next_item (init_scanner text) = Err e -> parse text ns = Err e.
Proof.
  intros text ns e Hn. unfold parse, parse_fuel. cbv zeta. rewrite Hn. reflexivity.
Qed.

(* empty / white-space-only input *)
Theorem parse_blank : forall text ns,
  skipsp (list_of_string text) = [] -> exists msg, parse text ns = Err msg.
Proof.
  intros text ns Hb.
  eapply parse_bad_first_token with
    (s1 := mkS [] IEOF "" "" "" fzero false); [|reflexivity].
  unfold next_item, init_scanner. cbv zeta. cbn [s_rest s_name s_prefix s_strval s_numval s_canfunc].
  rewrite Hb. reflexivity.
Qed.

Corollary parse_empty : forall ns, exists msg, parse "" ns = Err msg.
Proof. intros ns. apply parse_blank. reflexivity. Qed.

(* trailing garbage: parseExpression succeeded but did not reach EOF *)
Theorem parse_fuel_trailing_garbage : forall f text ns s1 a st,
  next_item (init_scanner text) = Ok s1 ->
  pgo ns f EExpr None (mkP s1 0) = Ok (a, st) ->
  typ st <> IEOF ->
  parse_fuel f text ns = Err "has an invalid token".
Proof.
  intros f text ns s1 a st Hn Hp Ht. unfold parse_fuel. cbv zeta. rewrite Hn. cbn [cbind].
  rewrite Hp. cbn [cbind]. rewrite check_item_wrong by exact Ht. reflexivity.
Qed.

Corollary parse_trailing_garbage : forall text ns s1 a st,
  next_item (init_scanner text) = Ok s1 ->
  pgo ns (default_fuel text) EExpr None (mkP s1 0) = Ok (a, st) ->
  typ st <> IEOF ->
  parse text ns = Err "has an invalid token".
Proof. intros. eapply parse_fuel_trailing_garbage; eauto. Qed.

(* any failure of parseExpression is a failure of parse *)
Theorem parse_fuel_pgo_err : forall f text ns s1,
  next_item (init_scanner text) = Ok s1 ->
  is_err (pgo ns f EExpr None (mkP s1 0)) -> is_err (parse_fuel f text ns).
Proof.
  intros f text ns s1 Hn He. unfold parse_fuel. cbv zeta. rewrite Hn. cbn [cbind].
  apply is_err_bind. exact He.
Qed.

(* complete characterisation of [parse text ns = Ok a] at the top level *)
Theorem parse_ok_iff : forall text ns a,
  parse text ns = Ok a <->
  exists s1 st,
    next_item (init_scanner text) = Ok s1 /\
    pgo ns (default_fuel text) EExpr None (mkP s1 0) = Ok (a, st) /\
    typ st = IEOF.
Proof.
  intros text ns a. split.
  - intros H. apply parse_ok_eof in H. exact H.
  - intros [s1 [st [Hn [Hp Ht]]]]. unfold parse, parse_fuel. cbv zeta.
    rewrite Hn. cbn [cbind]. rewrite Hp. cbn [cbind].
    unfold check_item. rewrite is_typ_refl by exact Ht. reflexivity.
Qed.

(* parse has exactly two outcomes *)
Corollary parse_ok_or_err : forall text ns,
  (exists a, parse text ns = Ok a) \/ (exists msg, parse text ns = Err msg).
Proof.
  intros text ns. pose proof (parse_terminates text ns) as Ht.
  destruct (parse text ns) as [a|e|]; [left; eauto|right; eauto|congruence].
Qed.

Print Assumptions parse_bad_first_token.
Print Assumptions parse_blank.
Print Assumptions parse_trailing_garbage.
Print Assumptions parse_ok_iff.

(* ------------------------------------------------------------------ *)
(** * 8. Examples                                                       *)
(* ------------------------------------------------------------------ *)

Definition rejects (text : string) : Prop :=
  match parse text None with Err _ => True | _ => False end.
Definition accepts (text : string) : Prop :=
  match parse text None with Ok _ => True | _ => False end.

(* split syntactic conjunctions only (never weak-head-normalise a leaf), then compute *)
Ltac conj_vm :=
  repeat (lazymatch goal with |- _ /\ _ => split end);
  vm_compute; first [reflexivity | exact I].

(* the truncation classes of C17 *)
Example rej_op        : rejects "a +".       Proof. vm_compute. exact I. Qed.
Example rej_slash     : rejects "a/".        Proof. vm_compute. exact I. Qed.
Example rej_slash2    : rejects "a//".       Proof. vm_compute. exact I. Qed.
Example rej_bracket   : rejects "a[".        Proof. vm_compute. exact I. Qed.
Example rej_call      : rejects "f(".        Proof. vm_compute. exact I. Qed.
Example rej_comma     : rejects "a,".        Proof. vm_compute. exact I. Qed.
Example rej_comma2    : rejects "f(a,".      Proof. vm_compute. exact I. Qed.
Example rej_comma3    : rejects "f(a,)".     Proof. vm_compute. exact I. Qed.
Example rej_seq       : rejects "x/(a,".     Proof. vm_compute. exact I. Qed.
Example rej_seq2      : rejects "x/(a".      Proof. vm_compute. exact I. Qed.
Example rej_seq3      : rejects "x/(".       Proof. vm_compute. exact I. Qed.
Example rej_seq4      : rejects "(a,".       Proof. vm_compute. exact I. Qed.
Example rej_at        : rejects "@".         Proof. vm_compute. exact I. Qed.
Example rej_axis      : rejects "child::".   Proof. vm_compute. exact I. Qed.
Example rej_nobr      : rejects "a[1".       Proof. vm_compute. exact I. Qed.
Example rej_nopar     : rejects "(a".        Proof. vm_compute. exact I. Qed.
Example rej_nopar2    : rejects "f(a".       Proof. vm_compute. exact I. Qed.
Example rej_noquote   : rejects "'abc".      Proof. vm_compute. exact I. Qed.
Example rej_noquote2  : rejects "a = ""abc". Proof. vm_compute. exact I. Qed.
Example rej_paren     : rejects "(".         Proof. vm_compute. exact I. Qed.
Example rej_sslash    : rejects "//".        Proof. vm_compute. exact I. Qed.
Example rej_ops :
  rejects "a or" /\ rejects "a and" /\ rejects "a =" /\ rejects "a !=" /\ rejects "a <" /\
  rejects "a <=" /\ rejects "a >" /\ rejects "a >=" /\ rejects "a -" /\ rejects "a *" /\
  rejects "a div" /\ rejects "a mod" /\ rejects "a |" /\ rejects "-".
Proof. conj_vm. Qed.
Example rej_first :
  rejects "" /\ rejects "   " /\ rejects ")" /\ rejects "]" /\ rejects "," /\ rejects "|" /\
  rejects "=" /\ rejects "!=" /\ rejects "<" /\ rejects "+" /\ rejects "[" /\ rejects "!".
Proof. conj_vm. Qed.
Example rej_trailing : rejects "a b" /\ rejects "a)" /\ rejects "a]" /\ rejects "1 2".
Proof. conj_vm. Qed.

(* ... and the undamaged expressions are accepted *)
Example acc_all :
  accepts "a + b" /\ accepts "a/b" /\ accepts "a//b" /\ accepts "a[1]" /\ accepts "f()" /\
  accepts "f(a,b)" /\ accepts "x/(a,b)" /\ accepts "@x" /\ accepts "child::x" /\ accepts "(a)" /\
  accepts "'abc'" /\ accepts "/".
Proof. conj_vm. Qed.

(* [cannot_start] is exact: every other token type starts some valid expression *)
Definition first_typ (text : string) : option itype :=
  match next_item (init_scanner text) with Ok s => Some (s_typ s) | _ => None end.

Example can_start_exact :
  (first_typ "-1" = Some IMinus /\ accepts "-1") /\
  (first_typ "'s'" = Some IString /\ accepts "'s'") /\
  (first_typ "1" = Some INumber /\ accepts "1") /\
  (first_typ "$x" = Some IDollar /\ accepts "$x") /\
  (first_typ "(1)" = Some ILParens /\ accepts "(1)") /\
  (first_typ "a" = Some IName /\ accepts "a") /\
  (first_typ "/" = Some ISlash /\ accepts "/") /\
  (first_typ "//a" = Some ISlashSlash /\ accepts "//a") /\
  (first_typ "." = Some IDot /\ accepts ".") /\
  (first_typ ".." = Some IDotDot /\ accepts "..") /\
  (first_typ "@a" = Some IAt /\ accepts "@a") /\
  (first_typ "child::a" = Some IAxe /\ accepts "child::a") /\
  (first_typ "*" = Some IStar /\ accepts "*").
Proof. conj_vm. Qed.

(* hypotheses of the main theorems are satisfiable on concrete states *)
Definition tok (text : string) : pst := start text.   (* state on the first token *)

Example ex_eof_state :
  typ (tok "") = IEOF /\
  pgo None 2 EExpr None (tok "") = Err "expression must evaluate to a node-set" /\
  pgo None 1 EStep None (tok "") = Err "expression must evaluate to a node-set".
Proof. conj_vm. Qed.

(* item 2 instance: in "a +" the add-level loop sits on '+', and the next token is EOF *)
Example ex_after_operator :
  exists st st1,
    level_op LAdd st = Some "+" /\ pnext st = Ok st1 /\ cannot_start (typ st1) = true.
Proof.
  exists (match pnext (tok "a +") with Ok s => s | _ => tok "" end).
  eexists. split; [vm_compute; reflexivity|]. split; [vm_compute; reflexivity|]. reflexivity.
Qed.

(* item 3 instance: "a/" *)
Example ex_after_slash :
  exists n' st',
    rel_run (pgo None 3 EStep) None (tok "a/") n' st' 1 /\ cannot_start_step (typ st') = true.
Proof.
  do 2 eexists. split.
  - eapply rr_slash; [vm_compute; reflexivity | reflexivity | vm_compute; reflexivity | apply rr_nil].
  - reflexivity.
Qed.

(* item 7 instance *)
Example ex_bad_first :
  exists s1, next_item (init_scanner ") a") = Ok s1 /\ cannot_start (s_typ s1) = true.
Proof. eexists. split; [vm_compute; reflexivity|reflexivity]. Qed.

(* ------------------------------------------------------------------ *)
(** * 9. Item 6: unclosed string literal                                *)
(* ------------------------------------------------------------------ *)

(* the rune positions after [l]: l, advance l, advance (advance l), ... *)
Fixpoint adv_n (k : nat) (l : list ascii) : list ascii :=
  match k with 0 => l | S k' => adv_n k' (advance l) end.

Lemma adv_n_nil : forall k, adv_n k [] = [].
Proof. induction k as [|k IH]; [reflexivity|]. cbn [adv_n]. exact IH. Qed.

(* no later rune equals the quote  ==>  the scan loop fails (any fuel) *)
Lemma scan_string_loop_none : forall fuel q l acc,
  (forall k, cur (adv_n k l) <> q) -> scan_string_loop fuel q l acc = None.
Proof.
  induction fuel as [|f IH]; intros q l acc H; cbn [scan_string_loop]; [reflexivity|].
  destruct l as [|b t]; [reflexivity|].
  pose proof (H 0) as H0. cbn [adv_n] in H0.
  apply N.eqb_neq in H0. rewrite H0.
  apply IH. intros k. exact (H (S k)).
Qed.

(* conversely, with enough fuel the loop fails ONLY IF no later rune equals the quote *)
Lemma scan_string_loop_none_inv : forall fuel q l acc,
  q <> 0%N -> List.length l < fuel ->
  scan_string_loop fuel q l acc = None -> forall k, cur (adv_n k l) <> q.
Proof.
  induction fuel as [|f IH]; intros q l acc Hq Hf H k; [lia|].
  cbn [scan_string_loop] in H.
  destruct l as [|b t].
  - rewrite adv_n_nil. rewrite cur_nil. congruence.
  - destruct (N.eqb (cur (b :: t)) q) eqn:E; [discriminate|].
    destruct k as [|k]; [cbn [adv_n]; apply N.eqb_neq; exact E|].
    cbn [adv_n]. eapply IH; [exact Hq| |exact H].
    assert (Hne : b :: t <> []) by discriminate.
    pose proof (advance_lt (b :: t) Hne). lia.
Qed.

Theorem scan_string_none_iff : forall l,
  cur l <> 0%N ->
  (scan_string l = None <-> forall k, cur (adv_n (S k) l) <> cur l).
Proof.
  intros l Hq. unfold scan_string. split.
  - intros H k. cbn [adv_n].
    destruct (scan_string_loop (S (List.length l)) (cur l) (advance l) []) as [[bs r]|] eqn:E;
      [discriminate|].
    eapply scan_string_loop_none_inv; [exact Hq| |exact E].
    pose proof (advance_le l). lia.
  - intros H. rewrite scan_string_loop_none; [reflexivity|].
    intros k. exact (H k).
Qed.

(* nextItem on an opening quote with no matching closing quote *)
Theorem next_item_unclosed : forall s,
  let l := skipsp (s_rest s) in
  (cur l = 34 \/ cur l = 39)%N ->
  (forall k, cur (adv_n (S k) l) <> cur l) ->
  next_item s = Err "xpath: scanString got unclosed string".
Proof.
  intros s l Hq Hno.
  assert (Hs : scan_string l = None).
  { apply scan_string_none_iff; [|exact Hno]. destruct Hq as [Hq|Hq]; rewrite Hq; discriminate. }
  unfold next_item. cbv zeta. fold l.
  destruct Hq as [Hq|Hq]; rewrite Hq; cbn [N.eqb Pos.eqb orb]; rewrite Hs; reflexivity.
Qed.

(* ---- the same at the level of BYTES: the quote byte does not occur again ---- *)

Ltac b2p :=
  repeat match goal with
  | H : andb _ _ = true |- _ => apply Bool.andb_true_iff in H; destruct H
  | H : N.leb _ _ = true |- _ => apply N.leb_le in H
  | H : N.leb _ _ = false |- _ => apply N.leb_gt in H
  | H : N.ltb _ _ = true |- _ => apply N.ltb_lt in H
  | H : N.ltb _ _ = false |- _ => apply N.ltb_ge in H
  | H : N.eqb _ _ = true |- _ => apply N.eqb_eq in H
  | H : N.eqb _ _ = false |- _ => apply N.eqb_neq in H
  end.

(* an ASCII rune is decoded from exactly one byte with that value *)
Lemma cur_small : forall b t, (cur (b :: t) < 128)%N -> cur (b :: t) = bN b.
Proof.
  intros b t. unfold cur, decode. cbv zeta.
  destruct (N.ltb (bN b) 128) eqn:E0; [reflexivity|].
  intros H. exfalso. revert H.
  repeat match goal with
  | |- context [if ?c then _ else _] => destruct c eqn:?
  | |- context [match ?x with [] => _ | _ :: _ => _ end] => destruct x
  end; cbn [fst]; unfold rune_error; intros H; unfold btw, cont in *; b2p; lia.
Qed.

Lemma cur_ascii_head : forall l q,
  (q < 128)%N -> q <> 0%N -> cur l = q -> exists t, l = ascii_of_N q :: t.
Proof.
  intros l q Hq H0 Hc. destruct l as [|b t]; [rewrite cur_nil in Hc; congruence|].
  exists t. f_equal. rewrite <- Hc. rewrite cur_small by (rewrite Hc; exact Hq).
  unfold bN. symmetry. apply ascii_N_embedding.
Qed.

Lemma in_skipn : forall A (x : A) n l, In x (skipn n l) -> In x l.
Proof.
  intros A x. induction n as [|n IH]; intros l H; [exact H|].
  destruct l as [|a l]; [exact H|]. right. apply IH. exact H.
Qed.

Lemma in_adv_n : forall x k l, In x (adv_n k l) -> In x l.
Proof.
  intros x. induction k as [|k IH]; intros l H; [exact H|].
  cbn [adv_n] in H. apply IH in H. unfold advance in H. eapply in_skipn; exact H.
Qed.

Lemma no_byte_no_rune : forall q l,
  (q < 128)%N -> q <> 0%N -> ~ In (ascii_of_N q) l -> forall k, cur (adv_n k l) <> q.
Proof.
  intros q l Hq H0 Hni k Hc.
  destruct (cur_ascii_head _ _ Hq H0 Hc) as [t Ht].
  apply Hni. apply (in_adv_n _ k). rewrite Ht. left. reflexivity.
Qed.

(* MAIN 6: an opening quote whose byte does not occur in the rest of the input *)
Theorem next_item_unclosed_bytes : forall s q,
  let l := skipsp (s_rest s) in
  (q = 34 \/ q = 39)%N -> cur l = q -> ~ In (ascii_of_N q) (advance l) ->
  next_item s = Err "xpath: scanString got unclosed string".
Proof.
  intros s q l Hq Hc Hni. apply next_item_unclosed; fold l.
  - rewrite Hc. exact Hq.
  - intros k. cbn [adv_n]. rewrite Hc.
    apply no_byte_no_rune; [destruct Hq; subst q; reflexivity
                           |destruct Hq; subst q; discriminate|exact Hni].
Qed.

(* lifted to the parser: the token after the current one is an unclosed string *)
Corollary pnext_unclosed : forall st q,
  let l := skipsp (s_rest (p_s st)) in
  (q = 34 \/ q = 39)%N -> cur l = q -> ~ In (ascii_of_N q) (advance l) ->
  pnext st = Err "xpath: scanString got unclosed string".
Proof.
  intros st q l Hq Hc Hni. unfold pnext.
  rewrite (next_item_unclosed_bytes (p_s st) q Hq Hc Hni). reflexivity.
Qed.

(* ... and to Compile when the literal is the first token *)
Corollary parse_unclosed_first : forall text ns q,
  let l := skipsp (list_of_string text) in
  (q = 34 \/ q = 39)%N -> cur l = q -> ~ In (ascii_of_N q) (advance l) ->
  parse text ns = Err "xpath: scanString got unclosed string".
Proof.
  intros text ns q l Hq Hc Hni. apply parse_first_token_scan_error.
  apply (next_item_unclosed_bytes (init_scanner text) q Hq Hc Hni).
Qed.

Print Assumptions scan_string_none_iff.
Print Assumptions next_item_unclosed.
Print Assumptions next_item_unclosed_bytes.
Print Assumptions parse_unclosed_first.

Example ex_unclosed :
  let l := skipsp (list_of_string "  'abc") in
  cur l = 39%N /\ ~ In (ascii_of_N 39) (advance l) /\
  parse "  'abc" None = Err "xpath: scanString got unclosed string".
Proof.
  split; [vm_compute; reflexivity|]. split.
  - vm_compute. intros H. repeat (destruct H as [H|H]; [discriminate H|]). exact H.
  - vm_compute. reflexivity.
Qed.

(* a closed literal is fine, and a quote of the OTHER kind does not close it *)
Example ex_closed : accepts "'abc'" /\ accepts "'a""c'" /\ rejects "'abc""".
Proof. conj_vm. Qed.

(* ------------------------------------------------------------------ *)
(** * 10. Propagation to the entry point parseExpression                *)
(* ------------------------------------------------------------------ *)

Section Up.
Variable ns : nsmap.
Variable g : nat.

(* a failure of the FIRST operand chain at any level is a failure of the "or" level *)
Lemma level_err_up : forall l n st,
  (l = LUnion -> typ st <> IMinus) ->
  is_err (level_fun ns g l n st) -> is_err (level_fun ns g LOr n st).
Proof.
  intros l n st Hm H. destruct l; cbn [level_fun] in *.
  - exact H.
  - do 1 apply bin_level_sub_err; exact H.
  - do 2 apply bin_level_sub_err; exact H.
  - do 3 apply bin_level_sub_err; exact H.
  - do 4 apply bin_level_sub_err; exact H.
  - do 5 apply bin_level_sub_err; exact H.
  - do 6 apply bin_level_sub_err. unfold unary_expr_b.
    rewrite minus_loop_stop by (apply Hm; reflexivity). cbn [cbind].
    apply is_err_bind. exact H.
Qed.

Lemma pgo_expr_of_or_err : forall n st,
  is_err (level_fun ns g LOr n (mkP (p_s st) (S (p_d st)))) ->
  is_err (pgo ns (S (S g)) EExpr n st).
Proof.
  intros n st H. rewrite pgo_S_expr. unfold expr_b. cbv zeta.
  destruct (Nat.ltb max_depth (S (p_d st))); [apply is_err_Err|].
  apply is_err_bind. exact H.
Qed.

(* MAIN 2': parseExpression itself fails when, at any of its seven levels, the
   leading operand chain "operand (op operand)*" is followed by an operator and then
   by a token that cannot start an expression *)
Theorem pgo_expr_trunc_after_operator : forall l n st a0 st' ops stm op st1,
  let st0 := mkP (p_s st) (S (p_d st)) in
  (l = LUnion -> typ st <> IMinus) ->
  level_sub ns g l n st0 = Ok (a0, st') ->
  bin_pre (level_op l) (level_sub ns g l n) st' ops stm ->
  level_op l stm = Some op -> pnext stm = Ok st1 -> cannot_start (typ st1) = true ->
  List.length ops <= g ->
  is_err (pgo ns (S (S g)) EExpr n st).
Proof.
  intros l n st a0 st' ops stm op st1 st0 Hm H0 Hrun Hop Hn Hbad Hlen.
  apply pgo_expr_of_or_err. apply (level_err_up l); [exact Hm|].
  eapply level_trunc_after_operator; eauto.
Qed.

End Up.

Print Assumptions pgo_expr_trunc_after_operator.

(* instance: "a +" — the add level, zero complete rounds, '+' then EOF *)
Example ex_pgo_after_plus :
  exists a0 st' st1,
    level_sub None 3 LAdd None (mkP (p_s (tok "a +")) 1) = Ok (a0, st') /\
    bin_pre (level_op LAdd) (level_sub None 3 LAdd None) st' [] st' /\
    level_op LAdd st' = Some "+" /\ pnext st' = Ok st1 /\ typ st1 = IEOF.
Proof.
  do 3 eexists. split; [vm_compute; reflexivity|].
  split; [apply pre_nil|].
  split; [vm_compute; reflexivity|]. split; [vm_compute; reflexivity|reflexivity].
Qed.

(* instance with one complete round: "a - b +" *)
Example ex_pgo_after_minus_plus :
  exists a0 st' ops stm st1,
    level_sub None 4 LAdd None (mkP (p_s (tok "a - b +")) 1) = Ok (a0, st') /\
    bin_pre (level_op LAdd) (level_sub None 4 LAdd None) st' ops stm /\ List.length ops = 1 /\
    level_op LAdd stm = Some "+" /\ pnext stm = Ok st1 /\ typ st1 = IEOF.
Proof.
  do 5 eexists. split; [vm_compute; reflexivity|].
  split; [eapply pre_step; [vm_compute; reflexivity | vm_compute; reflexivity
                           | vm_compute; reflexivity | apply pre_nil]|].
  split; [reflexivity|].
  split; [vm_compute; reflexivity|]. split; [vm_compute; reflexivity|reflexivity].
Qed.

(* instances for items 4 and 5 *)
Example ex_after_bracket :          (* "a[" *)
  exists o st2 st3,
    is_nodetest_start (typ (tok "a[")) = true /\
    parse_node_test None None "child" NTElem (tok "a[") = Ok (o, st2) /\
    typ st2 = ILBracket /\ pnext st2 = Ok st3 /\ cannot_start (typ st3) = true.
Proof.
  do 3 eexists. split; [reflexivity|]. split; [vm_compute; reflexivity|].
  split; [reflexivity|]. split; [vm_compute; reflexivity|reflexivity].
Qed.

Example ex_missing_rbracket :       (* "a[1" *)
  exists o st2 st3 c st4,
    parse_node_test None None "child" NTElem (tok "a[1") = Ok (o, st2) /\
    typ st2 = ILBracket /\ pnext st2 = Ok st3 /\
    pgo None 3 EExpr (Some o) st3 = Ok (c, st4) /\ typ st4 <> IRBracket.
Proof.
  do 5 eexists. split; [vm_compute; reflexivity|].
  split; [reflexivity|]. split; [vm_compute; reflexivity|].
  split; [vm_compute; reflexivity|]. vm_compute. discriminate.
Qed.

Definition tok2 (text : string) : pst :=      (* state on the third token *)
  match pnext (tok text) with
  | Ok s => match pnext s with Ok s' => s' | _ => tok "" end
  | _ => tok "" end.

Example ex_after_comma :            (* "f(a," : one complete "arg ," round, then EOF *)
  exists acc' st',
    args_run (pgo None 4 EExpr) [] (tok2 "f(a,") acc' st' 1 /\ cannot_start (typ st') = true.
Proof.
  do 2 eexists. split.
  - eapply ar_cons; [vm_compute; reflexivity | reflexivity | vm_compute; reflexivity | apply ar_nil].
  - reflexivity.
Qed.

Example ex_missing_rparen :         (* "f(a" : an argument followed by neither ')' nor ',' *)
  exists a st1,
    pgo None 4 EExpr None (tok2 "f(a") = Ok (a, st1) /\ typ st1 <> IRParens /\ typ st1 <> IComma.
Proof.
  do 2 eexists. split; [vm_compute; reflexivity|]. split; vm_compute; discriminate.
Qed.

Example ex_after_at :               (* "@" *)
  exists st1, typ (tok "@") = IAt /\ pnext (tok "@") = Ok st1 /\
              is_nodetest_start (typ st1) = false.
Proof. eexists. split; [reflexivity|]. split; [vm_compute; reflexivity|reflexivity]. Qed.

Example ex_after_axis :             (* "child::" *)
  exists st1, typ (tok "child::") = IAxe /\ pnext (tok "child::") = Ok st1 /\
              is_nodetest_start (typ st1) = false.
Proof. eexists. split; [reflexivity|]. split; [vm_compute; reflexivity|reflexivity]. Qed.
