// gencallgraph translates the compile-time call graph of the xpath engine into
// plain Coq data (Generated/CallGraph.v).
//
//	gencallgraph [-strict] <repo-dir> <out.v>
//
// The translator is NAME BASED and over-approximating; it uses go/ast, go/parser
// and go/token only (no type checker):
//
//   - nodes are the package-level functions ("build") and methods
//     ("parser.parseStep", receiver type without '*') reachable from the entry
//     points Compile, CompileWithNS and MustCompile;
//   - `f(...)` with f a package-level function gives the edge caller -> f;
//   - `x.m(...)` with x not an imported package gives an edge to EVERY method
//     named m declared in the package (whatever the type of x is);
//   - fmt.Xxx(..., arg, ...) gives implicit edges to the String methods that
//     fmt may call on arg, when the static type of arg can be recovered from the
//     declarations in the function (receiver, parameters, range variables, type
//     assertions, struct fields).  An argument of an interface type declared in
//     the package yields an edge to the String method of every implementing type;
//   - a function literal is inlined into its lexically enclosing function when
//     it is invoked on the spot, deferred, passed as an argument of a call, or
//     bound to a local variable that is called in the same function.  Every
//     other function literal (returned, stored in a struct field or in a
//     variable that is never called locally) ESCAPES: its body runs at
//     evaluation time, not during Compile, and is skipped;
//   - a function VALUE that is not called (`exprFunc = plusFunc`, `p.Test`,
//     `Func: reverseFunc`) gives no edge;
//   - calls into other packages (fmt, errors, strconv, unicode, regexp...) and
//     calls of function-typed variables / fields are not followed; they are
//     counted in the summary.
//
// An edge is STRUCTURAL when the receiver of the call (or the fmt argument) is a
// field of the caller's own receiver (`f.Input.Properties()` inside
// `(f *filterQuery) Properties()`), possibly through an index, a type assertion
// or a range variable over such a field: the recursion then descends a tree that
// was built before, it does not follow the input text.
//
// A function carries a DEPTH GUARD when its body contains, before the first call
// of a package function,
//
//	(a) an increment of a counter      c++ | c += 1 | c = c + 1
//	(b) `if c > K` / `if c >= K` (K an integer literal or a named integer
//	    constant of the package or of the function) whose body panics or returns
//	    (the function having an error result)
//	(c) and somewhere a decrement      c-- | c -= 1 | c = c - 1   (also inside
//	    a deferred function literal).
//
// The emitted limit is the largest counter value that passes the test (K for >,
// K-1 for >=).
package main

import (
	"bufio"
	"flag"
	"fmt"
	"go/ast"
	"go/build/constraint"
	"go/parser"
	"go/token"
	"os"
	"path/filepath"
	"sort"
	"strconv"
	"strings"
)

var entryPoints = []string{"Compile", "CompileWithNS", "MustCompile"}

// ---------------------------------------------------------------- declarations

type funcInfo struct {
	key      string // "name" or "Type.name"
	name     string
	recvName string // name of the receiver variable ("" if none or blank)
	recvType string // receiver type without '*'
	decl     *ast.FuncDecl
	file     string
}

type typeInfo struct {
	name     string
	expr     ast.Expr            // underlying type expression
	fields   map[string]ast.Expr // struct fields (named)
	embedded []string            // embedded type names (struct) / embedded interfaces
	imethods []string            // interface methods
	isIface  bool
	isStruct bool
}

type pkgInfo struct {
	fset    *token.FileSet
	funcs   map[string]*funcInfo   // by key
	methods map[string][]*funcInfo // by method name
	types   map[string]*typeInfo
	consts  map[string]int64
	imports map[string]bool // names under which packages are imported (any file)
}

func typeName(e ast.Expr) string {
	switch x := e.(type) {
	case *ast.Ident:
		return x.Name
	case *ast.StarExpr:
		return typeName(x.X)
	case *ast.ParenExpr:
		return typeName(x.X)
	case *ast.IndexExpr: // generic receiver
		return typeName(x.X)
	}
	return ""
}

// fileSelected evaluates the build constraints of a file with every tag true
// except "verif" (the observation hooks are not part of the engine).
func fileSelected(f *ast.File) bool {
	for _, cg := range f.Comments {
		if cg.Pos() >= f.Package {
			break
		}
		for _, c := range cg.List {
			if !constraint.IsGoBuild(c.Text) && !constraint.IsPlusBuild(c.Text) {
				continue
			}
			expr, err := constraint.Parse(c.Text)
			if err != nil {
				continue
			}
			if !expr.Eval(func(tag string) bool { return tag != "verif" }) {
				return false
			}
		}
	}
	return true
}

func intLit(e ast.Expr) (int64, bool) {
	switch x := e.(type) {
	case *ast.BasicLit:
		if x.Kind != token.INT {
			return 0, false
		}
		v, err := strconv.ParseInt(x.Value, 0, 64)
		return v, err == nil
	case *ast.ParenExpr:
		return intLit(x.X)
	}
	return 0, false
}

func collectConsts(gd *ast.GenDecl, into map[string]int64) {
	if gd.Tok != token.CONST {
		return
	}
	for _, s := range gd.Specs {
		vs := s.(*ast.ValueSpec)
		for i, n := range vs.Names {
			if i < len(vs.Values) {
				if v, ok := intLit(vs.Values[i]); ok {
					into[n.Name] = v
				}
			}
		}
	}
}

func load(dir string) (*pkgInfo, []string, error) {
	p := &pkgInfo{
		fset:    token.NewFileSet(),
		funcs:   map[string]*funcInfo{},
		methods: map[string][]*funcInfo{},
		types:   map[string]*typeInfo{},
		consts:  map[string]int64{},
		imports: map[string]bool{},
	}
	names, err := filepath.Glob(filepath.Join(dir, "*.go"))
	if err != nil {
		return nil, nil, err
	}
	sort.Strings(names)
	var used []string
	for _, fn := range names {
		if strings.HasSuffix(fn, "_test.go") {
			continue
		}
		f, err := parser.ParseFile(p.fset, fn, nil, parser.ParseComments)
		if err != nil {
			return nil, nil, err
		}
		if !fileSelected(f) {
			continue
		}
		used = append(used, filepath.Base(fn))
		for _, im := range f.Imports {
			path, _ := strconv.Unquote(im.Path.Value)
			name := path[strings.LastIndex(path, "/")+1:]
			if im.Name != nil {
				name = im.Name.Name
			}
			p.imports[name] = true
		}
		for _, d := range f.Decls {
			switch x := d.(type) {
			case *ast.FuncDecl:
				fi := &funcInfo{name: x.Name.Name, key: x.Name.Name, decl: x, file: filepath.Base(fn)}
				if x.Recv != nil && len(x.Recv.List) == 1 {
					r := x.Recv.List[0]
					fi.recvType = typeName(r.Type)
					fi.key = fi.recvType + "." + fi.name
					if len(r.Names) == 1 && r.Names[0].Name != "_" {
						fi.recvName = r.Names[0].Name
					}
				}
				if old, dup := p.funcs[fi.key]; dup {
					fmt.Fprintf(os.Stderr, "warning: %s declared twice (%s, %s); keeping the first\n", fi.key, old.file, fi.file)
					continue
				}
				p.funcs[fi.key] = fi
				if fi.recvType != "" {
					p.methods[fi.name] = append(p.methods[fi.name], fi)
				}
			case *ast.GenDecl:
				collectConsts(x, p.consts)
				if x.Tok != token.TYPE {
					continue
				}
				for _, s := range x.Specs {
					ts := s.(*ast.TypeSpec)
					p.types[ts.Name.Name] = newTypeInfo(ts)
				}
			}
		}
	}
	return p, used, nil
}

func newTypeInfo(ts *ast.TypeSpec) *typeInfo {
	ti := &typeInfo{name: ts.Name.Name, expr: ts.Type, fields: map[string]ast.Expr{}}
	switch t := ts.Type.(type) {
	case *ast.StructType:
		ti.isStruct = true
		for _, f := range t.Fields.List {
			if len(f.Names) == 0 {
				if n := typeName(f.Type); n != "" {
					ti.embedded = append(ti.embedded, n)
				}
				if se, ok := f.Type.(*ast.SelectorExpr); ok { // sync.RWMutex
					ti.fields[se.Sel.Name] = f.Type
				}
				continue
			}
			for _, n := range f.Names {
				ti.fields[n.Name] = f.Type
			}
		}
	case *ast.InterfaceType:
		ti.isIface = true
		for _, m := range t.Methods.List {
			if len(m.Names) == 0 {
				if n := typeName(m.Type); n != "" {
					ti.embedded = append(ti.embedded, n)
				}
				continue
			}
			for _, n := range m.Names {
				ti.imethods = append(ti.imethods, n.Name)
			}
		}
	}
	return ti
}

// methodSet returns the names of the methods of a declared (non interface) type,
// with the methods promoted from embedded package types.
func (p *pkgInfo) methodSet(t string, seen map[string]bool) map[string]string {
	out := map[string]string{} // method name -> key of the function
	if seen[t] {
		return out
	}
	seen[t] = true
	ti := p.types[t]
	if ti != nil {
		for _, e := range ti.embedded {
			for m, k := range p.methodSet(e, seen) {
				out[m] = k
			}
		}
	}
	for k, f := range p.funcs {
		if f.recvType == t {
			out[f.name] = k
		}
	}
	return out
}

func (p *pkgInfo) ifaceMethods(t string, seen map[string]bool) []string {
	if seen[t] {
		return nil
	}
	seen[t] = true
	ti := p.types[t]
	if ti == nil || !ti.isIface {
		return nil
	}
	out := append([]string{}, ti.imethods...)
	for _, e := range ti.embedded {
		out = append(out, p.ifaceMethods(e, seen)...)
	}
	return out
}

// stringMethodsFor returns the keys of the String methods fmt may call on a
// value whose static type is the package type t.
func (p *pkgInfo) stringMethodsFor(t string) []string {
	ti := p.types[t]
	if ti == nil {
		return nil
	}
	var out []string
	if ti.isIface {
		// every declared type that implements the interface (by method names)
		// and has a String method
		ms := p.ifaceMethods(t, map[string]bool{})
		var tnames []string
		for n, c := range p.types {
			if !c.isIface {
				tnames = append(tnames, n)
			}
		}
		sort.Strings(tnames)
		for _, n := range tnames {
			set := p.methodSet(n, map[string]bool{})
			ok := true
			for _, m := range ms {
				if _, has := set[m]; !has {
					ok = false
					break
				}
			}
			if k, has := set["String"]; ok && has {
				out = append(out, k)
			}
		}
		return out
	}
	if k, has := p.methodSet(t, map[string]bool{})["String"]; has {
		out = append(out, k)
	}
	return out
}

// ---------------------------------------------------------------- local types

type localEnv struct {
	p          *pkgInfo
	vars       map[string]ast.Expr // identifier -> declared / inferred type expression
	structural map[string]bool     // identifiers bound to (an element of) a field of the receiver
	funcVars   map[string]bool     // identifiers bound to function values (literals, parameters)
	ambiguous  map[string]bool     // identifiers declared several times with different types
	recv       string
}

// setVar records the type of an identifier; an identifier that is declared
// several times in the function with different types has no known type.
func (e *localEnv) setVar(name string, t ast.Expr) {
	if name == "_" || t == nil {
		return
	}
	if old, ok := e.vars[name]; ok && typeString(old) != typeString(t) {
		e.ambiguous[name] = true
	}
	e.vars[name] = t
}

func (e *localEnv) bound(name string) bool {
	_, ok := e.vars[name]
	return ok
}

func typeString(t ast.Expr) string {
	switch x := t.(type) {
	case nil:
		return "?"
	case *ast.Ident:
		return x.Name
	case *ast.StarExpr:
		return "*" + typeString(x.X)
	case *ast.SelectorExpr:
		return typeString(x.X) + "." + x.Sel.Name
	case *ast.ArrayType:
		return "[]" + typeString(x.Elt)
	case *ast.MapType:
		return "map[" + typeString(x.Key) + "]" + typeString(x.Value)
	case *ast.Ellipsis:
		return "..." + typeString(x.Elt)
	case *ast.FuncType:
		return fmt.Sprintf("func@%d", x.Pos())
	case *ast.InterfaceType:
		return fmt.Sprintf("interface@%d", x.Pos())
	case *ast.StructType:
		return fmt.Sprintf("struct@%d", x.Pos())
	}
	return fmt.Sprintf("%T@%d", t, t.Pos())
}

func (e *localEnv) bindFields(fl *ast.FieldList) {
	if fl == nil {
		return
	}
	for _, f := range fl.List {
		for _, n := range f.Names {
			if el, ok := f.Type.(*ast.Ellipsis); ok {
				e.setVar(n.Name, &ast.ArrayType{Elt: el.Elt})
			} else {
				e.setVar(n.Name, f.Type)
			}
			if _, ok := f.Type.(*ast.FuncType); ok {
				e.funcVars[n.Name] = true
			}
		}
	}
}

// isRecvField reports whether x denotes (part of) a field of the receiver.
func (e *localEnv) isRecvField(x ast.Expr) bool {
	switch v := x.(type) {
	case *ast.ParenExpr:
		return e.isRecvField(v.X)
	case *ast.StarExpr:
		return e.isRecvField(v.X)
	case *ast.IndexExpr:
		return e.isRecvField(v.X)
	case *ast.SliceExpr:
		return e.isRecvField(v.X)
	case *ast.TypeAssertExpr:
		return e.isRecvField(v.X)
	case *ast.Ident:
		return e.structural[v.Name]
	case *ast.SelectorExpr:
		if id, ok := v.X.(*ast.Ident); ok && e.recv != "" && id.Name == e.recv {
			return true
		}
		return e.isRecvField(v.X)
	}
	return false
}

// typeOf recovers a type expression for x, or nil.
func (e *localEnv) typeOf(x ast.Expr) ast.Expr {
	switch v := x.(type) {
	case *ast.ParenExpr:
		return e.typeOf(v.X)
	case *ast.BasicLit:
		return ast.NewIdent("string") // any builtin type will do
	case *ast.Ident:
		if t, ok := e.vars[v.Name]; ok && !e.ambiguous[v.Name] {
			return t
		}
		return nil
	case *ast.StarExpr:
		if t, ok := e.typeOf(v.X).(*ast.StarExpr); ok {
			return t.X
		}
		return nil
	case *ast.UnaryExpr:
		if v.Op == token.AND {
			if t := e.typeOf(v.X); t != nil {
				return &ast.StarExpr{X: t}
			}
		}
		return nil
	case *ast.CompositeLit:
		return v.Type
	case *ast.TypeAssertExpr:
		return v.Type // nil for x.(type)
	case *ast.IndexExpr:
		switch t := e.typeOf(v.X).(type) {
		case *ast.ArrayType:
			return t.Elt
		case *ast.MapType:
			return t.Value
		}
		return nil
	case *ast.SelectorExpr:
		t := e.typeOf(v.X)
		if t == nil {
			return nil
		}
		return e.fieldType(typeName(t), v.Sel.Name, map[string]bool{})
	case *ast.CallExpr:
		if id, ok := v.Fun.(*ast.Ident); ok {
			if f := e.p.funcs[id.Name]; f != nil && f.decl.Type.Results != nil && len(f.decl.Type.Results.List) == 1 && len(f.decl.Type.Results.List[0].Names) <= 1 {
				return f.decl.Type.Results.List[0].Type
			}
			if _, isType := e.p.types[id.Name]; isType {
				return id
			}
			switch id.Name {
			case "string", "int", "int64", "float64", "rune", "byte", "len", "bool", "uint64":
				return ast.NewIdent("int")
			}
		}
		return nil
	}
	return nil
}

func (e *localEnv) fieldType(tname, field string, seen map[string]bool) ast.Expr {
	if tname == "" || seen[tname] {
		return nil
	}
	seen[tname] = true
	ti := e.p.types[tname]
	if ti == nil {
		return nil
	}
	if t, ok := ti.fields[field]; ok {
		return t
	}
	for _, em := range ti.embedded {
		if t := e.fieldType(em, field, seen); t != nil {
			return t
		}
	}
	return nil
}

func newEnv(p *pkgInfo, f *funcInfo) *localEnv {
	e := &localEnv{p: p, vars: map[string]ast.Expr{}, structural: map[string]bool{}, funcVars: map[string]bool{}, ambiguous: map[string]bool{}, recv: f.recvName}
	e.bindFields(f.decl.Recv)
	e.bindFields(f.decl.Type.Params)
	e.bindFields(f.decl.Type.Results)
	if f.decl.Body == nil {
		return e
	}
	// flow-insensitive pass over the declarations of the body
	ast.Inspect(f.decl.Body, func(n ast.Node) bool {
		switch s := n.(type) {
		case *ast.FuncLit:
			e.bindFields(s.Type.Params)
			e.bindFields(s.Type.Results)
		case *ast.DeclStmt:
			if gd, ok := s.Decl.(*ast.GenDecl); ok && gd.Tok == token.VAR {
				for _, sp := range gd.Specs {
					vs := sp.(*ast.ValueSpec)
					for i, n := range vs.Names {
						if vs.Type != nil {
							e.setVar(n.Name, vs.Type)
							if _, ok := vs.Type.(*ast.FuncType); ok {
								e.funcVars[n.Name] = true
							}
						} else if i < len(vs.Values) && len(vs.Values) == len(vs.Names) {
							e.define(n.Name, vs.Values[i])
						}
					}
				}
			}
		case *ast.AssignStmt:
			if s.Tok == token.DEFINE {
				if len(s.Lhs) == len(s.Rhs) {
					for i, l := range s.Lhs {
						if id, ok := l.(*ast.Ident); ok {
							e.define(id.Name, s.Rhs[i])
						}
					}
				} else if len(s.Rhs) == 1 && len(s.Lhs) == 2 {
					// v, ok := x.(T) | v, ok := m[k]
					if id, ok := s.Lhs[0].(*ast.Ident); ok {
						switch r := s.Rhs[0].(type) {
						case *ast.TypeAssertExpr, *ast.IndexExpr:
							e.define(id.Name, r)
						}
					}
				}
			}
		case *ast.RangeStmt:
			if s.Tok == token.DEFINE {
				t := e.typeOf(s.X)
				if id, ok := s.Value.(*ast.Ident); ok && id.Name != "_" {
					switch tt := t.(type) {
					case *ast.ArrayType:
						e.setVar(id.Name, tt.Elt)
						if _, ok := tt.Elt.(*ast.FuncType); ok {
							e.funcVars[id.Name] = true
						}
					case *ast.MapType:
						e.setVar(id.Name, tt.Value)
					}
					if e.isRecvField(s.X) {
						e.structural[id.Name] = true
					}
				}
			}
		case *ast.TypeSwitchStmt:
			// switch v := x.(type): v keeps the static type of x (over-approximation)
			if as, ok := s.Assign.(*ast.AssignStmt); ok && len(as.Lhs) == 1 && len(as.Rhs) == 1 {
				if id, ok := as.Lhs[0].(*ast.Ident); ok {
					if ta, ok := as.Rhs[0].(*ast.TypeAssertExpr); ok {
						if t := e.typeOf(ta.X); t != nil {
							e.setVar(id.Name, t)
						} else {
							e.ambiguous[id.Name] = true
						}
						if e.isRecvField(ta.X) {
							e.structural[id.Name] = true
						}
					}
				}
			}
		}
		return true
	})
	return e
}

func (e *localEnv) define(name string, rhs ast.Expr) {
	if name == "_" {
		return
	}
	if _, ok := rhs.(*ast.FuncLit); ok {
		e.funcVars[name] = true
		return
	}
	if t := e.typeOf(rhs); t != nil {
		e.setVar(name, t)
		if _, ok := t.(*ast.FuncType); ok {
			e.funcVars[name] = true
		}
	} else if _, bound := e.vars[name]; bound {
		e.ambiguous[name] = true // redeclared with a type we cannot recover
	} else {
		e.vars[name] = nil
		e.ambiguous[name] = true
	}
	if e.isRecvField(rhs) {
		e.structural[name] = true
	}
}

// ---------------------------------------------------------------- edges

type edge struct {
	from, to   string
	structural bool
}

type callSite struct {
	e        edge
	implicit bool // through fmt
	pos      token.Pos
}

type funcFacts struct {
	calls       []callSite
	external    int // calls into imported packages
	dynamic     []string
	escaping    int // function literals skipped
	fmtUnknown  int // fmt arguments whose static type could not be recovered
	firstCall   token.Pos
	builtinConv int
}

var fmtFuncs = map[string]bool{
	"Sprintf": true, "Sprint": true, "Sprintln": true, "Errorf": true,
	"Fprintf": true, "Fprint": true, "Fprintln": true,
	"Printf": true, "Print": true, "Println": true, "Appendf": true, "Append": true, "Appendln": true,
}

// calledIdents returns the identifiers that occur in call position in body.
func calledIdents(body ast.Node) map[string]bool {
	out := map[string]bool{}
	ast.Inspect(body, func(n ast.Node) bool {
		if c, ok := n.(*ast.CallExpr); ok {
			if id, ok := c.Fun.(*ast.Ident); ok {
				out[id.Name] = true
			}
		}
		return true
	})
	return out
}

func analyse(p *pkgInfo, f *funcInfo) *funcFacts {
	facts := &funcFacts{}
	if f.decl.Body == nil {
		return facts
	}
	env := newEnv(p, f)
	called := calledIdents(f.decl.Body)

	var stack []ast.Node
	parent := func() ast.Node {
		if len(stack) == 0 {
			return nil
		}
		return stack[len(stack)-1]
	}
	addCall := func(to string, structural, implicit bool, pos token.Pos) {
		facts.calls = append(facts.calls, callSite{e: edge{f.key, to, structural}, implicit: implicit, pos: pos})
		if !implicit && (facts.firstCall == token.NoPos || pos < facts.firstCall) {
			facts.firstCall = pos
		}
	}
	var visit func(n ast.Node) bool
	visit = func(n ast.Node) bool {
		if n == nil {
			stack = stack[:len(stack)-1]
			return true
		}
		switch x := n.(type) {
		case *ast.FuncLit:
			keep := false
			switch par := parent().(type) {
			case *ast.CallExpr:
				keep = true // invoked on the spot (also defer/go) or passed as an argument
				_ = par
			case *ast.AssignStmt:
				for i, r := range par.Rhs {
					if r == ast.Expr(x) && i < len(par.Lhs) {
						if id, ok := par.Lhs[i].(*ast.Ident); ok && called[id.Name] {
							keep = true
						}
					}
				}
			case *ast.ValueSpec:
				for i, r := range par.Values {
					if r == ast.Expr(x) && i < len(par.Names) && called[par.Names[i].Name] {
						keep = true
					}
				}
			}
			if !keep {
				facts.escaping++
				return false // do not descend, and no matching nil call
			}
		case *ast.CallExpr:
			switch fun := x.Fun.(type) {
			case *ast.Ident:
				if env.funcVars[fun.Name] {
					facts.dynamic = append(facts.dynamic, fun.Name)
				} else if _, isLocal := env.vars[fun.Name]; isLocal {
					facts.dynamic = append(facts.dynamic, fun.Name)
				} else if g := p.funcs[fun.Name]; g != nil && g.recvType == "" {
					addCall(g.key, false, false, x.Pos())
				} else {
					facts.builtinConv++ // builtin, conversion
				}
			case *ast.SelectorExpr:
				if id, ok := fun.X.(*ast.Ident); ok && p.imports[id.Name] && !env.bound(id.Name) {
					facts.external++
					if id.Name == "fmt" && fmtFuncs[fun.Sel.Name] {
						for _, a := range x.Args {
							t := env.typeOf(a)
							if t == nil {
								if _, lit := a.(*ast.BasicLit); !lit {
									facts.fmtUnknown++
								}
								continue
							}
							tn := typeName(t)
							if tn == "" {
								facts.fmtUnknown++ // interface{}, slices...
								continue
							}
							for _, k := range p.stringMethodsFor(tn) {
								addCall(k, env.isRecvField(a), true, a.Pos())
							}
						}
					}
					break
				}
				ms := p.methods[fun.Sel.Name]
				// narrowing: the static type of the receiver expression is known
				if rt := env.typeOf(fun.X); rt != nil {
					base := rt
					if st, ok := base.(*ast.StarExpr); ok {
						base = st.X
					}
					if _, foreign := base.(*ast.SelectorExpr); foreign {
						facts.external++ // method of a type of another package (bytes.Buffer...)
						break
					}
					if id, ok := base.(*ast.Ident); ok {
						if ti := p.types[id.Name]; ti != nil && !ti.isIface {
							if _, isFunc := ti.expr.(*ast.FuncType); !isFunc {
								if k, has := p.methodSet(id.Name, map[string]bool{})[fun.Sel.Name]; has {
									addCall(k, env.isRecvField(fun.X), false, x.Pos())
									break
								}
								if env.fieldType(id.Name, fun.Sel.Name, map[string]bool{}) == nil {
									facts.external++ // method promoted from an embedded foreign type (sync.RWMutex)
									break
								}
							}
						}
					}
				}
				if len(ms) == 0 {
					// field of function type, or method of a foreign type
					if t := env.typeOf(fun); t != nil {
						if _, ok := t.(*ast.FuncType); ok {
							facts.dynamic = append(facts.dynamic, exprString(fun))
							break
						}
						if tn := typeName(t); tn != "" {
							if ti := p.types[tn]; ti != nil {
								if _, ok := ti.expr.(*ast.FuncType); ok {
									facts.dynamic = append(facts.dynamic, exprString(fun))
									break
								}
							}
						}
					}
					facts.external++
					break
				}
				st := env.isRecvField(fun.X)
				for _, m := range ms {
					addCall(m.key, st, false, x.Pos())
				}
			case *ast.FuncLit:
				// handled when visiting the literal
			case *ast.ParenExpr, *ast.ArrayType, *ast.MapType, *ast.StarExpr, *ast.InterfaceType, *ast.FuncType:
				facts.builtinConv++ // conversion
			default:
				facts.dynamic = append(facts.dynamic, exprString(x.Fun))
			}
		}
		stack = append(stack, n)
		return true
	}
	ast.Inspect(f.decl.Body, visit)
	return facts
}

func exprString(e ast.Expr) string {
	switch x := e.(type) {
	case *ast.Ident:
		return x.Name
	case *ast.SelectorExpr:
		return exprString(x.X) + "." + x.Sel.Name
	case *ast.StarExpr:
		return "*" + exprString(x.X)
	case *ast.ParenExpr:
		return "(" + exprString(x.X) + ")"
	case *ast.IndexExpr:
		return exprString(x.X) + "[...]"
	case *ast.CallExpr:
		return exprString(x.Fun) + "(...)"
	case *ast.BasicLit:
		return x.Value
	}
	return fmt.Sprintf("<%T>", e)
}

// ---------------------------------------------------------------- guards

type guard struct {
	fn      string
	counter string
	limit   int64
	how     string
}

func isOne(e ast.Expr) bool {
	v, ok := intLit(e)
	return ok && v == 1
}

// stepOf recognises c++ / c += 1 / c = c + 1 (delta +1) and the decrements (-1).
func stepOf(s ast.Stmt) (counter string, delta int) {
	switch x := s.(type) {
	case *ast.IncDecStmt:
		if x.Tok == token.INC {
			return exprString(x.X), 1
		}
		return exprString(x.X), -1
	case *ast.AssignStmt:
		if len(x.Lhs) != 1 || len(x.Rhs) != 1 {
			return "", 0
		}
		c := exprString(x.Lhs[0])
		switch x.Tok {
		case token.ADD_ASSIGN:
			if isOne(x.Rhs[0]) {
				return c, 1
			}
		case token.SUB_ASSIGN:
			if isOne(x.Rhs[0]) {
				return c, -1
			}
		case token.ASSIGN:
			if b, ok := x.Rhs[0].(*ast.BinaryExpr); ok {
				if b.Op == token.ADD && ((exprString(b.X) == c && isOne(b.Y)) || (exprString(b.Y) == c && isOne(b.X))) {
					return c, 1
				}
				if b.Op == token.SUB && exprString(b.X) == c && isOne(b.Y) {
					return c, -1
				}
			}
		}
	}
	return "", 0
}

func hasErrorResult(ft *ast.FuncType) bool {
	if ft.Results == nil {
		return false
	}
	for _, r := range ft.Results.List {
		if id, ok := r.Type.(*ast.Ident); ok && id.Name == "error" {
			return true
		}
	}
	return false
}

func detectGuard(p *pkgInfo, f *funcInfo, facts *funcFacts) (*guard, string) {
	if f.decl.Body == nil {
		return nil, ""
	}
	localConsts := map[string]int64{}
	incs := map[string]token.Pos{} // counter -> position of the first increment
	decs := map[string]bool{}
	ast.Inspect(f.decl.Body, func(n ast.Node) bool {
		switch s := n.(type) {
		case *ast.DeclStmt:
			if gd, ok := s.Decl.(*ast.GenDecl); ok {
				collectConsts(gd, localConsts)
			}
		case ast.Stmt:
			if c, d := stepOf(s); d == 1 {
				if _, seen := incs[c]; !seen {
					incs[c] = s.Pos()
				}
			} else if d == -1 {
				decs[c] = true
			}
		}
		return true
	})
	if len(incs) == 0 {
		return nil, ""
	}
	constOf := func(e ast.Expr) (int64, bool) {
		if v, ok := intLit(e); ok {
			return v, true
		}
		if id, ok := e.(*ast.Ident); ok {
			if v, ok := localConsts[id.Name]; ok {
				return v, true
			}
			if v, ok := p.consts[id.Name]; ok {
				return v, true
			}
		}
		return 0, false
	}
	var found *guard
	note := ""
	ast.Inspect(f.decl.Body, func(n ast.Node) bool {
		if _, ok := n.(*ast.FuncLit); ok {
			return false // the test must be in the function itself
		}
		ifs, ok := n.(*ast.IfStmt)
		if !ok || found != nil {
			return true
		}
		b, ok := ifs.Cond.(*ast.BinaryExpr)
		if !ok {
			return true
		}
		var counter string
		var limit int64
		lx, ly := exprString(b.X), exprString(b.Y)
		if _, isCounter := incs[lx]; isCounter {
			k, ok := constOf(b.Y)
			if !ok {
				note = fmt.Sprintf("%s: counter %s compared with a non constant (%s)", f.key, lx, ly)
				return true
			}
			switch b.Op {
			case token.GTR:
				counter, limit = lx, k
			case token.GEQ:
				counter, limit = lx, k-1
			default:
				return true
			}
		} else if _, isCounter := incs[ly]; isCounter {
			k, ok := constOf(b.X)
			if !ok {
				note = fmt.Sprintf("%s: counter %s compared with a non constant (%s)", f.key, ly, lx)
				return true
			}
			switch b.Op {
			case token.LSS:
				counter, limit = ly, k
			case token.LEQ:
				counter, limit = ly, k-1
			default:
				return true
			}
		} else {
			return true
		}
		// the increment must come first (it may be the init statement of the if)
		if incs[counter] > ifs.Cond.Pos() {
			note = fmt.Sprintf("%s: counter %s is tested before it is incremented", f.key, counter)
			return true
		}
		// the true branch must stop the descent
		stops, how := false, ""
		ast.Inspect(ifs.Body, func(m ast.Node) bool {
			switch y := m.(type) {
			case *ast.FuncLit:
				return false
			case *ast.CallExpr:
				if id, ok := y.Fun.(*ast.Ident); ok && id.Name == "panic" {
					stops, how = true, "panic"
				}
			case *ast.ReturnStmt:
				if hasErrorResult(f.decl.Type) && !stops {
					stops, how = true, "error return"
				}
			}
			return true
		})
		if !stops {
			note = fmt.Sprintf("%s: the test of %s neither panics nor returns an error", f.key, counter)
			return true
		}
		if !decs[counter] {
			note = fmt.Sprintf("%s: counter %s is never decremented", f.key, counter)
			return true
		}
		// the guard must precede the first call of a package function
		callBefore := false
		for _, c := range facts.calls {
			if !c.implicit && c.pos < ifs.Body.Pos() {
				callBefore = true
			}
		}
		if callBefore {
			note = fmt.Sprintf("%s: a package function is called before the test of %s", f.key, counter)
			return true
		}
		if limit < 0 {
			return true
		}
		found = &guard{fn: f.key, counter: counter, limit: limit, how: how}
		return true
	})
	if found != nil {
		return found, ""
	}
	return nil, note
}

// ---------------------------------------------------------------- graph algorithms

type graph struct {
	nodes []string
	adj   map[string][]edge
}

func sccs(g *graph, keep func(edge) bool) [][]string {
	index := map[string]int{}
	low := map[string]int{}
	on := map[string]bool{}
	var st []string
	var out [][]string
	next := 0
	var dfs func(v string)
	dfs = func(v string) {
		index[v], low[v] = next, next
		next++
		st = append(st, v)
		on[v] = true
		for _, e := range g.adj[v] {
			if !keep(e) {
				continue
			}
			if _, seen := index[e.to]; !seen {
				dfs(e.to)
				if low[e.to] < low[v] {
					low[v] = low[e.to]
				}
			} else if on[e.to] && index[e.to] < low[v] {
				low[v] = index[e.to]
			}
		}
		if low[v] == index[v] {
			var comp []string
			for {
				w := st[len(st)-1]
				st = st[:len(st)-1]
				on[w] = false
				comp = append(comp, w)
				if w == v {
					break
				}
			}
			sort.Strings(comp)
			out = append(out, comp)
		}
	}
	for _, v := range g.nodes {
		if _, seen := index[v]; !seen {
			dfs(v)
		}
	}
	sort.Slice(out, func(i, j int) bool { return out[i][0] < out[j][0] })
	return out
}

// findCycle returns a cycle v0 -> v1 -> ... -> v0 inside comp using only edges
// accepted by keep, or nil.
func findCycle(g *graph, comp []string, keep func(edge) bool) []string {
	in := map[string]bool{}
	for _, v := range comp {
		in[v] = true
	}
	color := map[string]int{}
	var path []string
	var res []string
	var dfs func(v string) bool
	dfs = func(v string) bool {
		color[v] = 1
		path = append(path, v)
		for _, e := range g.adj[v] {
			if !keep(e) || !in[e.to] {
				continue
			}
			if color[e.to] == 1 {
				i := len(path) - 1
				for path[i] != e.to {
					i--
				}
				res = append(append([]string{}, path[i:]...), e.to)
				return true
			}
			if color[e.to] == 0 && dfs(e.to) {
				return true
			}
		}
		path = path[:len(path)-1]
		color[v] = 2
		return false
	}
	for _, v := range comp {
		if color[v] == 0 && dfs(v) {
			return res
		}
	}
	return nil
}

// ---------------------------------------------------------------- main

func main() {
	strict := flag.Bool("strict", false, "exit with status 1 when an unguarded cycle is found")
	flag.Usage = func() {
		fmt.Fprintln(os.Stderr, "usage: gencallgraph [-strict] <repo-dir> <out.v>")
	}
	flag.Parse()
	if flag.NArg() != 2 {
		flag.Usage()
		os.Exit(2)
	}
	dir, outPath := flag.Arg(0), flag.Arg(1)
	p, files, err := load(dir)
	if err != nil {
		fmt.Fprintln(os.Stderr, "gencallgraph:", err)
		os.Exit(2)
	}
	for _, e := range entryPoints {
		if p.funcs[e] == nil {
			fmt.Fprintf(os.Stderr, "gencallgraph: entry point %s not found in %s\n", e, dir)
			os.Exit(2)
		}
	}

	// reachability from the entry points
	facts := map[string]*funcFacts{}
	reach := map[string]bool{}
	work := append([]string{}, entryPoints...)
	for _, e := range entryPoints {
		reach[e] = true
	}
	for len(work) > 0 {
		k := work[0]
		work = work[1:]
		ff := analyse(p, p.funcs[k])
		facts[k] = ff
		for _, c := range ff.calls {
			if !reach[c.e.to] {
				reach[c.e.to] = true
				work = append(work, c.e.to)
			}
		}
	}
	var nodes []string
	for k := range reach {
		nodes = append(nodes, k)
	}
	sort.Strings(nodes)

	edgeSet := map[edge]bool{}
	implicitOnly := map[edge]bool{}
	for _, k := range nodes {
		for _, c := range facts[k].calls {
			if !edgeSet[c.e] {
				edgeSet[c.e] = true
				implicitOnly[c.e] = true
			}
			if !c.implicit {
				implicitOnly[c.e] = false
			}
		}
	}
	var edges []edge
	for e := range edgeSet {
		edges = append(edges, e)
	}
	sort.Slice(edges, func(i, j int) bool {
		a, b := edges[i], edges[j]
		if a.from != b.from {
			return a.from < b.from
		}
		if a.to != b.to {
			return a.to < b.to
		}
		return !a.structural && b.structural
	})

	var guards []*guard
	var notes []string
	guarded := map[string]*guard{}
	for _, k := range nodes {
		g, note := detectGuard(p, p.funcs[k], facts[k])
		if g != nil {
			guards = append(guards, g)
			guarded[k] = g
		} else if note != "" {
			notes = append(notes, note)
		}
	}

	// ------------------------------------------------------------ Coq output
	var b strings.Builder
	w := func(format string, a ...interface{}) { fmt.Fprintf(&b, format, a...) }
	w("(* GENERATED by go/cmd/gencallgraph from %s -- do not edit.\n", strings.Join(files, " "))
	w("   Compile-time call graph of the engine (name based, over-approximating):\n")
	w("   cg_nodes  functions reachable from Compile / CompileWithNS / MustCompile\n")
	w("   cg_edges  (caller, callee, structural); structural = the call descends a field\n")
	w("             of the caller's own receiver (an already built tree)\n")
	w("   cg_guards functions that carry a depth guard, with the largest counter value\n")
	w("             the guard lets through *)\n")
	w("From Coq Require Import List String.\nImport ListNotations.\nOpen Scope string_scope.\n\n")
	w("Definition cg_nodes : list string :=\n  [")
	for i, n := range nodes {
		if i > 0 {
			w(";\n   ")
		}
		w(" %q", n)
	}
	w(" ].\n\n")
	w("Definition cg_edges : list (string * string * bool) :=\n  [")
	for i, e := range edges {
		if i > 0 {
			w(";\n   ")
		}
		w(" (%q, %q, %t)", e.from, e.to, e.structural)
	}
	w(" ].\n\n")
	w("Definition cg_guards : list (string * nat) :=\n  [")
	for i, g := range guards {
		if i > 0 {
			w(";\n   ")
		}
		w(" (%q, %d)", g.fn, g.limit)
	}
	w(" ].\n")
	if err := os.MkdirAll(filepath.Dir(outPath), 0o755); err != nil {
		fmt.Fprintln(os.Stderr, "gencallgraph:", err)
		os.Exit(2)
	}
	if err := os.WriteFile(outPath, []byte(b.String()), 0o644); err != nil {
		fmt.Fprintln(os.Stderr, "gencallgraph:", err)
		os.Exit(2)
	}

	// ------------------------------------------------------------ summary
	out := bufio.NewWriter(os.Stdout)
	defer out.Flush()
	fmt.Fprintf(out, "gencallgraph: files %s\n", strings.Join(files, " "))
	fmt.Fprintf(out, "nodes %d, edges %d (structural %d), guards %d -> %s\n", len(nodes), len(edges), countStructural(edges), len(guards), outPath)
	for _, g := range guards {
		fmt.Fprintf(out, "guard  %-28s counter %-14s limit %-5d (%s)\n", g.fn, g.counter, g.limit, g.how)
	}
	for _, n := range notes {
		fmt.Fprintf(out, "note   not a guard: %s\n", n)
	}
	ext, dyn, esc, unk := 0, 0, 0, 0
	dynNames := map[string]bool{}
	for _, k := range nodes {
		ext += facts[k].external
		dyn += len(facts[k].dynamic)
		for _, d := range facts[k].dynamic {
			dynNames[k+": "+d] = true
		}
		esc += facts[k].escaping
		unk += facts[k].fmtUnknown
	}
	fmt.Fprintf(out, "not followed: %d calls into other packages, %d calls of function values, %d escaping function literals, %d fmt arguments of unknown static type\n", ext, dyn, esc, unk)
	var dl []string
	for d := range dynNames {
		dl = append(dl, d)
	}
	sort.Strings(dl)
	for _, d := range dl {
		fmt.Fprintf(out, "  function value called in %s\n", d)
	}
	var impl []string
	for _, e := range edges {
		if implicitOnly[e] {
			impl = append(impl, fmt.Sprintf("%s -> %s%s", e.from, e.to, map[bool]string{true: " [structural]", false: ""}[e.structural]))
		}
	}
	if len(impl) > 0 {
		fmt.Fprintf(out, "implicit edges (String methods fmt may call): %d\n", len(impl))
		for _, s := range impl {
			fmt.Fprintf(out, "  %s\n", s)
		}
	}

	g := &graph{nodes: nodes, adj: map[string][]edge{}}
	for _, e := range edges {
		g.adj[e.from] = append(g.adj[e.from], e)
	}
	all := func(edge) bool { return true }
	residual := func(e edge) bool { return !e.structural && guarded[e.from] == nil && guarded[e.to] == nil }
	bad := 0
	fmt.Fprintf(out, "cycles (strongly connected components of the full graph):\n")
	ncyc := 0
	for _, comp := range sccs(g, all) {
		self := false
		if len(comp) == 1 {
			for _, e := range g.adj[comp[0]] {
				if e.to == comp[0] {
					self = true
				}
			}
			if !self {
				continue
			}
		}
		ncyc++
		in := map[string]bool{}
		for _, v := range comp {
			in[v] = true
		}
		var gs []string
		structuralOnly := true
		for _, v := range comp {
			if guarded[v] != nil {
				gs = append(gs, v)
			}
			for _, e := range g.adj[v] {
				if in[e.to] && !e.structural {
					structuralOnly = false
				}
			}
		}
		fmt.Fprintf(out, "  cycle #%d (%d functions): %s\n", ncyc, len(comp), strings.Join(comp, " "))
		switch {
		case structuralOnly:
			fmt.Fprintf(out, "    structural edges only (descends an already built tree)\n")
		case len(gs) > 0:
			fmt.Fprintf(out, "    guarded functions: %s\n", strings.Join(gs, " "))
		default:
			fmt.Fprintf(out, "    NO guarded function\n")
		}
		if cyc := findCycle(g, comp, residual); cyc != nil {
			bad++
			fmt.Fprintf(out, "    UNGUARDED CYCLE (no guarded function, no structural edge): %s\n", strings.Join(cyc, " -> "))
		} else if !structuralOnly {
			fmt.Fprintf(out, "    every cycle passes through a guarded function or a structural edge\n")
		}
	}
	if ncyc == 0 {
		fmt.Fprintf(out, "  none\n")
	}
	if bad == 0 {
		fmt.Fprintf(out, "RESULT: OK, the graph without guarded functions and structural edges is acyclic\n")
	} else {
		fmt.Fprintf(out, "RESULT: FAIL, %d component(s) with an unguarded cycle (callgraph_ok will not compile)\n", bad)
		if *strict {
			out.Flush()
			os.Exit(1)
		}
	}
}

func countStructural(es []edge) int {
	n := 0
	for _, e := range es {
		if e.structural {
			n++
		}
	}
	return n
}
