(* ParseTerm.v — GOAL A: [parse] never runs out of fuel; GOAL C: on success the
   parser stopped on the EOF token.

   Plan:  scanner progress lemmas  ->  pnext / skip_item  ->  loop combinators
   (parametric in the contract of the sub-parser)  ->  pgo by induction on fuel. *)
From XP Require Import Base F64 Doc Ast Scan Parse.
Require Import Lia.
Open Scope nat_scope.
Open Scope list_scope.

(* ------------------------------------------------------------------ *)
(** * 1. Scanner: every primitive moves forward                         *)
(* ------------------------------------------------------------------ *)

Lemma cur_size_pos : forall l, l <> [] -> 1 <= cur_size l.
Proof.
  intros l Hl. destruct l as [|b0 t]; [congruence|].
  unfold cur_size, decode. cbv zeta.
  repeat match goal with
  | |- context [if ?c then _ else _] => destruct c
  | |- context [match ?x with [] => _ | _ :: _ => _ end] => destruct x
  end; cbn [snd]; lia.
Qed.

Lemma cur_nil : cur [] = 0%N.
Proof. reflexivity. Qed.

Lemma cur_nonzero_nonnil : forall l, cur l <> 0%N -> l <> [].
Proof. intros l H E. subst l. apply H. reflexivity. Qed.

Lemma advance_le : forall l, List.length (advance l) <= List.length l.
Proof. intros l. unfold advance. rewrite skipn_length. lia. Qed.

Lemma advance_lt : forall l, l <> [] -> List.length (advance l) < List.length l.
Proof.
  intros l Hl. unfold advance. rewrite skipn_length.
  pose proof (cur_size_pos l Hl) as Hp.
  destruct l as [|b t]; [congruence|]. cbn [List.length]. lia.
Qed.

Lemma skip_space_le : forall fuel l, List.length (skip_space fuel l) <= List.length l.
Proof.
  induction fuel as [|f IH]; intros l; cbn [skip_space]; [lia|].
  destruct l as [|b t]; [lia|].
  destruct (is_space_rune (cur (b :: t))); [|lia].
  pose proof (IH (advance (b :: t))) as H1.
  pose proof (advance_le (b :: t)) as H2. lia.
Qed.

Lemma skipsp_le : forall l, List.length (skipsp l) <= List.length l.
Proof. intros l. apply skip_space_le. Qed.

Lemma scan_name_loop_le : forall fuel l acc bs r,
  scan_name_loop fuel l acc = (bs, r) -> List.length r <= List.length l.
Proof.
  induction fuel as [|f IH]; intros l acc bs r H; cbn [scan_name_loop] in H.
  - inversion H; subst; lia.
  - destruct l as [|b t]; [inversion H; subst; lia|].
    destruct (is_name_rune (cur (b :: t))).
    + apply IH in H. pose proof (advance_le (b :: t)). lia.
    + inversion H; subst; lia.
Qed.

Lemma scan_name_le : forall l nm r, scan_name l = (nm, r) -> List.length r <= List.length l.
Proof.
  intros l nm r H. unfold scan_name in H.
  destruct (scan_name_loop (S (List.length l)) l []) as [bs r0] eqn:E.
  inversion H; subst. eapply scan_name_loop_le; eauto.
Qed.

Lemma scan_name_lt : forall l nm r,
  is_name_rune (cur l) = true -> l <> [] ->
  scan_name l = (nm, r) -> List.length r < List.length l.
Proof.
  intros l nm r Hn Hl H. unfold scan_name in H.
  destruct (scan_name_loop (S (List.length l)) l []) as [bs r0] eqn:E.
  inversion H; subst. cbn [scan_name_loop] in E.
  destruct l as [|b t]; [congruence|]. rewrite Hn in E.
  apply scan_name_loop_le in E. pose proof (advance_lt (b :: t) Hl). lia.
Qed.

Lemma scan_string_loop_le : forall fuel q l acc bs r,
  scan_string_loop fuel q l acc = Some (bs, r) -> List.length r <= List.length l.
Proof.
  induction fuel as [|f IH]; intros q l acc bs r H; cbn [scan_string_loop] in H.
  - discriminate.
  - destruct l as [|b t]; [discriminate|].
    destruct (N.eqb (cur (b :: t)) q).
    + inversion H; subst. apply advance_le.
    + apply IH in H. pose proof (advance_le (b :: t)). lia.
Qed.

Lemma scan_string_lt : forall l str r,
  l <> [] -> scan_string l = Some (str, r) -> List.length r < List.length l.
Proof.
  intros l str r Hl H. unfold scan_string in H.
  destruct (scan_string_loop (S (List.length l)) (cur l) (advance l) []) as [[bs r0]|] eqn:E;
    [|discriminate].
  inversion H; subst. apply scan_string_loop_le in E.
  pose proof (advance_lt l Hl). lia.
Qed.

Lemma scan_digits_le : forall fuel l acc b ds ok r,
  scan_digits fuel l acc b = (ds, ok, r) -> List.length r <= List.length l.
Proof.
  induction fuel as [|f IH]; intros l acc b ds ok r H; cbn [scan_digits] in H.
  - inversion H; subst; lia.
  - destruct l as [|c t]; [inversion H; subst; lia|].
    destruct (is_digit_rune (cur (c :: t))).
    + apply IH in H. pose proof (advance_le (c :: t)). lia.
    + inversion H; subst; lia.
Qed.

Lemma scan_digits_lt : forall fuel l acc b ds ok r,
  is_digit_rune (cur l) = true -> l <> [] ->
  scan_digits (S fuel) l acc b = (ds, ok, r) -> List.length r < List.length l.
Proof.
  intros fuel l acc b ds ok r Hd Hl H. cbn [scan_digits] in H.
  destruct l as [|c t]; [congruence|]. rewrite Hd in H.
  apply scan_digits_le in H. pose proof (advance_lt (c :: t) Hl). lia.
Qed.

Lemma finish_number_fuel : forall ip fp ok, finish_number ip fp ok <> OutOfFuel.
Proof.
  intros ip fp ok. unfold finish_number.
  destruct ok; [|discriminate].
  destruct (of_decimal false ip fp); discriminate.
Qed.

Lemma scan_fraction_fuel : forall l, scan_fraction l <> OutOfFuel.
Proof.
  intros l. unfold scan_fraction.
  destruct (scan_digits (S (List.length l)) l [] true) as [[fp ok] r].
  pose proof (finish_number_fuel [] fp ok) as Hf.
  destruct (finish_number [] fp ok); cbn [cbind]; congruence.
Qed.

Lemma scan_fraction_le : forall l v r, scan_fraction l = Ok (v, r) -> List.length r <= List.length l.
Proof.
  intros l v r H. unfold scan_fraction in H.
  destruct (scan_digits (S (List.length l)) l [] true) as [[fp ok] r0] eqn:E.
  destruct (finish_number [] fp ok); cbn [cbind] in H; try discriminate.
  inversion H; subst. eapply scan_digits_le; eauto.
Qed.

Lemma scan_number_fuel : forall l, scan_number l <> OutOfFuel.
Proof.
  intros l. unfold scan_number. cbv zeta.
  destruct (scan_digits (S (List.length l)) l [] true) as [[ip ok1] r1].
  destruct (N.eqb (cur r1) 46).
  - destruct (scan_digits (S (List.length l)) (advance r1) [] true) as [[fp ok2] r2].
    pose proof (finish_number_fuel ip fp (andb ok1 ok2)) as Hf.
    destruct (finish_number ip fp (andb ok1 ok2)); cbn [cbind]; congruence.
  - pose proof (finish_number_fuel ip [] ok1) as Hf.
    destruct (finish_number ip [] ok1); cbn [cbind]; congruence.
Qed.

Lemma scan_number_lt : forall l v r,
  is_digit_rune (cur l) = true -> l <> [] ->
  scan_number l = Ok (v, r) -> List.length r < List.length l.
Proof.
  intros l v r Hd Hl H. unfold scan_number in H. cbv zeta in H.
  destruct (scan_digits (S (List.length l)) l [] true) as [[ip ok1] r1] eqn:E1.
  apply scan_digits_lt in E1; [|assumption|assumption].
  destruct (N.eqb (cur r1) 46).
  - destruct (scan_digits (S (List.length l)) (advance r1) [] true) as [[fp ok2] r2] eqn:E2.
    apply scan_digits_le in E2. pose proof (advance_le r1).
    destruct (finish_number ip fp (andb ok1 ok2)); cbn [cbind] in H; try discriminate.
    inversion H; subst. lia.
  - destruct (finish_number ip [] ok1); cbn [cbind] in H; try discriminate.
    inversion H; subst. lia.
Qed.

(* ------------------------------------------------------------------ *)
(** * 2. next_item                                                      *)
(* ------------------------------------------------------------------ *)

(* The scanner measure: bytes after the current token, plus one for the
   current token itself unless it is EOF. *)
Definition tokw (t : itype) : nat := match t with IEOF => 0 | _ => 1 end.
Definition ms (s : sstate) : nat := List.length (s_rest s) + tokw (s_typ s).

Lemma next_item_fuel : forall s, next_item s <> OutOfFuel.
Proof.
  intros s. unfold next_item. cbv zeta.
  repeat match goal with
  | |- (if ?c then _ else _) <> _ => destruct c
  end; try discriminate.
  - pose proof (scan_fraction_fuel (advance (skipsp (s_rest s)))) as Hf.
    destruct (scan_fraction (advance (skipsp (s_rest s)))) as [[v r]|e|];
      cbn [cbind]; congruence.
  - destruct (scan_string (skipsp (s_rest s))) as [[str r]|]; discriminate.
  - pose proof (scan_number_fuel (skipsp (s_rest s))) as Hf.
    destruct (scan_number (skipsp (s_rest s))) as [[v r]|e|]; cbn [cbind]; congruence.
  - destruct (scan_name (skipsp (s_rest s))) as [name r].
    repeat match goal with
    | |- (if ?c then _ else _) <> _ => destruct c
    | |- (let '(_, _) := ?x in _) <> _ => destruct x
    end; discriminate.
Qed.

(* Main scanner progress lemma: the new token, if it is not EOF, was cut out
   of the old rest, so it "costs" at least one byte. *)
Lemma next_item_ms : forall s s', next_item s = Ok s' -> ms s' <= List.length (s_rest s).
Proof.
  intros s s' H. unfold next_item in H. cbv zeta in H.
  pose proof (skipsp_le (s_rest s)) as Hsk.
  remember (skipsp (s_rest s)) as l eqn:El.
  destruct (N.eqb (cur l) 0) eqn:E0.
  { inversion H; subst s'. unfold ms; cbn [s_rest s_typ tokw]. lia. }
  assert (Hl : l <> []).
  { apply cur_nonzero_nonnil. intro Hc. rewrite Hc in E0. discriminate. }
  pose proof (advance_lt l Hl) as Ha.
  pose proof (advance_le (advance l)) as Haa.
  repeat match type of H with
  | (if ?c then _ else _) = _ =>
      lazymatch c with
      | N.eqb (cur l) _ => destruct c
      | N.eqb (cur (advance l)) _ => destruct c
      | orb _ _ => destruct c
      end
  | Ok _ = Ok _ => inversion H; subst s'; unfold ms; cbn [s_rest s_typ tokw]; lia
  | Err _ = Ok _ => discriminate
  end.
  - (* '.' *)
    destruct (is_digit_rune (cur (advance l))).
    + destruct (scan_fraction (advance l)) as [[v r]|e|] eqn:Ef; cbn [cbind] in H;
        try discriminate.
      apply scan_fraction_le in Ef.
      inversion H; subst s'; unfold ms; cbn [s_rest s_typ tokw]; lia.
    + inversion H; subst s'; unfold ms; cbn [s_rest s_typ tokw]; lia.
  - (* string *)
    destruct (scan_string l) as [[str r]|] eqn:Es; [|discriminate].
    apply scan_string_lt in Es; [|assumption].
    inversion H; subst s'; unfold ms; cbn [s_rest s_typ tokw]; lia.
  - (* number *)
    destruct (is_digit_rune (cur l)) eqn:Ed.
    + destruct (scan_number l) as [[v r]|e|] eqn:En; cbn [cbind] in H; try discriminate.
      apply scan_number_lt in En; [|assumption|assumption].
      inversion H; subst s'; unfold ms; cbn [s_rest s_typ tokw]; lia.
    + (* name *)
      destruct (is_name_rune (cur l)) eqn:En; [|discriminate].
      destruct (scan_name l) as [name r] eqn:Esn.
      apply scan_name_lt in Esn; [|assumption|assumption].
      pose proof (advance_le r) as Hr1.
      pose proof (advance_le (advance r)) as Hr2.
      pose proof (skipsp_le r) as Hr3.
      pose proof (advance_le (skipsp r)) as Hr4.
      pose proof (advance_le (advance (skipsp r))) as Hr5.
      destruct (N.eqb (cur r) 58).
      * destruct (N.eqb (cur (advance r)) 58).
        { pose proof (skipsp_le (advance (advance r))).
          inversion H; subst s'; unfold ms; cbn [s_rest s_typ tokw]; lia. }
        destruct (N.eqb (cur (advance r)) 42).
        { pose proof (skipsp_le (advance (advance r))).
          inversion H; subst s'; unfold ms; cbn [s_rest s_typ tokw]; lia. }
        destruct (is_name_rune (cur (advance r))); [|discriminate].
        destruct (scan_name (advance r)) as [name2 r2] eqn:Esn2.
        apply scan_name_le in Esn2. pose proof (skipsp_le r2).
        inversion H; subst s'; unfold ms; cbn [s_rest s_typ tokw]; lia.
      * destruct (N.eqb (cur (skipsp r)) 58).
        { destruct (N.eqb (cur (advance (skipsp r))) 58); [|discriminate].
          pose proof (skipsp_le (advance (advance (skipsp r)))).
          inversion H; subst s'; unfold ms; cbn [s_rest s_typ tokw]; lia. }
        pose proof (skipsp_le (skipsp r)).
        inversion H; subst s'; unfold ms; cbn [s_rest s_typ tokw]; lia.
Qed.

(* the two forms asked for *)
Corollary next_item_rest_le : forall s s',
  next_item s = Ok s' -> List.length (s_rest s') <= List.length (s_rest s).
Proof. intros s s' H. apply next_item_ms in H. unfold ms in H. lia. Qed.

Corollary next_item_rest_lt : forall s s',
  next_item s = Ok s' -> s_typ s' <> IEOF -> List.length (s_rest s') < List.length (s_rest s).
Proof.
  intros s s' H Ht. apply next_item_ms in H. unfold ms in H.
  destruct (s_typ s'); cbn [tokw] in H; try lia. congruence.
Qed.

(* GOAL C, scanner half: EOF is produced only at the end of the input or on a NUL rune *)
Lemma next_item_eof : forall s s',
  next_item s = Ok s' -> s_typ s' = IEOF ->
  skipsp (s_rest s) = [] \/ cur (skipsp (s_rest s)) = 0%N.
Proof.
  intros s s' H Ht. right. unfold next_item in H. cbv zeta in H.
  remember (skipsp (s_rest s)) as l eqn:El.
  destruct (N.eqb (cur l) 0) eqn:E0; [apply N.eqb_eq; assumption|].
  exfalso.
  repeat match type of H with
  | (if ?c then _ else _) = _ => destruct c
  | Ok _ = Ok _ => inversion H; subst s'; cbn [s_typ] in Ht; discriminate
  | Err _ = Ok _ => discriminate
  | cbind ?x _ = _ => destruct x as [[? ?]|?|]; cbn [cbind] in H
  | OutOfFuel = _ => discriminate
  | match ?x with Some _ => _ | None => _ end = _ => destruct x as [[? ?]|]
  | (let '(_, _) := ?x in _) = _ => destruct x
  end.
Qed.

(* and the EOF state it produces is stable: rest = the skipped rest *)
Lemma next_item_eof_rest : forall s s',
  next_item s = Ok s' -> s_typ s' = IEOF -> s_rest s' = skipsp (s_rest s).
Proof.
  intros s s' H Ht. unfold next_item in H. cbv zeta in H.
  remember (skipsp (s_rest s)) as l eqn:El.
  destruct (N.eqb (cur l) 0) eqn:E0; [inversion H; reflexivity|].
  exfalso.
  repeat match type of H with
  | (if ?c then _ else _) = _ => destruct c
  | Ok _ = Ok _ => inversion H; subst s'; cbn [s_typ] in Ht; discriminate
  | Err _ = Ok _ => discriminate
  | cbind ?x _ = _ => destruct x as [[? ?]|?|]; cbn [cbind] in H
  | OutOfFuel = _ => discriminate
  | match ?x with Some _ => _ | None => _ end = _ => destruct x as [[? ?]|]
  | (let '(_, _) := ?x in _) = _ => destruct x
  end.
Qed.

(* ------------------------------------------------------------------ *)
(** * 3. Parser measure, contracts, pnext / skip_item                   *)
(* ------------------------------------------------------------------ *)

(* number of tokens-worth of input still in front of the parser *)
Definition m (st : pst) : nat := ms (p_s st).

Lemma m_mkP : forall s d, m (mkP s d) = ms s.
Proof. reflexivity. Qed.

Lemma m_typ : forall st, m st = List.length (s_rest (p_s st)) + tokw (typ st).
Proof. reflexivity. Qed.

Lemma itype_eqb_eq : forall a b, itype_eqb a b = true -> a = b.
Proof. intros a b; destruct a; destruct b; cbn; intros H; try reflexivity; discriminate H. Qed.

Lemma is_typ_true : forall st t, is_typ st t = true -> typ st = t.
Proof. intros st t H. apply itype_eqb_eq. exact H. Qed.

Lemma pnext_fuel : forall st, pnext st <> OutOfFuel.
Proof.
  intros st. unfold pnext. pose proof (next_item_fuel (p_s st)) as Hf.
  destruct (next_item (p_s st)); cbn [cbind]; congruence.
Qed.

(* p.next() eats the current token *)
Lemma pnext_spec : forall st st', pnext st = Ok st' -> m st' + tokw (typ st) <= m st.
Proof.
  intros st st' H. unfold pnext in H.
  destruct (next_item (p_s st)) as [s'|e|] eqn:E; cbn [cbind] in H; try discriminate.
  inversion H; subst st'. apply next_item_ms in E.
  rewrite m_mkP, m_typ. lia.
Qed.

Lemma check_item_fuel : forall st t, check_item st t <> OutOfFuel.
Proof. intros st t. unfold check_item. destruct (is_typ st t); discriminate. Qed.

Lemma check_item_ok : forall st t u, check_item st t = Ok u -> typ st = t.
Proof.
  intros st t u H. unfold check_item in H.
  destruct (is_typ st t) eqn:E; [|discriminate]. apply is_typ_true; exact E.
Qed.

Lemma skip_item_fuel : forall st t, skip_item st t <> OutOfFuel.
Proof.
  intros st t. unfold skip_item. pose proof (check_item_fuel st t) as Hc.
  destruct (check_item st t); cbn [cbind]; try congruence. apply pnext_fuel.
Qed.

Lemma skip_item_spec : forall st t st',
  skip_item st t = Ok st' -> typ st = t /\ m st' + tokw t <= m st.
Proof.
  intros st t st' H. unfold skip_item in H.
  destruct (check_item st t) as [u|e|] eqn:E; cbn [cbind] in H; try discriminate.
  apply check_item_ok in E. apply pnext_spec in H. rewrite E in H. auto.
Qed.

(* The contract of a (sub-)parser result, relative to a bound [k]:
   never OutOfFuel, and on success the remaining measure is at most [k]
   ([post]) or strictly below [k] ([post_lt]). *)
Definition post {A} (k : nat) (r : PR A) : Prop :=
  match r with Ok (_, st') => m st' <= k | Err _ => True | OutOfFuel => False end.
Definition post_lt {A} (k : nat) (r : PR A) : Prop :=
  match r with Ok (_, st') => m st' < k | Err _ => True | OutOfFuel => False end.

Lemma post_weaken : forall A k k' (r : PR A), k <= k' -> post k r -> post k' r.
Proof. intros A k k' r Hk H. destruct r as [[a st]|e|]; cbn in *; auto. lia. Qed.

Lemma post_lt_post : forall A k k' (r : PR A), k <= k' -> post_lt k r -> post k' r.
Proof. intros A k k' r Hk H. destruct r as [[a st]|e|]; cbn in *; auto. lia. Qed.

Lemma post_fuel : forall A k (r : PR A), post k r -> r <> OutOfFuel.
Proof. intros A k r H E. subst r. exact H. Qed.

Lemma post_ok : forall A k (r : PR A) a st, post k r -> r = Ok (a, st) -> m st <= k.
Proof. intros A k r a st H E. subst r. exact H. Qed.

(* tactics for walking through the error monad *)
Ltac do_pnext st1 H :=
  lazymatch goal with
  | |- context [cbind (pnext ?st) _] =>
    destruct (pnext st) as [st1|?|] eqn:H; cbn [cbind];
    [ apply pnext_spec in H | exact I | exfalso; exact (pnext_fuel _ H) ]
  end.

Ltac do_skip st1 H :=
  lazymatch goal with
  | |- context [cbind (skip_item ?st ?t) _] =>
    destruct (skip_item st t) as [st1|?|] eqn:H; cbn [cbind];
    [ apply skip_item_spec in H; cbn [tokw] in H | exact I | exfalso; exact (skip_item_fuel _ _ H) ]
  end.

Ltac do_check H :=
  lazymatch goal with
  | |- context [cbind (check_item ?st ?t) _] =>
    destruct (check_item st t) as [?|?|] eqn:H; cbn [cbind];
    [ apply check_item_ok in H | exact I | exfalso; exact (check_item_fuel _ _ H) ]
  end.

(* Hp : post k X   and the goal is about  let* (a, st1) := X in ... *)
Ltac do_post Hp a st1 :=
  lazymatch type of Hp with
  | post _ ?x =>
    destruct x as [[a st1]|?|]; unfold post in Hp; cbn [cbind];
    [ | exact I | contradiction ]
  | post_lt _ ?x =>
    destruct x as [[a st1]|?|]; unfold post_lt in Hp; cbn [cbind];
    [ | exact I | contradiction ]
  end.

Ltac leaf := unfold post, post_lt; lia.

(* ------------------------------------------------------------------ *)
(** * 4. Loop combinators, parametric in the sub-parser contract        *)
(* ------------------------------------------------------------------ *)

Lemma minus_loop_post : forall g b st,
  m st < g -> post (m st) (minus_loop g b st).
Proof.
  induction g as [|g IH]; intros b st Hg; [lia|].
  cbn [minus_loop].
  destruct (is_typ st IMinus) eqn:Et; [|leaf].
  apply is_typ_true in Et.
  do_pnext st1 H1. rewrite Et in H1; cbn [tokw] in H1.
  eapply post_weaken; [|apply IH]; lia.
Qed.

(* an operator recogniser never fires on EOF *)
Definition getop_ok (getop : pst -> option string) : Prop :=
  forall st op, getop st = Some op -> typ st <> IEOF.

Lemma tokw_pos : forall t, t <> IEOF -> tokw t = 1.
Proof. intros t H. destruct t; try reflexivity. congruence. Qed.

Lemma bin_loop_post : forall getop sub B,
  getop_ok getop ->
  (forall st, m st <= B -> post (m st) (sub st)) ->
  forall g acc st, m st <= B -> m st < g ->
    post (m st) (bin_loop g getop sub acc st).
Proof.
  intros getop sub B Hop Hsub.
  induction g as [|g IH]; intros acc st HB Hg; [lia|].
  cbn [bin_loop].
  destruct (getop st) as [op|] eqn:Eo; [|leaf].
  apply Hop in Eo. apply tokw_pos in Eo.
  do_pnext st1 H1. rewrite Eo in H1.
  assert (Hp : post (m st1) (sub st1)) by (apply Hsub; lia).
  do_post Hp r st2.
  eapply post_weaken; [|apply IH]; lia.
Qed.

Lemma bin_level_post : forall getop sub B,
  getop_ok getop ->
  (forall st, m st <= B -> post (m st) (sub st)) ->
  forall g st, m st <= B -> B < g ->
    post (m st) (bin_level g getop sub st).
Proof.
  intros getop sub B Hop Hsub g st HB Hg. unfold bin_level.
  assert (Hp : post (m st) (sub st)) by (apply Hsub; lia).
  do_post Hp a st1.
  eapply post_weaken; [|apply bin_loop_post with (B := B)]; auto; lia.
Qed.

Lemma pred_loop_post : forall pexpr B,
  (forall n st, m st < B -> post (m st) (pexpr n st)) ->
  forall g acc st, m st <= B -> m st < g ->
    post (m st) (pred_loop g pexpr acc st).
Proof.
  intros pexpr B Hsub.
  induction g as [|g IH]; intros acc st HB Hg; [lia|].
  cbn [pred_loop].
  destruct (is_typ st ILBracket) eqn:Et; [|leaf].
  do_skip st1 H1. destruct H1 as [_ H1].
  assert (Hp : post (m st1) (pexpr (Some acc) st1)) by (apply Hsub; lia).
  do_post Hp c st2.
  do_skip st3 H3. destruct H3 as [_ H3].
  eapply post_weaken; [|apply IH]; lia.
Qed.

Lemma relpath_loop_post : forall pstep B,
  (forall n st, m st <= B -> post (m st) (pstep n st)) ->
  forall g n st, m st <= B -> m st < g ->
    post (m st) (relpath_loop g pstep n st).
Proof.
  intros pstep B Hsub.
  induction g as [|g IH]; intros n st HB Hg; [lia|].
  cbn [relpath_loop].
  assert (Hp : post (m st) (pstep n st)) by (apply Hsub; lia).
  do_post Hp o st1.
  destruct (typ st1) eqn:Et; try leaf.
  - do_pnext st2 H2. rewrite Et in H2; cbn [tokw] in H2.
    eapply post_weaken; [|apply IH]; lia.
  - do_pnext st2 H2. rewrite Et in H2; cbn [tokw] in H2.
    eapply post_weaken; [|apply IH]; lia.
Qed.

Lemma seq_loop_post : forall pstep B,
  (forall n st, m st < B -> post (m st) (pstep n st)) ->
  forall g n acc st, m st <= B -> m st < g ->
    post (m st) (seq_loop g pstep n acc st).
Proof.
  intros pstep B Hsub.
  induction g as [|g IH]; intros n acc st HB Hg; [lia|].
  cbn [seq_loop].
  destruct (is_typ st IComma) eqn:Et; [|leaf].
  apply is_typ_true in Et.
  do_pnext st1 H1. rewrite Et in H1; cbn [tokw] in H1.
  assert (Hp : post (m st1) (pstep n st1)) by (apply Hsub; lia).
  do_post Hp o2 st2.
  eapply post_weaken; [|apply IH]; lia.
Qed.

Lemma args_loop_post : forall pexpr B,
  (forall n st, m st <= B -> post (m st) (pexpr n st)) ->
  forall g acc st, m st <= B -> m st < g ->
    post (m st) (args_loop g pexpr acc st).
Proof.
  intros pexpr B Hsub.
  induction g as [|g IH]; intros acc st HB Hg; [lia|].
  cbn [args_loop].
  assert (Hp : post (m st) (pexpr None st)) by (apply Hsub; lia).
  do_post Hp a st1.
  destruct (is_typ st1 IRParens); [leaf|].
  do_skip st2 H2. destruct H2 as [_ H2].
  eapply post_weaken; [|apply IH]; lia.
Qed.

(* parseNodeTest always eats at least one token *)
Lemma parse_node_test_post : forall ns n axis mt st,
  post_lt (m st) (parse_node_test ns n axis mt st).
Proof.
  intros ns n axis mt st. unfold parse_node_test.
  destruct (typ st) eqn:Et; try exact I.
  - (* IStar *)
    do_pnext st1 H1. rewrite Et in H1; cbn [tokw] in H1. leaf.
  - (* IName *)
    destruct (andb (s_canfunc (p_s st)) (is_node_type st)).
    + do_pnext st1 H1. rewrite Et in H1; cbn [tokw] in H1.
      do_skip st2 H2. destruct H2 as [_ H2].
      match goal with |- context [cbind (if ?c then _ else _) _] => destruct c end.
      * do_check Hc. do_pnext st3 H3. cbn [cbind].
        do_skip st4 H4. destruct H4 as [_ H4]. leaf.
      * cbn [cbind]. do_skip st4 H4. destruct H4 as [_ H4]. leaf.
    + do_pnext st1 H1. rewrite Et in H1; cbn [tokw] in H1. cbv zeta.
      destruct (andb _ _).
      * destruct ns as [mp|]; [|leaf].
        destruct (ns_lookup mp (s_prefix (p_s st))); [leaf|exact I].
      * leaf.
Qed.

(* ------------------------------------------------------------------ *)
(** * 5. The body of [pgo], with its local functions named              *)
(* ------------------------------------------------------------------ *)

Section Body.
Variable ns : nsmap.
Variable f : nat.
Variables pexpr pstep : option anode -> pst -> PR anode.

Definition method_b (st : pst) : PR anode :=
  let name := s_name (p_s st) in
  let prefix := s_prefix (p_s st) in
  let* st1 := skip_item st IName in
  let* st2 := skip_item st1 ILParens in
  let* (args, st3) :=
     (if is_typ st2 IRParens then Ok ([], st2) else args_loop f pexpr [] st2) in
  let* st4 := skip_item st3 IRParens in
  Ok (AFunc prefix name args, st4).

Definition primary_b (n : option anode) (st : pst) : PR anode :=
  match typ st with
  | IString => let v := s_strval (p_s st) in let* st1 := pnext st in Ok (AStr v, st1)
  | INumber => let v := s_numval (p_s st) in let* st1 := pnext st in Ok (ANum v, st1)
  | IDollar =>
    let* st1 := pnext st in
    let* _ := check_item st1 IName in
    let v := AVar (s_prefix (p_s st1)) (s_name (p_s st1)) in
    let* st2 := pnext st1 in Ok (v, st2)
  | ILParens =>
    let* st1 := pnext st in
    let* (o, st2) := pexpr n st1 in
    let o' := if is_operand o then o else AGroup o in
    let* st3 := skip_item st2 IRParens in Ok (o', st3)
  | _ => method_b st
  end.

Definition filter_expr_b (n : option anode) (st : pst) : PR anode :=
  let* (o, st1) := primary_b n st in
  pred_loop f pexpr o st1.

Definition location_path_b (st : pst) : PR anode :=
  match typ st with
  | ISlash =>
    let* st1 := pnext st in
    if is_step (typ st1) then relpath_loop f pstep (Some (ARoot "/")) st1
    else Ok (ARoot "/", st1)
  | ISlashSlash =>
    let* st1 := pnext st in
    relpath_loop f pstep (Some (dos_node (Some (ARoot "//")))) st1
  | _ => relpath_loop f pstep None st
  end.

Definition path_expr_b (n : option anode) (st : pst) : PR anode :=
  if is_primary_expr st then
    let* (o, st1) := filter_expr_b n st in
    match typ st1 with
    | ISlash => let* st2 := pnext st1 in relpath_loop f pstep (Some o) st2
    | ISlashSlash => let* st2 := pnext st1 in relpath_loop f pstep (Some (dos_node (Some o))) st2
    | _ => Ok (o, st1)
    end
  else location_path_b st.

Definition union_expr_b (n : option anode) := bin_level f op_union (path_expr_b n).
Definition unary_expr_b (n : option anode) (st : pst) : PR anode :=
  let* (minus, st1) := minus_loop f false st in
  let* (o, st2) := union_expr_b n st1 in
  Ok (if minus then AOp "*" o (ANum fminus_one) else o, st2).
Definition mul_expr_b (n : option anode) := bin_level f op_mul (unary_expr_b n).
Definition add_expr_b (n : option anode) := bin_level f op_add (mul_expr_b n).
Definition rel_expr_b (n : option anode) := bin_level f op_rel (add_expr_b n).
Definition eq_expr_b (n : option anode) := bin_level f op_eq (rel_expr_b n).
Definition and_expr_b (n : option anode) := bin_level f op_and (eq_expr_b n).
Definition or_expr_b (n : option anode) := bin_level f op_or (and_expr_b n).

(* parseExpression *)
Definition expr_b (n : option anode) (st : pst) : PR anode :=
  let d := S (p_d st) in
  if Nat.ltb max_depth d then Err "the xpath query is too complex(depth > 200)"
  else
    let st0 := mkP (p_s st) d in
    let* (o, st1) := or_expr_b n st0 in
    Ok (o, mkP (p_s st1) (p_d st1 - 1)).

(* parseStep *)
Definition step_b (n : option anode) (st : pst) : PR anode :=
  if orb (is_typ st IDot) (is_typ st IDotDot) then
    let o := if is_typ st IDot then AAxis "self" NTAll "" "" "" false "" n
             else AAxis "parent" NTAll "" "" "" false "" n in
    let* st1 := pnext st in
    if is_typ st1 ILBracket then pred_loop f pexpr o st1 else Ok (o, st1)
  else
    match typ st with
    | ILParens =>
      let d := S (p_d st) in
      if Nat.ltb max_depth d then Err "the xpath query is too complex(depth > 200)"
      else
        let st0 := mkP (p_s st) d in
        let* st1 := skip_item st0 ILParens in
        let* (o, st2) := pstep n st1 in
        let* (o', st3) := seq_loop f pstep n o st2 in
        let* st4 := skip_item st3 IRParens in
        Ok (o', mkP (p_s st4) (p_d st4 - 1))
    | _ =>
      let* (axis, st1) :=
         match typ st with
         | IAt => let* st' := pnext st in Ok ("attribute", st')
         | IAxe => let nm := s_name (p_s st) in let* st' := pnext st in Ok (nm, st')
         | _ => Ok ("child", st)
         end in
      let mt := if String.eqb axis "attribute" then NTAttr else NTElem in
      let* (o, st2) := parse_node_test ns n axis mt st1 in
      pred_loop f pexpr o st2
    end.

(* ---- contracts of the pieces, assuming those of the recursive entry points ---- *)
Hypothesis Hexpr : forall n st, m st + 2 <= f -> post (m st) (pexpr n st).
Hypothesis Hstep : forall n st, m st + 1 <= f -> post (m st) (pstep n st).

Lemma method_post : forall st, m st + 1 <= f -> post (m st) (method_b st).
Proof.
  intros st Hf. unfold method_b. cbv zeta.
  do_skip st1 H1. destruct H1 as [_ H1].
  do_skip st2 H2. destruct H2 as [_ H2].
  match goal with |- post _ (cbind ?x _) => assert (Hp : post (m st2) x) end.
  { destruct (is_typ st2 IRParens); [leaf|].
    apply args_loop_post with (B := f - 2); [|lia|lia].
    intros n0 st0 H0. apply Hexpr. lia. }
  do_post Hp args st3.
  do_skip st4 H4. destruct H4 as [_ H4]. leaf.
Qed.

Lemma primary_post : forall n st, m st + 1 <= f -> post (m st) (primary_b n st).
Proof.
  intros n st Hf. unfold primary_b.
  destruct (typ st) eqn:Et; try (apply method_post; exact Hf).
  - (* ( *)
    do_pnext st1 H1. rewrite Et in H1; cbn [tokw] in H1.
    assert (Hp : post (m st1) (pexpr n st1)) by (apply Hexpr; lia).
    do_post Hp o st2. cbv zeta.
    do_skip st3 H3. destruct H3 as [_ H3]. leaf.
  - (* $ *)
    do_pnext st1 H1. do_check Hc. cbv zeta. do_pnext st2 H2. leaf.
  - (* string *)
    cbv zeta. do_pnext st1 H1. leaf.
  - (* number *)
    cbv zeta. do_pnext st1 H1. leaf.
Qed.

Lemma filter_expr_post : forall n st, m st + 1 <= f -> post (m st) (filter_expr_b n st).
Proof.
  intros n st Hf. unfold filter_expr_b.
  pose proof (primary_post n st Hf) as Hp.
  do_post Hp o st1.
  eapply post_weaken; [|apply pred_loop_post with (B := f - 1)]; [lia| |lia|lia].
  intros n0 st0 H0. apply Hexpr. lia.
Qed.

Lemma relpath_post : forall n st, m st + 1 <= f -> post (m st) (relpath_loop f pstep n st).
Proof.
  intros n st Hf.
  apply relpath_loop_post with (B := f - 1); [|lia|lia].
  intros n0 st0 H0. apply Hstep. lia.
Qed.

Lemma location_path_post : forall st, m st + 1 <= f -> post (m st) (location_path_b st).
Proof.
  intros st Hf. unfold location_path_b.
  destruct (typ st) eqn:Et; try (apply relpath_post; exact Hf).
  - do_pnext st1 H1.
    destruct (is_step (typ st1)); [|leaf].
    eapply post_weaken; [|apply relpath_post]; lia.
  - do_pnext st1 H1.
    eapply post_weaken; [|apply relpath_post]; lia.
Qed.

Lemma path_expr_post : forall n st, m st + 1 <= f -> post (m st) (path_expr_b n st).
Proof.
  intros n st Hf. unfold path_expr_b.
  destruct (is_primary_expr st); [|apply location_path_post; exact Hf].
  pose proof (filter_expr_post n st Hf) as Hp.
  do_post Hp o st1.
  destruct (typ st1) eqn:Et; try leaf.
  - do_pnext st2 H2. eapply post_weaken; [|apply relpath_post]; lia.
  - do_pnext st2 H2. eapply post_weaken; [|apply relpath_post]; lia.
Qed.

Lemma op_union_ok : getop_ok op_union.
Proof.
  intros st op H. unfold op_union in H.
  destruct (is_typ st IUnion) eqn:E; [|discriminate].
  apply is_typ_true in E. congruence.
Qed.

Lemma test_op_typ : forall st op, test_op st op = true -> typ st = IName.
Proof.
  intros st op H. unfold test_op in H. apply andb_prop in H. destruct H as [H _].
  apply is_typ_true; exact H.
Qed.

Lemma op_mul_ok : getop_ok op_mul.
Proof.
  intros st op H. unfold op_mul in H.
  destruct (is_typ st IStar) eqn:E.
  - apply is_typ_true in E. congruence.
  - destruct (orb (test_op st "div") (test_op st "mod")) eqn:E2; [|discriminate].
    apply Bool.orb_prop in E2. destruct E2 as [E2|E2]; apply test_op_typ in E2; congruence.
Qed.

Lemma op_add_ok : getop_ok op_add.
Proof. intros st op H. unfold op_add in H. destruct (typ st); discriminate. Qed.
Lemma op_rel_ok : getop_ok op_rel.
Proof. intros st op H. unfold op_rel in H. destruct (typ st); discriminate. Qed.
Lemma op_eq_ok : getop_ok op_eq.
Proof. intros st op H. unfold op_eq in H. destruct (typ st); discriminate. Qed.
Lemma op_and_ok : getop_ok op_and.
Proof.
  intros st op H. unfold op_and in H.
  destruct (test_op st "and") eqn:E; [|discriminate]. apply test_op_typ in E. congruence.
Qed.
Lemma op_or_ok : getop_ok op_or.
Proof.
  intros st op H. unfold op_or in H.
  destruct (test_op st "or") eqn:E; [|discriminate]. apply test_op_typ in E. congruence.
Qed.

(* lifting a contract through one binary level *)
Lemma level_post : forall getop sub,
  getop_ok getop ->
  (forall st, m st + 1 <= f -> post (m st) (sub st)) ->
  forall st, m st + 1 <= f -> post (m st) (bin_level f getop sub st).
Proof.
  intros getop sub Hop Hsub st Hf.
  apply bin_level_post with (B := f - 1); [exact Hop| |lia|lia].
  intros st0 H0. apply Hsub. lia.
Qed.

Lemma union_expr_post : forall n st, m st + 1 <= f -> post (m st) (union_expr_b n st).
Proof. intros n. apply level_post; [apply op_union_ok | apply path_expr_post]. Qed.

Lemma unary_expr_post : forall n st, m st + 1 <= f -> post (m st) (unary_expr_b n st).
Proof.
  intros n st Hf. unfold unary_expr_b.
  assert (Hp : post (m st) (minus_loop f false st)) by (apply minus_loop_post; lia).
  do_post Hp mflag st1.
  assert (Hp2 : post (m st1) (union_expr_b n st1)) by (apply union_expr_post; lia).
  do_post Hp2 o st2. leaf.
Qed.

Lemma or_expr_post : forall n st, m st + 1 <= f -> post (m st) (or_expr_b n st).
Proof.
  intros n.
  apply level_post; [apply op_or_ok|].
  apply level_post; [apply op_and_ok|].
  apply level_post; [apply op_eq_ok|].
  apply level_post; [apply op_rel_ok|].
  apply level_post; [apply op_add_ok|].
  apply level_post; [apply op_mul_ok|].
  apply unary_expr_post.
Qed.

Lemma expr_post : forall n st, m st + 2 <= S f -> post (m st) (expr_b n st).
Proof.
  intros n st Hf. unfold expr_b. cbv zeta.
  destruct (Nat.ltb max_depth (S (p_d st))); [exact I|].
  assert (Hp : post (m st) (or_expr_b n (mkP (p_s st) (S (p_d st))))).
  { apply (or_expr_post n (mkP (p_s st) (S (p_d st)))). rewrite m_mkP. unfold m in Hf. lia. }
  do_post Hp o st1. unfold post. rewrite m_mkP. exact Hp.
Qed.

Lemma step_post : forall n st, m st + 1 <= S f -> post (m st) (step_b n st).
Proof.
  intros n st Hf. unfold step_b.
  assert (Hpred : forall o st', m st' + 1 <= f -> post (m st') (pred_loop f pexpr o st')).
  { intros o st' H'. apply pred_loop_post with (B := f - 1); [|lia|lia].
    intros n0 st0 H0. apply Hexpr. lia. }
  destruct (orb (is_typ st IDot) (is_typ st IDotDot)) eqn:Ed.
  - assert (Ht : tokw (typ st) = 1).
    { apply Bool.orb_prop in Ed. destruct Ed as [Ed|Ed]; apply is_typ_true in Ed;
        rewrite Ed; reflexivity. }
    cbv zeta. do_pnext st1 H1. rewrite Ht in H1.
    destruct (is_typ st1 ILBracket); [|leaf].
    eapply post_weaken; [|apply Hpred]; lia.
  - assert (Haxis : forall axis st1, m st1 <= m st ->
        post (m st)
          (let mt := if String.eqb axis "attribute" then NTAttr else NTElem in
           let* (o, st2) := parse_node_test ns n axis mt st1 in
           pred_loop f pexpr o st2)).
    { intros axis st1 H1. cbv zeta.
      pose proof (parse_node_test_post ns n axis
                    (if String.eqb axis "attribute" then NTAttr else NTElem) st1) as Hp.
      do_post Hp o st2.
      eapply post_weaken; [|apply Hpred]; lia. }
    destruct (typ st) eqn:Et;
      try (cbn [cbind]; apply Haxis; lia).
    + (* @ *)
      do_pnext st1 H1. cbn [cbind]. apply Haxis; lia.
    + (* ( : parseSequence *)
      cbv zeta.
      destruct (Nat.ltb max_depth (S (p_d st))); [exact I|].
      do_skip st1 H1. destruct H1 as [_ H1]. rewrite m_mkP in H1. fold (m st) in H1.
      assert (Hp : post (m st1) (pstep n st1)) by (apply Hstep; lia).
      do_post Hp o st2.
      assert (Hp2 : post (m st2) (seq_loop f pstep n o st2)).
      { apply seq_loop_post with (B := f - 1); [|lia|lia].
        intros n0 st0 H0. apply Hstep. lia. }
      do_post Hp2 o' st3.
      do_skip st4 H4. destruct H4 as [_ H4].
      unfold post. rewrite m_mkP. fold (m st4). lia.
    + (* axis:: *)
      cbv zeta. do_pnext st1 H1. cbn [cbind]. apply Haxis; lia.
Qed.

End Body.

Lemma pgo_S_expr : forall ns f n st,
  pgo ns (S f) EExpr n st = expr_b f (pgo ns f EExpr) (pgo ns f EStep) n st.
Proof.
  intros. cbn [pgo].
  unfold expr_b, or_expr_b, and_expr_b, eq_expr_b, rel_expr_b, add_expr_b, mul_expr_b,
    unary_expr_b, union_expr_b, path_expr_b, location_path_b, filter_expr_b, primary_b,
    method_b.
  reflexivity.
Qed.

Lemma pgo_S_step : forall ns f n st,
  pgo ns (S f) EStep n st = step_b ns f (pgo ns f EExpr) (pgo ns f EStep) n st.
Proof. intros. cbn [pgo]. unfold step_b. reflexivity. Qed.

(* ------------------------------------------------------------------ *)
(** * 6. GOAL A: termination                                            *)
(* ------------------------------------------------------------------ *)

(* The contract of the two mutually recursive entry points.  parseExpression
   needs one more unit than parseStep because it can reach parseStep without
   consuming a token (parseExpression -> ... -> parsePathExpr ->
   parseRelativeLocationPath -> parseStep); every other nesting happens after
   at least one token has been consumed. *)
Theorem pgo_contract : forall ns f,
  (forall n st, m st + 2 <= f -> post (m st) (pgo ns f EExpr n st)) /\
  (forall n st, m st + 1 <= f -> post (m st) (pgo ns f EStep n st)).
Proof.
  intros ns. induction f as [|f [IHe IHs]].
  - split; intros n st H; lia.
  - split; intros n st H.
    + rewrite pgo_S_expr. apply expr_post; assumption.
    + rewrite pgo_S_step. apply step_post; assumption.
Qed.

Lemma m_le_rest : forall st, m st <= List.length (s_rest (p_s st)) + 1.
Proof. intros st. rewrite m_typ. destruct (typ st); cbn [tokw]; lia. Qed.

(* fuel >= (remaining bytes) + 3 is always enough, for both entries *)
Theorem pgo_terminates : forall ns f what n st,
  List.length (s_rest (p_s st)) + 3 <= f -> pgo ns f what n st <> OutOfFuel.
Proof.
  intros ns f what n st Hf. pose proof (m_le_rest st) as Hm.
  destruct (pgo_contract ns f) as [He Hs].
  destruct what; eapply post_fuel; [apply He | apply Hs]; lia.
Qed.

(* ... and the parser only moves forward *)
Theorem pgo_progress : forall ns f what n st a st',
  List.length (s_rest (p_s st)) + 3 <= f ->
  pgo ns f what n st = Ok (a, st') -> m st' <= m st.
Proof.
  intros ns f what n st a st' Hf H. pose proof (m_le_rest st) as Hm.
  destruct (pgo_contract ns f) as [He Hs].
  destruct what; (eapply post_ok; [|exact H]); [apply He | apply Hs]; lia.
Qed.

Lemma length_list_of_string : forall s, List.length (list_of_string s) = String.length s.
Proof.
  unfold list_of_string. induction s as [|c s IH]; cbn; [reflexivity|]. rewrite IH. reflexivity.
Qed.

Theorem parse_fuel_terminates : forall f text ns,
  String.length text + 2 <= f -> parse_fuel f text ns <> OutOfFuel.
Proof.
  intros f text ns Hf. unfold parse_fuel. cbv zeta.
  destruct (next_item (init_scanner text)) as [s1|e|] eqn:E1; cbn [cbind];
    [ | discriminate | exfalso; exact (next_item_fuel _ E1) ].
  apply next_item_ms in E1. cbn [init_scanner s_rest] in E1.
  rewrite length_list_of_string in E1.
  destruct (pgo_contract ns f) as [He _].
  assert (Hp : post (m (mkP s1 0)) (pgo ns f EExpr None (mkP s1 0))).
  { apply He. rewrite m_mkP. lia. }
  destruct (pgo ns f EExpr None (mkP s1 0)) as [[a st]|e|]; cbn [cbind];
    [ | discriminate | contradiction ].
  pose proof (check_item_fuel st IEOF) as Hc.
  destruct (check_item st IEOF); cbn [cbind]; congruence.
Qed.

(* GOAL A *)
Theorem parse_terminates : forall text ns, parse text ns <> OutOfFuel.
Proof.
  intros text ns. unfold parse, default_fuel. apply parse_fuel_terminates. lia.
Qed.

Print Assumptions parse_terminates.

(* the bound [String.length text + 2] is tight: *)
Open Scope string_scope.
Example fuel_bound_tight :
  parse_fuel 2 "a" None = OutOfFuel /\
  parse_fuel 3 "a" None = Ok (AAxis "child" NTElem "" "a" "" false "" None).
Proof. split; vm_compute; reflexivity. Qed.

Eval vm_compute in parse "a/b[1] | c + 2 * 3" None.
Eval vm_compute in parse "((((1))))" None.
Eval vm_compute in parse "a[" None.

(* ------------------------------------------------------------------ *)
(** * 7. GOAL C: a successful parse stopped on EOF                      *)
(* ------------------------------------------------------------------ *)

Theorem parse_fuel_ok_eof : forall f text ns a,
  parse_fuel f text ns = Ok a ->
  exists s1 st,
    next_item (init_scanner text) = Ok s1 /\
    pgo ns f EExpr None (mkP s1 0) = Ok (a, st) /\
    s_typ (p_s st) = IEOF.
Proof.
  intros f text ns a H. unfold parse_fuel in H. cbv zeta in H.
  destruct (next_item (init_scanner text)) as [s1|e|] eqn:E1; cbn [cbind] in H;
    try discriminate.
  destruct (pgo ns f EExpr None (mkP s1 0)) as [[a' st]|e|] eqn:E2; cbn [cbind] in H;
    try discriminate.
  destruct (check_item st IEOF) as [u|e|] eqn:E3; cbn [cbind] in H; try discriminate.
  inversion H; subst a'. apply check_item_ok in E3.
  exists s1, st. auto.
Qed.

Corollary parse_ok_eof : forall text ns a,
  parse text ns = Ok a ->
  exists s1 st,
    next_item (init_scanner text) = Ok s1 /\
    pgo ns (default_fuel text) EExpr None (mkP s1 0) = Ok (a, st) /\
    s_typ (p_s st) = IEOF.
Proof. intros text ns a H. apply parse_fuel_ok_eof. exact H. Qed.

Print Assumptions parse_ok_eof.
Print Assumptions next_item_eof.

Example parse_ok_eof_ex :
  exists a, parse "a/b[1] | c + 2 * 3" None = Ok a.
Proof. eexists. vm_compute. reflexivity. Qed.

(* trailing garbage is rejected by the final check_item, not silently dropped *)
Example parse_trailing : parse "a b" None = Err "has an invalid token".
Proof. vm_compute. reflexivity. Qed.

Example next_item_eof_ex :
  exists s', next_item (init_scanner "a  ") = Ok s' /\ s_typ s' = IName /\
  exists s'', next_item s' = Ok s'' /\ s_typ s'' = IEOF /\ skipsp (s_rest s') = [].
Proof.
  eexists. split; [vm_compute; reflexivity|]. split; [reflexivity|].
  eexists. split; [vm_compute; reflexivity|]. split; reflexivity.
Qed.
